package c27

import (
	"encoding/hex"
	"fmt"
	"math/big"
	"strings"
)

// colT describes one column type of the space and the parameters the reference model needs.
type colT struct {
	SQL string
	Fam string // int float decimal char binary date datetime timestamp time year enum set bit json

	Bits     int  // int, bit: width
	Unsigned bool // int
	Double   bool // float: DOUBLE (else FLOAT)
	P, S     int  // decimal
	N        int  // char: max characters; binary: max bytes (0 = only MaxBytes applies)
	MaxBytes int  // text/blob families: byte limit
	Fixed    bool // CHAR / BINARY (padded)
	Fsp      int  // datetime/timestamp/time fractional digits
	Members  []string
}

func intT(sql string, bits int, uns bool) colT {
	return colT{SQL: sql, Fam: "int", Bits: bits, Unsigned: uns}
}

var abc = []string{"a", "b", "c"}

func columnTypes(thorough bool) []colT {
	ts := []colT{
		intT("tinyint", 8, false), intT("tinyint unsigned", 8, true),
		intT("smallint", 16, false), intT("smallint unsigned", 16, true),
		intT("mediumint", 24, false), intT("mediumint unsigned", 24, true),
		intT("int", 32, false), intT("int unsigned", 32, true),
		intT("bigint", 64, false), intT("bigint unsigned", 64, true),
		{SQL: "float", Fam: "float"}, {SQL: "double", Fam: "float", Double: true},
		{SQL: "decimal(5,2)", Fam: "decimal", P: 5, S: 2},
		{SQL: "decimal(10,0)", Fam: "decimal", P: 10, S: 0},
		{SQL: "decimal(65,30)", Fam: "decimal", P: 65, S: 30},
		{SQL: "char(3)", Fam: "char", N: 3, Fixed: true},
		{SQL: "varchar(5)", Fam: "char", N: 5},
		{SQL: "tinytext", Fam: "char", MaxBytes: 255},
		{SQL: "text", Fam: "char", MaxBytes: 65535},
		{SQL: "binary(3)", Fam: "binary", N: 3, Fixed: true},
		{SQL: "varbinary(5)", Fam: "binary", N: 5},
		{SQL: "tinyblob", Fam: "binary", MaxBytes: 255},
		{SQL: "blob", Fam: "binary", MaxBytes: 65535},
		{SQL: "date", Fam: "date"},
		{SQL: "datetime", Fam: "datetime"}, {SQL: "datetime(6)", Fam: "datetime", Fsp: 6},
		{SQL: "timestamp", Fam: "timestamp"}, {SQL: "timestamp(6)", Fam: "timestamp", Fsp: 6},
		{SQL: "time", Fam: "time"}, {SQL: "time(6)", Fam: "time", Fsp: 6},
		{SQL: "year", Fam: "year"},
		{SQL: "enum('a','b','c')", Fam: "enum", Members: abc},
		{SQL: "set('a','b','c')", Fam: "set", Members: abc},
		{SQL: "bit(1)", Fam: "bit", Bits: 1}, {SQL: "bit(8)", Fam: "bit", Bits: 8}, {SQL: "bit(64)", Fam: "bit", Bits: 64},
		{SQL: "json", Fam: "json"},
	}
	if thorough {
		ts = append(ts,
			colT{SQL: "decimal(30,30)", Fam: "decimal", P: 30, S: 30},
			colT{SQL: "decimal(20,5)", Fam: "decimal", P: 20, S: 5},
			colT{SQL: "decimal(3,0)", Fam: "decimal", P: 3, S: 0},
			colT{SQL: "char(1)", Fam: "char", N: 1, Fixed: true},
			colT{SQL: "varchar(3)", Fam: "char", N: 3},
			colT{SQL: "varchar(20)", Fam: "char", N: 20},
			colT{SQL: "mediumtext", Fam: "char", MaxBytes: 16777215},
			colT{SQL: "binary(1)", Fam: "binary", N: 1, Fixed: true},
			colT{SQL: "varbinary(3)", Fam: "binary", N: 3},
			colT{SQL: "varbinary(20)", Fam: "binary", N: 20},
			colT{SQL: "datetime(3)", Fam: "datetime", Fsp: 3},
			colT{SQL: "time(3)", Fam: "time", Fsp: 3},
			colT{SQL: "enum('x')", Fam: "enum", Members: []string{"x"}},
			colT{SQL: "set('a','b','c','d','e','f','g','h','i')", Fam: "set", Members: []string{"a", "b", "c", "d", "e", "f", "g", "h", "i"}},
			colT{SQL: "bit(7)", Fam: "bit", Bits: 7}, colT{SQL: "bit(16)", Fam: "bit", Bits: 16}, colT{SQL: "bit(63)", Fam: "bit", Bits: 63},
			colT{SQL: "boolean", Fam: "int", Bits: 8},
		)
	}
	return ts
}

var typeIndex map[string]colT

func typeByName(name string) (colT, bool) {
	if typeIndex == nil {
		typeIndex = map[string]colT{}
		for _, t := range columnTypes(true) {
			typeIndex[t.SQL] = t
		}
	}
	t, ok := typeIndex[name]
	return t, ok
}

func pow(b int64, e int) *big.Int { return new(big.Int).Exp(big.NewInt(b), big.NewInt(int64(e)), nil) }

func (t colT) intBounds() (*big.Int, *big.Int) {
	if t.Unsigned {
		return big.NewInt(0), new(big.Int).Sub(pow(2, t.Bits), big.NewInt(1))
	}
	return new(big.Int).Neg(pow(2, t.Bits-1)), new(big.Int).Sub(pow(2, t.Bits-1), big.NewInt(1))
}

// input is one element of the input alphabet.
type input struct {
	SQL  string `json:"sql"`  // literal text as written in INSERT
	Kind string `json:"kind"` // int dec float str hex bit bool null
	// Only: when non-empty the input is a family-specific boundary and is only paired with
	// column types of these families (the general alphabet is paired with every type).
	Only []string `json:"-"`

	num  *big.Rat // numeric kinds
	text string   // dec: the literal digits as written; str: the string
	raw  []byte   // hex: the bytes
	f32  bool     // float: the value is a float32 (chains through FLOAT)
}

func mkInt(s string, only ...string) input {
	r, ok := new(big.Rat).SetString(s)
	if !ok {
		panic(s)
	}
	return input{SQL: s, Kind: "int", num: r, text: s, Only: only}
}
func mkDec(s string, only ...string) input {
	r, ok := new(big.Rat).SetString(s)
	if !ok {
		panic(s)
	}
	return input{SQL: s, Kind: "dec", num: r, text: s, Only: only}
}

// mkFloat: SQL is an approximate-number literal (with exponent); val its float64 value.
func mkFloat(sql string, val float64, only ...string) input {
	r := new(big.Rat)
	r.SetFloat64(val)
	return input{SQL: sql, Kind: "float", num: r, text: sql, Only: only}
}
func sqlQuote(s string) string {
	return "'" + strings.NewReplacer("\\", "\\\\", "'", "''").Replace(s) + "'"
}
func mkStr(s string, only ...string) input {
	return input{SQL: sqlQuote(s), Kind: "str", text: s, Only: only}
}

// mkLongStr: a string of n copies of unit, written with REPEAT() so that witnesses stay small.
func mkLongStr(unit string, n int, only ...string) input {
	return input{SQL: fmt.Sprintf("repeat(%s,%d)", sqlQuote(unit), n), Kind: "str", text: strings.Repeat(unit, n), Only: only}
}
func mkHex(h string, only ...string) input {
	b, err := hex.DecodeString(h)
	if err != nil {
		panic(err)
	}
	return input{SQL: "x'" + h + "'", Kind: "hex", raw: b, Only: only}
}
func mkBit(bits string, only ...string) input {
	n, _ := new(big.Int).SetString(bits, 2)
	return input{SQL: "b'" + bits + "'", Kind: "bit", num: new(big.Rat).SetInt(n), Only: only}
}

var numericFams = []string{"int", "float", "decimal"}

func inputs(thorough bool) []input {
	var in []input
	in = append(in, input{SQL: "null", Kind: "null"}, input{SQL: "true", Kind: "bool", num: big.NewRat(1, 1)})
	// integers: every width boundary and its outside neighbour, small values
	for _, s := range []string{"0", "1", "-1", "2", "3", "7"} {
		in = append(in, mkInt(s))
	}
	for _, b := range []int{8, 16, 24, 32, 64} {
		p, h := pow(2, b), pow(2, b-1)
		for _, v := range []*big.Int{
			new(big.Int).Neg(h), new(big.Int).Sub(new(big.Int).Neg(h), big.NewInt(1)), // min, min-1
			new(big.Int).Sub(h, big.NewInt(1)), h, // signed max, max+1
			new(big.Int).Sub(p, big.NewInt(1)), p, // unsigned max, max+1
		} {
			in = append(in, mkInt(v.String()))
		}
	}
	// exact decimals: halves, scale boundaries of decimal(5,2), tiny, 65 digits
	for _, s := range []string{"0.5", "1.5", "2.5", "-0.5", "-1.5", "0.4", "-0.4", "127.5", "127.4", "255.5", "-128.5", "1.005", "999.99", "999.994", "999.995", "-999.995", "1000.00", "0.000000000000000000000000000001", "0.0000000000000000000000000000004",
		strings.Repeat("9", 35) + "." + strings.Repeat("9", 30), "1" + strings.Repeat("0", 35)} {
		in = append(in, mkDec(s))
	}
	// approximate numbers
	in = append(in, mkFloat("1e0", 1), mkFloat("1.5e0", 1.5), mkFloat("1.1e0", 1.1), mkFloat("-2.5e0", -2.5), mkFloat("1e20", 1e20), mkFloat("1e39", 1e39), mkFloat("1e-50", 1e-50), mkFloat("1.7e308", 1.7e308), mkFloat("16777217e0", 16777217), mkFloat("9007199254740993e0", 9007199254740992),
		mkFloat("9223372036854775808e0", 9223372036854775808), mkFloat("18446744073709551616e0", 18446744073709551616), mkFloat("-9223372036854775808e0", -9223372036854775808))
	// strings: numeric, junk suffix, empty, spaces, over-long, multi-byte
	for _, s := range []string{"", "a", "abc", "12", "-12", "12abc", "1.5", "1.5x", "1e2", " 12 ", "abcdef", "ab    ", "héé", "hééééé", "128", "256", "-129", "99999999999999999999", "1e309", "1e39"} {
		in = append(in, mkStr(s))
	}
	in = append(in, mkLongStr("a", 255), mkLongStr("a", 256), mkLongStr("é", 128), mkLongStr("é", 63), mkLongStr("é", 64))
	// binary strings / invalid UTF-8
	for _, h := range []string{"41", "616263", "ff", "61ff", "c3a9", "c3", "00", "610000", "0100", "ffffffffffffffff", "010000000000000000"} {
		in = append(in, mkHex(h))
	}
	in = append(in, mkBit("1"), mkBit("0"), mkBit("10"), mkBit("11111111"), mkBit("100000000"), mkBit(strings.Repeat("1", 64)))
	// temporal strings
	temporal := []string{"date", "datetime", "timestamp", "time", "year", "char", "binary"}
	for _, s := range []string{"2020-01-01", "2020-02-29", "2020-02-30", "2021-02-29", "2020-13-01", "2020-00-10", "0000-00-00", "1000-01-01", "9999-12-31", "1969-12-31 23:59:59", "1970-01-01 00:00:00", "1970-01-01 00:00:01",
		"2038-01-19 03:14:07", "2038-01-19 03:14:08", "2020-01-01 10:11:12", "2020-01-01 10:11:12.123456", "2020-01-01 10:11:12.5", "2020-01-01 10:11:12.9999995", "2020-01-01 24:00:00", "2020-01-01 10:60:00", "9999-12-31 23:59:59.999999", "9999-12-31 23:59:59.4",
		"0000-00-00 00:00:00", "not a date"} {
		in = append(in, mkStr(s, temporal...))
	}
	for _, s := range []string{"10:11:12", "10:11:12.5", "10:11:12.123456", "10:11:12.1234567", "838:59:59", "838:59:59.000001", "839:00:00", "-838:59:59", "-839:00:00", "00:00:00", "10:61:12", "10:11:60", "-00:00:01"} {
		in = append(in, mkStr(s, "time", "date", "datetime", "char"))
	}
	for _, s := range []string{"20200101", "20200230", "20201301", "20200101101112", "20200101256012"} {
		in = append(in, mkInt(s, "date", "datetime", "timestamp", "int", "char"))
	}
	for _, s := range []string{"101112", "8385959", "8390000", "-8385959", "-8390000", "106112", "59", "60"} {
		in = append(in, mkInt(s, "time", "char"))
	}
	for _, s := range []string{"69", "70", "99", "100", "1900", "1901", "2155", "2156", "2000"} {
		in = append(in, mkInt(s, "year", "char"))
	}
	for _, s := range []string{"0", "00", "69", "70", "1901", "2155", "2156", "1900", "20x"} {
		in = append(in, mkStr(s, "year"))
	}
	// enum / set
	for _, s := range []string{"b", "c", "d", "A", "1", "4", "a,b", "b,a", "a,a", "a,d", "d,a", "a,b,c", ",", "a,"} {
		in = append(in, mkStr(s, "enum", "set"))
	}
	for _, s := range []string{"4", "5", "8", "-1"} {
		in = append(in, mkInt(s, "enum", "set"))
	}
	// json
	for _, s := range []string{`{"a":1}`, `{"a": 1, "b": [1, 2, {"c": null}]}`, `[1, 2]`, `"abc"`, `null`, `true`, `1`, `1.5`, `{bad`, `{"a":1`, `[1,]`, `{"a":1} x`, `{"b":1,"a":2}`, `"é"`} {
		in = append(in, mkStr(s, "json", "char"))
	}
	if thorough {
		for _, s := range []string{"10", "-10", "100", "999", "1000", "-1000", "12345678901", "9999999999", "10000000000", "4611686018427387904", "-4611686018427387904"} {
			in = append(in, mkInt(s))
		}
		for _, s := range []string{"0.05", "0.005", "0.994", "0.995", "99.995", "-0.005", "9999999999.4", "9999999999.5", "65535.5", "32767.5", "-32768.5", "4294967295.5", "18446744073709551615.5", "9223372036854775807.5", "-9223372036854775808.5", "999.4", "999.5", "0.00001", "0.000005"} {
			in = append(in, mkDec(s))
		}
		in = append(in, mkFloat("3.4e38", 3.4e38), mkFloat("3.5e38", 3.5e38), mkFloat("-1e39", -1e39), mkFloat("1e15", 1e15), mkFloat("1e16", 1e16), mkFloat("0.1e0", 0.1), mkFloat("255.5e0", 255.5), mkFloat("-0.5e0", -0.5), mkFloat("255.5e0", 255.5))
		for _, s := range []string{"abcd", "abc ", "   ", "a b", "0x10", "+5", ".5", "5.", "--5", "1,5", "1 2", "\t7", "0.5e1", "1e-2", "-", "+", "e5", "127.5", "-0.5", "1e400", "-1e400"} {
			in = append(in, mkStr(s))
		}
		in = append(in, mkLongStr("a", 65535), mkLongStr("a", 65536), mkLongStr("ab", 10), mkLongStr("a", 21))
		for _, h := range []string{"e9", "f09f9880", "eda080", "c0af", "4142434445", "414243444546"} {
			in = append(in, mkHex(h))
		}
	}
	return in
}

func (in input) appliesTo(t colT) bool {
	if len(in.Only) == 0 {
		return true
	}
	for _, f := range in.Only {
		if f == t.Fam {
			return true
		}
	}
	return false
}
