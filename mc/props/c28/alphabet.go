package c28

import (
	"encoding/binary"
	"encoding/hex"
	"fmt"
	"math"
	"strings"
)

// colT is one column type of the space.
type colT struct {
	SQL string // DDL text
	Fam string // int float decimal char binary date datetime time year enum set bit json geom
	// parameters the independent decoder needs
	Float32  bool // FLOAT
	Pad      int  // BINARY(n): stored value is right-padded with 0x00 to n bytes
	Bits     int  // BIT(n)
	Thorough bool
}

// val is one storable value: the literal written in INSERT and the value it denotes in the
// harness's own canonical notation for the family (see decode.go).
type val struct {
	Lit   string `json:"lit"`
	Canon string `json:"-"`
	// Thorough values are only used in the thorough tier (very long ones).
	Thorough bool `json:"-"`
}

func q(s string) string { return "'" + strings.NewReplacer("\\", "\\\\", "'", "''").Replace(s) + "'" }

// str: a character-string value.
func str(s string) val { return val{Lit: q(s), Canon: s} }

// rep: n copies of unit, written with REPEAT so that witnesses stay small.
func rep(unit string, n int) val {
	return val{Lit: fmt.Sprintf("repeat(%s,%d)", q(unit), n), Canon: strings.Repeat(unit, n)}
}

// hexv: a binary-string value (canonical form: lower-case hex).
func hexv(h string) val { return val{Lit: "x'" + h + "'", Canon: h} }
func hexrep(h string, n int) val {
	return val{Lit: fmt.Sprintf("unhex(repeat('%s',%d))", h, n), Canon: strings.Repeat(h, n)}
}

// num: an exact number, canonical form = normalised decimal text.
func num(s string) val { return val{Lit: s, Canon: canonDecimal(s)} }

// flt: an approximate number; lit is a literal with exponent, canonical form = shortest float64
// (or float32) text of the stored value.
func flt(lit string, f float64) val { return val{Lit: lit, Canon: canonFloat(f)} }

// tmp: a temporal value given as string literal; canonical form = fields with trailing
// fractional zeros removed.
func tmp(s string) val { return val{Lit: q(s), Canon: canonTemporal(s)} }

func bitv(bits string) val {
	var n uint64
	for _, c := range bits {
		n = n<<1 | uint64(c-'0')
	}
	return val{Lit: "b'" + bits + "'", Canon: fmt.Sprint(n)}
}

func jsonv(s string) val { return val{Lit: q(s), Canon: canonJSON(s)} }

// geometry: canonical form = hex of MySQL's internal format (SRID little-endian, then WKB).
func wkbHeader(srid uint32, typ uint32) []byte {
	b := binary.LittleEndian.AppendUint32(nil, srid)
	b = append(b, 1)
	return binary.LittleEndian.AppendUint32(b, typ)
}
func f64(b []byte, xs ...float64) []byte {
	for _, x := range xs {
		b = binary.LittleEndian.AppendUint64(b, math.Float64bits(x))
	}
	return b
}
func geomPoint(srid uint32, x, y float64) val {
	lit := fmt.Sprintf("st_geomfromtext('POINT(%v %v)')", x, y)
	if srid != 0 {
		// ST_SRID(g, srid) only relabels: no axis-order question
		lit = fmt.Sprintf("st_srid(point(%v, %v), %d)", x, y, srid)
	}
	return val{Lit: lit, Canon: hex.EncodeToString(f64(wkbHeader(srid, 1), x, y))}
}
func geomLine(pts ...float64) val {
	var parts []string
	for i := 0; i < len(pts); i += 2 {
		parts = append(parts, fmt.Sprintf("%v %v", pts[i], pts[i+1]))
	}
	b := wkbHeader(0, 2)
	b = binary.LittleEndian.AppendUint32(b, uint32(len(pts)/2))
	b = f64(b, pts...)
	return val{Lit: "st_geomfromtext('LINESTRING(" + strings.Join(parts, ",") + ")')", Canon: hex.EncodeToString(b)}
}
func geomPoly(pts ...float64) val {
	var parts []string
	for i := 0; i < len(pts); i += 2 {
		parts = append(parts, fmt.Sprintf("%v %v", pts[i], pts[i+1]))
	}
	b := wkbHeader(0, 3)
	b = binary.LittleEndian.AppendUint32(b, 1)
	b = binary.LittleEndian.AppendUint32(b, uint32(len(pts)/2))
	b = f64(b, pts...)
	return val{Lit: "st_geomfromtext('POLYGON((" + strings.Join(parts, ",") + "))')", Canon: hex.EncodeToString(b)}
}

func members(n int) []string {
	out := make([]string, n)
	for i := range out {
		out[i] = fmt.Sprintf("m%d", i+1)
	}
	return out
}

func quoteList(ms []string) string {
	qs := make([]string, len(ms))
	for i, m := range ms {
		qs[i] = q(m)
	}
	return strings.Join(qs, ",")
}

var longMember = strings.Repeat("x", 200) + "é"

type typeSpec struct {
	T    colT
	Vals []val
}

func nines(n int) string { return strings.Repeat("9", n) }

// space is the whole (type, storable boundary value) space.
func space() []typeSpec {
	intT := func(sql, min, max string) typeSpec {
		vs := []val{num(min), num(max), num("0"), num("1")}
		if min != "0" {
			vs = append(vs, num("-1"))
		}
		return typeSpec{T: colT{SQL: sql, Fam: "int"}, Vals: vs}
	}
	chars := func(sql string, vs ...val) typeSpec { return typeSpec{T: colT{SQL: sql, Fam: "char"}, Vals: vs} }
	bins := func(sql string, pad int, vs ...val) typeSpec {
		return typeSpec{T: colT{SQL: sql, Fam: "binary", Pad: pad}, Vals: vs}
	}
	set64 := members(64)
	out := []typeSpec{
		intT("tinyint", "-128", "127"), intT("tinyint unsigned", "0", "255"),
		intT("smallint", "-32768", "32767"), intT("smallint unsigned", "0", "65535"),
		intT("mediumint", "-8388608", "8388607"), intT("mediumint unsigned", "0", "16777215"),
		intT("int", "-2147483648", "2147483647"), intT("int unsigned", "0", "4294967295"),
		intT("bigint", "-9223372036854775808", "9223372036854775807"), intT("bigint unsigned", "0", "18446744073709551615"),
		{T: colT{SQL: "boolean", Fam: "int"}, Vals: []val{{Lit: "true", Canon: "1"}, {Lit: "false", Canon: "0"}}},
		{T: colT{SQL: "float", Fam: "float", Float32: true}, Vals: []val{
			flt("0e0", 0), flt("1.5e0", 1.5), flt("-2.5e0", -2.5), flt("16777216e0", 16777216), flt("0.1e0", float64(float32(0.1))),
			flt("3.4028234e38", float64(float32(math.MaxFloat32))), flt("-3.4028234e38", -float64(float32(math.MaxFloat32))),
			flt("1.17549435e-38", float64(float32(1.17549435e-38))), flt("1e-45", float64(float32(1e-45))), flt("123456.7e0", float64(float32(123456.7))), flt("1e20", float64(float32(1e20))),
		}},
		{T: colT{SQL: "double", Fam: "float"}, Vals: []val{
			flt("0e0", 0), flt("1.5e0", 1.5), flt("-2.5e0", -2.5), flt("0.1e0", 0.1), flt("1e15", 1e15), flt("1e16", 1e16), flt("9007199254740992e0", 9007199254740992),
			flt("1.2345678901234568e20", 1.2345678901234568e20), flt("1.7976931348623157e308", math.MaxFloat64), flt("-1.7976931348623157e308", -math.MaxFloat64),
			flt("2.2250738585072014e-308", 2.2250738585072014e-308), flt("5e-324", 5e-324), flt("-1.2345678901234567e-300", -1.2345678901234567e-300),
		}},
		{T: colT{SQL: "decimal(5,2)", Fam: "decimal"}, Vals: []val{num("0.00"), num("999.99"), num("-999.99"), num("0.01"), num("-0.01"), num("1.50")}},
		{T: colT{SQL: "decimal(10,0)", Fam: "decimal"}, Vals: []val{num("0"), num("9999999999"), num("-9999999999"), num("1")}},
		{T: colT{SQL: "decimal(65,30)", Fam: "decimal"}, Vals: []val{num("0"), num(nines(35) + "." + nines(30)), num("-" + nines(35) + "." + nines(30)), num("0." + strings.Repeat("0", 29) + "1"), num("-1.5")}},
		{T: colT{SQL: "decimal(65,0)", Fam: "decimal"}, Vals: []val{num(nines(65)), num("-" + nines(65)), num("0")}},
		{T: colT{SQL: "decimal(30,30)", Fam: "decimal"}, Vals: []val{num("0." + nines(30)), num("-0." + nines(30)), num("0"), num("0.5")}},
		chars("char(3)", str(""), str("a"), str("abc"), str("éé€"), str("a'b")),
		chars("char(255)", rep("a", 255), rep("€", 255)),
		chars("varchar(5)", str(""), str("abcde"), str("ééééé"), str("😀😀😀😀😀"), str("a b"), str("a'\\b"), str("a\nb\x00c"), str("  a  ")),
		chars("varchar(5) character set latin1", str("abcde"), str("ééééé"), str("éé"), str("é")),
		chars("varchar(16380)", rep("a", 16380), rep("€", 16380), rep("😀", 16380), str("x")),
		chars("tinytext", rep("a", 255), rep("€", 85), str("")),
		chars("text", rep("a", 65535), rep("😀", 16383), str("abc")),
		bins("binary(3)", 3, hexv("000000"), hexv("ffffff"), hexv("61"), hexv("00ff")),
		bins("varbinary(5)", 0, hexv(""), hexv("00"), hexv("ff00ff00ff"), hexv("c328")),
		bins("varbinary(65000)", 0, hexrep("ff", 65000), hexv("00")),
		bins("tinyblob", 0, hexrep("ff", 255), hexrep("00", 255), hexv("")),
		bins("blob", 0, hexrep("ff", 65535), hexrep("00", 65535), hexv("e9")),
		{T: colT{SQL: "date", Fam: "date"}, Vals: []val{tmp("1000-01-01"), tmp("9999-12-31"), tmp("2020-02-29"), tmp("0000-00-00"), tmp("0001-01-01"), tmp("1969-12-31")}},
		{T: colT{SQL: "datetime", Fam: "datetime"}, Vals: []val{tmp("1000-01-01 00:00:00"), tmp("9999-12-31 23:59:59"), tmp("2020-01-01 10:11:12"), tmp("0000-00-00 00:00:00"), tmp("1969-12-31 23:59:59")}},
		{T: colT{SQL: "datetime(3)", Fam: "datetime"}, Vals: []val{tmp("9999-12-31 23:59:59.999"), tmp("2020-01-01 10:11:12.120"), tmp("2020-01-01 10:11:12.001"), tmp("2020-01-01 10:11:12.000")}},
		{T: colT{SQL: "datetime(6)", Fam: "datetime"}, Vals: []val{tmp("9999-12-31 23:59:59.999999"), tmp("1000-01-01 00:00:00.000001"), tmp("2020-01-01 10:11:12.100000"), tmp("2020-01-01 10:11:12.123456"), tmp("2020-01-01 10:11:12.000000"), tmp("1969-12-31 23:59:59.999999"), tmp("0001-01-01 00:00:00.500000")}},
		{T: colT{SQL: "timestamp", Fam: "datetime"}, Vals: []val{tmp("1970-01-01 00:00:01"), tmp("2038-01-19 03:14:07"), tmp("2020-01-01 10:11:12")}},
		{T: colT{SQL: "timestamp(6)", Fam: "datetime"}, Vals: []val{tmp("1970-01-01 00:00:01.000001"), tmp("2038-01-19 03:14:07.999999"), tmp("2020-01-01 10:11:12.120000")}},
		{T: colT{SQL: "time", Fam: "time"}, Vals: []val{tmp("-838:59:59"), tmp("838:59:59"), tmp("00:00:00"), tmp("-00:00:01"), tmp("10:11:12"), tmp("100:00:00"), tmp("-99:59:59")}},
		{T: colT{SQL: "time(6)", Fam: "time"}, Vals: []val{tmp("838:59:59.000000"), tmp("-838:59:58.999999"), tmp("00:00:00.000001"), tmp("-00:00:00.000001"), tmp("10:11:12.500000"), tmp("10:11:12.123456")}},
		{T: colT{SQL: "year", Fam: "year"}, Vals: []val{num("1901"), num("2155"), {Lit: "'0000'", Canon: "0"}, num("2000"), num("1999"), {Lit: "0", Canon: "0"}}},
		{T: colT{SQL: "enum('a','b','c')", Fam: "enum"}, Vals: []val{str("a"), str("c")}},
		{T: colT{SQL: "enum('é'," + q(longMember) + ",'')", Fam: "enum"}, Vals: []val{str("é"), str(longMember), str("")}},
		{T: colT{SQL: "set('a','b','c')", Fam: "set"}, Vals: []val{str(""), str("a"), str("a,c"), str("a,b,c"), {Lit: "'c,a'", Canon: "a,c"}}},
		{T: colT{SQL: "set(" + quoteList(set64) + ")", Fam: "set"}, Vals: []val{str(strings.Join(set64, ",")), str("m64"), str("m1,m64"), str("m63")}},
		{T: colT{SQL: "bit(1)", Fam: "bit", Bits: 1}, Vals: []val{bitv("0"), bitv("1")}},
		{T: colT{SQL: "bit(7)", Fam: "bit", Bits: 7}, Vals: []val{bitv("1111111"), bitv("1000000"), bitv("1")}},
		{T: colT{SQL: "bit(8)", Fam: "bit", Bits: 8}, Vals: []val{bitv("11111111"), bitv("0"), bitv("10000000"), bitv("1100001")}},
		{T: colT{SQL: "bit(9)", Fam: "bit", Bits: 9}, Vals: []val{bitv("111111111"), bitv("100000000"), bitv("1")}},
		{T: colT{SQL: "bit(64)", Fam: "bit", Bits: 64}, Vals: []val{bitv(strings.Repeat("1", 64)), bitv("1"), bitv("1" + strings.Repeat("0", 63)), bitv("0"), bitv("0110000101100010")}},
		{T: colT{SQL: "json", Fam: "json"}, Vals: []val{jsonv(`{"a": 1}`), jsonv(`{"b": [1, 2, {"c": null}], "a": "x"}`), jsonv(`[]`), jsonv(`{}`), jsonv(`null`), jsonv(`true`), jsonv(`"é\"\\ \u0001"`), jsonv(`1.5`), jsonv(`-12`), jsonv(`[1, "a", null, false, {"k": [[]]}]`),
			{Lit: "concat('\"', repeat('j', 70000), '\"')", Canon: canonJSON(`"` + strings.Repeat("j", 70000) + `"`)}, jsonv(`{"é": "😀"}`)}},
		{T: colT{SQL: "point", Fam: "geom"}, Vals: []val{geomPoint(0, 1, 2), geomPoint(0, -1.5, 1e300), geomPoint(0, 0, 0)}},
		{T: colT{SQL: "point srid 4326", Fam: "geom"}, Vals: []val{geomPoint(4326, 10, 20)}},
		{T: colT{SQL: "linestring", Fam: "geom"}, Vals: []val{geomLine(0, 0, 1, 1), geomLine(0, 0, 1, 1, 2, -3.5)}},
		{T: colT{SQL: "polygon", Fam: "geom"}, Vals: []val{geomPoly(0, 0, 4, 0, 4, 4, 0, 0)}},
		{T: colT{SQL: "geometry", Fam: "geom"}, Vals: []val{geomPoint(0, 1, 2), geomLine(0, 0, 1, 1), geomPoly(0, 0, 4, 0, 4, 4, 0, 0)}},
		// thorough only: the 16 MiB types at their maximum
		{T: colT{SQL: "mediumtext", Fam: "char", Thorough: true}, Vals: []val{rep("a", 16777215), rep("€", 5592405)}},
		{T: colT{SQL: "mediumblob", Fam: "binary", Thorough: true}, Vals: []val{hexrep("ff", 16777215)}},
		{T: colT{SQL: "longtext", Fam: "char", Thorough: true}, Vals: []val{rep("a", 1<<20)}},
	}
	return out
}
