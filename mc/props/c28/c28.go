// Package c28 — values round-trip through their wire representation.
//
// Every column type × a storable boundary alphabet (alphabet.go). The value is stored through
// INSERT, read back in-process (Engine.Query) and then observed on three routes: Type.SQL
// directly, the *server.Handler (ComQuery and ComPrepare/ComStmtExecute → RowToSQL →
// schemaToFields) and a real go-sql-driver client on a unix socket (text protocol and prepared
// statement = binary protocol). Two oracles: the one of DESIGN.md (Type.Convert of the received
// representation compares equal to the stored value; length ≤ announced length) and an
// independent decoder (decode.go) that says which value a representation denotes.
package c28

import (
	"context"
	dsql "database/sql"
	"encoding/json"
	"fmt"
	"reflect"
	"strings"
	"time"

	"github.com/dolthub/go-mysql-server/sql"
	"github.com/dolthub/go-mysql-server/sql/types"

	"verif/mc/core"
	"verif/mc/eng"
	"verif/mc/props/c35/wire"
)

func init() {
	core.Register(&core.Prop{
		ID:    "C28",
		Level: "exploration",
		Rule: "every column type of a 51-type list (all integer widths, BOOLEAN, FLOAT, DOUBLE, five DECIMALs up to (65,30)/(65,0)/(30,30), CHAR/VARCHAR incl. varchar(16380) and a latin1 column, TINYTEXT/TEXT, BINARY/VARBINARY/TINYBLOB/BLOB, DATE, DATETIME(0/3/6), TIMESTAMP(0/6), TIME(0/6), YEAR, two ENUMs, two SETs (3 and 64 members), BIT(1/7/8/9/64), JSON, POINT (SRID 0 and 4326)/LINESTRING/POLYGON/GEOMETRY; thorough adds MEDIUMTEXT/MEDIUMBLOB at 16 MiB and LONGTEXT) × its storable boundary values (range ends, max-length strings in 1/2/3/4-byte characters, 65-digit decimals, 6 fractional digits, ±838:59:59, year 1901/2155/0000, zero dates, every bit set, …): one case per (type, value) on a fresh engine, plus one 'stream' case per type that reads all its values (and a NULL) in one result. " +
			"Routes per case: Type.SQL; handler ComQuery and ComPrepare+ComStmtExecute (RowToSQL, schemaToFields); go-sql-driver over a unix socket, text protocol and prepared statement (binary protocol). " +
			"A case is non-trivial when the INSERT succeeded, the value read back in-process denotes the literal (checked by the harness decoder) and all routes were observed.",
		Assumptions: []string{
			"the stored value is what Engine.Query returns in-process; storing it correctly is C27's subject (cases whose stored value does not denote the literal are counted as stored_differs and not judged)",
			"default session settings (character_set_results = utf8mb4, sql_mode default)",
			"the independent decoder: exact rationals for integers/decimals, nearest float32/float64 for FLOAT/DOUBLE, temporal text with trailing fractional zeros ignored, JSON as documents, raw bytes for binary strings, BIT and geometries (MySQL internal format: SRID + WKB)",
			"binary protocol: the value go-sql-driver hands to the application (parseTime=false) — the encoder is vitess', the decoder go-sql-driver's; both are trusted to be what a client sees",
		},
		Run:    run,
		Replay: replay,
	})
}

type kase struct {
	Type   string `json:"type"`
	Lit    string `json:"lit,omitempty"`
	Stream bool   `json:"stream,omitempty"`
}

func findType(sqlText string) (typeSpec, bool) {
	for _, ts := range space() {
		if ts.T.SQL == sqlText {
			return ts, true
		}
	}
	return typeSpec{}, false
}

func run(r *core.Run) {
	var idx int64
	sp := space()
	nTypes, nVals := 0, 0
	capped := false
	for _, ts := range sp {
		if ts.T.Thorough && !r.Thorough() {
			continue
		}
		nTypes++
		for _, v := range ts.Vals {
			nVals++
			i := idx
			idx++
			if !r.Mine(i) {
				continue
			}
			if r.Expired() {
				capped = true
				continue
			}
			k := kase{Type: ts.T.SQL, Lit: v.Lit}
			r.AnnounceCase(string(core.J(k)))
			r.Eval()
			valueCase(r, ts, v)
		}
		i := idx
		idx++
		if r.Mine(i) && !ts.T.Thorough {
			if r.Expired() {
				capped = true
				continue
			}
			r.AnnounceCase(string(core.J(kase{Type: ts.T.SQL, Stream: true})))
			r.Eval()
			streamCase(r, ts)
		}
	}
	r.Info("types", nTypes)
	r.Info("type_value_pairs", nVals)
	if capped {
		r.Capped("stopped by the time budget")
	}
}

func replay(r *core.Run, w json.RawMessage) {
	var k kase
	if err := json.Unmarshal(w, &k); err != nil {
		panic(err)
	}
	ts, ok := findType(k.Type)
	if !ok {
		panic("unknown type " + k.Type)
	}
	if k.Stream {
		streamCase(r, ts)
		return
	}
	for _, v := range ts.Vals {
		if v.Lit == k.Lit {
			valueCase(r, ts, v)
			return
		}
	}
	panic("unknown value " + k.Lit)
}

func famOf(t colT) string { return t.Fam }

type judge struct {
	r  *core.Run
	t  colT
	k  kase
	ok bool
	// aspect of the value that is wrong (set by the denotation checks): sign, year, date, time,
	// fraction, exponent, digits, length, bytes …; part of the signature so that two defects of one
	// type family are told apart
	aspect string
}

func (j *judge) viol(route, clause, kind, observed, expected string) {
	j.ok = false
	subj := map[string]string{"family": subjectFamily(j.t.Fam)}
	if j.aspect != "" {
		subj["aspect"] = j.aspect
	}
	j.aspect = ""
	j.r.Violate(core.Violation{Check: route, Clause: clause, Kind: kind, Subject: subj, Witness: core.J(j.k), Observed: clip(observed), Expected: clip(expected)})
}

// aspectOf says in which respect the denoted value got differs from want.
func aspectOf(fam, got, want string) string {
	if strings.HasPrefix(got, "!") {
		return "malformed"
	}
	gneg, wneg := strings.HasPrefix(got, "-"), strings.HasPrefix(want, "-")
	if gneg != wneg && strings.TrimPrefix(got, "-") == strings.TrimPrefix(want, "-") {
		return "sign"
	}
	switch fam {
	case "date", "datetime", "time":
		gm, gf, _ := strings.Cut(got, ".")
		wm, wf, _ := strings.Cut(want, ".")
		if gm == wm && gf != wf {
			return "fraction"
		}
		gd, gt, gok := strings.Cut(gm, " ")
		wd, wt, wok := strings.Cut(wm, " ")
		if fam == "time" || !gok || !wok {
			if fam == "time" {
				return "time"
			}
			gd, wd = gm, wm
		}
		if gd != wd {
			if i, k := strings.LastIndex(gd, "-"), strings.LastIndex(wd, "-"); i > 3 && k > 3 && gd[i-3:] == wd[k-3:] {
				return "year"
			}
			return "date"
		}
		if gt != wt {
			return "time"
		}
		return "fraction"
	case "char", "enum", "set", "binary", "geom", "json":
		if len(got) != len(want) {
			return "length"
		}
		return "bytes"
	}
	return "digits"
}

// subjectFamily: DATE, DATETIME and TIMESTAMP share one implementation (datetimeType).
func subjectFamily(f string) string {
	if f == "date" {
		return "datetime"
	}
	return f
}

func clip(s string) string {
	if len(s) > 300 {
		return fmt.Sprintf("%s…(%d bytes)", s[:200], len(s))
	}
	return s
}

func topFrame(stack string) string {
	for _, l := range strings.Split(stack, "\n") {
		if strings.HasPrefix(l, "github.com/dolthub/") && !strings.Contains(l, "verif") {
			if i := strings.LastIndex(l, "("); i > 0 {
				l = l[:i]
			}
			return l
		}
	}
	return "unknown"
}

// bytesFamily: families whose client-side representation is a byte string (given back to
// Type.Convert as []byte; all others as string).
func bytesFamily(f string) bool { return f == "binary" || f == "bit" || f == "geom" }

// storedCanon is the denotation of the in-process value, where the harness can tell ("" = not
// decodable here: enum/set indexes, geometry objects).
func storedCanon(t colT, v any) string {
	switch t.Fam {
	case "enum", "set", "geom":
		return ""
	case "bit":
		if u, ok := v.(uint64); ok {
			return fmt.Sprint(u)
		}
		return ""
	case "char", "binary":
		var b []byte
		switch x := v.(type) {
		case string:
			b = []byte(x)
		case []byte:
			b = x
		default:
			s := eng.FormatValue(v)
			if len(s) >= 2 && s[0] == '\'' {
				b = []byte(s[1 : len(s)-1])
			} else {
				return ""
			}
		}
		return decodeText(t, b)
	case "json":
		return canonJSON(eng.FormatValue(v))
	}
	if tm, ok := v.(time.Time); ok && tm.Equal(types.ZeroTime) {
		if t.Fam == "date" {
			return "0000-00-00"
		}
		return "0000-00-00 00:00:00"
	}
	s := eng.FormatValue(v)
	s = strings.Trim(s, "'")
	if t.Fam == "float" {
		switch x := v.(type) {
		case float32:
			return canonFloat(float64(x))
		case float64:
			return canonFloat(x)
		}
		return ""
	}
	if t.Fam == "date" && len(s) > 10 {
		s = s[:10]
	}
	return decodeText(t, []byte(s))
}

// world is one fresh system: engine, table t(id, c <type>), handler, socket, driver connection.
type world struct {
	e    *eng.Engine
	s    *eng.Session
	srv  *wire.Server
	c    *wire.Conn
	db   *dsql.DB
	conn *dsql.Conn
}

func newWorld(t colT) (*world, error) {
	w := &world{e: eng.New()}
	w.s = w.e.NewSession("root")
	if res := w.s.Exec("create table t (id int primary key, c " + t.SQL + ")"); res.Err != nil {
		return nil, res.Err
	}
	return w, nil
}

func (w *world) serve() {
	w.srv = wire.Start(w.e.E, w.e.Pro, wire.Options{Socket: true})
	w.c = w.srv.NewConn("mydb")
	w.db = w.srv.DB("mydb", "")
	conn, err := w.db.Conn(context.Background())
	if err != nil {
		panic(fmt.Sprintf("harness: cannot connect to the socket server: %v", err))
	}
	w.conn = conn
}

func (w *world) close() {
	if w.conn != nil {
		w.conn.Close()
	}
	if w.db != nil {
		w.db.Close()
	}
	if w.c != nil {
		w.c.Close()
	}
	if w.srv != nil {
		w.srv.Close()
	}
}

// observeText judges the representation raw (text protocol bytes) of stored value v.
func (j *judge) observeText(ctx *sql.Context, typ sql.Type, v any, raw []byte, expect string, route string) {
	if got := decodeText(j.t, raw); got != expect {
		j.aspect = aspectOf(j.t.Fam, got, expect)
		j.viol(route, "text-denotes-stored-value", "denotes-other-value", fmt.Sprintf("%q denotes %s", clip(string(raw)), got), expect)
		return // Convert of a wrong representation adds nothing
	}
	var back any
	var err error
	pv, stack := core.Try(func() {
		if bytesFamily(j.t.Fam) {
			back, _, err = typ.Convert(ctx, raw)
		} else {
			back, _, err = typ.Convert(ctx, string(raw))
		}
	})
	switch {
	case pv != nil:
		j.viol(route, "text-round-trip", "convert-panics", fmt.Sprintf("%v at %s", pv, topFrame(stack)), "Convert accepts the engine's own representation")
	case err != nil:
		j.viol(route, "text-round-trip", "convert-rejects-own-representation", fmt.Sprintf("Convert(%q): %v", clip(string(raw)), err), "a value equal to the stored one")
	default:
		cmp, cerr := typ.Compare(ctx, v, back)
		if cerr != nil || cmp != 0 {
			j.viol(route, "text-round-trip", "not-equal-after-round-trip", fmt.Sprintf("Convert(%q) = %s, Compare = %d (%v)", clip(string(raw)), clip(eng.FormatValue(back)), cmp, cerr), "equal to stored "+clip(eng.FormatValue(v)))
		}
	}
}

func valueCase(r *core.Run, ts typeSpec, v val) {
	t := ts.T
	k := kase{Type: t.SQL, Lit: v.Lit}
	j := &judge{r: r, t: t, k: k, ok: true}
	w, err := newWorld(t)
	if err != nil {
		r.Count("skipped_unsupported_type", 1)
		r.Outcome("type-unsupported/" + t.Fam)
		r.Note(fmt.Sprintf("type not supported: %s: %v", t.SQL, err))
		return
	}
	defer w.close()
	if res := w.s.Exec("insert into t values (1, " + v.Lit + ")"); res.Err != nil {
		r.Count("not_storable", 1)
		r.Outcome("not-storable/" + t.Fam)
		r.Note(fmt.Sprintf("not storable: %s <- %s: %v", t.SQL, clip(v.Lit), res.Err))
		return
	}
	res := w.s.Exec("select c from t where id = 1")
	if res.Err != nil || len(res.Rows) != 1 {
		j.viol("engine", "stored-value-readable", "select-failed", fmt.Sprint(res.Err), "one row")
		return
	}
	stored := res.Rows[0][0]
	typ := res.Schema[0].Type
	expect := expectCanon(t, v)
	if sc := storedCanon(t, stored); sc != "" && sc != expect {
		r.Count("stored_differs", 1)
		r.Outcome("stored-differs/" + t.Fam)
		r.Note(fmt.Sprintf("stored value differs from literal (C27's subject): %s <- %s: stored %s", t.SQL, clip(v.Lit), clip(sc)))
		return
	}
	ctx := w.s.NewCtx()

	// route 1: Type.SQL
	var raw []byte
	var isNull bool
	pv, stack := core.Try(func() {
		sv, e := typ.SQL(ctx, nil, stored)
		err = e
		raw = append([]byte(nil), sv.Raw()...)
		isNull = sv.IsNull()
	})
	if pv != nil {
		j.viol("type-sql", "no-panic", "panic", fmt.Sprintf("%v at %s", pv, topFrame(stack)), "a representation")
		return
	}
	if err != nil || isNull {
		j.viol("type-sql", "representation-exists", "sql-fails", fmt.Sprintf("err=%v null=%v", err, isNull), "a representation")
		return
	}
	j.observeText(ctx, typ, stored, raw, expect, "type-sql")
	if !j.ok {
		// the representation itself is wrong: the other routes only carry it further
		r.Outcome(t.Fam + "/violation")
		r.NonTrivial(t.SQL + "|" + v.Lit)
		return
	}
	tooLong := false
	if max := typ.MaxTextResponseByteLength(ctx); uint64(len(raw)) > uint64(max) {
		tooLong = true
		j.viol("type-sql", "text-length-within-announced", "longer-than-announced", fmt.Sprintf("%d bytes", len(raw)), fmt.Sprintf("≤ MaxTextResponseByteLength = %d", max))
	}

	// route 2: the handler
	w.serve()
	flagged := map[string]bool{}
	for _, route := range []string{"handler-text", "handler-prepared"} {
		var hr *wire.Res
		if route == "handler-text" {
			hr = w.c.Query("select c from t where id = 1")
		} else {
			st, perr := w.c.Prepare("select c from t where id = 1", 0)
			if perr != nil {
				hr = &wire.Res{Err: perr}
			} else {
				hr = st.Execute(nil, nil)
			}
		}
		rows := hr.Rows()
		if hr.Panic != nil {
			j.viol(route, "no-panic", "panic", fmt.Sprintf("%v at %s", hr.Panic, topFrame(hr.Stack)), "one row")
			continue
		}
		if hr.Err != nil || len(rows) != 1 || len(rows[0]) != 1 || rows[0][0].IsNull() {
			j.viol(route, "row-delivered", "no-row", fmt.Sprintf("err=%v rows=%d", hr.Err, len(rows)), "one row, one non-NULL value")
			continue
		}
		hraw := rows[0][0].Raw()
		if string(hraw) != string(raw) {
			// the handler may legitimately take another encoder; judge it on its own
			j.observeText(ctx, typ, stored, hraw, expect, route)
		}
		f := hr.Fields()[0]
		if f.Type != typ.Type() && !flagged["type"] {
			flagged["type"] = true
			j.viol(route, "field-type", "wrong-field-type", f.Type.String(), typ.Type().String())
		}
		// the announced column length must cover the value (reported once per case, and not again
		// when MaxTextResponseByteLength itself was already found too small)
		if uint64(len(hraw)) > uint64(f.ColumnLength) && !tooLong && !flagged["len"] {
			flagged["len"] = true
			j.viol(route, "field-length-covers-value", "longer-than-announced", fmt.Sprintf("%d bytes", len(hraw)), fmt.Sprintf("≤ column_length = %d", f.ColumnLength))
		}
	}

	// route 3: go-sql-driver on the socket
	bg := context.Background()
	var sockText any
	scan := func(dest *any, q string, args ...any) (err error) {
		// a malformed stream can make the client library panic
		defer func() {
			if x := recover(); x != nil {
				err = fmt.Errorf("client library panic on the received stream: %v", x)
			}
		}()
		return w.conn.QueryRowContext(bg, q, args...).Scan(dest)
	}
	if e := scan(&sockText, "select c from t where id = 1"); wire.IsTimeout(e) {
		r.Count("socket_timeouts", 1)
	} else if e != nil {
		j.viol("socket-text", "row-delivered", "client-error", e.Error(), "one row")
	} else if b, ok := sockText.([]byte); ok {
		if string(b) != string(raw) {
			j.observeText(ctx, typ, stored, b, expect, "socket-text")
		}
	} else if got := decodeDriver(t, sockText); got != expect {
		// go-sql-driver parses text-protocol integers and floats itself
		j.aspect = aspectOf(t.Fam, got, expect)
		j.viol("socket-text", "text-denotes-stored-value", "denotes-other-value", fmt.Sprintf("%T %s denotes %s", sockText, clipAny(sockText), got), expect)
	}
	var dv any
	if e := scan(&dv, "select c from t where id = ?", 1); wire.IsTimeout(e) {
		r.Count("socket_timeouts", 1)
	} else if e != nil {
		j.viol("socket-binary", "row-delivered", "client-error", e.Error(), "one row")
	} else {
		j.observeBinary(ctx, typ, stored, dv, expect)
	}

	r.Outcome(t.Fam + "/" + map[bool]string{true: "ok", false: "violation"}[j.ok])
	r.NonTrivial(t.SQL + "|" + v.Lit)
	r.Max("max_text_bytes", int64(len(raw)))
	if r.WantSample() && (v.Lit == "'-838:59:59'" || v.Lit == "'9999-12-31 23:59:59.999999'" || strings.HasPrefix(v.Lit, "-9999") || v.Lit == "'a,c'" || t.SQL == "bit(9)") {
		r.Sample(map[string]any{"type": t.SQL, "literal": v.Lit, "stored_go_value": fmt.Sprintf("%T", stored), "text_representation": clip(string(raw)), "announced_max_length": typ.MaxTextResponseByteLength(ctx), "denotes": expect, "binary_protocol_go_value": fmt.Sprintf("%T %v", dv, clipAny(dv)), "round_trip_equal": j.ok})
	}
}

func clipAny(v any) string {
	if b, ok := v.([]byte); ok {
		return clip(fmt.Sprintf("%q", b))
	}
	return clip(fmt.Sprint(v))
}

// observeBinary judges the Go value dv a go-sql-driver client got from a prepared statement.
func (j *judge) observeBinary(ctx *sql.Context, typ sql.Type, stored any, dv any, expect string) {
	if got := decodeDriver(j.t, dv); got != expect {
		j.aspect = aspectOf(j.t.Fam, got, expect)
		j.viol("socket-binary", "binary-denotes-stored-value", "denotes-other-value", fmt.Sprintf("%T %s denotes %s", dv, clipAny(dv), got), expect)
		return
	}
	in := dv
	if b, ok := dv.([]byte); ok && !bytesFamily(j.t.Fam) {
		in = string(b)
	}
	var back any
	var err error
	pv, stack := core.Try(func() { back, _, err = typ.Convert(ctx, in) })
	switch {
	case pv != nil:
		j.viol("socket-binary", "binary-round-trip", "convert-panics", fmt.Sprintf("%v at %s", pv, topFrame(stack)), "Convert accepts the client's value")
	case err != nil:
		j.viol("socket-binary", "binary-round-trip", "convert-rejects-client-value", fmt.Sprintf("Convert(%T %s): %v", dv, clipAny(dv), err), "a value equal to the stored one")
	default:
		cmp, cerr := typ.Compare(ctx, stored, back)
		if cerr != nil || cmp != 0 {
			j.viol("socket-binary", "binary-round-trip", "not-equal-after-round-trip", fmt.Sprintf("Convert(%T %s) = %s, Compare = %d (%v)", dv, clipAny(dv), clip(eng.FormatValue(back)), cmp, cerr), "equal to stored "+clip(eng.FormatValue(stored)))
		}
	}
}

// streamCase: all values of the type (and a NULL) in one table, read in one result set on each
// route; every row must carry the same representation as Type.SQL gives for that row alone
// (shared spool buffer, batching) and NULL must arrive as NULL.
func streamCase(r *core.Run, ts typeSpec) {
	t := ts.T
	k := kase{Type: t.SQL, Stream: true}
	j := &judge{r: r, t: t, k: k, ok: true}
	w, err := newWorld(t)
	if err != nil {
		r.Count("skipped_unsupported_type", 1)
		return
	}
	defer w.close()
	w.s.MustExec("insert into t values (0, null)")
	n := 0
	for i, v := range ts.Vals {
		if res := w.s.Exec(fmt.Sprintf("insert into t values (%d, %s)", i+1, v.Lit)); res.Err == nil {
			n++
		}
	}
	// repeat the rows so that the result crosses the 128-row batch and the spool buffer grows
	for rep := 1; rep <= 6 && n > 0; rep++ {
		w.s.MustExec(fmt.Sprintf("insert into t select id + %d, c from t where id < 100", rep*100))
	}
	ref := w.s.Exec("select id, c from t order by id")
	if ref.Err != nil {
		j.viol("engine", "stored-value-readable", "select-failed", fmt.Sprint(ref.Err), "rows")
		return
	}
	w.serve()
	bg := context.Background()
	// what each row looks like when it is read alone, per route
	singleH := make([]string, len(ref.Rows))
	singleD := make([]any, len(ref.Rows))
	socketOK := true
	for i, row := range ref.Rows {
		id := fmt.Sprint(row[0])
		hr := w.c.Query("select c from t where id = " + id)
		rows := hr.Rows()
		switch {
		case hr.Err != nil || len(rows) != 1:
			singleH[i] = fmt.Sprintf("!err %v", hr.Err)
		case rows[0][0].IsNull():
			singleH[i] = id + "|NULL"
		default:
			singleH[i] = id + "|" + short(string(rows[0][0].Raw()))
		}
		if (row[1] == nil) != (singleH[i] == id+"|NULL") {
			j.viol("handler-text", "null-arrives-as-null", "null-confusion", singleH[i], fmt.Sprintf("stored NULL: %v", row[1] == nil))
		}
		if socketOK {
			if e := func() (err error) {
				defer func() {
					if x := recover(); x != nil {
						err = fmt.Errorf("client library panic: %v", x)
					}
				}()
				return w.conn.QueryRowContext(bg, "select c from t where id = ?", row[0]).Scan(&singleD[i])
			}(); e != nil {
				socketOK = false // reported by the single-value case of that value
			} else if (row[1] == nil) != (singleD[i] == nil) {
				j.viol("socket-binary", "null-arrives-as-null", "null-confusion", fmt.Sprintf("%T", singleD[i]), fmt.Sprintf("stored NULL: %v", row[1] == nil))
			}
		}
	}
	hr := w.c.Query("select id, c from t order by id")
	if hr.Err != nil || hr.Panic != nil {
		j.viol("handler-text", "stream-delivered", "error", fmt.Sprintf("err=%v panic=%v", hr.Err, hr.Panic), "rows")
	} else {
		var got []string
		for _, row := range hr.Rows() {
			c := "NULL"
			if !row[1].IsNull() {
				c = short(string(row[1].Raw()))
			}
			got = append(got, string(row[0].Raw())+"|"+c)
		}
		if d := firstDiff(got, singleH); d != "" {
			j.viol("handler-text", "stream-rows-equal-single-rows", "row-differs-in-stream", d, "every row as it is delivered alone")
		}
	}
	if !socketOK {
		r.Count("stream_socket_skipped", 1)
	} else {
		rows, err := w.conn.QueryContext(bg, "select id, c from t where id >= ? order by id", 0)
		if wire.IsTimeout(err) {
			r.Count("socket_timeouts", 1)
		} else if err != nil {
			j.viol("socket-binary", "stream-delivered", "client-error", err.Error(), "rows")
		} else {
			i := 0
			pv, _ := core.Try(func() { // a malformed stream can make the client library panic
				for rows.Next() {
					var id int64
					var dv any
					if err := rows.Scan(&id, &dv); err != nil {
						j.viol("socket-binary", "stream-delivered", "client-error", err.Error(), "rows")
						break
					}
					if i < len(ref.Rows) && !reflect.DeepEqual(dv, singleD[i]) {
						j.viol("socket-binary", "stream-rows-equal-single-rows", "row-differs-in-stream", fmt.Sprintf("row id=%d: %T %s", id, dv, clipAny(dv)), fmt.Sprintf("%T %s (read alone)", singleD[i], clipAny(singleD[i])))
						break
					}
					i++
				}
			})
			if pv != nil {
				j.viol("socket-binary", "stream-delivered", "client-library-panic", fmt.Sprint(pv), "rows")
			} else if err := rows.Err(); wire.IsTimeout(err) {
				r.Count("socket_timeouts", 1)
			} else if err != nil {
				j.viol("socket-binary", "stream-delivered", "client-error", err.Error(), "rows")
			} else if i != len(ref.Rows) && j.ok {
				j.viol("socket-binary", "stream-delivered", "row-count", fmt.Sprint(i), fmt.Sprint(len(ref.Rows)))
			}
			rows.Close()
		}
	}
	r.Outcome("stream/" + t.Fam + "/" + map[bool]string{true: "ok", false: "violation"}[j.ok])
	if n > 0 {
		r.NonTrivial(t.SQL + "|stream")
	}
	r.Max("max_stream_rows", int64(len(ref.Rows)))
}

func firstDiff(got, want []string) string {
	for i := 0; i < len(got) && i < len(want); i++ {
		if got[i] != want[i] {
			return fmt.Sprintf("row %d: got %q want %q", i, clip(got[i]), clip(want[i]))
		}
	}
	if len(got) != len(want) {
		return fmt.Sprintf("%d rows, want %d", len(got), len(want))
	}
	return ""
}
