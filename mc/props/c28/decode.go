package c28

import (
	"bytes"
	"encoding/hex"
	"encoding/json"
	"fmt"
	"math/big"
	"strconv"
	"strings"
)

// The harness's own notion of "which value does this text denote", per type family. It shares no
// code with sql/types: ints/decimals are compared as exact rationals, floats as the nearest
// float32/float64, temporals field by field with trailing fractional zeros ignored, JSON as
// documents (key order and number spelling ignored), binary strings and geometries byte by byte.

func canonDecimal(s string) string {
	r, ok := new(big.Rat).SetString(strings.TrimSpace(s))
	if !ok {
		return "!not-a-number:" + s
	}
	if r.IsInt() {
		return r.Num().String()
	}
	// exact decimal expansion exists for every value of the alphabet (denominators 2^a 5^b)
	for prec := 1; prec <= 80; prec++ {
		t := r.FloatString(prec)
		if back, ok := new(big.Rat).SetString(t); ok && back.Cmp(r) == 0 {
			return t
		}
	}
	return r.String()
}

func canonFloat(f float64) string { return strconv.FormatFloat(f, 'g', -1, 64) }

func canonTemporal(s string) string {
	if i := strings.IndexByte(s, '.'); i >= 0 {
		s = strings.TrimRight(s, "0")
		s = strings.TrimSuffix(s, ".")
	}
	return s
}

func canonJSONValue(v any) any {
	switch x := v.(type) {
	case json.Number:
		return "#" + canonDecimal(string(x))
	case map[string]any:
		for k, e := range x {
			x[k] = canonJSONValue(e)
		}
		return x
	case []any:
		for i, e := range x {
			x[i] = canonJSONValue(e)
		}
		return x
	}
	return v
}

func canonJSON(s string) string {
	d := json.NewDecoder(strings.NewReader(s))
	d.UseNumber()
	var v any
	if err := d.Decode(&v); err != nil {
		return "!bad-json:" + err.Error()
	}
	if d.More() {
		return "!trailing-json"
	}
	var buf bytes.Buffer
	e := json.NewEncoder(&buf)
	e.SetEscapeHTML(false)
	if err := e.Encode(canonJSONValue(v)); err != nil {
		return "!unencodable-json"
	}
	out := strings.TrimSpace(buf.String())
	if len(out) > 200 {
		return fmt.Sprintf("%s…(%d bytes, fnv %x)", out[:60], len(out), fnv(out))
	}
	return out
}

func fnv(s string) uint64 {
	h := uint64(14695981039346656037)
	for i := 0; i < len(s); i++ {
		h ^= uint64(s[i])
		h *= 1099511628211
	}
	return h
}

// expectCanon is the canonical denotation the stored value must have.
func expectCanon(t colT, v val) string {
	switch t.Fam {
	case "binary":
		c := v.Canon
		for len(c) < 2*t.Pad {
			c += "00"
		}
		return short(c)
	case "char", "enum", "set", "geom":
		return short(v.Canon)
	}
	return v.Canon
}

func short(s string) string {
	if len(s) > 120 {
		return fmt.Sprintf("%s…(%d bytes, fnv %x)", s[:40], len(s), fnv(s))
	}
	return s
}

// decodeText: the denotation of a text-protocol value.
func decodeText(t colT, b []byte) string {
	switch t.Fam {
	case "int", "decimal", "year":
		return canonDecimal(string(b))
	case "float":
		if t.Float32 {
			f, err := strconv.ParseFloat(string(b), 32)
			if err != nil {
				return "!not-a-float:" + string(b)
			}
			return canonFloat(float64(float32(f)))
		}
		f, err := strconv.ParseFloat(string(b), 64)
		if err != nil {
			return "!not-a-float:" + string(b)
		}
		return canonFloat(f)
	case "char", "enum", "set":
		return short(string(b))
	case "binary", "geom":
		return short(hex.EncodeToString(b))
	case "date", "datetime", "time":
		return canonTemporal(string(b))
	case "bit":
		want := (t.Bits + 7) / 8
		if len(b) != want {
			return fmt.Sprintf("!%d bytes for bit(%d)", len(b), t.Bits)
		}
		var n uint64
		for _, c := range b {
			n = n<<8 | uint64(c)
		}
		return fmt.Sprint(n)
	case "json":
		return canonJSON(string(b))
	}
	return "!family " + t.Fam
}

// decodeDriver: the denotation of a value go-sql-driver returned from the binary protocol.
func decodeDriver(t colT, v any) string {
	switch x := v.(type) {
	case nil:
		return "NULL"
	case int64:
		if t.Fam == "float" {
			return canonFloat(float64(x))
		}
		return strconv.FormatInt(x, 10)
	case uint64:
		return strconv.FormatUint(x, 10)
	case float32:
		return canonFloat(float64(x))
	case float64:
		if t.Float32 {
			return canonFloat(float64(float32(x)))
		}
		return canonFloat(x)
	case []byte:
		return decodeText(t, x)
	case string:
		return decodeText(t, []byte(x))
	}
	return fmt.Sprintf("!%T", v)
}
