// Package c29 decides property C29 — collation comparison is a total preorder coherent with
// hashing — by bounded-exhaustive exploration of every implemented collation.
//
// Parts, per collation (nothing is sampled):
//
//	chain  every code point of the collation's character set (quick: BMP, thorough: all planes) as
//	       a one-character string: reflexive; sorted with Compare and the sorted chain verified
//	       link by link (antisymmetric, ordered, Compare==0 <=> equal weight string <=> equal hash,
//	       weight-string classes = Compare classes); _bin: consecutive code points strictly
//	       ascending; _ci: case pairs of a conservative letter set equal (all encoder case pairs are
//	       compared and counted)
//	pairs  all ordered pairs over E = ~440 one-character strings (ASCII, Latin-1, Latin Extended-A,
//	       Greek, Cyrillic, combining marks, contraction letters, compatibility and astral
//	       probes) + every string of length 0..2 over a 12-rune alphabet + length 3 over 5 runes
//	       (thorough: length 3 over all 12): reflexive, antisymmetric in sign, transitive (decided
//	       for ALL triples by the rank criterion), coherence with weight strings and hashes, _bin
//	       reference order, _ci case variants
//	sql    a table with a column of that collation holding the 157 short strings: = < STRCMP LIKE
//	       IN between columns (all ordered pairs), = / IN (literal list) / LIKE / STRCMP against
//	       every literal, equi-join, GROUP BY, COUNT(DISTINCT), ORDER BY — all must agree with Compare
//
// plus: every listed but unimplemented collation must be refused or served, never crash.
package c29

import (
	"bytes"
	"encoding/hex"
	"encoding/json"
	"fmt"
	"runtime/debug"
	"sort"
	"strconv"
	"strings"

	"github.com/dolthub/vitess/go/sqltypes"

	"github.com/dolthub/go-mysql-server/sql"
	"github.com/dolthub/go-mysql-server/sql/encodings"
	"github.com/dolthub/go-mysql-server/sql/types"

	"verif/mc/core"
	"verif/mc/eng"
)

// ---------------------------------------------------------------------------------------------
// collations

type coll struct {
	ID     sql.CollationID
	Name   string
	CS     string
	Enc    encodings.Encoder
	Typ    sql.StringType
	Family string // binary | bin | ci | cs | other
	Binary bool   // the `binary` collation: strings are byte strings
}

func family(name string) string {
	switch {
	case name == "binary":
		return "binary"
	case strings.HasSuffix(name, "_bin"):
		return "bin"
	case strings.Contains(name, "_ci"):
		return "ci"
	case strings.Contains(name, "_cs"):
		return "cs"
	}
	return "other"
}

func collations() (impl []coll, unimpl []string) {
	it := sql.NewCollationsIterator()
	for c, ok := it.Next(); ok; c, ok = it.Next() {
		if c.Sorter == nil || c.CharacterSet.Encoder() == nil {
			unimpl = append(unimpl, c.Name)
			continue
		}
		x := coll{ID: c.ID, Name: c.Name, CS: c.CharacterSet.Name(), Enc: c.CharacterSet.Encoder(), Family: family(c.Name)}
		var err error
		if c.ID == sql.Collation_binary {
			x.Binary = true
			x.Typ, err = types.CreateBinary(sqltypes.VarBinary, 16)
		} else {
			x.Typ, err = types.CreateString(sqltypes.VarChar, 16, c.ID)
		}
		if err != nil {
			unimpl = append(unimpl, c.Name)
			continue
		}
		impl = append(impl, x)
	}
	sort.Slice(impl, func(i, j int) bool { return impl[i].ID < impl[j].ID })
	sort.Strings(unimpl)
	return
}

func lookup(name string) (coll, bool) {
	impl, _ := collations()
	for _, c := range impl {
		if c.Name == name {
			return c, true
		}
	}
	return coll{}, false
}

func isScalar(r rune) bool { return r >= 0 && r <= 0x10FFFF && !(r >= 0xD800 && r <= 0xDFFF) }

// encodable: can the collation's character set hold r? (strings of a collation live in its charset)
func (c *coll) encodable(r rune) bool {
	if c.Binary {
		return r >= 0 && r <= 0xFF
	}
	if !isScalar(r) {
		return false
	}
	var ok bool
	b := []byte(string(r))
	b = b[:len(b):len(b)]
	pv, _ := core.Try(func() { _, ok = c.Enc.EncodeRune(b) })
	return pv == nil && ok
}

// str builds the one-character string for code point r (binary: the one-byte string).
func (c *coll) str(r rune) string {
	if c.Binary {
		return string([]byte{byte(r)})
	}
	return string(r)
}

// runes splits s into the collation's characters.
func (c *coll) runes(s string) []rune {
	if c.Binary {
		out := make([]rune, len(s))
		for i := 0; i < len(s); i++ {
			out[i] = rune(s[i])
		}
		return out
	}
	return []rune(s)
}

// binKey is the character-set code of r that a _bin collation orders by: the encoded bytes as a
// big-endian number (utf16: the code point — MySQL's utf16_bin orders by code point, not code unit).
func (c *coll) binKey(r rune) int64 {
	if c.Binary || c.CS == "utf16" {
		return int64(r)
	}
	b := []byte(string(r))
	enc, ok := c.Enc.EncodeRune(b[:len(b):len(b)])
	if !ok {
		return -1
	}
	var k int64
	for _, x := range enc {
		k = k<<8 | int64(x)
	}
	return k
}

func sign(x int) int {
	switch {
	case x < 0:
		return -1
	case x > 0:
		return 1
	}
	return 0
}

// binRef is the reference order of a _bin collation: character by character by binKey, a proper
// prefix first.
func (c *coll) binRef(a, b string) int {
	ra, rb := c.runes(a), c.runes(b)
	for i := 0; i < len(ra) && i < len(rb); i++ {
		ka, kb := c.binKey(ra[i]), c.binKey(rb[i])
		if ka != kb {
			if ka < kb {
				return -1
			}
			return 1
		}
	}
	return sign(len(ra) - len(rb))
}

// ---------------------------------------------------------------------------------------------
// case pairs

// ciLetters is the conservative set of (upper, lower) pairs that every case-insensitive MySQL
// collation equates when its character set holds both: basic Latin, Latin-1 letters, Latin
// Extended-A, basic Greek and Cyrillic.
func ciLetters() [][2]rune {
	var out [][2]rune
	for r := rune('A'); r <= 'Z'; r++ {
		out = append(out, [2]rune{r, r + 0x20})
	}
	for r := rune(0xC0); r <= 0xDE; r++ {
		if r != 0xD7 {
			out = append(out, [2]rune{r, r + 0x20})
		}
	}
	for r := rune(0x100); r <= 0x136; r += 2 {
		if r != 0x130 {
			out = append(out, [2]rune{r, r + 1})
		}
	}
	for r := rune(0x139); r <= 0x147; r += 2 {
		out = append(out, [2]rune{r, r + 1})
	}
	for r := rune(0x14A); r <= 0x176; r += 2 {
		out = append(out, [2]rune{r, r + 1})
	}
	out = append(out, [2]rune{0x178, 0xFF})
	for r := rune(0x179); r <= 0x17D; r += 2 {
		out = append(out, [2]rune{r, r + 1})
	}
	for r := rune(0x391); r <= 0x3A9; r++ {
		if r != 0x3A2 {
			out = append(out, [2]rune{r, r + 0x20})
		}
	}
	for r := rune(0x410); r <= 0x42F; r++ {
		out = append(out, [2]rune{r, r + 0x20})
	}
	for r := rune(0x400); r <= 0x40F; r++ {
		out = append(out, [2]rune{r, r + 0x50})
	}
	return out
}

var ciLower = func() map[rune]rune {
	m := map[rune]rune{}
	for _, p := range ciLetters() {
		m[p[0]] = p[1]
	}
	return m
}()

// unicodeCharset: utf8mb3/utf8mb4/utf16/utf32 collations are UCA- or general_ci-based; the 8-bit
// code pages carry MySQL's legacy per-byte sort tables.
func (c *coll) unicodeCharset() bool {
	switch c.CS {
	case "utf8mb3", "utf8mb4", "utf16", "utf32":
		return true
	}
	return false
}

// ciExempt lists what MySQL itself keeps apart (the weight tables of /repo are extracted from
// MySQL, so these are MySQL semantics, not defects of go-mysql-server):
//   - Turkish tailorings pair I with dotless ı and İ with i, so every letter built on I differs
//     from its lower case;
//   - the 8-bit code pages fold only ASCII and (where they share Latin-1's byte layout) the
//     Latin-1 letter block reliably: their legacy tables leave e.g. Œ/œ Š/š Ž/ž Ÿ/ÿ (cp1252
//     extras in latin1_*, dec8), Ą/ą (cp1257_lithuanian_ci) and Ø/ø (latin7_general_ci) apart,
//     so nothing beyond that is demanded of them;
//   - latin7_general_ci ranks T and t differently (MySQL's latin7.xml has weights E3 / E2).
func (c *coll) ciExempt(up, lo rune) bool {
	if strings.Contains(c.Name, "turkish") || strings.Contains(c.Name, "_tr_") {
		switch up {
		case 'I', 0xCC, 0xCD, 0xCE, 0xCF, 0x128, 0x12A, 0x12C, 0x12E:
			return true
		}
	}
	if !c.unicodeCharset() && up > 0x7F {
		// Latin-1 letter block: only where the code page shares Latin-1's layout (latin1, dec8, ...);
		// e.g. latin7 (ISO 8859-13) has Ø/ø at A8/B8 with unrelated legacy weights
		if up > 0xFF || c.binKey(up) != int64(up) || c.binKey(lo) != int64(lo) {
			return true
		}
	}
	if c.Name == "latin7_general_ci" && up == 'T' {
		return true
	}
	return false
}

// ciFold lower-cases exactly the conservative letters of s.
func (c *coll) ciFold(s string) string {
	if c.Binary {
		return s
	}
	var sb strings.Builder
	for _, r := range s {
		if lo, ok := ciLower[r]; ok && !c.ciExempt(r, lo) && c.encodable(lo) {
			sb.WriteRune(lo)
		} else {
			sb.WriteRune(r)
		}
	}
	return sb.String()
}

// ---------------------------------------------------------------------------------------------
// the three observations of the implementation

type obs struct {
	c          *coll
	r          *core.Run
	curA, curB string
}

type witness struct {
	Part      string   `json:"part"`
	Collation string   `json:"collation"`
	S         []string `json:"s,omitempty"`    // the strings: hex of their utf8 bytes
	Text      string   `json:"text,omitempty"` // the strings, readable
	Stmt      string   `json:"stmt,omitempty"`
	// Whole: the violation is a fact about the whole part (sorted chain, ranking), replayed by
	// re-running the part at this tier; otherwise the pair / triple alone is replayed.
	Whole string `json:"whole,omitempty"`
}

func hx(s string) string { return hex.EncodeToString([]byte(s)) }

func unhx(s string) string { b, _ := hex.DecodeString(s); return string(b) }

func (o *obs) wit(part string, ss ...string) witness {
	w := witness{Part: part, Collation: o.c.Name}
	var q []string
	for _, s := range ss {
		w.S = append(w.S, hx(s))
		q = append(q, strconv.QuoteToASCII(s))
	}
	w.Text = strings.Join(q, " , ")
	return w
}

func topFrame(stack string) string {
	lines := strings.Split(stack, "\n")
	start := 0
	for i, l := range lines {
		if strings.HasPrefix(l, "panic(") {
			start = i + 1
		}
	}
	for i := start; i < len(lines); i++ {
		l := lines[i]
		if l == "" || strings.HasPrefix(l, "\t") || strings.HasPrefix(l, "goroutine ") {
			continue
		}
		if strings.HasPrefix(l, "runtime.") || strings.HasPrefix(l, "runtime/") || strings.HasPrefix(l, "panic(") || strings.HasPrefix(l, "verif/mc/") || strings.HasPrefix(l, "reflect.") {
			continue
		}
		if j := strings.LastIndex(l, "("); j > 0 {
			l = l[:j]
		}
		return l
	}
	return "unknown"
}

func try(f func()) (pv any, frame string) {
	defer func() {
		if x := recover(); x != nil {
			pv = x
			frame = topFrame(string(debug.Stack()))
		}
	}()
	f()
	return nil, ""
}

// violate records a violation of one of the general laws (root cause in shared code: subject =
// family) or of a table law (subject = collation).
func (o *obs) violate(part, clause, kind string, perTable bool, w witness, observed, expected string) {
	subj := map[string]string{"family": o.c.Family}
	if perTable {
		subj["collation"] = o.c.Name
	}
	o.r.Violate(core.Violation{Check: part, Clause: clause, Kind: kind, Subject: subj, Witness: core.J(w), Observed: observed, Expected: expected})
}

// cmp is StringType.Compare; ok=false: an error was reported. Panics are contained per part by
// guard (a recover per call would dominate the cost of the exhaustive parts); cmp remembers its
// operands so that guard can name the pair.
func (o *obs) cmp(part, a, b string) (int, bool) {
	o.curA, o.curB = a, b
	v, err := o.c.Typ.Compare(nil, a, b)
	if err != nil {
		o.violate(part, "compare-defined", "error", false, o.wit(part, a, b), "error: "+err.Error(), "-1, 0 or 1")
		return 0, false
	}
	return sign(v), true
}

// guard runs one part for one collation and turns a panic inside it into a violation whose
// witness is the pair being compared.
func (o *obs) guard(part string, f func()) {
	pv, frame := try(f)
	if pv != nil {
		o.r.Violate(core.Violation{Check: part, Clause: "no-panic", Kind: "panic", Subject: map[string]string{"fn": "Compare", "frame": frame},
			Witness: core.J(o.wit(part, o.curA, o.curB)), Observed: fmt.Sprint(pv), Expected: "-1, 0 or 1"})
	}
}

// weight returns the weight string and the hash of s.
func (o *obs) weight(part, s string) (ws string, h uint64, ok bool) {
	var buf bytes.Buffer
	var err1, err2 error
	pv, frame := try(func() {
		err1 = o.c.ID.WriteWeightString(&buf, s)
		h, err2 = o.c.ID.HashToUint(s)
	})
	if pv != nil {
		o.r.Violate(core.Violation{Check: part, Clause: "no-panic", Kind: "panic", Subject: map[string]string{"fn": "WriteWeightString/HashToUint", "frame": frame},
			Witness: core.J(o.wit(part, s)), Observed: fmt.Sprint(pv), Expected: "a weight string and a hash"})
		return "", 0, false
	}
	if err1 != nil || err2 != nil {
		o.violate(part, "weight-defined", "error", false, o.wit(part, s), fmt.Sprintf("errors: %v / %v", err1, err2), "a weight string and a hash")
		return "", 0, false
	}
	return buf.String(), h, true
}

// coherent checks Compare==0 <=> equal weight strings <=> equal hashes for one pair.
func (o *obs) coherent(part, a, b string, cab int, wa, wb string, ha, hb uint64) {
	eqW, eqH := wa == wb, ha == hb
	if (cab == 0) != eqW {
		o.violate(part, "compare-equal-iff-weights-equal", "incoherent", false, o.wit(part, a, b),
			fmt.Sprintf("Compare=%d, weight strings equal=%v (%x / %x)", cab, eqW, wa, wb), "Compare=0 exactly when the weight strings are equal")
	}
	if eqW != eqH {
		o.violate(part, "weights-equal-iff-hash-equal", "incoherent", false, o.wit(part, a, b),
			fmt.Sprintf("weight strings equal=%v, hashes equal=%v", eqW, eqH), "equal weight strings exactly when hashes are equal")
	}
}

// ---------------------------------------------------------------------------------------------
// part chain

func checkChain(r *core.Run, c coll, thorough bool) {
	o := &obs{c: &c, r: r}
	o.guard("chain", func() { checkChainBody(o, thorough) })
}

func checkChainBody(o *obs, thorough bool) {
	r, c := o.r, *o.c
	const part = "chain"
	max := rune(0xFFFF)
	if thorough {
		max = 0x10FFFF
	}
	var cps []rune
	for cp := rune(0); cp <= max; cp++ {
		if c.encodable(cp) {
			cps = append(cps, cp)
		}
	}
	n := len(cps)
	ws := make([]string, n)
	hs := make([]uint64, n)
	for i, cp := range cps {
		s := c.str(cp)
		var ok bool
		if ws[i], hs[i], ok = o.weight(part, s); !ok {
			return
		}
		v, ok := o.cmp(part, s, s)
		if !ok {
			return
		}
		if v != 0 {
			o.violate(part, "reflexive", "not-reflexive", false, o.wit(part, s), fmt.Sprintf("Compare(x,x)=%d", v), "0")
		}
	}
	r.EvalN(int64(n))

	// sort by Compare (ties keep code point order), then verify the chain link by link
	idx := make([]int, n)
	for i := range idx {
		idx[i] = i
	}
	failed := false
	var ncmp int64
	sort.SliceStable(idx, func(x, y int) bool {
		if failed {
			return false
		}
		ncmp++
		v, ok := o.cmp(part, c.str(cps[idx[x]]), c.str(cps[idx[y]]))
		if !ok {
			failed = true
		}
		return v < 0
	})
	r.EvalN(ncmp)
	if failed {
		return
	}
	class := make([]int, n) // class number of element idx[k]
	classOfWeight := map[string]int{}
	repOfWeight := map[string]int{}
	nclass := 0
	classGrown := false
	for k := 0; k < n; k++ {
		i := idx[k]
		if k > 0 {
			p := idx[k-1]
			a, b := c.str(cps[p]), c.str(cps[i])
			ab, ok1 := o.cmp(part, a, b)
			ba, ok2 := o.cmp(part, b, a)
			if !ok1 || !ok2 {
				return
			}
			r.EvalN(2)
			if ab != -ba {
				o.violate(part, "antisymmetric", "asymmetric-sign", false, o.wit(part, a, b), fmt.Sprintf("Compare(a,b)=%d Compare(b,a)=%d", ab, ba), "opposite signs")
			}
			if ab > 0 {
				// a sort by a transitive total comparison cannot leave a descending link
				w := o.wit(part, a, b)
				w.Whole = r.Tier
				o.violate(part, "transitive", "sorted-chain-descends", false, w, "after sorting with Compare an adjacent pair compares as a > b", "a <= b")
			}
			o.coherent(part, a, b, ab, ws[p], ws[i], hs[p], hs[i])
			if ab != 0 {
				nclass++
				classGrown = false
			} else if !classGrown {
				// one non-trivial case per class of distinct code points that the collation equates
				classGrown = true
				r.NonTrivial(c.Name + "/chain/" + strconv.Itoa(int(cps[p])))
			}
		}
		class[k] = nclass
		if cl, seen := classOfWeight[ws[i]]; seen && cl != nclass {
			j := repOfWeight[ws[i]]
			a, b := c.str(cps[j]), c.str(cps[i])
			ab, _ := o.cmp(part, a, b)
			o.violate(part, "compare-equal-iff-weights-equal", "incoherent", false, o.wit(part, a, b),
				fmt.Sprintf("equal weight strings but Compare=%d (different classes of the sorted chain)", ab), "Compare=0 exactly when the weight strings are equal")
		} else if !seen {
			classOfWeight[ws[i]] = nclass
			repOfWeight[ws[i]] = i
		}
	}
	r.Count("chain_code_points", int64(n))
	r.Count("chain_classes", int64(nclass+1))
	r.Max("chain_max_code_points", int64(n))
	if nclass+1 < n {
		r.Outcome("chain:collation-equates-distinct-code-points")
	} else {
		r.Outcome("chain:injective")
	}

	// _bin: the order is the character-set code order
	if c.Family == "bin" || c.Family == "binary" {
		type kv struct {
			cp  rune
			key int64
		}
		ks := make([]kv, n)
		for i, cp := range cps {
			ks[i] = kv{cp, c.binKey(cp)}
		}
		sort.Slice(ks, func(i, j int) bool { return ks[i].key < ks[j].key })
		for i := 1; i < n; i++ {
			a, b := c.str(ks[i-1].cp), c.str(ks[i].cp)
			v, ok := o.cmp(part, a, b)
			if !ok {
				return
			}
			r.Eval()
			if v >= 0 {
				o.violate(part, "bin-orders-by-code-point", "wrong-order", true, o.wit(part, a, b), fmt.Sprintf("Compare=%d for consecutive codes %#x < %#x", v, ks[i-1].key, ks[i].key), "-1")
			}
		}
	}

	// case pairs: every pair the character set's own case mapping produces is compared and
	// counted; only the conservative letter set must be equal under a _ci collation.
	if !c.Binary {
		var folded, unfolded int64
		for _, cp := range cps {
			lo := c.Enc.LowercaseRune(cp)
			if lo == cp || !c.encodable(lo) {
				continue
			}
			v, ok := o.cmp(part, c.str(cp), c.str(lo))
			if !ok {
				return
			}
			r.Eval()
			if v == 0 {
				folded++
			} else {
				unfolded++
			}
		}
		r.Count("case_pairs_equal_"+c.Family, folded)
		r.Count("case_pairs_distinct_"+c.Family, unfolded)
		for _, p := range ciLetters() {
			if !c.encodable(p[0]) || !c.encodable(p[1]) {
				continue
			}
			a, b := c.str(p[0]), c.str(p[1])
			v, ok := o.cmp(part, a, b)
			if !ok {
				return
			}
			r.Eval()
			switch c.Family {
			case "ci":
				if v != 0 && !c.ciExempt(p[0], p[1]) {
					o.violate(part, "ci-equates-case-variants", "case-variants-differ", true, o.wit(part, a, b), fmt.Sprintf("Compare=%d", v), "0")
				}
				r.NonTrivial(c.Name + "/ci/" + strconv.Itoa(int(p[0])))
			case "cs", "bin":
				if v == 0 {
					o.violate(part, "cs-separates-case-variants", "case-variants-equal", true, o.wit(part, a, b), "Compare=0", "not 0")
				}
			}
		}
	}
}

// ---------------------------------------------------------------------------------------------
// alphabets of part pairs / sql

var runes12 = []rune{' ', 'a', 'A', 0xE1, 'b', 'c', 'C', 'h', 'H', 'l', 'L', 'z'}
var runes5 = []rune{' ', 'a', 'A', 'c', 'h'}

func singles() []rune {
	var out []rune
	add := func(lo, hi rune) {
		for r := lo; r <= hi; r++ {
			out = append(out, r)
		}
	}
	out = append(out, 0x00, 0x09)
	add(0x20, 0x7E)
	add(0xA0, 0xFF)
	add(0x100, 0x17F)
	add(0x1C4, 0x1CC) // DŽ Dž dž LJ Lj lj NJ Nj nj
	add(0x300, 0x30F) // combining marks
	add(0x391, 0x3A9)
	add(0x3B1, 0x3C9)
	add(0x410, 0x41F)
	add(0x430, 0x43F)
	out = append(out, 0x1E9E, 0x2126, 0x212A, 0x212B, 0xFB01, 0xFF21, 0xFF41, 0x3042, 0x30A2, 0x4E00, 0xAC00, 0xFFFD, 0xFFFF, 0x10000, 0x10400, 0x10428, 0x1F600, 0x10FFFF)
	return out
}

func words(al []rune, n int) []string {
	out := []string{""}
	prev := []string{""}
	for k := 0; k < n; k++ {
		var next []string
		for _, p := range prev {
			for _, r := range al {
				next = append(next, p+string(r))
			}
		}
		out = append(out, next...)
		prev = next
	}
	return out
}

// shortStrings: the 157 strings of length 0..2 over the 12-rune alphabet, restricted to the
// characters the collation's character set holds.
func (c *coll) alpha(al []rune) []rune {
	var out []rune
	for _, r := range al {
		if c.encodable(r) {
			out = append(out, r)
		}
	}
	return out
}

func (c *coll) elements(thorough bool) []string {
	seen := map[string]bool{}
	var out []string
	add := func(s string) {
		if !seen[s] {
			seen[s] = true
			out = append(out, s)
		}
	}
	for _, r := range singles() {
		if c.encodable(r) {
			add(c.str(r))
		}
	}
	for _, s := range words(c.alpha(runes12), 2) {
		add(s)
	}
	if thorough {
		for _, s := range words(c.alpha(runes12), 3) {
			add(s)
		}
	} else {
		for _, s := range words(c.alpha(runes5), 3) {
			add(s)
		}
	}
	return out
}

// ---------------------------------------------------------------------------------------------
// part pairs

func checkPairs(r *core.Run, c coll, thorough bool) {
	o := &obs{c: &c, r: r}
	o.guard("pairs", func() { checkPairsBody(o, thorough) })
}

func checkPairsBody(o *obs, thorough bool) {
	r, c := o.r, *o.c
	const part = "pairs"
	E := c.elements(thorough)
	n := len(E)
	r.Max("pairs_elements", int64(n))
	ws := make([]string, n)
	hs := make([]uint64, n)
	for i, s := range E {
		var ok bool
		if ws[i], hs[i], ok = o.weight(part, s); !ok {
			return
		}
	}
	M := make([]int8, n*n)
	for i := 0; i < n; i++ {
		if r.Expired() {
			r.Capped("time budget reached in part pairs")
			return
		}
		for j := 0; j < n; j++ {
			v, ok := o.cmp(part, E[i], E[j])
			if !ok {
				return
			}
			M[i*n+j] = int8(v)
		}
	}
	r.EvalN(int64(n) * int64(n))
	sorter := c.ID.Sorter()
	firstWeight := func(s string) (int32, bool) {
		rs := c.runes(s)
		if len(rs) == 0 {
			return 0, false
		}
		return sorter(rs[0]), true
	}
	rank := make([]int, n)
	var afterFirst, nEqual int64
	for i := 0; i < n; i++ {
		if M[i*n+i] != 0 {
			o.violate(part, "reflexive", "not-reflexive", false, o.wit(part, E[i]), fmt.Sprintf("Compare(x,x)=%d", M[i*n+i]), "0")
		}
		for j := 0; j < n; j++ {
			if M[i*n+j] > 0 {
				rank[i]++
			}
			if j <= i {
				continue
			}
			ab, ba := int(M[i*n+j]), int(M[j*n+i])
			if ab != -ba {
				o.violate(part, "antisymmetric", "asymmetric-sign", false, o.wit(part, E[i], E[j]), fmt.Sprintf("Compare(a,b)=%d Compare(b,a)=%d", ab, ba), "opposite signs")
			}
			o.coherent(part, E[i], E[j], ab, ws[i], ws[j], hs[i], hs[j])
			if ab == 0 {
				nEqual++
				r.NonTrivial(c.Name + "/pairs/" + hx(E[i]) + "/" + hx(E[j]))
				if len(c.runes(E[i])) >= 2 && r.WantSample() {
					r.Sample(map[string]any{"part": "pairs", "collation": c.Name, "a": E[i], "b": E[j], "compare": ab,
						"weight_strings_equal": ws[i] == ws[j], "hashes_equal": hs[i] == hs[j]})
				}
			} else if fa, ok1 := firstWeight(E[i]); ok1 {
				if fb, ok2 := firstWeight(E[j]); ok2 && fa == fb {
					afterFirst++
				}
			}
			if c.Family == "bin" || c.Family == "binary" {
				if want := c.binRef(E[i], E[j]); ab != want {
					o.violate(part, "bin-orders-by-code-point", "wrong-order", true, o.wit(part, E[i], E[j]), fmt.Sprintf("Compare=%d", ab), strconv.Itoa(want))
				}
			}
		}
	}
	r.Count("pairs_decided_after_first_character", afterFirst)
	r.Count("pairs_distinct_strings_equated_"+c.Family, nEqual)
	r.Count("pairs_unordered_"+c.Family, int64(n)*int64(n-1)/2)
	// transitivity of ALL triples: a complete sign matrix is a total preorder exactly when it is
	// induced by the rank function rank(i) = #{j : i > j}.
	bad := false
	for i := 0; i < n && !bad; i++ {
		for j := 0; j < n; j++ {
			if int(M[i*n+j]) != sign(rank[i]-rank[j]) {
				bad = true
				break
			}
		}
	}
	if bad {
		reported := false
	search:
		for i := 0; i < n; i++ {
			for j := 0; j < n; j++ {
				if M[i*n+j] > 0 {
					continue
				}
				for k := 0; k < n; k++ {
					// i <= j and j <= k must give i <= k, with equality only if both are equalities
					if M[j*n+k] > 0 {
						continue
					}
					want := int8(-1)
					if M[i*n+j] == 0 && M[j*n+k] == 0 {
						want = 0
					}
					if M[i*n+k] != want {
						o.violate(part, "transitive", "intransitive-triple", false, o.wit(part, E[i], E[j], E[k]),
							fmt.Sprintf("Compare(a,b)=%d Compare(b,c)=%d Compare(a,c)=%d", M[i*n+j], M[j*n+k], M[i*n+k]), fmt.Sprintf("Compare(a,c)=%d", want))
						reported = true
						break search
					}
				}
			}
		}
		if !reported {
			w := o.wit(part)
			w.Whole = r.Tier
			o.violate(part, "transitive", "not-a-ranking", false, w, "the comparison matrix is not induced by a ranking", "a total preorder")
		}
	}
	r.Count("triples_decided_by_rank_criterion", int64(n)*int64(n)*int64(n))

	// _ci: every element equals its case-folded form (conservative letters only)
	if c.Family == "ci" {
		for _, s := range E {
			f := c.ciFold(s)
			if f == s {
				continue
			}
			v, ok := o.cmp(part, s, f)
			if !ok {
				return
			}
			r.Eval()
			if v != 0 {
				o.violate(part, "ci-equates-case-variants", "case-variants-differ", true, o.wit(part, s, f), fmt.Sprintf("Compare=%d", v), "0")
			}
		}
	}
}

// ---------------------------------------------------------------------------------------------
// part sql

func sqlLit(s string) string {
	var sb strings.Builder
	sb.WriteByte('\'')
	for i := 0; i < len(s); i++ {
		switch s[i] {
		case '\'':
			sb.WriteString("''")
		case '\\':
			sb.WriteString("\\\\")
		default:
			sb.WriteByte(s[i])
		}
	}
	sb.WriteByte('\'')
	return sb.String()
}

func asInt(v any) (int64, bool) {
	switch x := v.(type) {
	case bool:
		if x {
			return 1, true
		}
		return 0, true
	case int:
		return int64(x), true
	case int8:
		return int64(x), true
	case int16:
		return int64(x), true
	case int32:
		return int64(x), true
	case int64:
		return x, true
	case uint8:
		return int64(x), true
	case uint16:
		return int64(x), true
	case uint32:
		return int64(x), true
	case uint64:
		return int64(x), true
	}
	return 0, false
}

type sqlCtx struct {
	o *obs
	s *eng.Session
	S []string // the strings, id = index
	M []int8   // Compare matrix
}

func (q *sqlCtx) violate(op, route, clause, kind, stmt string, a, b string, observed, expected string) {
	w := q.o.wit("sql", a, b)
	w.Stmt = stmt
	q.o.r.Violate(core.Violation{Check: "sql", Clause: clause, Kind: kind,
		Subject: map[string]string{"op": op, "route": route, "family": q.o.c.Family},
		Witness: core.J(w), Observed: observed, Expected: expected})
}

// exec runs a statement of the sql part; a panic or an error where a result is required is a
// violation (ok=false).
func (q *sqlCtx) exec(op, route, stmt string) (*eng.Result, bool) {
	rs := q.s.Exec(stmt)
	if rs.Panic != nil {
		w := q.o.wit("sql")
		w.Stmt = stmt
		q.o.r.Violate(core.Violation{Check: "sql", Clause: "no-panic", Kind: "panic",
			Subject: map[string]string{"op": op, "route": route, "frame": topFrame(rs.Stack)},
			Witness: core.J(w), Observed: fmt.Sprint(rs.Panic), Expected: "a result"})
		return nil, false
	}
	if rs.Err != nil {
		q.violate(op, route, "operator-evaluates", "unexpected-error", stmt, "", "", "error["+eng.ErrClass(rs.Err)+"]: "+rs.Err.Error(), "a result")
		return nil, false
	}
	return rs, true
}

func checkSQL(r *core.Run, c coll, thorough bool) {
	o := &obs{c: &c, r: r}
	o.guard("sql", func() { checkSQLBody(o, thorough) })
}

func checkSQLBody(o *obs, thorough bool) {
	r, c := o.r, *o.c
	S := words(c.alpha(runes12), 2)
	n := len(S)
	M := make([]int8, n*n)
	for i := 0; i < n; i++ {
		for j := 0; j < n; j++ {
			v, ok := o.cmp("sql", S[i], S[j])
			if !ok {
				return
			}
			M[i*n+j] = int8(v)
		}
	}
	e := eng.New()
	s := e.NewSession("root")
	q := &sqlCtx{o: o, s: s, S: S, M: M}
	colType := "VARCHAR(8) CHARACTER SET " + c.CS + " COLLATE " + c.Name
	if c.Binary {
		colType = "VARBINARY(8)"
	}
	create := "CREATE TABLE s (id INT PRIMARY KEY, a " + colType + " NOT NULL)"
	if rs := s.Exec(create); rs.Err != nil || rs.Panic != nil {
		if rs.Panic != nil {
			q.exec("create-table", "ddl", create)
			return
		}
		r.Count("skipped_unsupported", 1)
		r.Outcome("sql:create-table-rejected-" + eng.ErrClass(rs.Err))
		return
	}
	var ins strings.Builder
	ins.WriteString("INSERT INTO s VALUES ")
	for i, x := range S {
		if i > 0 {
			ins.WriteByte(',')
		}
		fmt.Fprintf(&ins, "(%d,%s)", i, sqlLit(x))
	}
	if _, ok := q.exec("insert", "dml", ins.String()); !ok {
		return
	}
	// the stored strings must be the strings we compare with the API
	if rs, ok := q.exec("select", "scan", "SELECT id, a FROM s"); ok {
		for _, row := range rs.Rows {
			id, _ := asInt(row[0])
			var got string
			switch v := row[1].(type) {
			case string:
				got = v
			case []byte:
				got = string(v)
			}
			if id < 0 || int(id) >= n || got != S[id] {
				r.Count("skipped_unsupported", 1)
				r.Outcome("sql:stored-text-differs")
				return
			}
		}
	}
	r.Outcome("sql:table-ready")

	// 1. column against column, all ordered pairs
	stmt := "SELECT x.id, y.id, x.a = y.a, x.a < y.a, STRCMP(x.a, y.a), x.a LIKE y.a, x.a IN (y.a, y.a) FROM s x CROSS JOIN s y"
	if rs, ok := q.exec("pairwise", "columns", stmt); ok {
		if len(rs.Rows) != n*n {
			q.violate("cross-join", "columns", "all-pairs-returned", "wrong-row-count", stmt, "", "", strconv.Itoa(len(rs.Rows)), strconv.Itoa(n*n))
		}
		for _, row := range rs.Rows {
			i64, _ := asInt(row[0])
			j64, _ := asInt(row[1])
			i, j := int(i64), int(j64)
			if i < 0 || i >= n || j < 0 || j >= n {
				continue
			}
			r.Eval()
			m := int64(M[i*n+j])
			check := func(op string, v any, want int64) {
				got, ok := asInt(v)
				if !ok || got != want {
					q.violate(op, "columns", "operator-agrees-with-compare", "wrong-value", stmt, S[i], S[j], eng.FormatValue(v), strconv.FormatInt(want, 10))
				}
			}
			b2i := func(b bool) int64 {
				if b {
					return 1
				}
				return 0
			}
			check("=", row[2], b2i(m == 0))
			check("<", row[3], b2i(m < 0))
			check("strcmp", row[4], m)
			check("like", row[5], b2i(m == 0))
			check("in", row[6], b2i(m == 0))
			if m == 0 && i != j {
				r.NonTrivial(c.Name + "/sql/" + strconv.Itoa(i) + "/" + strconv.Itoa(j))
			}
		}
	}

	// 2. column against literal: = , IN (literal list) , LIKE , STRCMP
	for j := 0; j < n; j++ {
		if !thorough && !quickLiteral(S[j]) {
			continue
		}
		lit := sqlLit(S[j])
		stmt := "SELECT id, a = " + lit + ", a IN (" + lit + ", '~~~'), a LIKE " + lit + ", STRCMP(a, " + lit + ") FROM s"
		rs, ok := q.exec("literal", "literal", stmt)
		if !ok {
			break
		}
		for _, row := range rs.Rows {
			i64, _ := asInt(row[0])
			i := int(i64)
			if i < 0 || i >= n {
				continue
			}
			r.Eval()
			m := int64(M[i*n+j])
			eq := int64(0)
			if m == 0 {
				eq = 1
			}
			for k, op := range []string{"=", "in-list", "like", "strcmp"} {
				want := eq
				if op == "strcmp" {
					want = m
				}
				got, ok := asInt(row[k+1])
				if !ok || got != want {
					shape := "other"
					if op != "strcmp" && want == 1 && got == 0 && S[i] != S[j] {
						shape = "misses-equal-but-not-identical-strings"
					}
					w := o.wit("sql", S[i], S[j])
					w.Stmt = stmt
					r.Violate(core.Violation{Check: "sql", Clause: "operator-agrees-with-compare", Kind: "wrong-value",
						Subject: map[string]string{"op": op, "route": "literal", "family": c.Family, "shape": shape},
						Witness: core.J(w), Observed: eng.FormatValue(row[k+1]), Expected: strconv.FormatInt(want, 10)})
				}
			}
		}
	}

	// 2b. IN (literal list) as a filter (the analyzer turns it into a hashed membership test)
	for j := 0; j < n; j++ {
		if !thorough && !quickLiteral(S[j]) {
			continue
		}
		stmt := "SELECT id FROM s WHERE a IN (" + sqlLit(S[j]) + ", '~~~')"
		rs, ok := q.exec("in-list-filter", "literal", stmt)
		if !ok {
			break
		}
		r.Eval()
		got := map[int]bool{}
		for _, row := range rs.Rows {
			i64, _ := asInt(row[0])
			got[int(i64)] = true
		}
		for i := 0; i < n; i++ {
			want := M[i*n+j] == 0
			if got[i] == want {
				continue
			}
			shape, kind := "other", "extra-rows"
			if want {
				kind = "missing-rows"
				if S[i] != S[j] {
					shape = "misses-equal-but-not-identical-strings"
				}
			}
			w := o.wit("sql", S[i], S[j])
			w.Stmt = stmt
			r.Violate(core.Violation{Check: "sql", Clause: "operator-agrees-with-compare", Kind: kind,
				Subject: map[string]string{"op": "in-list-filter", "route": "literal", "family": c.Family, "shape": shape},
				Witness: core.J(w), Observed: fmt.Sprintf("row selected=%v", got[i]), Expected: fmt.Sprintf("row selected=%v (Compare=%d)", want, M[i*n+j])})
		}
	}

	// 3. hashing routes: equi-join, GROUP BY, COUNT(DISTINCT); 4. ORDER BY
	wantPairs := map[[2]int]bool{}
	for i := 0; i < n; i++ {
		for j := 0; j < n; j++ {
			if M[i*n+j] == 0 {
				wantPairs[[2]int{i, j}] = true
			}
		}
	}
	stmt = "SELECT x.id, y.id FROM s x JOIN s y ON x.a = y.a"
	if rs, ok := q.exec("join", "join", stmt); ok {
		r.Eval()
		got := map[[2]int]bool{}
		for _, row := range rs.Rows {
			i, _ := asInt(row[0])
			j, _ := asInt(row[1])
			got[[2]int{int(i), int(j)}] = true
		}
		for p := range wantPairs {
			if !got[p] {
				q.violate("join", "join", "operator-agrees-with-compare", "missing-rows", stmt, S[p[0]], S[p[1]], "pair not joined", "joined (Compare=0)")
			}
		}
		for p := range got {
			if !wantPairs[p] {
				q.violate("join", "join", "operator-agrees-with-compare", "extra-rows", stmt, S[p[0]], S[p[1]], "pair joined", "not joined (Compare<>0)")
			}
		}
		if len(rs.Rows) != len(got) {
			q.violate("join", "join", "operator-agrees-with-compare", "duplicate-rows", stmt, "", "", strconv.Itoa(len(rs.Rows)), strconv.Itoa(len(got)))
		}
	}
	// classes of Compare
	classSize := []int{}
	rep := make([]int, n)
	for i := 0; i < n; i++ {
		rep[i] = -1
		for j := 0; j < i; j++ {
			if M[i*n+j] == 0 {
				rep[i] = rep[j]
				break
			}
		}
		if rep[i] < 0 {
			rep[i] = len(classSize)
			classSize = append(classSize, 0)
		}
		classSize[rep[i]]++
	}
	wantSizes := append([]int{}, classSize...)
	sort.Ints(wantSizes)
	stmt = "SELECT COUNT(*) FROM s GROUP BY a"
	if rs, ok := q.exec("group-by", "group-by", stmt); ok {
		r.Eval()
		var got []int
		for _, row := range rs.Rows {
			v, _ := asInt(row[0])
			got = append(got, int(v))
		}
		sort.Ints(got)
		if fmt.Sprint(got) != fmt.Sprint(wantSizes) {
			q.violate("group-by", "group-by", "operator-agrees-with-compare", "wrong-groups", stmt, "", "", fmt.Sprintf("%d groups, sizes %v", len(got), got), fmt.Sprintf("%d groups, sizes %v", len(wantSizes), wantSizes))
		}
	}
	stmt = "SELECT COUNT(DISTINCT a) FROM s"
	if rs, ok := q.exec("count-distinct", "distinct", stmt); ok && len(rs.Rows) == 1 {
		r.Eval()
		if v, _ := asInt(rs.Rows[0][0]); int(v) != len(classSize) {
			q.violate("count-distinct", "distinct", "operator-agrees-with-compare", "wrong-value", stmt, "", "", strconv.FormatInt(v, 10), strconv.Itoa(len(classSize)))
		}
	}
	stmt = "SELECT DISTINCT a FROM s"
	if rs, ok := q.exec("distinct", "distinct", stmt); ok {
		r.Eval()
		if len(rs.Rows) != len(classSize) {
			q.violate("distinct", "distinct", "operator-agrees-with-compare", "wrong-row-count", stmt, "", "", strconv.Itoa(len(rs.Rows)), strconv.Itoa(len(classSize)))
		}
	}
	stmt = "SELECT id FROM s ORDER BY a, id"
	if rs, ok := q.exec("order-by", "order-by", stmt); ok {
		r.Eval()
		if len(rs.Rows) != n {
			q.violate("order-by", "order-by", "operator-agrees-with-compare", "wrong-row-count", stmt, "", "", strconv.Itoa(len(rs.Rows)), strconv.Itoa(n))
		}
		for k := 1; k < len(rs.Rows); k++ {
			p64, _ := asInt(rs.Rows[k-1][0])
			i64, _ := asInt(rs.Rows[k][0])
			p, i := int(p64), int(i64)
			if p < 0 || p >= n || i < 0 || i >= n {
				continue
			}
			if m := M[p*n+i]; m > 0 || (m == 0 && p > i) {
				q.violate("order-by", "order-by", "operator-agrees-with-compare", "wrong-order", stmt, S[p], S[i], fmt.Sprintf("row id %d before row id %d", p, i), "ascending by Compare, ties by id")
				break
			}
		}
	}
}

// quickLiteral: the literals of the quick tier: every string of length <= 1 and the two-character
// strings that start with a space or with 'a' (37 of 157); thorough uses all.
func quickLiteral(s string) bool {
	return len([]rune(s)) <= 1 || s[0] == ' ' || s[0] == 'a'
}

// ---------------------------------------------------------------------------------------------
// listed but unimplemented collations: refused or served, never a crash

func checkUnimplemented(r *core.Run, name string) {
	r.NonTrivial("unimplemented/" + name)
	stmts := [][2]string{
		{"create-table", "CREATE TABLE s (a VARCHAR(8) COLLATE " + name + ")"},
		{"collate-expr", "SELECT 'a' COLLATE " + name + " = 'A'"},
		{"collate-order", "SELECT 'a' COLLATE " + name + " < 'B'"},
		{"collate-like", "SELECT 'a' COLLATE " + name + " LIKE 'A'"},
		{"set-collation", "SET collation_connection = '" + name + "'"},
	}
	for _, st := range stmts {
		e := eng.New()
		s := e.NewSession("root")
		r.Eval()
		rs := s.Exec(st[1])
		if rs.Panic != nil {
			r.Outcome("unimplemented:" + st[0] + ":panic")
			r.Violate(core.Violation{Check: "unimplemented", Clause: "no-panic", Kind: "panic",
				Subject: map[string]string{"route": st[0], "frame": topFrame(rs.Stack)},
				Witness: core.J(witness{Part: "unimplemented", Collation: name, Stmt: st[1]}), Observed: fmt.Sprint(rs.Panic), Expected: "an error or a value"})
			continue
		}
		if rs.Err != nil {
			r.Outcome("unimplemented:" + st[0] + ":err-" + eng.ErrClass(rs.Err))
		} else {
			r.Outcome("unimplemented:" + st[0] + ":value")
		}
	}
}

// ---------------------------------------------------------------------------------------------

func run(r *core.Run) {
	impl, unimpl := collations()
	r.Info("collations_implemented", len(impl))
	r.Info("collations_listed_unimplemented", len(unimpl))
	var idx int64
	stopped := false
	stop := func(part string) bool {
		if !stopped && r.Expired() {
			stopped = true
			r.Capped("time budget reached in part " + part)
		}
		return stopped
	}
	for _, c := range impl {
		if r.Mine(idx) && !stop("sql") {
			r.AnnounceCase("sql " + c.Name)
			checkSQL(r, c, r.Thorough())
		}
		idx++
	}
	for _, name := range unimpl {
		if r.Mine(idx) && !stop("unimplemented") {
			checkUnimplemented(r, name)
		}
		idx++
	}
	for _, c := range impl {
		if r.Mine(idx) && !stop("pairs") {
			r.AnnounceCase("pairs " + c.Name)
			checkPairs(r, c, r.Thorough())
		}
		idx++
	}
	for _, c := range impl {
		if r.Mine(idx) && !stop("chain") {
			r.AnnounceCase("chain " + c.Name)
			checkChain(r, c, r.Thorough())
		}
		idx++
	}
}

// checkWitness re-evaluates every pairwise / triple law on the strings of a witness.
func checkWitness(r *core.Run, c coll, part string, ss []string) {
	o := &obs{c: &c, r: r}
	o.guard(part, func() {
		ws := make([]string, len(ss))
		hs := make([]uint64, len(ss))
		for i, x := range ss {
			var ok bool
			if ws[i], hs[i], ok = o.weight(part, x); !ok {
				return
			}
			if v, ok := o.cmp(part, x, x); ok && v != 0 {
				o.violate(part, "reflexive", "not-reflexive", false, o.wit(part, x), fmt.Sprintf("Compare(x,x)=%d", v), "0")
			}
		}
		if len(ss) < 2 {
			return
		}
		a, b := ss[0], ss[1]
		ab, ok1 := o.cmp(part, a, b)
		ba, ok2 := o.cmp(part, b, a)
		if !ok1 || !ok2 {
			return
		}
		if ab != -ba {
			o.violate(part, "antisymmetric", "asymmetric-sign", false, o.wit(part, a, b), fmt.Sprintf("Compare(a,b)=%d Compare(b,a)=%d", ab, ba), "opposite signs")
		}
		o.coherent(part, a, b, ab, ws[0], ws[1], hs[0], hs[1])
		if c.Family == "bin" || c.Family == "binary" {
			if want := c.binRef(a, b); ab != want {
				kind := fmt.Sprintf("Compare=%d", ab)
				if part == "chain" {
					kind = fmt.Sprintf("Compare=%d for consecutive codes", ab)
				}
				o.violate(part, "bin-orders-by-code-point", "wrong-order", true, o.wit(part, a, b), kind, strconv.Itoa(want))
			}
		}
		ra, rb := c.runes(a), c.runes(b)
		isPair := false
		if len(ra) == 1 && len(rb) == 1 {
			if lo, ok := ciLower[ra[0]]; ok && lo == rb[0] {
				isPair = true
				switch c.Family {
				case "ci":
					if ab != 0 && !c.ciExempt(ra[0], rb[0]) {
						o.violate(part, "ci-equates-case-variants", "case-variants-differ", true, o.wit(part, a, b), fmt.Sprintf("Compare=%d", ab), "0")
					}
				case "cs", "bin":
					if ab == 0 {
						o.violate(part, "cs-separates-case-variants", "case-variants-equal", true, o.wit(part, a, b), "Compare=0", "not 0")
					}
				}
			}
		}
		if !isPair && c.Family == "ci" && c.ciFold(a) == b && ab != 0 {
			o.violate(part, "ci-equates-case-variants", "case-variants-differ", true, o.wit(part, a, b), fmt.Sprintf("Compare=%d", ab), "0")
		}
		if len(ss) == 3 {
			cc := ss[2]
			bc, ok3 := o.cmp(part, b, cc)
			ac, ok4 := o.cmp(part, a, cc)
			if ok3 && ok4 && ab <= 0 && bc <= 0 {
				want := -1
				if ab == 0 && bc == 0 {
					want = 0
				}
				if ac != want {
					o.violate(part, "transitive", "intransitive-triple", false, o.wit(part, a, b, cc),
						fmt.Sprintf("Compare(a,b)=%d Compare(b,c)=%d Compare(a,c)=%d", ab, bc, ac), fmt.Sprintf("Compare(a,c)=%d", want))
				}
			}
		}
	})
}

func replay(r *core.Run, raw json.RawMessage) {
	var w witness
	if json.Unmarshal(raw, &w) != nil {
		return
	}
	if w.Part == "unimplemented" {
		checkUnimplemented(r, w.Collation)
		return
	}
	c, ok := lookup(w.Collation)
	if !ok {
		return
	}
	var ss []string
	for _, h := range w.S {
		ss = append(ss, unhx(h))
	}
	switch {
	case w.Part == "sql":
		checkSQL(r, c, true)
	case w.Whole != "" && w.Part == "pairs":
		checkPairs(r, c, w.Whole == "thorough")
	case w.Whole != "" && w.Part == "chain":
		checkChain(r, c, w.Whole == "thorough")
	case w.Part == "pairs" || w.Part == "chain":
		checkWitness(r, c, w.Part, ss)
	}
}

func init() {
	core.Register(&core.Prop{
		ID:    "C29",
		Level: "exploration",
		Rule: "every implemented collation (Sorter and charset encoder present; 183) x three parts. " +
			"chain: every code point of its character set (quick: U+0000..U+FFFF, thorough: all 1,112,064 scalars; binary: the 256 bytes) as a one-character string: reflexive, weight string and hash defined; the code points are sorted with Compare and every link of the sorted chain is checked (antisymmetric in sign, not descending, Compare=0 <=> equal weight string <=> equal hash, one weight string per Compare class); _bin/binary: consecutive character-set codes strictly ascending; every case pair of the character set's own case mapping is compared and counted, the pairs of a conservative letter set (Unicode character sets: A-Z, Latin-1 letters, Latin Extended-A, basic Greek and Cyrillic, Turkish I-letters exempt; 8-bit code pages: A-Z and the Latin-1 letters they hold at Latin-1's positions) must be equal under _ci and different under _cs/_bin. " +
			"pairs: all ordered pairs over ~440 one-character strings + all strings of length 0..2 over a 12-rune alphabet (space, a A á b c C h H l L z) + length 3 over 5 runes (thorough: over all 12), restricted to the character set: reflexive, antisymmetric, transitive for ALL triples (a complete sign matrix is a total preorder iff it is induced by rank(i)=#{j: i>j}), Compare=0 <=> weights equal <=> hashes equal, _bin = code order with a proper prefix first, _ci = case-folded form equal. " +
			"sql: table with a column of the collation holding the 157 short strings: = < STRCMP LIKE IN(columns) for all ordered pairs in one cross join; = IN(literal list) LIKE STRCMP against literals in the select list and IN(literal list) as a filter (quick: the 37 strings of length <=1 or starting with space or a; thorough: all 157); equi-join, GROUP BY, COUNT(DISTINCT), SELECT DISTINCT, ORDER BY: all must equal what Compare says. " +
			"103 listed but unimplemented collations x 5 statements: an error or a value, never a crash. " +
			"non-trivial = where coherence with hashing, _ci folding and the SQL equality routes can fail: pairs/sql: an unordered pair of DISTINCT strings that the collation equates (Compare=0); chain: a class of two or more code points that the collation equates (one case per class) and each _ci letter pair; each unimplemented collation",
		Assumptions: []string{
			"strings of a collation contain only characters its character set can hold (others all share one sentinel weight)",
			"the PAD SPACE attribute is not implemented by go-mysql-server at all ('a' < 'a ' everywhere); the property statement does not mention padding, so trailing spaces are compared like any character",
			"_bin order is the order of the character set's codes (encoded bytes; utf16: code points, as in MySQL)",
			"_ci must fold only a conservative letter set (case pairs outside it, e.g. scripts unknown to the collation's UCA version, are counted, not judged); the weight tables are extracted from MySQL, so what MySQL itself keeps apart is exempt: Turkish collations keep I-letters and their lower case apart, the legacy tables of the 8-bit code pages do not fold beyond ASCII/Latin-1 positions (e.g. Œ/œ in latin1_*, Ą/ą in cp1257_lithuanian_ci, Ø/ø in latin7_general_ci), and latin7_general_ci ranks T and t differently",
			"LIKE without wildcards is equality here because go-mysql-server collations have one weight per character (no contractions/expansions)",
		},
		Run:    run,
		Replay: replay,
	})
}
