// Package c30 decides property C30 — character set conversion round-trips and never crashes —
// by bounded-exhaustive exploration of the real encoders and of the SQL conversion routes.
//
// Parts (every part enumerates its whole space; nothing is sampled):
//
//	rune   every character set with an encoder × every Unicode scalar value (1,112,064) through
//	       EncodeRune / Encode / EncodeReplaceUnknown / DecodeRune / Decode
//	bytes  every such character set × every byte string of length 0..2, every 3-byte string and
//	       (thorough) every 4-byte string over an 18-byte alphabet of lead / continuation /
//	       surrogate / invalid bytes (quick: 4-byte strings over a 10-byte sub-alphabet)
//	pairs  every such character set × every ordered pair of its boundary code points (first/last
//	       code point of every table range and their neighbours, derived from the tables at run time)
//	sql    all 41 listed character sets: CONVERT(x USING cs), HEX(CONVERT(..)), the round trip
//	       CONVERT(CONVERT(x USING cs) USING utf8mb4), _cs X'..' introducers (valid and malformed),
//	       CAST(.. AS BINARY) and the result-set encoding (character_set_results) for every
//	       boundary code point; character sets without an encoder must be rejected cleanly.
package c30

import (
	"bytes"
	"encoding/hex"
	"encoding/json"
	"fmt"
	"runtime/debug"
	"sort"
	"strconv"
	"strings"
	"unicode/utf16"
	"unicode/utf8"

	"github.com/dolthub/go-mysql-server/sql"
	"github.com/dolthub/go-mysql-server/sql/encodings"

	"verif/mc/core"
	"verif/mc/eng"
)

// ---------------------------------------------------------------------------------------------
// character sets

type charset struct {
	Name     string
	Enc      encodings.Encoder
	Identity bool // utf8mb4 / binary: the encoder is the identity function, no tables
}

func charsets() (with, without []charset) {
	it := sql.NewCharacterSetsIterator()
	for cs, ok := it.Next(); ok; cs, ok = it.Next() {
		c := charset{Name: cs.Name, Enc: cs.Encoder}
		if cs.Encoder == nil {
			without = append(without, c)
			continue
		}
		if _, isRM := encodings.VerifRangeMapRanges(cs.Encoder); !isRM {
			c.Identity = true
		}
		with = append(with, c)
	}
	sort.Slice(with, func(i, j int) bool { return with[i].Name < with[j].Name })
	sort.Slice(without, func(i, j int) bool { return without[i].Name < without[j].Name })
	return
}

func lookup(name string) (charset, bool) {
	w, wo := charsets()
	for _, c := range append(w, wo...) {
		if c.Name == name {
			return c, true
		}
	}
	return charset{}, false
}

// exact returns a copy of b whose capacity equals its length, so that an implementation reading
// past the end of its input cannot silently succeed on spare capacity.
func exact(b []byte) []byte {
	c := make([]byte, len(b))
	copy(c, b)
	return c[:len(b):len(b)]
}

func isScalar(r rune) bool { return r >= 0 && r <= 0x10FFFF && !(r >= 0xD800 && r <= 0xDFFF) }

// standard gives the encoding of r that the character set's published standard demands, for the
// character sets whose standard is available independently of /repo (Go's standard library).
// known=false: no independent reference (8-bit code pages): only the round-trip laws apply.
func standard(cs string, r rune) (enc []byte, encodable bool, known bool) {
	switch cs {
	case "utf8mb4", "binary":
		return []byte(string(r)), true, true
	case "utf8mb3":
		if r > 0xFFFF {
			return nil, false, true
		}
		return []byte(string(r)), true, true
	case "ascii":
		if r > 0x7F {
			return nil, false, true
		}
		return []byte{byte(r)}, true, true
	case "utf32":
		return []byte{byte(r >> 24), byte(r >> 16), byte(r >> 8), byte(r)}, true, true
	case "utf16":
		if r < 0x10000 {
			return []byte{byte(r >> 8), byte(r)}, true, true
		}
		hi, lo := utf16.EncodeRune(r)
		return []byte{byte(hi >> 8), byte(hi), byte(lo >> 8), byte(lo)}, true, true
	case "latin1":
		// MySQL latin1 is cp1252; outside 0x80..0x9F it coincides with ISO 8859-1.
		if r < 0x80 || (r >= 0xA0 && r <= 0xFF) {
			return []byte{byte(r)}, true, true
		}
		return nil, false, false
	}
	return nil, false, false
}

// ---------------------------------------------------------------------------------------------
// violations

type witness struct {
	Part    string `json:"part"`
	Charset string `json:"charset"`
	CP      int    `json:"cp,omitempty"`
	CP2     int    `json:"cp2,omitempty"`
	Hex     string `json:"hex,omitempty"`
	Stmt    string `json:"stmt,omitempty"`
}

type ctxt struct {
	r  *core.Run
	cs charset
	w  witness
	// cause, when set, marks what is reported next as a consequence of an already reported defect
	// (it becomes part of the signature, so consequences are told apart from independent failures)
	cause string
}

func (c *ctxt) panicV(check, fn string, pv any, frame string) {
	c.r.Violate(core.Violation{Check: check, Clause: "no-panic", Kind: "panic",
		Subject: map[string]string{"fn": fn, "frame": frame},
		Witness: core.J(c.w), Observed: fmt.Sprint(pv), Expected: "a result or ok=false"})
}

// topFrame names the function that panicked: the first frame below the panic() entry of a stack
// captured in a deferred recover that is neither runtime nor harness code.
func topFrame(stack string) string {
	lines := strings.Split(stack, "\n")
	start := 0
	for i, l := range lines {
		if strings.HasPrefix(l, "panic(") {
			start = i + 1
		}
	}
	for i := start; i < len(lines); i++ {
		l := lines[i]
		if l == "" || strings.HasPrefix(l, "\t") || strings.HasPrefix(l, "goroutine ") {
			continue
		}
		if strings.HasPrefix(l, "runtime.") || strings.HasPrefix(l, "runtime/") || strings.HasPrefix(l, "panic(") || strings.HasPrefix(l, "verif/mc/") || strings.HasPrefix(l, "reflect.") {
			continue
		}
		if j := strings.LastIndex(l, "("); j > 0 {
			l = l[:j]
		}
		return l
	}
	return "unknown"
}

// frameCache remembers the panicking frame per (method, panic message): capturing a stack costs
// tens of microseconds and one defect can panic millions of times in the exhaustive parts.
var frameCache = map[string]string{}

func tryFrame(fn string, f func()) (pv any, frame string) {
	defer func() {
		if x := recover(); x != nil {
			pv = x
			key := fn + "|" + fmt.Sprint(x)
			fr, ok := frameCache[key]
			if !ok {
				fr = topFrame(string(debug.Stack()))
				frameCache[key] = fr
			}
			frame = fr
		}
	}()
	f()
	return nil, ""
}

func (c *ctxt) wrong(check, clause, fn string, obs, exp string) {
	c.wrongShape(check, clause, fn, "", obs, exp)
}

// wrongShape: shape classifies HOW the value is wrong when that can be told from the output
// (e.g. "tail-swallowed"), so that a known finding covers one defect and not the whole clause.
func (c *ctxt) wrongShape(check, clause, fn, shape string, obs, exp string) {
	// the table laws point at one character set's tables; disagreement between the string-level and
	// the per-rune functions points at the shared encoder code
	subj := map[string]string{"fn": fn}
	switch clause {
	case "round-trip", "matches-standard-encoding", "decode-yields-utf8":
		subj["charset"] = c.cs.Name
	default:
		subj["encoder"] = c.encKind()
	}
	if shape != "" {
		subj["shape"] = shape
	}
	c.r.Violate(core.Violation{Check: check, Clause: clause, Kind: "wrong-value",
		Subject: subj, Witness: core.J(c.w), Observed: obs, Expected: exp})
}

func hx(b []byte) string { return hex.EncodeToString(b) }

func res(b []byte, ok bool) string {
	if !ok {
		return "ok=false"
	}
	return "x'" + hx(b) + "'"
}

// call runs one encoder method with panic containment. done=false means it panicked (reported).
func (c *ctxt) call(check, fn string, f func()) (done bool) {
	pv, frame := tryFrame(fn, f)
	if pv != nil {
		c.panicV(check, fn, pv, frame)
		return false
	}
	return true
}

// ---------------------------------------------------------------------------------------------
// part "rune": one Unicode scalar value through every encoder method

func checkRune(r *core.Run, cs charset, cp rune) {
	c := &ctxt{r: r, cs: cs, w: witness{Part: "rune", Charset: cs.Name, CP: int(cp)}}
	e := cs.Enc
	u8 := exact([]byte(string(cp)))
	const ck = "api-rune"

	var encR, encS, rep []byte
	var okR, okS bool
	if !c.call(ck, "EncodeRune", func() { encR, okR = e.EncodeRune(u8) }) {
		return
	}
	okStr := c.call(ck, "Encode", func() { encS, okS = e.Encode(u8) })
	okRep := c.call(ck, "EncodeReplaceUnknown", func() { rep = e.EncodeReplaceUnknown(u8) })

	if okStr && (okS != okR || (okR && !bytes.Equal(encS, encR))) {
		c.wrong(ck, "encode-string-agrees-with-rune", "Encode", res(encS, okS), res(encR, okR))
	}
	if std, stdOK, known := standard(cs.Name, cp); known {
		if stdOK != okR || (okR && !bytes.Equal(std, encR)) {
			c.wrong(ck, "matches-standard-encoding", "EncodeRune", res(encR, okR), res(std, stdOK))
		}
	}
	if !cs.Identity || !okR {
		r.NonTrivial(cs.Name + "/" + strconv.Itoa(int(cp)))
	}
	if !okR {
		r.Count("rune_unrepresentable", 1)
		if okRep && !bytes.Equal(rep, []byte("?")) {
			c.wrong(ck, "unrepresentable-replaced-by-question-mark", "EncodeReplaceUnknown", res(rep, true), "x'3f'")
		}
		return
	}
	r.Count("rune_representable", 1)
	if okRep && !bytes.Equal(rep, encR) {
		c.wrong(ck, "replace-keeps-representable", "EncodeReplaceUnknown", res(rep, true), res(encR, true))
	}
	in := exact(encR)
	var decR, decS []byte
	var okDR, okDS bool
	if c.call(ck, "DecodeRune", func() { decR, okDR = e.DecodeRune(in) }) {
		if !okDR || !bytes.Equal(decR, u8) {
			c.wrong(ck, "round-trip", "DecodeRune", res(decR, okDR), res(u8, true))
		}
	}
	if c.call(ck, "Decode", func() { decS, okDS = e.Decode(in) }) {
		if !okDS || !bytes.Equal(decS, u8) {
			c.wrong(ck, "round-trip", "Decode", res(decS, okDS), res(u8, true))
		}
	}
	if !cs.Identity && cp >= 0x80 && !bytes.Equal(encR, u8) && r.WantSample() {
		r.Sample(map[string]any{"part": "rune", "charset": cs.Name, "code_point": fmt.Sprintf("U+%04X", cp), "encoded": hx(encR), "decoded_back": hx(decS)})
	}
}

// ---------------------------------------------------------------------------------------------
// reference for whole strings, built from the per-rune results (which part "rune" validates)

// refEncode returns the strict encoding of the valid UTF-8 string s (all=false when some
// character is unrepresentable) and the '?'-replaced encoding.
func refEncode(e encodings.Encoder, s []byte) (strict []byte, all bool, replaced []byte, panicked bool) {
	all = true
	pv, _ := core.Try(func() {
		for len(s) > 0 {
			_, n := utf8.DecodeRune(s)
			enc, ok := e.EncodeRune(exact(s[:n]))
			if ok {
				strict = append(strict, enc...)
				replaced = append(replaced, enc...)
			} else {
				all = false
				replaced = append(replaced, '?')
			}
			s = s[n:]
		}
	})
	return strict, all, replaced, pv != nil
}

// checkString applies the string-level laws to an arbitrary byte string b.
func checkString(r *core.Run, cs charset, b []byte, part string, w witness) {
	c := &ctxt{r: r, cs: cs, w: w}
	e := cs.Enc
	ck := "api-" + part
	valid := utf8.Valid(b)

	// decoding direction: b is taken as a string in the character set
	var dec []byte
	var okD bool
	if c.call(ck, "Decode", func() { dec, okD = e.Decode(exact(b)) }) && okD {
		r.Count("decode_ok", 1)
		if !cs.Identity && !utf8.Valid(dec) {
			// MySQL's utf8mb3 accepts three-byte encoded surrogates (ED A0..BF xx) and so do the extracted
			// tables; Go calls that malformed. Such text is tolerated when it is carried losslessly (it
			// encodes back to the input); anything else a table produces must be UTF-8.
			var back []byte
			var okB bool
			if c.call(ck, "Encode", func() { back, okB = e.Encode(exact(dec)) }) && (!okB || !bytes.Equal(back, b)) {
				c.wrong(ck, "decode-yields-utf8", "Decode", res(dec, true), "a valid utf8mb4 string (or text that encodes back to the input)")
			} else {
				r.Count("decoded_non_utf8_lossless", 1)
			}
		} else if utf8.Valid(dec) {
			// decoded text whose every character is representable must survive the way back
			strict, all, _, p := refEncode(e, dec)
			if !p && all {
				var back []byte
				var okB bool
				if c.call(ck, "Decode", func() { back, okB = e.Decode(exact(strict)) }) {
					if !okB || !bytes.Equal(back, dec) {
						c.wrong(ck, "round-trip", "Decode", res(back, okB), res(dec, true))
					}
				}
			} else if !p {
				r.Count("decoded_text_not_reencodable", 1)
			}
		}
	} else {
		r.Count("decode_rejected", 1)
	}
	if len(b) > 0 {
		c.call(ck, "DecodeRune", func() { e.DecodeRune(exact(b)) })
		c.call(ck, "EncodeRune", func() { e.EncodeRune(exact(b)) })
	}

	// encoding direction: b is taken as an internal (utf8mb4) string, well-formed or not
	var encS, rep []byte
	var okS bool
	okStr := c.call(ck, "Encode", func() { encS, okS = e.Encode(exact(b)) })
	okRep := c.call(ck, "EncodeReplaceUnknown", func() { rep = e.EncodeReplaceUnknown(exact(b)) })
	if !valid {
		r.Outcome(part + ":malformed-utf8")
		r.NonTrivial(cs.Name + "/" + part + "/" + hx(b))
		return
	}
	strict, all, replaced, p := refEncode(e, b)
	if p {
		return
	}
	if !cs.Identity || !all {
		r.NonTrivial(cs.Name + "/" + part + "/" + hx(b))
	}
	if okStr {
		if okS != all || (all && !bytes.Equal(encS, strict)) {
			c.wrong(ck, "encode-string-agrees-with-rune", "Encode", res(encS, okS), res(strict, all))
		}
	}
	if okRep && !bytes.Equal(rep, replaced) {
		shape := "other"
		if len(rep) < len(replaced) && bytes.HasPrefix(replaced, rep) && rep[len(rep)-1] == '?' {
			shape = "tail-swallowed-after-question-mark"
		}
		c.wrongShape(ck, "unrepresentable-replaced-by-question-mark", "EncodeReplaceUnknown", shape, res(rep, true), res(replaced, true))
	}
	if all {
		r.Outcome(part + ":all-representable")
		var back []byte
		var okB bool
		if c.call(ck, "Decode", func() { back, okB = e.Decode(exact(strict)) }) {
			if !okB || !bytes.Equal(back, b) {
				c.wrong(ck, "round-trip", "Decode", res(back, okB), res(b, true))
			}
		}
	} else {
		r.Outcome(part + ":has-unrepresentable")
	}
}

// ---------------------------------------------------------------------------------------------
// alphabets

var alpha18 = []byte{0x00, 0x01, 0x10, 0x11, 0x3F, 0x41, 0x7F, 0x80, 0xBF, 0xC2, 0xD8, 0xDB, 0xDC, 0xDF, 0xE0, 0xF0, 0xF4, 0xFF}
var alpha10 = []byte{0x00, 0x01, 0x10, 0x41, 0x80, 0xBF, 0xD8, 0xDC, 0xF0, 0xFF}

// byteStrings enumerates the byte-string space of part "bytes" in a fixed order.
func byteStrings(thorough bool) [][]byte {
	out := [][]byte{{}}
	for a := 0; a < 256; a++ {
		out = append(out, []byte{byte(a)})
	}
	for a := 0; a < 256; a++ {
		for b := 0; b < 256; b++ {
			out = append(out, []byte{byte(a), byte(b)})
		}
	}
	for _, a := range alpha18 {
		for _, b := range alpha18 {
			for _, c := range alpha18 {
				out = append(out, []byte{a, b, c})
			}
		}
	}
	al := alpha10
	if thorough {
		al = alpha18
		for a := 0; a < 256; a++ {
			if bytes.IndexByte(alpha18, byte(a)) >= 0 {
				continue // already enumerated above
			}
			for _, b := range alpha18 {
				for _, c := range alpha18 {
					out = append(out, []byte{byte(a), b, c})
				}
			}
		}
	}
	for _, a := range al {
		for _, b := range al {
			for _, c := range al {
				for _, d := range al {
					out = append(out, []byte{a, b, c, d})
				}
			}
		}
	}
	return out
}

// boundary returns the boundary code points of a character set: for a table-driven encoder the
// first and last code point of the utf8 side of every table entry and both neighbours; for the
// identity encoders the UTF-8 length boundaries. Always includes a few fixed probes.
func boundary(cs charset) []rune {
	set := map[rune]bool{}
	add := func(r rune) {
		for _, x := range []rune{r - 1, r, r + 1} {
			if isScalar(x) {
				set[x] = true
			}
		}
	}
	for _, r := range []rune{0, 0x7F, 0x80, 0xFF, 0x100, 0x7FF, 0x800, 0xD7FF, 0xE000, 0xFFFD, 0xFFFF, 0x10000, 0x10FFFF, 'a', 'z', 'A', 'Z', '?', 0xE9, 0x20AC, 0x3A9} {
		add(r)
	}
	if rs, ok := encodings.VerifRangeMapRanges(cs.Enc); ok {
		for _, v := range rs {
			for _, b := range [][]byte{v.OutMin, v.OutMax} {
				if r, n := utf8.DecodeRune(b); n == len(b) && r != utf8.RuneError {
					add(r)
				}
			}
		}
	}
	out := make([]rune, 0, len(set))
	for r := range set {
		out = append(out, r)
	}
	sort.Slice(out, func(i, j int) bool { return out[i] < out[j] })
	return out
}

// ---------------------------------------------------------------------------------------------
// part "sql"

func sqlLit(s string) string {
	var sb strings.Builder
	sb.WriteByte('\'')
	for i := 0; i < len(s); i++ {
		switch s[i] {
		case '\'':
			sb.WriteString("''")
		case '\\':
			sb.WriteString("\\\\")
		default:
			sb.WriteByte(s[i])
		}
	}
	sb.WriteByte('\'')
	return sb.String()
}

// encKind classifies the character set's implementation for signatures.
func (c *ctxt) encKind() string {
	switch {
	case c.cs.Enc == nil:
		return "none"
	case c.cs.Identity:
		return "identity"
	}
	return "table"
}

func (c *ctxt) sqlPanic(route string, rs *eng.Result) {
	subj := map[string]string{"route": route, "frame": topFrame(rs.Stack), "encoder": c.encKind()}
	if c.cause != "" {
		subj["cause"] = c.cause
	}
	c.r.Violate(core.Violation{Check: "sql", Clause: "no-panic", Kind: "panic",
		Subject: subj,
		Witness: core.J(c.w), Observed: fmt.Sprint(rs.Panic), Expected: "a value or an error"})
}

func (c *ctxt) sqlWrong(route, clause, obs, exp string) {
	c.sqlWrongShape(route, clause, "", obs, exp)
}

func (c *ctxt) sqlWrongShape(route, clause, shape, obs, exp string) {
	subj := map[string]string{"route": route, "encoder": c.encKind()}
	if shape != "" {
		subj["shape"] = shape
	}
	if c.cause != "" {
		subj["cause"] = c.cause
	}
	c.r.Violate(core.Violation{Check: "sql", Clause: clause, Kind: "wrong-value",
		Subject: subj, Witness: core.J(c.w), Observed: obs, Expected: exp})
}

// cell returns the single value of a one-row one-column result as bytes.
func cell(rs *eng.Result) ([]byte, bool) {
	if rs.Err != nil || len(rs.Rows) != 1 || len(rs.Rows[0]) != 1 {
		return nil, false
	}
	switch v := rs.Rows[0][0].(type) {
	case string:
		return []byte(v), true
	case []byte:
		return v, true
	case nil:
		return nil, false
	}
	s := eng.FormatValue(rs.Rows[0][0])
	if len(s) >= 2 && s[0] == '\'' {
		return []byte(s[1 : len(s)-1]), true
	}
	return []byte(s), true
}

// run executes one statement; returns nil if it panicked (violation recorded).
func (c *ctxt) run(s *eng.Session, route, q string) *eng.Result {
	c.w.Stmt = q
	rs := s.Exec(q)
	if rs.Panic != nil {
		c.r.Outcome("sql:" + route + ":panic")
		c.sqlPanic(route, rs)
		return nil
	}
	if rs.Err != nil {
		c.r.Outcome("sql:" + route + ":err-" + eng.ErrClass(rs.Err))
	} else {
		c.r.Outcome("sql:" + route + ":value")
	}
	return rs
}

// checkSQLUnsupported: a listed character set without an encoder must be rejected cleanly (or
// served) on every route; a crash is a violation.
func checkSQLUnsupported(r *core.Run, cs charset) {
	c := &ctxt{r: r, cs: cs, w: witness{Part: "sql-unsupported", Charset: cs.Name}}
	r.NonTrivial("sql-unsupported/" + cs.Name)
	stmts := [][2]string{
		{"convert-using", "SELECT CONVERT('abc' USING " + cs.Name + ")"},
		{"hex-convert-using", "SELECT HEX(CONVERT('abc' USING " + cs.Name + "))"},
		{"introducer", "SELECT _" + cs.Name + " 'abc'"},
		{"introducer-hex", "SELECT _" + cs.Name + " X'616263'"},
		{"cast-char", "SELECT CAST('abc' AS CHAR CHARACTER SET " + cs.Name + ")"},
		{"column-charset", "CREATE TABLE t1 (a VARCHAR(10) CHARACTER SET " + cs.Name + ")"},
		{"result-charset", "SET character_set_results = '" + cs.Name + "'"},
	}
	for _, st := range stmts {
		e := eng.New()
		s := e.NewSession("root")
		r.Eval()
		rs := c.run(s, st[0], st[1])
		if rs != nil && st[0] == "result-charset" && rs.Err == nil {
			c.resultEncoding(s, "abc", nil, false)
		}
	}
}

// resultEncoding renders SELECT '<text>' the way the wire layer does (StringType.SQL under the
// session's character_set_results) and checks it: no crash; a value must be the encoding of text.
func (c *ctxt) resultEncoding(s *eng.Session, text string, want []byte, representable bool) {
	q := "SELECT " + sqlLit(text)
	rs := c.run(s, "result-charset", q)
	if rs == nil || rs.Err != nil || len(rs.Rows) != 1 || len(rs.Schema) != 1 {
		return
	}
	ctx := s.NewCtx()
	var out []byte
	var err error
	pv, st := core.Try(func() {
		v, e := rs.Schema[0].Type.SQL(ctx, nil, rs.Rows[0][0])
		err = e
		if e == nil {
			out = v.Raw()
		}
	})
	if pv != nil {
		c.r.Outcome("sql:result-charset:render-panic")
		c.r.Violate(core.Violation{Check: "sql", Clause: "no-panic", Kind: "panic",
			Subject: map[string]string{"route": "result-charset", "frame": topFrame(st), "encoder": c.encKind()},
			Witness: core.J(c.w), Observed: fmt.Sprint(pv), Expected: "a value or an error"})
		return
	}
	if err != nil {
		c.r.Outcome("sql:result-charset:render-err")
		if representable {
			c.sqlWrong("result-charset", "representable-text-is-delivered", "error: "+eng.ErrClass(err), res(want, true))
		}
		return
	}
	c.r.Outcome("sql:result-charset:render-value")
	if representable && !bytes.Equal(out, want) {
		c.sqlWrong("result-charset", "representable-text-is-delivered", res(out, true), res(want, true))
	}
	if !representable && c.cs.Enc != nil && !bytes.Equal(out, []byte("?")) {
		c.sqlWrong("result-charset", "unrepresentable-reported-or-replaced", res(out, true), "an error or x'3f'")
	}
}

// checkSQLRune drives the SQL conversion routes for one code point of one character set.
func checkSQLRune(r *core.Run, cs charset, cp rune) {
	c := &ctxt{r: r, cs: cs, w: witness{Part: "sql", Charset: cs.Name, CP: int(cp)}}
	text := string(cp)
	u8 := []byte(text)
	var enc []byte
	var ok bool
	if pv, _ := core.Try(func() { enc, ok = cs.Enc.EncodeRune(exact(u8)) }); pv != nil {
		return // reported by part "rune"
	}
	if !cs.Identity || !ok {
		r.NonTrivial("sql/" + cs.Name + "/" + strconv.Itoa(int(cp)))
	}
	wantEnc, wantText := enc, u8
	if !ok {
		wantEnc, wantText = []byte("?"), []byte("?")
	}
	e := eng.New()
	s := e.NewSession("root")
	lit := sqlLit(text)

	// 1. CONVERT(x USING cs): the value is text (internally utf8mb4, typed with cs): x itself when
	// representable, '?' otherwise.
	r.Eval()
	if rs := c.run(s, "convert-using", "SELECT CONVERT("+lit+" USING "+cs.Name+")"); rs != nil {
		got, have := cell(rs)
		if rs.Err != nil {
			c.sqlWrong("convert-using", "round-trip", "error: "+eng.ErrClass(rs.Err), res(wantText, true))
		} else if !have || !bytes.Equal(got, wantText) {
			shape := "other"
			if have && bytes.Equal(got, wantEnc) {
				shape = "charset-bytes-returned-as-text"
			}
			c.sqlWrongShape("convert-using", "round-trip", shape, res(got, have), res(wantText, true))
			if shape != "other" {
				// the statements below build on this value; what they report is tagged as a consequence
				c.cause = "convert-using-returns-charset-bytes"
			}
		}
	}

	// 2. there and back
	r.Eval()
	if rs := c.run(s, "convert-round-trip", "SELECT CONVERT(CONVERT("+lit+" USING "+cs.Name+") USING utf8mb4)"); rs != nil {
		got, have := cell(rs)
		if rs.Err != nil {
			c.sqlWrong("convert-round-trip", "round-trip", "error: "+eng.ErrClass(rs.Err), res(wantText, true))
		} else if !have || !bytes.Equal(got, wantText) {
			c.sqlWrong("convert-round-trip", "round-trip", res(got, have), res(wantText, true))
		}
	}

	// 3. the bytes of the converted text in its character set, observed with HEX and CAST AS BINARY
	r.Eval()
	if rs := c.run(s, "hex-convert-using", "SELECT HEX(CONVERT("+lit+" USING "+cs.Name+"))"); rs != nil {
		got, have := cell(rs)
		want := []byte(strings.ToUpper(hx(wantEnc)))
		if rs.Err != nil {
			c.sqlWrong("hex-convert-using", "converted-text-is-in-the-character-set", "error: "+eng.ErrClass(rs.Err), string(want))
		} else if !have || !bytes.Equal(got, want) {
			c.sqlWrong("hex-convert-using", "converted-text-is-in-the-character-set", string(got), string(want))
		}
	}
	r.Eval()
	if rs := c.run(s, "cast-binary-convert-using", "SELECT CAST(CONVERT("+lit+" USING "+cs.Name+") AS BINARY)"); rs != nil {
		got, have := cell(rs)
		if rs.Err != nil {
			c.sqlWrong("cast-binary-convert-using", "converted-text-is-in-the-character-set", "error: "+eng.ErrClass(rs.Err), res(wantEnc, true))
		} else if !have || !bytes.Equal(got, wantEnc) {
			c.sqlWrong("cast-binary-convert-using", "converted-text-is-in-the-character-set", res(got, have), res(wantEnc, true))
		}
	}
	c.cause = ""

	// 4. the opposite direction: charset bytes -> text through an introducer
	if ok {
		r.Eval()
		if rs := c.run(s, "introducer-hex", "SELECT _"+cs.Name+" X'"+hx(enc)+"'"); rs != nil {
			got, have := cell(rs)
			if rs.Err != nil {
				c.sqlWrong("introducer-hex", "round-trip", "error: "+eng.ErrClass(rs.Err), res(u8, true))
			} else if !have || !bytes.Equal(got, u8) {
				c.sqlWrong("introducer-hex", "round-trip", res(got, have), res(u8, true))
			}
		}
	}

	// 5. result-set encoding under character_set_results = cs
	r.Eval()
	if rs := c.run(s, "result-charset", "SET character_set_results = '"+cs.Name+"'"); rs != nil && rs.Err == nil {
		c.resultEncoding(s, text, enc, ok)
	}
}

// malformed introducer payloads: must give a value or an error, never a crash.
func checkSQLBytes(r *core.Run, cs charset, b []byte) {
	c := &ctxt{r: r, cs: cs, w: witness{Part: "sql-bytes", Charset: cs.Name, Hex: hx(b)}}
	r.NonTrivial("sql-bytes/" + cs.Name + "/" + hx(b))
	e := eng.New()
	s := e.NewSession("root")
	r.Eval()
	c.run(s, "introducer-hex", "SELECT _"+cs.Name+" X'"+hx(b)+"'")
	r.Eval()
	c.run(s, "convert-using-binary", "SELECT CONVERT(X'"+hx(b)+"' USING "+cs.Name+")")
	r.Eval()
	c.run(s, "hex-convert-using-binary", "SELECT HEX(CONVERT(X'"+hx(b)+"' USING "+cs.Name+"))")
}

func sqlByteStrings() [][]byte {
	var out [][]byte
	for _, a := range alpha18 {
		out = append(out, []byte{a})
		for _, b := range alpha10 {
			out = append(out, []byte{a, b})
		}
	}
	out = append(out, []byte{0xD8, 0x00, 0xDC, 0x00}, []byte{0xD8, 0x00, 0x00, 0x41}, []byte{0x00, 0x11, 0x00, 0x00},
		[]byte{0x00, 0x00, 0xD8, 0x00}, []byte{0xE2, 0x82}, []byte{0xF0, 0x9F, 0x98}, []byte{0xED, 0xA0, 0x80}, []byte{0xF4, 0x90, 0x80, 0x80})
	return out
}

// ---------------------------------------------------------------------------------------------

func sqlRunes(cs charset) []rune {
	var out []rune
	for _, cp := range boundary(cs) {
		if cp < 0x20 || cp == 0x7F {
			continue // control characters are not written into statement text
		}
		out = append(out, cp)
	}
	return out
}

const runeBlock = 4096
const byteBlock = 4096

func run(r *core.Run) {
	with, without := charsets()
	r.Info("charsets_with_encoder", len(with))
	r.Info("charsets_without_encoder", len(without))
	var idx int64
	capped := false
	stop := func(what string) bool {
		if capped {
			return true
		}
		if r.Expired() {
			capped = true
			r.Capped("time budget reached in part " + what)
		}
		return capped
	}

	// part sql first (it holds the cases most likely to be cut by a budget last)
	for _, cs := range without {
		if r.Mine(idx) && !stop("sql") {
			r.AnnounceCase("sql-unsupported " + cs.Name)
			checkSQLUnsupported(r, cs)
		}
		idx++
	}
	for _, cs := range with {
		for _, cp := range sqlRunes(cs) {
			if r.Mine(idx) && !stop("sql") {
				checkSQLRune(r, cs, cp)
			}
			idx++
		}
		for _, b := range sqlByteStrings() {
			if r.Mine(idx) && !stop("sql") {
				checkSQLBytes(r, cs, b)
			}
			idx++
		}
	}

	// part rune
	for _, cs := range with {
		for lo := rune(0); lo <= 0x10FFFF; lo += runeBlock {
			if r.Mine(idx) && !stop("rune") {
				for cp := lo; cp < lo+runeBlock; cp++ {
					if isScalar(cp) {
						r.Eval()
						checkRune(r, cs, cp)
					}
				}
			}
			idx++
		}
	}

	// part bytes
	bs := byteStrings(r.Thorough())
	r.Info("byte_strings_per_charset", len(bs))
	for _, cs := range with {
		for lo := 0; lo < len(bs); lo += byteBlock {
			if r.Mine(idx) && !stop("bytes") {
				for i := lo; i < lo+byteBlock && i < len(bs); i++ {
					r.Eval()
					checkString(r, cs, bs[i], "bytes", witness{Part: "bytes", Charset: cs.Name, Hex: hx(bs[i])})
				}
			}
			idx++
		}
	}

	// part pairs
	for _, cs := range with {
		pr := boundary(cs)
		r.Max("boundary_code_points", int64(len(pr)))
		for _, a := range pr {
			if r.Mine(idx) && !stop("pairs") {
				for _, b := range pr {
					r.Eval()
					checkString(r, cs, []byte(string(a)+string(b)), "pairs", witness{Part: "pairs", Charset: cs.Name, CP: int(a), CP2: int(b)})
				}
			}
			idx++
		}
	}
}

func replay(r *core.Run, raw json.RawMessage) {
	var w witness
	if json.Unmarshal(raw, &w) != nil {
		return
	}
	cs, ok := lookup(w.Charset)
	if !ok {
		return
	}
	switch w.Part {
	case "rune":
		checkRune(r, cs, rune(w.CP))
	case "bytes":
		b, _ := hex.DecodeString(w.Hex)
		checkString(r, cs, b, "bytes", w)
	case "pairs":
		checkString(r, cs, []byte(string(rune(w.CP))+string(rune(w.CP2))), "pairs", w)
	case "sql":
		checkSQLRune(r, cs, rune(w.CP))
	case "sql-bytes":
		b, _ := hex.DecodeString(w.Hex)
		checkSQLBytes(r, cs, b)
	case "sql-unsupported":
		checkSQLUnsupported(r, cs)
	}
}

func init() {
	core.Register(&core.Prop{
		ID:    "C30",
		Level: "exploration",
		Rule: "rune: every character set with an encoder x every Unicode scalar value (1,112,064) through EncodeRune/Encode/EncodeReplaceUnknown/DecodeRune/Decode; " +
			"bytes: x every byte string of length 0..2, every 3-byte string over an 18-byte alphabet (lead/continuation/surrogate/invalid bytes; thorough: any first byte) and every 4-byte string over a 10-byte (quick) / the 18-byte (thorough) alphabet, as charset text (Decode, DecodeRune) and as internal text (Encode, EncodeRune, EncodeReplaceUnknown), inputs passed with capacity = length; " +
			"pairs: x every ordered pair of boundary code points (first/last code point of every table range +-1 plus fixed probes, read from the encoder tables at run time; up to 235 per character set) as two-character strings; " +
			"sql: all 41 listed character sets: CONVERT(x USING cs), CONVERT(CONVERT(x USING cs) USING utf8mb4), HEX(CONVERT(..)), CAST(CONVERT(..) AS BINARY), _cs X'..' and the result-set rendering under character_set_results=cs for every printable boundary code point, 206 malformed/short byte payloads per character set through the introducer and CONVERT, and 7 statements per character set without an encoder. " +
			"Oracle: representable => decode(encode(x)) = x (rune and string level, API and SQL), unrepresentable => ok=false / error / '?', string functions agree with the per-rune functions, utf8mb3/utf8mb4/utf16/utf32/ascii/latin1(ISO part) agree with Go's standard library encodings, no panic anywhere. " +
			"non-trivial = the case goes through a table-driven encoder or contains an unrepresentable/malformed sequence (identity conversion of representable text by utf8mb4/binary is trivial)",
		Assumptions: []string{
			"DecodeRune/EncodeRune are only called with at least one byte (their contract is one code point); the empty string goes through the string-level functions only",
			"utf8mb4 and binary use identity encoders that by design do not validate; for them only no-crash and round-trip are required of malformed input",
			"utf8mb3 decodes three-byte encoded surrogates (ED A0..BF xx) like MySQL does; decoded text that Go calls malformed is tolerated when it encodes back to the input",
			"Go's unicode/utf8 and unicode/utf16 are trusted as the definition of utf8mb3/utf8mb4/utf16/utf32",
			"per-rune results (validated by part rune) are the reference for the string-level functions",
			"control characters (< 0x20, 0x7F) are not embedded in SQL statement text",
		},
		Run:    run,
		Replay: replay,
	})
}
