// Package c31 — date and time values parse, format and compute consistently.
//
// Space (bounded-exhaustive, nothing sampled): every calendar day of a list of boundary years ×
// a list of boundary times of day, and for each such instant
//
//	format    DATE_FORMAT(d, '%x') for every single specifier x            vs. a reference formatter
//	parse     STR_TO_DATE(ref_format(d,f), f) for every complete format f  = d (restricted to what f carries)
//	roundtrip STR_TO_DATE(DATE_FORMAT(d,f), f)                             = d (the property's law)
//	add       DATE_ADD(d, INTERVAL n unit), DATE_SUB(d, INTERVAL n unit)   vs. calendar model (end-of-month clamp)
//	inverse   DATE_SUB(DATE_ADD(d, i), i) = d unless the model says the intermediate clamps / leaves the range
//	datediff  DATEDIFF(d, b), TIMESTAMPDIFF(unit, d, b) for a list of anchors b vs. day / microsecond counts
//	compound  DATE_ADD/DATE_SUB with compound units (expression API; the pinned parser rejects them in SQL)
//	invalid   every impossible calendar date (Feb 30, month 13, day 0, 24:00:00 …) as a string through a list
//	          of consumers: the result must be NULL / an error / the zero date, never another date
package c31

import (
	"encoding/json"
	"fmt"
	"runtime"
	"runtime/debug"
	"strconv"
	"strings"
	"time"

	"github.com/dolthub/go-mysql-server/sql"
	"github.com/dolthub/go-mysql-server/sql/expression"
	"github.com/dolthub/go-mysql-server/sql/expression/function"
	"github.com/dolthub/go-mysql-server/sql/types"

	"verif/mc/core"
	"verif/mc/eng"
)

func init() { time.Local = time.UTC }

// ---------------------------------------------------------------------------------------------
// alphabet
// ---------------------------------------------------------------------------------------------

var allYears = []int{1000, 1582, 1899, 1900, 1970, 1999, 2000, 2001, 2023, 2024, 2038, 9999}

var quickYears = []int{1000, 1900, 1970, 2000, 2024, 9999}

type tod struct{ h, m, s, us int }

var allTimes = []tod{{0, 0, 0, 0}, {0, 0, 0, 1}, {12, 34, 56, 500000}, {23, 59, 59, 999999}}

var allSpecs = "abcDdefHhIijklMmprSsTUuVvWwXxYy%q"

// complete formats: carry a full date (and possibly a full time).
type cfmt struct {
	F string
	// what the format carries
	Date, Time, Micros bool
	TwoDigitYear       bool
	// Unsupported: uses a specifier the engine's STR_TO_DATE declares "not yet supported" (NULL result is then outside the domain)
	Unsupported bool
}

var allFormats = []cfmt{
	{F: "%Y-%m-%d", Date: true},
	{F: "%d/%m/%Y", Date: true},
	{F: "%Y%m%d", Date: true},
	{F: "%Y-%c-%e", Date: true},
	{F: "%M %e, %Y", Date: true},
	{F: "%b %D %Y", Date: true},
	{F: "%a %b %e %Y", Date: true},
	{F: "%Y-%j", Date: true},
	{F: "%y-%m-%d", Date: true, TwoDigitYear: true},
	{F: "%W, %M %e %Y", Date: true, Unsupported: true},
	{F: "%x-%v-%w", Date: true, Unsupported: true},
	{F: "%Y-%m-%d %H:%i:%s", Date: true, Time: true},
	{F: "%Y-%m-%d %H:%i:%S.%f", Date: true, Time: true, Micros: true},
	{F: "%Y-%m-%d %T", Date: true, Time: true},
	{F: "%Y-%m-%d %T.%f", Date: true, Time: true, Micros: true},
	{F: "%Y-%m-%d %k:%i:%s", Date: true, Time: true},
	{F: "%Y-%m-%d %h:%i:%s %p", Date: true, Time: true},
	{F: "%Y-%m-%d %I:%i:%S %p", Date: true, Time: true},
	{F: "%Y-%m-%d %l:%i:%s %p", Date: true, Time: true},
	{F: "%Y-%m-%d %r", Date: true, Time: true},
	{F: "%Y%m%d%H%i%s", Date: true, Time: true},
	{F: "%H:%i:%s %d.%m.%Y", Date: true, Time: true},
	{F: "%H:%i:%s.%f", Time: true, Micros: true},
	{F: "%r", Time: true},
}

func findFormat(f string) *cfmt {
	for i := range allFormats {
		if allFormats[i].F == f {
			return &allFormats[i]
		}
	}
	return nil
}

var simpleUnits = []string{"MICROSECOND", "SECOND", "MINUTE", "HOUR", "DAY", "WEEK", "MONTH", "QUARTER", "YEAR"}
var intervalNs = []int64{1, -1, 31, -31, 366, -366}

// anchors for DATEDIFF/TIMESTAMPDIFF: absolute instants and instants relative to d ("rel:<unit>:<n>[:<shift µs>]")
var absAnchors = []string{"1000-01-01 00:00:00", "1970-01-01 00:00:00", "2000-02-29 12:34:56.500000", "2024-01-31 23:59:59.999999", "9999-12-31 23:59:59.999999"}
var relAnchors = []string{"rel:DAY:0:0", "rel:DAY:1:-1", "rel:MONTH:1:0", "rel:MONTH:-1:1", "rel:YEAR:-1:0", "rel:YEAR:4:-1"}

// compound interval values (well-formed, every field written out)
type cval struct {
	Unit, Val string
	D         delta
}

var compoundVals = []cval{
	{"YEAR_MONTH", "1-1", delta{Months: 13}},
	{"YEAR_MONTH", "0-11", delta{Months: 11}},
	{"YEAR_MONTH", "4-0", delta{Months: 48}},
	{"DAY_HOUR", "1 1", delta{Days: 1, Hours: 1}},
	{"DAY_HOUR", "31 23", delta{Days: 31, Hours: 23}},
	{"DAY_MINUTE", "1 01:01", delta{Days: 1, Hours: 1, Min: 1}},
	{"DAY_SECOND", "366 23:59:59", delta{Days: 366, Hours: 23, Min: 59, Sec: 59}},
	{"DAY_MICROSECOND", "1 01:01:01.000001", delta{Days: 1, Hours: 1, Min: 1, Sec: 1, Us: 1}},
	{"DAY_MICROSECOND", "0 23:59:59.999999", delta{Hours: 23, Min: 59, Sec: 59, Us: 999999}},
	{"HOUR_MINUTE", "1:01", delta{Hours: 1, Min: 1}},
	{"HOUR_SECOND", "23:59:59", delta{Hours: 23, Min: 59, Sec: 59}},
	{"HOUR_MICROSECOND", "1:01:01.500000", delta{Hours: 1, Min: 1, Sec: 1, Us: 500000}},
	{"MINUTE_SECOND", "59:59", delta{Min: 59, Sec: 59}},
	{"MINUTE_MICROSECOND", "1:01.000001", delta{Min: 1, Sec: 1, Us: 1}},
	{"SECOND_MICROSECOND", "1.500000", delta{Sec: 1, Us: 500000}},
	{"SECOND_MICROSECOND", "59.999999", delta{Sec: 59, Us: 999999}},
}

// consumers for invalid date strings; %s is replaced by the quoted string
var invalidConsumers = []struct{ Name, Tpl string }{
	{"cast_date", "cast(%s as date)"},
	{"cast_datetime", "cast(%s as datetime)"},
	{"date()", "date(%s)"},
	{"timestamp()", "timestamp(%s)"},
	{"date_literal", "date %s"},
	{"date_add", "date_add(%s, interval 0 day)"},
	{"plus_interval", "%s + interval 0 day"},
	{"date_sub", "date_sub(%s, interval 0 month)"},
	{"adddate", "adddate(%s, 0)"},
	{"date_format", "date_format(%s, '%%Y-%%m-%%d')"},
	{"last_day", "last_day(%s)"},
	{"year", "year(%s)"},
	{"month", "month(%s)"},
	{"dayofmonth", "dayofmonth(%s)"},
	{"dayofyear", "dayofyear(%s)"},
	{"to_days", "to_days(%s)"},
	{"datediff", "datediff(%s, '2000-01-01')"},
	{"timestampdiff", "timestampdiff(day, '2000-01-01', %s)"},
	{"str_to_date", "str_to_date(%s, '%%Y-%%m-%%d')"},
	{"dayname", "dayname(%s)"},
	{"week", "week(%s)"},
}

// ---------------------------------------------------------------------------------------------
// cases
// ---------------------------------------------------------------------------------------------

// Case is one replayable evaluation.
type Case struct {
	Check string `json:"check"`           // format | parse | roundtrip | add | sub | inverse | datediff | tsdiff | compound | invalid
	D     string `json:"d"`               // instant literal (or the invalid string)
	Fmt   string `json:"fmt,omitempty"`   // format / specifier
	Unit  string `json:"unit,omitempty"`  // interval or diff unit
	N     int64  `json:"n,omitempty"`     // interval count
	Val   string `json:"val,omitempty"`   // compound interval value
	Sub   bool   `json:"subop,omitempty"` // compound: DATE_SUB instead of DATE_ADD
	B     string `json:"b,omitempty"`     // anchor
	Fn    string `json:"fn,omitempty"`    // consumer name (invalid)
	Typed bool   `json:"typed,omitempty"` // argument passed as CAST(... AS DATETIME(6)) instead of a string
}

func parseInst(s string) (inst, bool) {
	for _, l := range []string{"2006-01-02 15:04:05.999999", "2006-01-02"} {
		if t, err := time.Parse(l, s); err == nil {
			return fromTime(t), true
		}
	}
	return inst{}, false
}

func q(s string) string { return "'" + strings.ReplaceAll(s, "'", "''") + "'" }

func (c Case) arg() string {
	if c.Typed {
		return "cast(" + q(c.D) + " as datetime(6))"
	}
	return q(c.D)
}

func resolveAnchor(d inst, b string) (inst, bool) {
	if !strings.HasPrefix(b, "rel:") {
		return parseInst(b)
	}
	p := strings.Split(b, ":")
	if len(p) != 4 {
		return inst{}, false
	}
	n, _ := strconv.ParseInt(p[2], 10, 64)
	sh, _ := strconv.ParseInt(p[3], 10, 64)
	r, _ := refAdd(d, p[1], n)
	r = fromMicros(r.micros() + sh)
	if r.Y < 1000 || r.Y > 9999 {
		return inst{}, false
	}
	return r, true
}

// sqlExpr is the SQL scalar expression of a case ("" if the case has none, e.g. compound).
func (c Case) sqlExpr() string {
	switch c.Check {
	case "format":
		return fmt.Sprintf("date_format(%s, %s)", c.arg(), q(c.Fmt))
	case "parse":
		d, _ := parseInst(c.D)
		return fmt.Sprintf("str_to_date(%s, %s)", q(refFormat(d, c.Fmt)), q(c.Fmt))
	case "roundtrip":
		return fmt.Sprintf("str_to_date(date_format(%s, %s), %s)", c.arg(), q(c.Fmt), q(c.Fmt))
	case "add":
		return fmt.Sprintf("date_add(%s, interval %d %s)", c.arg(), c.N, c.Unit)
	case "sub":
		return fmt.Sprintf("date_sub(%s, interval %d %s)", c.arg(), c.N, c.Unit)
	case "inverse":
		return fmt.Sprintf("date_sub(date_add(%s, interval %d %s), interval %d %s)", c.arg(), c.N, c.Unit, c.N, c.Unit)
	case "datediff":
		d, _ := parseInst(c.D)
		b, _ := resolveAnchor(d, c.B)
		return fmt.Sprintf("datediff(%s, %s)", c.arg(), q(b.lit()))
	case "tsdiff":
		d, _ := parseInst(c.D)
		b, _ := resolveAnchor(d, c.B)
		return fmt.Sprintf("timestampdiff(%s, %s, %s)", c.Unit, c.arg(), q(b.lit()))
	case "invalid":
		for _, k := range invalidConsumers {
			if k.Name == c.Fn {
				return fmt.Sprintf(k.Tpl, q(c.D))
			}
		}
	}
	return ""
}

// asInstant interprets an engine value as an instant.
func asInstant(v any) (t inst, null bool, ok bool) {
	switch x := v.(type) {
	case nil:
		return inst{}, true, true
	case time.Time:
		return fromTime(x), false, true
	case string:
		i, ok := parseInst(x)
		return i, false, ok
	case types.Timespan:
		d := x.AsTimeDuration()
		if d < 0 || d >= 24*time.Hour {
			return inst{}, false, false
		}
		us := d.Microseconds()
		return inst{h: int(us / 3600_000000), m: int(us / 60_000000 % 60), s: int(us / 1_000000 % 60), us: int(us % 1_000000)}, false, true
	}
	return inst{}, false, false
}

func asInt(v any) (int64, bool) {
	switch x := v.(type) {
	case int64:
		return x, true
	case int32:
		return int64(x), true
	case int:
		return int64(x), true
	case uint64:
		return int64(x), true
	}
	return 0, false
}

// deltaClass classifies how an observed instant deviates from the expected one (part of the signature:
// one root cause tends to produce one kind of deviation across formats/units).
func deltaClass(exp, got inst) string {
	d := got.micros() - exp.micros()
	switch {
	case d == 12*3600_000000 || d == -12*3600_000000:
		return "off-by-12h"
	case d > -1_000000 && d < 1_000000:
		return "subsecond-differs"
	case exp.Y == got.Y && exp.M == got.M && exp.D == got.D:
		return "time-differs"
	case exp.h == got.h && exp.m == got.m && exp.s == got.s && exp.us == got.us:
		if d > -3*usPerDay && d < 3*usPerDay {
			return "date-off-by-days"
		}
		return "date-differs"
	}
	return "datetime-differs"
}

type checker struct {
	r *core.Run
	s *eng.Session
}

func (k *checker) violate(c Case, clause, kind string, subj map[string]string, observed, expected string) {
	k.r.Violate(core.Violation{Check: c.Check, Clause: clause, Kind: kind, Subject: subj, Witness: core.J(c), Observed: observed, Expected: expected})
}

func (k *checker) panicOrErr(c Case, x cell, subj map[string]string, expected string) bool {
	if x.Panic != nil {
		s2 := map[string]string{"frame": core.TopFrame(x.Stack)}
		for a, b := range subj {
			s2[a] = b
		}
		k.violate(c, "no-panic", "panic", s2, x.String(), expected)
		return true
	}
	if x.Err != nil {
		s2 := map[string]string{"errclass": eng.ErrClass(x.Err)}
		for a, b := range subj {
			s2[a] = b
		}
		k.violate(c, "value-required", "error", s2, x.String(), expected)
		return true
	}
	return false
}

// expectInstant judges a cell that must hold the instant exp (restricted to date/time parts when wantDate/wantTime).
func (k *checker) expectInstant(c Case, x cell, exp inst, wantDate, wantTime bool, subj map[string]string, clause string) bool {
	expS := exp.lit()
	if k.panicOrErr(c, x, subj, expS) {
		return false
	}
	got, null, ok := asInstant(x.V)
	if null {
		k.violate(c, clause, "null-result", subj, "NULL", expS)
		return false
	}
	if !ok {
		k.violate(c, clause, "not-a-datetime", subj, x.String(), expS)
		return false
	}
	if !wantDate {
		got.Y, got.M, got.D = exp.Y, exp.M, exp.D
	}
	if !wantTime {
		// a date-only result may come back as a datetime at midnight
		if got.h != 0 || got.m != 0 || got.s != 0 || got.us != 0 {
			k.violate(c, clause, "time-differs", subj, x.String(), expS)
			return false
		}
	}
	if got != exp {
		k.violate(c, clause, deltaClass(exp, got), subj, x.String(), expS)
		return false
	}
	return true
}

// judge applies the oracle of case c to outcome x. It returns false if a violation was recorded.
func (k *checker) judge(c Case, x cell) bool {
	r := k.r
	if x.RouteDiff != "" {
		k.violate(c, "engine-route-equals-direct-eval", "routes-disagree", map[string]string{}, x.RouteDiff, "the same value on both routes")
		return false
	}
	switch c.Check {
	case "format":
		d, _ := parseInst(c.D)
		exp := refFormat(d, c.Fmt)
		subj := map[string]string{"spec": c.Fmt}
		if k.panicOrErr(c, x, subj, exp) {
			return false
		}
		got, isStr := x.V.(string)
		if !isStr || got != exp {
			k.violate(c, "single-specifier", "wrong-text", subj, x.String(), q(exp))
			return false
		}
		return true

	case "parse", "roundtrip":
		f := findFormat(c.Fmt)
		if f == nil {
			return true
		}
		d, _ := parseInst(c.D)
		exp := d
		if !f.Micros {
			exp.us = 0
		}
		if !f.Time {
			exp.h, exp.m, exp.s, exp.us = 0, 0, 0, 0
		}
		if !f.Date {
			exp.Y, exp.M, exp.D = 0, 1, 1
		}
		subj := map[string]string{"format": c.Fmt}
		if f.Unsupported && x.Err == nil && x.Panic == nil && x.V == nil {
			r.Count("skipped_unsupported", 1)
			return true
		}
		clause := "str_to_date-inverts-format"
		if c.Check == "roundtrip" {
			clause = "str_to_date(date_format(d,f),f)=d"
		}
		return k.expectInstant(c, x, exp, f.Date, f.Time, subj, clause)

	case "add", "sub", "inverse":
		d, _ := parseInst(c.D)
		n := c.N
		if c.Check == "sub" {
			n = -n
		}
		mid, clamped := refAdd(d, c.Unit, n)
		subj := map[string]string{"unit": c.Unit}
		if c.Typed {
			subj["arg"] = "datetime"
		}
		exp := mid
		clause := "matches-calendar-model"
		if c.Check == "inverse" {
			if clamped || mid.Y < 1000 || mid.Y > 9999 {
				return true // the law does not apply (counted by the caller)
			}
			exp = d
			clause = "date_sub(date_add(d,i),i)=d"
		}
		if exp.Y > 9999 || exp.Y < 0 || (exp.Y == 0) {
			// outside what a DATETIME can hold: NULL or an error, never a value
			if x.Panic != nil {
				k.panicOrErr(c, x, subj, "NULL")
				return false
			}
			if x.Err != nil || x.V == nil {
				return true
			}
			if exp.Y > 9999 {
				k.violate(c, "out-of-range-is-null", "value-beyond-9999", subj, x.String(), "NULL")
				return false
			}
			// below year 1 MySQL yields NULL as well; the engine's own zero date is tolerated
			got, _, ok := asInstant(x.V)
			if ok && got == exp {
				return true
			}
			k.violate(c, "out-of-range-is-null", "value-below-0001", subj, x.String(), "NULL")
			return false
		}
		if exp.Y < 1000 && x.Err == nil && x.Panic == nil && x.V == nil {
			return true // below the documented supported range either NULL or the exact value is acceptable
		}
		return k.expectInstant(c, x, exp, true, true, subj, clause)

	case "datediff":
		d, _ := parseInst(c.D)
		b, ok := resolveAnchor(d, c.B)
		if !ok {
			return true
		}
		exp := refDateDiff(d, b)
		subj := map[string]string{}
		if k.panicOrErr(c, x, subj, fmt.Sprint(exp)) {
			return false
		}
		got, isInt := asInt(x.V)
		if !isInt || got != exp {
			kind := "wrong-count"
			if isInt && (got == 106751 || got == 106752 || got == -106751 || got == -106752) {
				kind = "saturated-at-292-years"
			}
			k.violate(c, "equals-day-count-difference", kind, subj, x.String(), fmt.Sprint(exp))
			return false
		}
		return true

	case "tsdiff":
		d, _ := parseInst(c.D)
		b, ok := resolveAnchor(d, c.B)
		if !ok {
			return true
		}
		exp := refTimestampDiff(c.Unit, d, b)
		subj := map[string]string{"unit": c.Unit}
		if k.panicOrErr(c, x, subj, fmt.Sprint(exp)) {
			return false
		}
		got, isInt := asInt(x.V)
		if !isInt || got != exp {
			k.violate(c, "equals-count-difference", "wrong-count", subj, x.String(), fmt.Sprint(exp))
			return false
		}
		return true

	case "invalid":
		subj := map[string]string{"consumer": c.Fn, "defect": invalidClass(c.D)}
		if x.Panic != nil {
			k.panicOrErr(c, x, subj, "NULL or error")
			return false
		}
		if x.Err != nil {
			r.Outcome("invalid:error")
			return true
		}
		if x.V == nil {
			r.Outcome("invalid:NULL")
			return true
		}
		// numeric consumers: 0 / NULL are "flagged" values; any other number was computed from some date
		if n, isInt := asInt(x.V); isInt {
			if n == 0 {
				r.Outcome("invalid:0")
				return true
			}
			k.violate(c, "invalid-date-rejected", "computed-from-invalid-date", subj, x.String(), "NULL or error")
			return false
		}
		if sv, isStr := x.V.(string); isStr {
			if strings.HasPrefix(sv, "0000-00-00") {
				r.Outcome("invalid:zero-date")
				return true
			}
			if strings.HasPrefix(sv, c.D) || strings.HasPrefix(c.D, sv) {
				k.violate(c, "invalid-date-rejected", "accepted-unchanged", subj, x.String(), "NULL or error")
				return false
			}
		}
		if got, _, ok := asInstant(x.V); ok {
			if got.Y <= 0 {
				r.Outcome("invalid:zero-date")
				return true
			}
			k.violate(c, "invalid-date-rejected", "another-date", subj, x.String(), "NULL or error")
			return false
		}
		k.violate(c, "invalid-date-rejected", "computed-from-invalid-date", subj, x.String(), "NULL or error")
		return false
	}
	return true
}

// invalidClass names what is wrong with an invalid date string (classifying coordinate).
func invalidClass(s string) string {
	var y, mo, d, h, mi, se int
	rest := s
	if len(s) >= 10 && s[4] == '-' {
		fmt.Sscanf(s[:10], "%d-%d-%d", &y, &mo, &d)
		rest = s[10:]
	} else if len(s) >= 8 {
		fmt.Sscanf(s[:8], "%4d%2d%2d", &y, &mo, &d)
		rest = s[8:]
	}
	switch {
	case mo == 0:
		return "month-0"
	case mo > 12:
		return "month-13+"
	case d == 0:
		return "day-0"
	case d > 31:
		return "day-32+"
	case d > dim(y, mo):
		return "day-beyond-month-end"
	}
	if n, _ := fmt.Sscanf(strings.TrimLeft(rest, " T"), "%d:%d:%d", &h, &mi, &se); n == 3 {
		switch {
		case h > 23:
			return "hour-24+"
		case mi > 59:
			return "minute-60+"
		case se > 59:
			return "second-60+"
		}
	}
	return "other"
}

// runCase evaluates and judges one case on its own (used by Replay and for compound cases).
func (k *checker) runCase(c Case) bool {
	if c.Check == "compound" {
		return k.runCompound(c)
	}
	e := c.sqlExpr()
	if e == "" {
		return true
	}
	return k.judge(c, evalBoth(k.r, k.s, []string{e})[0])
}

// runCompound evaluates DATE_ADD/DATE_SUB with a compound unit through the expression API.
func (k *checker) runCompound(c Case) bool {
	var cv *cval
	for i := range compoundVals {
		if compoundVals[i].Unit == c.Unit && compoundVals[i].Val == c.Val {
			cv = &compoundVals[i]
		}
	}
	if cv == nil {
		return true
	}
	d, _ := parseInst(c.D)
	sign := int64(1)
	if c.Sub {
		sign = -1
	}
	exp := refAddDelta(d, cv.D, sign)
	ctx := k.s.NewCtx()
	var x cell
	pv, stack := core.Try(func() {
		iv := expression.NewInterval(expression.NewLiteral(c.Val, types.LongText), c.Unit)
		var ex sql.Expression
		var err error
		if c.Sub {
			ex, err = function.NewDateSub(ctx, expression.NewLiteral(c.D, types.LongText), iv)
		} else {
			ex, err = function.NewDateAdd(ctx, expression.NewLiteral(c.D, types.LongText), iv)
		}
		if err != nil {
			x.Err = err
			return
		}
		x.V, x.Err = ex.Eval(ctx, nil)
	})
	if pv != nil {
		x.Panic, x.Stack = pv, stack
	}
	op := "add"
	if c.Sub {
		op = "sub"
	}
	subj := map[string]string{"unit": c.Unit, "op": op}
	if exp.Y > 9999 || exp.Y < 1000 {
		if x.Panic != nil {
			k.panicOrErr(c, x, subj, "NULL")
			return false
		}
		if x.Err != nil || x.V == nil {
			return true
		}
		if exp.Y > 9999 {
			k.violate(c, "out-of-range-is-null", "value-beyond-9999", subj, x.String(), "NULL")
			return false
		}
	}
	return k.expectInstant(c, x, exp, true, true, subj, "matches-calendar-model")
}

// ---------------------------------------------------------------------------------------------
// enumeration
// ---------------------------------------------------------------------------------------------

func daysOfYear(y int) []inst {
	var out []inst
	for m := 1; m <= 12; m++ {
		for d := 1; d <= dim(y, m); d++ {
			out = append(out, inst{Y: y, M: m, D: d})
		}
	}
	return out
}

// batch evaluates the cases in one statement and judges each.
func (k *checker) batch(cases []Case, ntKey func(Case) string) {
	exprs := make([]string, len(cases))
	for i, c := range cases {
		exprs[i] = c.sqlExpr()
	}
	cells := evalBoth(k.r, k.s, exprs)
	for i, c := range cases {
		k.r.Eval()
		ok := k.judge(c, cells[i])
		if key := ntKey(c); key != "" {
			k.r.NonTrivial(key)
		}
		if ok {
			k.r.Outcome(c.Check + ":ok")
		} else {
			k.r.Outcome(c.Check + ":violation")
		}
	}
}

func keyOf(c Case) string { b, _ := json.Marshal(c); return string(b) }

func run(r *core.Run) {
	// the worker is single-threaded; a small GOMAXPROCS and a lazier GC avoid burning the shared cores on GC helpers
	runtime.GOMAXPROCS(2)
	debug.SetGCPercent(400)
	e := eng.New()
	k := &checker{r: r, s: e.NewSession("root")}

	years := allYears
	if r.Quick() {
		years = quickYears
	}
	r.Info("years", years)
	r.Info("times_of_day", len(allTimes))
	r.Info("specifiers", len(allSpecs))
	r.Info("complete_formats", len(allFormats))

	// format string with every specifier, separated by a character no specifier produces
	var allSpecFmt []string
	for i := 0; i < len(allSpecs); i++ {
		allSpecFmt = append(allSpecFmt, "%"+allSpecs[i:i+1])
	}
	joined := strings.Join(allSpecFmt, "|")

	var caseNo int64
	capped := false
	for _, y := range years {
		for _, day := range daysOfYear(y) {
			for ti, t := range allTimes {
				caseNo++
				if !r.Mine(caseNo) {
					continue
				}
				if r.Expired() {
					capped = true
					break
				}
				d := day
				d.h, d.m, d.s, d.us = t.h, t.m, t.s, t.us
				lit := d.lit()
				if ti == 0 && d.D%2 == 1 {
					lit = d.dateLit() // midnight is written as a plain date on odd days
				}
				r.AnnounceCase(lit)

				// ---- format: all specifiers in one call; on a mismatch each specifier on its own
				{
					r.Eval()
					x := evalBoth(k.r, k.s, []string{Case{Check: "format", D: lit, Fmt: joined}.sqlExpr()})[0]
					exp := refFormat(d, joined)
					if s, isStr := x.V.(string); x.Err == nil && x.Panic == nil && isStr && s == exp {
						r.Count("specifier_checks", int64(len(allSpecFmt)))
						r.Outcome("format:ok")
					} else {
						// attribute: compare piecewise (no specifier yields '|'); re-run only the specifiers that differ
						var gotParts []string
						if isStr {
							gotParts = strings.Split(s, "|")
						}
						expParts := strings.Split(exp, "|")
						for i, sp := range allSpecFmt {
							r.Count("specifier_checks", 1)
							if len(gotParts) == len(expParts) && gotParts[i] == expParts[i] {
								r.Outcome("format:ok")
								continue
							}
							if k.runCase(Case{Check: "format", D: lit, Fmt: sp}) {
								r.Outcome("format:ok")
							} else {
								r.Outcome("format:violation")
							}
						}
					}
					r.NonTrivial("format|" + lit)
				}

				// ---- parse + roundtrip
				{
					var cases []Case
					for _, f := range allFormats {
						if f.TwoDigitYear && (d.Y < 1970 || d.Y > 2069) {
							continue
						}
						cases = append(cases, Case{Check: "parse", D: lit, Fmt: f.F})
					}
					nParse := len(cases)
					for i := 0; i < nParse; i++ {
						c := cases[i]
						c.Check = "roundtrip"
						cases = append(cases, c)
					}
					exprs := make([]string, len(cases))
					for i, c := range cases {
						exprs[i] = c.sqlExpr()
					}
					cells := evalBoth(k.r, k.s, exprs)
					for i := 0; i < nParse; i++ {
						r.Eval()
						r.Eval()
						r.NonTrivial(keyOf(cases[i]))
						r.NonTrivial(keyOf(cases[nParse+i]))
						// a defect of the parser shows in both; report it once, as "parse"
						if !k.judge(cases[i], cells[i]) {
							r.Outcome("parse:violation")
							continue
						}
						r.Outcome("parse:ok")
						if k.judge(cases[nParse+i], cells[nParse+i]) {
							r.Outcome("roundtrip:ok")
						} else {
							r.Outcome("roundtrip:violation")
						}
					}
				}

				// ---- add / sub / inverse and datediff / timestampdiff: one batch per instant
				{
					var cases []Case
					for _, u := range simpleUnits {
						for _, n := range intervalNs {
							cases = append(cases, Case{Check: "add", D: lit, Unit: u, N: n}, Case{Check: "inverse", D: lit, Unit: u, N: n})
							if n > 0 {
								cases = append(cases, Case{Check: "sub", D: lit, Unit: u, N: n})
							}
							if r.Thorough() {
								cases = append(cases, Case{Check: "add", D: d.lit(), Unit: u, N: n, Typed: true})
							}
						}
					}
					anchors := append(append([]string{}, absAnchors...), relAnchors...)
					for _, b := range anchors {
						if _, ok := resolveAnchor(d, b); !ok {
							continue
						}
						cases = append(cases, Case{Check: "datediff", D: lit, B: b})
						for _, u := range simpleUnits {
							cases = append(cases, Case{Check: "tsdiff", D: lit, Unit: u, B: b})
						}
					}
					k.batch(cases, func(c Case) string {
						switch c.Check {
						case "inverse":
							mid, clamped := refAdd(d, c.Unit, c.N)
							if clamped {
								r.Count("inverse_not_applicable_clamped", 1)
								return ""
							}
							if mid.Y < 1000 || mid.Y > 9999 {
								r.Count("inverse_not_applicable_out_of_range", 1)
								return ""
							}
						case "add", "sub":
							n := c.N
							if c.Check == "sub" {
								n = -n
							}
							if _, clamped := refAdd(d, c.Unit, n); clamped {
								r.Count("add_clamped_to_month_end", 1)
							}
						case "datediff", "tsdiff":
							if c.B == "rel:DAY:0:0" {
								return "" // a == b: trivial
							}
						}
						return keyOf(c)
					})
				}

				// ---- compound units (expression API): first and last day of each month only
				if d.D == 1 || d.D >= 28 {
					for _, cv := range compoundVals {
						for _, sub := range []bool{false, true} {
							c := Case{Check: "compound", D: d.lit(), Unit: cv.Unit, Val: cv.Val, Sub: sub}
							r.Eval()
							if k.runCase(c) {
								r.Outcome("compound:ok")
							} else {
								r.Outcome("compound:violation")
							}
							r.NonTrivial(keyOf(c))
						}
					}
				}
			}
			if capped {
				break
			}
		}
		if capped {
			break
		}
	}

	// ---- invalid dates
	invYears := []int{1900, 2000, 2023, 2024}
	if r.Thorough() {
		invYears = allYears
	}
	var invalid []string
	for _, y := range invYears {
		for m := 0; m <= 13; m++ {
			for d := 0; d <= 32; d++ {
				if m >= 1 && m <= 12 && d >= 1 && d <= dim(y, m) {
					continue
				}
				invalid = append(invalid,
					fmt.Sprintf("%04d-%02d-%02d", y, m, d),
					fmt.Sprintf("%04d-%02d-%02d 10:11:12", y, m, d),
					fmt.Sprintf("%04d%02d%02d", y, m, d))
			}
		}
		invalid = append(invalid,
			fmt.Sprintf("%04d-06-15 24:00:00", y), fmt.Sprintf("%04d-06-15 25:11:12", y),
			fmt.Sprintf("%04d-06-15 10:60:00", y), fmt.Sprintf("%04d-06-15 10:11:60", y), fmt.Sprintf("%04d-06-15 10:99:99", y))
	}
	r.Info("invalid_strings", len(invalid))
	for _, sv := range invalid {
		caseNo++
		if !r.Mine(caseNo) {
			continue
		}
		if r.Expired() {
			capped = true
			break
		}
		var cases []Case
		for _, cons := range invalidConsumers {
			if cons.Name == "str_to_date" && (len(sv) != 10) {
				continue
			}
			cases = append(cases, Case{Check: "invalid", D: sv, Fn: cons.Name})
		}
		k.batch(cases, keyOf)
	}
	if capped {
		r.Capped("time budget reached before all instants / invalid strings were evaluated")
	}
}

func init() {
	core.Register(&core.Prop{
		ID:    "C31",
		Level: "exploration",
		Rule: "every calendar day of the years {1000,1582,1899,1900,1970,1999,2000,2001,2023,2024,2038,9999} x times of day {00:00:00, 00:00:00.000001, 12:34:56.5, 23:59:59.999999} (midnight written as a plain DATE string on odd days); " +
			"per instant: DATE_FORMAT of each of 33 single specifiers vs. a reference formatter; STR_TO_DATE of the reference text and of the engine's DATE_FORMAT text for 24 complete formats; " +
			"DATE_ADD/DATE_SUB/inverse for 9 simple units x n in {+-1,+-31,+-366} vs. a calendar model with month-end clamping (inverse law only when the model says no clamp and in range); " +
			"DATEDIFF and TIMESTAMPDIFF(9 units) against 5 absolute and 6 relative anchors vs. day/microsecond counts; 16 compound-unit intervals through the expression API on month-boundary days; " +
			"plus every impossible date (month 0/13, day 0/32, day beyond month end; 3 spellings; 5 impossible times) of 4 years (thorough: 12) through 21 consumers: result must be NULL/error/0/zero-date. " +
			"non-trivial = a case whose law applies (inverse: no clamp and in range; diff: anchor differs from the instant); each (check,instant,parameters) counted once",
		Assumptions: []string{
			"session time zone is UTC and sql_mode is the engine default",
			"reference: proleptic Gregorian day counts from Go's time package; MySQL 8.0 manual semantics for DATE_FORMAT specifiers, month arithmetic (clamp to month end) and TIMESTAMPDIFF (partial months do not count)",
			"results between 0001 and 0999 (below the documented DATETIME range) may be either the exact value or NULL",
			"one engine per worker is reused: all statements are read-only SELECTs without tables",
		},
		QuickBudget: 150, ThoroughBudget: 900,
		Run: run,
		Replay: func(r *core.Run, w json.RawMessage) {
			var c Case
			if json.Unmarshal(w, &c) != nil {
				return
			}
			e := eng.New()
			k := &checker{r: r, s: e.NewSession("root")}
			k.runCase(c)
		},
	})
}
