package c31

import (
	"fmt"
	"io"
	"strings"

	"github.com/dolthub/go-mysql-server/sql"
	"github.com/dolthub/go-mysql-server/sql/plan"
	"github.com/dolthub/go-mysql-server/sql/planbuilder"

	"verif/mc/core"
	"verif/mc/eng"
)

// cell is the outcome of evaluating one scalar expression.
type cell struct {
	V     any
	Err   error
	Panic any
	Stack string
	// RouteDiff is non-empty when the full engine route returned something else than the direct route.
	RouteDiff string
}

func (c cell) String() string {
	if c.Panic != nil {
		return fmt.Sprintf("PANIC %v", c.Panic)
	}
	if c.Err != nil {
		return "ERR[" + eng.ErrClass(c.Err) + "] " + c.Err.Error()
	}
	return fmtVal(c.V)
}

func fmtVal(v any) string {
	switch x := v.(type) {
	case []byte:
		return fmt.Sprintf("%q", string(x))
	case string:
		return fmt.Sprintf("%q", x)
	}
	return eng.FormatValue(v)
}

// fastExec is eng.Session.Exec on the session's long-lived context (sql.NewContext builds a throw-away
// BaseSession with two large variable maps per call, which dominates the cost of these tiny statements).
func fastExec(s *eng.Session, query string) (res *eng.Result) {
	res = &eng.Result{}
	ctx := s.Ctx
	pv, stack := core.Try(func() {
		sch, it, _, err := s.Eng.E.Query(ctx, query)
		if err != nil {
			res.Err = err
			return
		}
		res.Schema = sch
		for {
			row, err := it.Next(ctx)
			if err == io.EOF {
				break
			}
			if err != nil {
				res.Err = err
				it.Close(ctx)
				return
			}
			res.Rows = append(res.Rows, row)
		}
		if err := it.Close(ctx); err != nil {
			res.Err = err
		}
	})
	if pv != nil {
		res.Panic, res.Stack = pv, stack
		res.Err = fmt.Errorf("panic: %v", pv)
	}
	return
}

// bindExprs parses and binds `SELECT e1, e2, …` with the engine's parser and plan builder and returns the bound
// projection expressions (function calls resolved through the function registry, literals typed by the builder).
func bindExprs(s *eng.Session, exprs []string) (out []sql.Expression, err error, pv any, stack string) {
	pv, stack = core.Try(func() {
		b := planbuilder.New(s.Ctx, s.Eng.E.Analyzer.Catalog, s.Eng.E.EventScheduler)
		var node sql.Node
		node, _, _, _, err = b.Parse("select "+strings.Join(exprs, ", "), nil, false)
		if err != nil {
			return
		}
		var proj *plan.Project
		var walk func(n sql.Node)
		walk = func(n sql.Node) {
			if p, ok := n.(*plan.Project); ok && proj == nil {
				proj = p
			}
			for _, c := range n.Children() {
				walk(c)
			}
		}
		walk(node)
		if proj == nil || len(proj.Projections) != len(exprs) {
			err = fmt.Errorf("harness: no projection of %d expressions in bound plan", len(exprs))
			return
		}
		out = proj.Projections
	})
	return
}

// evalDirect evaluates each expression with Expression.Eval on an empty row (route "direct": real parser,
// real binder, real function code; analyzer rules and the row executor are not involved). Every expression
// has its own outcome: an error or a panic in one does not hide the others.
func evalDirect(s *eng.Session, exprs []string) []cell {
	out := make([]cell, len(exprs))
	if len(exprs) == 0 {
		return out
	}
	bound, err, pv, stack := bindExprs(s, exprs)
	if err != nil || pv != nil {
		if len(exprs) == 1 {
			out[0] = cell{Err: err, Panic: pv, Stack: stack}
			if pv != nil {
				out[0].Err = fmt.Errorf("panic: %v", pv)
			}
			return out
		}
		h := len(exprs) / 2
		copy(out[:h], evalDirect(s, exprs[:h]))
		copy(out[h:], evalDirect(s, exprs[h:]))
		return out
	}
	for i, e := range bound {
		var v any
		var err error
		pv, stack := core.Try(func() { v, err = e.Eval(s.Ctx, nil) })
		if pv != nil {
			out[i] = cell{Panic: pv, Stack: stack, Err: fmt.Errorf("panic: %v", pv)}
		} else {
			out[i] = cell{V: v, Err: err}
		}
	}
	return out
}

// evalBoth evaluates through the direct route and then sends all expressions that produced a value through the
// full engine (Engine.Query: analyzer + row execution) in one statement; a differing value is recorded in RouteDiff.
func evalBoth(r *core.Run, s *eng.Session, exprs []string) []cell {
	out := evalDirect(s, exprs)
	var idx []int
	var good []string
	for i, c := range out {
		if c.Err == nil && c.Panic == nil {
			idx = append(idx, i)
			good = append(good, exprs[i])
		}
	}
	if len(good) == 0 {
		return out
	}
	var cmp func(idx []int, good []string)
	cmp = func(idx []int, good []string) {
		res := fastExec(s, "select "+strings.Join(good, ", "))
		r.Count("engine_route_statements", 1)
		if res.Err == nil && res.Panic == nil && len(res.Rows) == 1 && len(res.Rows[0]) == len(good) {
			for j, i := range idx {
				a, b := fmtVal(out[i].V), fmtVal(res.Rows[0][j])
				if a != b {
					out[i].RouteDiff = "direct=" + a + " engine=" + b
				}
			}
			return
		}
		if len(good) == 1 {
			what := "no single row"
			if res.Err != nil {
				what = "ERR[" + eng.ErrClass(res.Err) + "] " + res.Err.Error()
			}
			out[idx[0]].RouteDiff = "direct=" + fmtVal(out[idx[0]].V) + " engine=" + what
			return
		}
		h := len(good) / 2
		cmp(idx[:h], good[:h])
		cmp(idx[h:], good[h:])
	}
	const chunk = 48
	for a := 0; a < len(good); a += chunk {
		b := a + chunk
		if b > len(good) {
			b = len(good)
		}
		cmp(idx[a:b], good[a:b])
	}
	return out
}
