package c31

import (
	"fmt"
	"strings"
	"time"
)

// ---------------------------------------------------------------------------------------------
// Reference side. Everything here is written from the MySQL manual's definitions and uses only
// Go's time package for day counting (proleptic Gregorian calendar, UTC); nothing is shared with
// go-mysql-server.
// ---------------------------------------------------------------------------------------------

// inst is a civil instant with microsecond resolution.
type inst struct {
	Y, M, D, h, m, s, us int
}

func (a inst) time() time.Time {
	return time.Date(a.Y, time.Month(a.M), a.D, a.h, a.m, a.s, a.us*1000, time.UTC)
}

func fromTime(t time.Time) inst {
	t = t.UTC()
	return inst{t.Year(), int(t.Month()), t.Day(), t.Hour(), t.Minute(), t.Second(), t.Nanosecond() / 1000}
}

// lit renders the instant the way it is written into SQL: 'YYYY-MM-DD hh:mm:ss[.ffffff]'.
func (a inst) lit() string {
	s := fmt.Sprintf("%04d-%02d-%02d %02d:%02d:%02d", a.Y, a.M, a.D, a.h, a.m, a.s)
	if a.us != 0 {
		s += fmt.Sprintf(".%06d", a.us)
	}
	return s
}

func (a inst) dateLit() string { return fmt.Sprintf("%04d-%02d-%02d", a.Y, a.M, a.D) }

func isLeap(y int) bool { return y%4 == 0 && (y%100 != 0 || y%400 == 0) }

func dim(y, m int) int {
	switch m {
	case 4, 6, 9, 11:
		return 30
	case 2:
		if isLeap(y) {
			return 29
		}
		return 28
	}
	return 31
}

// dayNumber is the number of days since 1970-01-01 (floor).
func dayNumber(y, m, d int) int64 {
	u := time.Date(y, time.Month(m), d, 0, 0, 0, 0, time.UTC).Unix()
	if u >= 0 {
		return u / 86400
	}
	return -((-u + 86399) / 86400)
}

// micros is the number of microseconds since 1970-01-01 00:00:00 (exact in int64 for years 0..9999).
func (a inst) micros() int64 {
	return dayNumber(a.Y, a.M, a.D)*86400_000000 + int64(a.h*3600+a.m*60+a.s)*1_000000 + int64(a.us)
}

func fromMicros(us int64) inst {
	sec := us / 1_000000
	rem := us % 1_000000
	if rem < 0 {
		rem += 1_000000
		sec--
	}
	t := time.Unix(sec, rem*1000).UTC()
	return fromTime(t)
}

// weekday: 0 = Sunday … 6 = Saturday.
func (a inst) weekday() int {
	n := (dayNumber(a.Y, a.M, a.D) + 4) % 7 // 1970-01-01 was a Thursday (4)
	if n < 0 {
		n += 7
	}
	return int(n)
}

func (a inst) yday() int { // 1-based
	return int(dayNumber(a.Y, a.M, a.D)-dayNumber(a.Y, 1, 1)) + 1
}

var monthNames = []string{"", "January", "February", "March", "April", "May", "June", "July", "August", "September", "October", "November", "December"}
var dayNames = []string{"Sunday", "Monday", "Tuesday", "Wednesday", "Thursday", "Friday", "Saturday"}

// weekSundayFirst0: MySQL WEEK() mode 0 = number of Sundays in the year up to and including the day (0..53).
func weekU(a inst) int {
	return (a.yday() - 1 + 7 - a.weekday()) / 7
}

// weekMode1: Monday is the first day of the week, week 1 is the first week with 4 or more days in this year, 0..53.
func weeku(a inst) int {
	jan1 := inst{Y: a.Y, M: 1, D: 1}
	wdMon := (jan1.weekday() + 6) % 7 // Monday = 0
	w := (a.yday() - 1 + wdMon) / 7   // index of the Monday-week counted from the week containing Jan 1
	if wdMon <= 3 {
		w++
	}
	return w
}

// weekV/yearX: mode 2 — Sunday first, 1..53, week 1 = first week that has a Sunday in this year; days before the
// first Sunday belong to the last week of the previous year.
func weekVX(a inst) (week, year int) {
	w := weekU(a)
	if w > 0 {
		return w, a.Y
	}
	dec31 := inst{Y: a.Y - 1, M: 12, D: 31}
	return weekU(dec31), a.Y - 1
}

// weekv/yearx: mode 3 = ISO 8601.
func weekvx(a inst) (week, year int) {
	y, w := a.time().ISOWeek()
	return w, y
}

func daySuffix(d int) string {
	if d%100 >= 11 && d%100 <= 13 {
		return "th"
	}
	switch d % 10 {
	case 1:
		return "st"
	case 2:
		return "nd"
	case 3:
		return "rd"
	}
	return "th"
}

// refFormatSpec renders one DATE_FORMAT specifier per the MySQL manual.
func refFormatSpec(a inst, c byte) string {
	h12 := a.h % 12
	if h12 == 0 {
		h12 = 12
	}
	ampm := "AM"
	if a.h >= 12 {
		ampm = "PM"
	}
	switch c {
	case 'a':
		return dayNames[a.weekday()][:3]
	case 'b':
		return monthNames[a.M][:3]
	case 'c':
		return fmt.Sprintf("%d", a.M)
	case 'D':
		return fmt.Sprintf("%d%s", a.D, daySuffix(a.D))
	case 'd':
		return fmt.Sprintf("%02d", a.D)
	case 'e':
		return fmt.Sprintf("%d", a.D)
	case 'f':
		return fmt.Sprintf("%06d", a.us)
	case 'H':
		return fmt.Sprintf("%02d", a.h)
	case 'h', 'I':
		return fmt.Sprintf("%02d", h12)
	case 'i':
		return fmt.Sprintf("%02d", a.m)
	case 'j':
		return fmt.Sprintf("%03d", a.yday())
	case 'k':
		return fmt.Sprintf("%d", a.h)
	case 'l':
		return fmt.Sprintf("%d", h12)
	case 'M':
		return monthNames[a.M]
	case 'm':
		return fmt.Sprintf("%02d", a.M)
	case 'p':
		return ampm
	case 'r':
		return fmt.Sprintf("%02d:%02d:%02d %s", h12, a.m, a.s, ampm)
	case 'S', 's':
		return fmt.Sprintf("%02d", a.s)
	case 'T':
		return fmt.Sprintf("%02d:%02d:%02d", a.h, a.m, a.s)
	case 'U':
		return fmt.Sprintf("%02d", weekU(a))
	case 'u':
		return fmt.Sprintf("%02d", weeku(a))
	case 'V':
		w, _ := weekVX(a)
		return fmt.Sprintf("%02d", w)
	case 'v':
		w, _ := weekvx(a)
		return fmt.Sprintf("%02d", w)
	case 'W':
		return dayNames[a.weekday()]
	case 'w':
		return fmt.Sprintf("%d", a.weekday())
	case 'X':
		_, y := weekVX(a)
		return fmt.Sprintf("%04d", y)
	case 'x':
		_, y := weekvx(a)
		return fmt.Sprintf("%04d", y)
	case 'Y':
		return fmt.Sprintf("%04d", a.Y)
	case 'y':
		return fmt.Sprintf("%02d", a.Y%100)
	case '%':
		return "%"
	}
	return string(c) // "%x" for any other x yields x
}

func refFormat(a inst, f string) string {
	var sb strings.Builder
	for i := 0; i < len(f); i++ {
		if f[i] == '%' && i+1 < len(f) {
			sb.WriteString(refFormatSpec(a, f[i+1]))
			i++
			continue
		}
		sb.WriteByte(f[i])
	}
	return sb.String()
}

// ---------------------------------------------------------------------------------------------
// interval arithmetic
// ---------------------------------------------------------------------------------------------

const usPerDay = int64(86400_000000)

var unitMicros = map[string]int64{
	"MICROSECOND": 1, "SECOND": 1_000000, "MINUTE": 60_000000, "HOUR": 3600_000000, "DAY": usPerDay, "WEEK": 7 * usPerDay,
}
var unitMonths = map[string]int64{"MONTH": 1, "QUARTER": 3, "YEAR": 12}

// addMonths moves a by n months keeping the day of month, clamping it to the length of the target month.
func addMonths(a inst, n int64) (res inst, clamped bool) {
	total := int64(a.Y)*12 + int64(a.M-1) + n
	y := total / 12
	mo := total % 12
	if mo < 0 {
		mo += 12
		y--
	}
	res = a
	res.Y, res.M = int(y), int(mo)+1
	if l := dim(res.Y, res.M); res.D > l {
		res.D = l
		clamped = true
	}
	return
}

// refAdd computes a + n unit (simple units). yearOut is the year of the exact result (may be outside 0..9999).
func refAdd(a inst, unit string, n int64) (res inst, clamped bool) {
	if k, ok := unitMicros[unit]; ok {
		return fromMicros(a.micros() + n*k), false
	}
	return addMonths(a, n*unitMonths[unit])
}

// delta is a compound interval.
type delta struct {
	Months                    int64
	Days, Hours, Min, Sec, Us int64
}

func refAddDelta(a inst, d delta, sign int64) inst {
	res := a
	if d.Months != 0 {
		res, _ = addMonths(res, sign*d.Months)
	}
	us := d.Days*usPerDay + d.Hours*3600_000000 + d.Min*60_000000 + d.Sec*1_000000 + d.Us
	return fromMicros(res.micros() + sign*us)
}

// refMonthsDiff is TIMESTAMPDIFF(MONTH, a, b): whole months from a to b, a partial month does not count
// (compared by day-of-month, then time of day).
func refMonthsDiff(a, b inst) int64 {
	sign := int64(1)
	if a.micros() > b.micros() {
		a, b = b, a
		sign = -1
	}
	months := int64(b.Y-a.Y)*12 + int64(b.M-a.M)
	todA := int64(a.h*3600+a.m*60+a.s)*1_000000 + int64(a.us)
	todB := int64(b.h*3600+b.m*60+b.s)*1_000000 + int64(b.us)
	if b.D < a.D || (b.D == a.D && todB < todA) {
		months--
	}
	return sign * months
}

func refTimestampDiff(unit string, a, b inst) int64 {
	if k, ok := unitMicros[unit]; ok {
		return (b.micros() - a.micros()) / k // Go division truncates toward zero, as MySQL does
	}
	return refMonthsDiff(a, b) / unitMonths[unit]
}

func refDateDiff(a, b inst) int64 {
	return dayNumber(a.Y, a.M, a.D) - dayNumber(b.Y, b.M, b.D)
}
