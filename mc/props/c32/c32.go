// Package c32 — JSON values round-trip and path functions obey their laws.
package c32

import (
	"context"
	"encoding/json"
	"fmt"
	"runtime/debug"
	"strings"

	"github.com/dolthub/go-mysql-server/sql"
	"github.com/dolthub/go-mysql-server/sql/expression"
	jsonfn "github.com/dolthub/go-mysql-server/sql/expression/function/json"
	"github.com/dolthub/go-mysql-server/sql/types"
	"github.com/dolthub/go-mysql-server/verifshim/vexport"

	"verif/mc/core"
	"verif/mc/eng"
)

// c32Case is the replayable witness of one case.
type c32Case struct {
	Check string `json:"check"` // paths | roundtrip | compare | quote
	Route string `json:"route,omitempty"`
	Doc   string `json:"doc,omitempty"` // canonical JSON text of the document
	Path  string `json:"path,omitempty"`
	Value string `json:"value,omitempty"` // JSON text of the value argument
	Doc2  string `json:"doc2,omitempty"`
	Doc3  string `json:"doc3,omitempty"`
	Str   string `json:"str,omitempty"` // quote check: the string (Go-quoted in Call)
	Call  string `json:"call,omitempty"`
}

func valueAlphabet() []*jv { return []*jv{jNum(7), jStr("v")} }

// ------------------------------------------------------------------------------------------------
// round trip
// ------------------------------------------------------------------------------------------------

func runRoundTrip(r *core.Run, d *jv, sess *eng.Session) {
	ctx := context.Background()
	viol := func(route, clause, kind, call, obs, exp string) {
		c := c32Case{Check: "roundtrip", Route: route, Doc: d.text(true), Call: call}
		r.Violate(core.Violation{Check: "roundtrip", Clause: clause, Kind: kind, Subject: map[string]string{"top": kindName(d)}, Witness: core.J(c), Observed: obs, Expected: exp})
	}
	check := func(route, call string, x res) bool {
		if x.panicked {
			c := c32Case{Check: "roundtrip", Route: route, Doc: d.text(true), Call: call}
			r.Violate(core.Violation{Check: "roundtrip", Clause: "no-panic", Kind: "panic", Subject: map[string]string{"frame": core.TopFrame(x.stack)}, Witness: core.J(c), Observed: x.String()})
			return false
		}
		if x.err != nil {
			viol(route, "valid-document-accepted", "unexpected-error", call, x.String(), "a JSON value")
			return false
		}
		if !x.isJSON {
			viol(route, "valid-document-accepted", "wrong-type", call, x.String(), "a JSON value")
			return false
		}
		if !x.doc.equal(d) {
			viol(route, "parse-print-gives-equal-document", "wrong-value", call, x.text, d.text(true))
			return false
		}
		if !x.keysCanon {
			viol(route, "keys-canonical", "not-canonical", call, x.text, d.text(true))
			return false
		}
		return true
	}
	convert := func(in interface{}) (out res) {
		pv, stack := core.Try(func() {
			x, _, err := types.JSON.Convert(ctx, in)
			out = printParse(ctx, x, err)
		})
		if pv != nil {
			out = res{panicked: true, err: fmt.Errorf("%v", pv), stack: stack}
		}
		return
	}
	// 1. print the in-memory document: must denote d, keys canonical
	p1 := convert(types.JSONDocument{Val: d.toEngine()})
	r.Eval()
	if !check("print", "print(d)", p1) {
		return
	}
	// 2. parse the printed form, and an equivalent non-canonical spelling; print again
	for _, in := range []struct{ what, text string }{{"printed", p1.text}, {"scrambled", d.text(false)}} {
		p2 := convert(in.text)
		r.Eval()
		if !check("parse-"+in.what, "print(parse("+in.text+"))", p2) {
			return
		}
		if p2.text != p1.text {
			viol("parse-"+in.what, "print-is-canonical", "different-text", "print(parse("+in.text+"))", p2.text, p1.text)
		}
		// compare(parse(print(d)), d) = 0
		var cmp int
		var cerr error
		pv, _ := core.Try(func() { cmp, cerr = types.JSON.Compare(ctx, p2.wrapper, types.JSONDocument{Val: d.toEngine()}) })
		r.Eval()
		if pv != nil || cerr != nil || cmp != 0 {
			viol("parse-"+in.what, "parsed-compares-equal", "not-equal", "compare(parse(print(d)), d)", fmt.Sprintf("cmp=%d err=%v panic=%v", cmp, cerr, pv), "0")
		}
	}
	r.NonTrivial("roundtrip\x00" + d.text(true))
	r.Outcome("roundtrip:" + kindName(d))
	// 3. through SQL: cast, and a JSON column
	if sess != nil {
		lit := sqlStr(d.text(false))
		for _, q := range []string{"select cast(" + lit + " as json)", "select j from (select cast(" + lit + " as json) as j) t"} {
			x := sqlOne(sess, q)
			r.Eval()
			if check("sql-cast", q, x) && x.text != p1.text {
				viol("sql-cast", "print-is-canonical", "different-text", q, x.text, p1.text)
			}
		}
		sess.MustExec("delete from jt")
		ins := sess.Exec("insert into jt values (1, " + lit + ")")
		r.Eval()
		if ins.Panic != nil || ins.Err != nil {
			viol("sql-column", "valid-document-accepted", "unexpected-error", "insert into jt values (1, "+lit+")", ins.Summary(), "row stored")
			return
		}
		x := sqlOne(sess, "select j from jt where id = 1")
		r.Eval()
		if check("sql-column", "insert "+lit+"; select j", x) && x.text != p1.text {
			viol("sql-column", "print-is-canonical", "different-text", "insert "+lit+"; select j", x.text, p1.text)
		}
	}
}

// printParse prints a JSON value with the engine's printer and reads the text back with the
// harness' independent parser (document + whether all object keys were in canonical order).
func printParse(ctx context.Context, x interface{}, err error) res {
	if err != nil {
		return res{err: err}
	}
	w, ok := x.(sql.JSONWrapper)
	if !ok {
		return normalize(ctx, x, nil)
	}
	s, e := types.JsonToMySqlString(ctx, w)
	if e != nil {
		return res{err: fmt.Errorf("value cannot be printed: %v", e)}
	}
	d, canon, e := parseText(s)
	if e != nil {
		return res{err: fmt.Errorf("printed text %q is not valid JSON: %v", s, e)}
	}
	return res{isJSON: true, text: s, doc: d, keysCanon: canon, wrapper: w}
}

func sqlOne(sess *eng.Session, q string) res {
	r := sess.Exec(q)
	if r.Panic != nil {
		return res{panicked: true, err: fmt.Errorf("%v", r.Panic), stack: r.Stack}
	}
	if r.Err != nil {
		return res{err: r.Err}
	}
	if len(r.Rows) != 1 || len(r.Rows[0]) != 1 {
		return res{err: fmt.Errorf("expected one value, got %d rows", len(r.Rows))}
	}
	return printParse(sess.Ctx, r.Rows[0][0], nil)
}

// ------------------------------------------------------------------------------------------------
// comparison laws
// ------------------------------------------------------------------------------------------------

type cmpSet struct {
	docs []*jv
	vals []sql.JSONWrapper
}

func newCmpSet(docs []*jv) *cmpSet {
	s := &cmpSet{docs: docs}
	for _, d := range docs {
		s.vals = append(s.vals, types.JSONDocument{Val: d.toEngine()})
	}
	return s
}

func sign(x int) int8 {
	if x < 0 {
		return -1
	}
	if x > 0 {
		return 1
	}
	return 0
}

const cmpErr = int8(9)

func compareOnce(a, b sql.JSONWrapper) (out int8, msg string) {
	pv, _ := core.Try(func() {
		c, err := types.JSON.Compare(context.Background(), a, b)
		if err != nil {
			out, msg = cmpErr, "error: "+err.Error()
			return
		}
		out = sign(c)
	})
	if pv != nil {
		return cmpErr, fmt.Sprintf("panic: %v", pv)
	}
	return
}

func cmpViolate(r *core.Run, clause, kind string, docs []*jv, obs, exp string) {
	c := c32Case{Check: "compare", Doc: docs[0].text(true), Doc2: docs[1].text(true)}
	kinds := kindName(docs[0]) + "/" + kindName(docs[1])
	if len(docs) > 2 {
		c.Doc3 = docs[2].text(true)
		kinds += "/" + kindName(docs[2])
	}
	r.Violate(core.Violation{Check: "compare", Clause: clause, Kind: kind, Subject: map[string]string{"kinds": kinds}, Witness: core.J(c), Observed: obs, Expected: exp})
}

// checkPair: antisymmetry and consistency with equality for (a,b) with a != b as documents, and
// reflexivity when same.
func checkPair(r *core.Run, a, b *jv, va, vb sql.JSONWrapper, same bool) int8 {
	ab, m1 := compareOnce(va, vb)
	ba, m2 := compareOnce(vb, va)
	r.EvalN(2)
	if ab == cmpErr || ba == cmpErr {
		cmpViolate(r, "comparison-defined", "error", []*jv{a, b}, m1+" "+m2, "-1, 0 or 1")
		return ab
	}
	if ab != -ba {
		cmpViolate(r, "antisymmetric", "disagree", []*jv{a, b}, fmt.Sprintf("cmp(a,b)=%d cmp(b,a)=%d", ab, ba), "cmp(a,b) = -cmp(b,a)")
	}
	if same != (ab == 0) {
		exp := "non-zero for different documents"
		if same {
			exp = "0 for equal documents"
		}
		cmpViolate(r, "zero-iff-equal", "disagree", []*jv{a, b}, fmt.Sprintf("cmp(a,b)=%d", ab), exp)
	}
	return ab
}

func runCompare(r *core.Run, small, large []*jv, idx *int64) {
	S := newCmpSet(small)
	n := len(small)
	// full matrix over the small set (every worker computes it; checks are sharded by row)
	M := make([][]int8, n)
	for i := range M {
		M[i] = make([]int8, n)
		for k := range M[i] {
			M[i][k], _ = compareOnce(S.vals[i], S.vals[k])
		}
	}
	for i := 0; i < n; i++ {
		*idx++
		if !r.Mine(*idx) {
			continue
		}
		for k := 0; k < n; k++ {
			// an equal document built independently (re-parsed from its scrambled text) for i == k
			vb := S.vals[k]
			if i == k {
				x, _, err := types.JSON.Convert(context.Background(), small[i].text(false))
				if err == nil {
					vb = x.(sql.JSONWrapper)
				}
			}
			checkPair(r, small[i], small[k], S.vals[i], vb, i == k)
		}
		r.NonTrivial("compare-row\x00" + small[i].text(true))
		// transitivity over all (k, l)
		for k := 0; k < n; k++ {
			if M[i][k] == cmpErr || M[i][k] > 0 {
				continue
			}
			for l := 0; l < n; l++ {
				if M[k][l] == cmpErr || M[i][l] == cmpErr {
					continue
				}
				if M[k][l] <= 0 && M[i][l] > 0 {
					cmpViolate(r, "transitive", "cycle", []*jv{small[i], small[k], small[l]}, fmt.Sprintf("a<=b (%d), b<=c (%d) but cmp(a,c)=%d", M[i][k], M[k][l], M[i][l]), "a<=c")
				}
				if M[i][k] == 0 && M[k][l] == 0 && M[i][l] != 0 {
					cmpViolate(r, "transitive", "equality-not-transitive", []*jv{small[i], small[k], small[l]}, fmt.Sprintf("cmp(a,c)=%d", M[i][l]), "0")
				}
			}
		}
		r.Count("transitivity_triples_checked_on_sign_matrix", int64(n)*int64(n))
	}
	r.Outcome(fmt.Sprintf("compare:matrix-%d", n))
	// large set: antisymmetry / zero-iff-equal against the small set, and mixed transitivity
	if len(large) == 0 {
		return
	}
	for _, d := range large {
		*idx++
		if !r.Mine(*idx) {
			continue
		}
		vd := types.JSONDocument{Val: d.toEngine()}
		row := make([]int8, n)
		for k := 0; k < n; k++ {
			row[k] = checkPair(r, d, small[k], vd, S.vals[k], false)
		}
		for k := 0; k < n; k++ {
			for l := 0; l < n; l++ {
				if row[k] == cmpErr || row[l] == cmpErr || M[k][l] == cmpErr {
					continue
				}
				if row[k] <= 0 && M[k][l] <= 0 && row[l] > 0 {
					cmpViolate(r, "transitive", "cycle", []*jv{d, small[k], small[l]}, fmt.Sprintf("a<=b (%d), b<=c (%d) but cmp(a,c)=%d", row[k], M[k][l], row[l]), "a<=c")
				}
			}
		}
		r.Count("transitivity_triples_checked_on_sign_matrix", int64(n)*int64(n))
	}
}

// ------------------------------------------------------------------------------------------------
// quote / unquote
// ------------------------------------------------------------------------------------------------

var quoteChars = []string{"a", `"`, `\`, "/", "\n", "\x00", "\x1f", "é", "😀"}

func genStrings(max int) []string {
	out := []string{""}
	prev := []string{""}
	for l := 1; l <= max; l++ {
		var cur []string
		for _, p := range prev {
			for _, c := range quoteChars {
				cur = append(cur, p+c)
			}
		}
		out = append(out, cur...)
		prev = cur
	}
	return out
}

func runQuote(r *core.Run, s string, sess *eng.Session) {
	viol := func(route, clause, kind, call, obs, exp string) {
		c := c32Case{Check: "quote", Route: route, Str: s, Call: call}
		r.Violate(core.Violation{Check: "quote", Clause: clause, Kind: kind, Subject: map[string]string{"route": route}, Witness: core.J(c), Observed: obs, Expected: exp})
	}
	q := func(x string) string { return fmt.Sprintf("%q", x) }
	// internal/strings directly
	var quoted, back string
	var err error
	pv, stack := core.Try(func() {
		quoted = vexport.JSONStringsQuote(s)
		back, err = vexport.JSONStringsUnquote(quoted)
	})
	r.EvalN(2)
	switch {
	case pv != nil:
		c := c32Case{Check: "quote", Route: "internal/strings", Str: s}
		r.Violate(core.Violation{Check: "quote", Clause: "no-panic", Kind: "panic", Subject: map[string]string{"route": "internal/strings", "frame": core.TopFrame(stack)}, Witness: core.J(c), Observed: fmt.Sprint(pv)})
	case err != nil:
		viol("internal/strings", "unquote-of-quote-is-identity", "unexpected-error", "Unquote(Quote(s))", err.Error(), q(s))
	case back != s:
		viol("internal/strings", "unquote-of-quote-is-identity", "wrong-value", "Unquote(Quote(s))", q(back)+" via "+q(quoted), q(s))
	default:
		// the quoted form is a valid JSON string literal denoting s
		var dec string
		if e := json.Unmarshal([]byte(quoted), &dec); e != nil || dec != s {
			viol("internal/strings", "quote-is-valid-json-string", "wrong-value", "Quote(s)", q(quoted), "a JSON string literal for "+q(s))
		}
	}
	// the SQL functions, evaluated directly
	ctx := sql.NewEmptyContext()
	var x res
	pv, stack = core.Try(func() {
		f := jsonfn.NewJSONUnquote(ctx, jsonfn.NewJSONQuote(ctx, expression.NewLiteral(s, types.LongText)))
		v, e := f.Eval(ctx, nil)
		x = normalize(ctx, v, e)
	})
	r.Eval()
	switch {
	case pv != nil:
		c := c32Case{Check: "quote", Route: "eval", Str: s}
		r.Violate(core.Violation{Check: "quote", Clause: "no-panic", Kind: "panic", Subject: map[string]string{"route": "eval", "frame": core.TopFrame(stack)}, Witness: core.J(c), Observed: fmt.Sprint(pv)})
	case x.err != nil || !x.isStr || x.s != s:
		viol("eval", "unquote-of-quote-is-identity", "wrong-value", "json_unquote(json_quote(s))", x.String(), q(s))
	}
	// through SQL
	if sess != nil {
		st := "select json_unquote(json_quote(" + sqlStr(s) + ")), json_unquote(cast(json_quote(" + sqlStr(s) + ") as json))"
		rr := sess.Exec(st)
		r.Eval()
		if rr.Panic != nil || rr.Err != nil || len(rr.Rows) != 1 {
			viol("sql", "unquote-of-quote-is-identity", "unexpected-error", st, rr.Summary(), q(s))
		} else {
			for k, what := range []string{"json_unquote(json_quote(s))", "json_unquote(cast(json_quote(s) as json))"} {
				y := normalize(sess.Ctx, rr.Rows[0][k], nil)
				if !y.isStr || y.s != s {
					viol("sql", "unquote-of-quote-is-identity", "wrong-value", what, y.String(), q(s))
				}
			}
		}
	}
	if strings.ContainsAny(s, "\"\\\n\x00\x1f") {
		r.NonTrivial("quote\x00" + s)
		r.Outcome("quote:needs-escape")
	} else {
		r.Outcome("quote:plain")
	}
}

// ------------------------------------------------------------------------------------------------

// extraRoundTripDocs: {"b": x, "aa": y} and {"aa": {"b": x, "aa": y}} for all scalars x, y.
func extraRoundTripDocs() []*jv {
	var out []*jv
	for _, x := range scalarAlphabet() {
		for _, y := range scalarAlphabet() {
			o := jObj([]string{"b", "aa"}, []*jv{x, y})
			out = append(out, o, jObj([]string{"aa"}, []*jv{o.clone()}))
		}
	}
	// long documents: the printed text (~5 kB) crosses the printer's buffer boundaries (1 kB, 2 kB,
	// 4 kB, ...) and a leading pad string of 0..47 bytes shifts every token over every alignment
	// relative to those boundaries (tokens are <= 10 bytes), so a multi-byte token lies across each
	// boundary in some document
	for pad := 0; pad < 48; pad++ {
		xs := []*jv{jStr(strings.Repeat("x", pad))}
		for i := 0; i < 150; i++ {
			xs = append(xs, jStr("éé"), jNum(123456), jTrue(), jNull(), jStr("ab\"c"))
		}
		out = append(out, jArr(xs...))
	}
	return out
}

func flatten(by [][]*jv, from, to int) []*jv {
	var out []*jv
	for n := from; n <= to && n < len(by); n++ {
		out = append(out, by[n]...)
	}
	return out
}

func init() {
	core.Register(&core.Prop{
		ID:    "C32",
		Level: "exploration",
		Rule: "documents: every JSON document with <=4 (quick) / <=5 (thorough) nodes over scalars {null,true,0,-1,1.5,1e2,\"\",\"a\",\"\\\"\",\"é\"} and keys {\"\",A,a,b} (a container is one node). " +
			"(roundtrip) each document (plus 200 objects over the keys {b,aa}, whose canonical order differs from byte order): print the in-memory value, parse the printed text and an equivalent non-canonical spelling (keys reversed, other spacing) and print again: an independent parser (encoding/json token stream) must read an equal document with keys in (length, bytes) order, texts identical, compare = 0; documents <=3 nodes also through SQL cast and a JSON column. " +
			"(paths) each document x 35 simple paths ($, 9 one-leg, 25 two-leg over .a .b .A .\"\" [0] [1] [2] [last] [last-1]) x values {7,\"v\"} through routes eval-doc (all), eval-text (<=3 nodes), sql (<=2 nodes), judged against a model of MySQL's simple-path semantics: json_contains_path <=> json_extract non-NULL; json_extract / json_length = the addressed value; " +
			"json_extract(json_set/insert/replace(d,p,v), p') = v where p' = p if p exists, else the documented landing cell of a creatable path (member of an existing object, first cell past the end of an existing or autowrapped array); when nothing can be written the document is unchanged; json_remove (paths without autowrap): path gone, exactly one element fewer, rest equal, '$' rejected; json_array_append (paths without autowrap): length +1 (2 for a non-array) and the new last cell = v; a missing target is a no-op; arguments never mutated; no panic; 4 wildcard paths: reads agree, nothing panics. " +
			"(compare) antisymmetry, zero-iff-equal and transitivity over all pairs/triples of documents <=3 nodes (quick: pairs/triples over <=2 nodes plus each <=3-node document against them). " +
			"(quote) every string of length <=3 over {a,\",\\,/,\\n,\\0,\\x1f,é,😀}: internal/strings Unquote(Quote(s)) = s and Quote(s) is a JSON literal of s; JSON_UNQUOTE(JSON_QUOTE(s)) = s directly and through SQL. " +
			"non-trivial = (document, path) whose path exists with at least one leg; each round-tripped document; each compare row; each string needing an escape",
		Assumptions: []string{
			"MySQL path semantics for simple paths: member legs match objects only; [n]/[last-n] index arrays; on a non-array [0] and [last] denote the value itself (autowrap)",
			"JSON_SET/INSERT create only a member of an existing object or a cell past the end of an existing (possibly autowrapped) array; last/last-n on a missing cell is outside the checked domain",
			"numbers are compared by value (1e2 = 100); only valid UTF-8 strings",
		},
		Run: func(r *core.Run) {
			eng.ResetGlobals()
			debug.SetGCPercent(400)
			maxNodes := 4
			if r.Thorough() {
				maxNodes = 5
			}
			by := genDocs(maxNodes)
			paths := pathAlphabet()
			for n := 1; n <= maxNodes; n++ {
				r.Info(fmt.Sprintf("documents_with_%d_nodes", n), len(by[n]))
			}
			r.Info("paths", len(paths))
			var idx int64
			var sess *eng.Session
			session := func() *eng.Session {
				if sess == nil {
					sess = eng.New().NewSession("root")
					sess.MustExec("create table jt (id int primary key, j json)")
				}
				return sess
			}
			evDoc, evText := newDirectEval(false), newDirectEval(true)
			var evSQL *sqlEval
			capped := false
			for n := 1; n <= maxNodes; n++ {
				for _, d := range by[n] {
					idx++
					if !r.Mine(idx) {
						continue
					}
					if r.Expired() {
						capped = true
						continue
					}
					if n <= 3 {
						runRoundTrip(r, d, session())
					} else {
						runRoundTrip(r, d, nil)
					}
					runPaths(r, evDoc, d, paths)
					if n <= 3 {
						runPaths(r, evText, d, paths)
					}
					if n <= 2 {
						if evSQL == nil {
							evSQL = newSQLEval()
						}
						runPaths(r, evSQL, d, paths)
					}
				}
			}
			if capped {
				r.Capped("time budget: some documents were not run")
			}
			// keys of different lengths ("b" sorts before "aa" in MySQL's order): round trip only
			extra := extraRoundTripDocs()
			r.Info("extra_roundtrip_documents_with_keys_b_aa", len(extra))
			for _, d := range extra {
				idx++
				if r.Mine(idx) {
					runRoundTrip(r, d, session())
				}
			}
			if r.Thorough() {
				runCompare(r, flatten(by, 1, 3), flatten(by, 4, 4), &idx)
			} else {
				runCompare(r, flatten(by, 1, 2), flatten(by, 3, 3), &idx)
			}
			strs := genStrings(3)
			r.Info("quote_strings", len(strs))
			for _, s := range strs {
				idx++
				if r.Mine(idx) {
					runQuote(r, s, session())
				}
			}
		},
		Replay: func(r *core.Run, w json.RawMessage) {
			var c c32Case
			if json.Unmarshal(w, &c) != nil {
				return
			}
			eng.ResetGlobals()
			parse := func(t string) *jv {
				d, _, err := parseText(t)
				if err != nil {
					panic("replay: bad document text " + t)
				}
				return d
			}
			switch c.Check {
			case "paths":
				d := parse(c.Doc)
				var ev evaluator
				switch c.Route {
				case "eval-text":
					ev = newDirectEval(true)
				case "sql":
					ev = newSQLEval()
				default:
					ev = newDirectEval(false)
				}
				// all paths in the explorer's order: the document argument is shared across them
				runPaths(r, ev, d, pathAlphabet())
			case "roundtrip":
				sess := eng.New().NewSession("root")
				sess.MustExec("create table jt (id int primary key, j json)")
				runRoundTrip(r, parse(c.Doc), sess)
			case "compare":
				docs := []*jv{parse(c.Doc), parse(c.Doc2)}
				if c.Doc3 != "" {
					docs = append(docs, parse(c.Doc3))
				}
				var idx int64
				runCompareReplay(r, docs, &idx)
			case "quote":
				sess := eng.New().NewSession("root")
				runQuote(r, c.Str, sess)
			}
		},
	})
}

// runCompareReplay re-checks the laws on the two or three witness documents only.
func runCompareReplay(r *core.Run, docs []*jv, idx *int64) {
	S := newCmpSet(docs)
	n := len(docs)
	M := make([][]int8, n)
	for i := range M {
		M[i] = make([]int8, n)
		for k := range M[i] {
			M[i][k], _ = compareOnce(S.vals[i], S.vals[k])
		}
	}
	for i := 0; i < n; i++ {
		for k := 0; k < n; k++ {
			checkPair(r, docs[i], docs[k], S.vals[i], S.vals[k], docs[i].equal(docs[k]))
			for l := 0; l < n; l++ {
				if M[i][k] == cmpErr || M[k][l] == cmpErr || M[i][l] == cmpErr {
					continue
				}
				if M[i][k] <= 0 && M[k][l] <= 0 && M[i][l] > 0 {
					cmpViolate(r, "transitive", "cycle", []*jv{docs[i], docs[k], docs[l]}, fmt.Sprintf("a<=b (%d), b<=c (%d) but cmp(a,c)=%d", M[i][k], M[k][l], M[i][l]), "a<=c")
				}
			}
		}
	}
}
