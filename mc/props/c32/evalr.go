package c32

import (
	"context"
	"fmt"
	"sort"
	"strconv"
	"strings"

	"github.com/dolthub/go-mysql-server/sql"
	"github.com/dolthub/go-mysql-server/sql/expression"
	jsonfn "github.com/dolthub/go-mysql-server/sql/expression/function/json"
	"github.com/dolthub/go-mysql-server/sql/types"

	"verif/mc/core"
	"verif/mc/eng"
)

// res is a normalised function result.
type res struct {
	err      error
	panicked bool
	stack    string
	null     bool
	// JSON result: the document (converted to the model); text / keysCanon only from printParse
	isJSON    bool
	text      string
	doc       *jv
	keysCanon bool
	// integer / boolean result
	isInt bool
	n     int64
	// string result
	isStr bool
	s     string
	// how to pass this result on as an argument
	wrapper sql.JSONWrapper // direct routes
	expr    string          // sql route
}

func (r res) String() string {
	switch {
	case r.panicked:
		return fmt.Sprintf("PANIC(%v)", r.err)
	case r.err != nil:
		return "ERR(" + r.err.Error() + ")"
	case r.null:
		return "NULL"
	case r.isJSON:
		return r.jsonText()
	case r.isInt:
		return strconv.FormatInt(r.n, 10)
	case r.isStr:
		return strconv.Quote(r.s)
	}
	return "?"
}

// jsonText prints a JSON result with the engine's own printer (for messages and for handing a
// result on as text).
func (r res) jsonText() string {
	if r.text != "" {
		return r.text
	}
	if r.wrapper != nil {
		if s, err := types.JsonToMySqlString(context.Background(), r.wrapper); err == nil {
			return s
		}
	}
	if r.doc != nil {
		return r.doc.text(true)
	}
	return "?"
}

// fromEngine converts the engine's in-memory document into the model.
func fromEngine(x interface{}) (*jv, error) {
	switch t := x.(type) {
	case nil:
		return jNull(), nil
	case bool:
		if t {
			return jTrue(), nil
		}
		return &jv{kind: 'f'}, nil
	case float64:
		return jNum(t), nil
	case int64:
		return jNum(float64(t)), nil
	case uint64:
		return jNum(float64(t)), nil
	case int:
		return jNum(float64(t)), nil
	case string:
		return jStr(t), nil
	case []interface{}:
		a := &jv{kind: 'A', arr: make([]*jv, 0, len(t))}
		for _, e := range t {
			c, err := fromEngine(e)
			if err != nil {
				return nil, err
			}
			a.arr = append(a.arr, c)
		}
		return a, nil
	case map[string]interface{}:
		o := &jv{kind: 'O', vals: make(map[string]*jv, len(t))}
		for k, e := range t {
			c, err := fromEngine(e)
			if err != nil {
				return nil, err
			}
			o.vals[k] = c
			o.keys = append(o.keys, k)
		}
		sort.Slice(o.keys, func(i, j int) bool { return keyLess(o.keys[i], o.keys[j]) })
		return o, nil
	}
	return nil, fmt.Errorf("unexpected value of type %T inside a JSON document", x)
}

// engineEquals compares the engine's in-memory document with a model document without allocating.
func engineEquals(x interface{}, d *jv) bool {
	switch t := x.(type) {
	case nil:
		return d.kind == 'z'
	case bool:
		return (t && d.kind == 't') || (!t && d.kind == 'f')
	case float64:
		return d.kind == 'n' && d.num == t
	case int64:
		return d.kind == 'n' && d.num == float64(t)
	case uint64:
		return d.kind == 'n' && d.num == float64(t)
	case string:
		return d.kind == 's' && d.str == t
	case []interface{}:
		if d.kind != 'A' || len(t) != len(d.arr) {
			return false
		}
		for i := range t {
			if !engineEquals(t[i], d.arr[i]) {
				return false
			}
		}
		return true
	case map[string]interface{}:
		if d.kind != 'O' || len(t) != len(d.vals) {
			return false
		}
		for k, e := range t {
			c, ok := d.vals[k]
			if !ok || !engineEquals(e, c) {
				return false
			}
		}
		return true
	}
	return false
}

func (r res) ok() bool { return r.err == nil && !r.panicked }

// jsonEquals: the result is a JSON value equal to the model document.
func (r res) jsonEquals(d *jv) bool { return r.ok() && r.isJSON && r.doc != nil && r.doc.equal(d) }

func normalize(ctx context.Context, x interface{}, err error) res {
	if err != nil {
		return res{err: err}
	}
	switch t := x.(type) {
	case nil:
		return res{null: true}
	case sql.JSONWrapper:
		v, e := t.ToInterface(ctx)
		if e != nil {
			return res{err: fmt.Errorf("result cannot be read: %v", e)}
		}
		d, e := fromEngine(v)
		if e != nil {
			return res{err: e}
		}
		return res{isJSON: true, doc: d, wrapper: t}
	case bool:
		if t {
			return res{isInt: true, n: 1}
		}
		return res{isInt: true}
	case int:
		return res{isInt: true, n: int64(t)}
	case int8:
		return res{isInt: true, n: int64(t)}
	case int32:
		return res{isInt: true, n: int64(t)}
	case int64:
		return res{isInt: true, n: t}
	case uint64:
		return res{isInt: true, n: int64(t)}
	case string:
		return res{isStr: true, s: t}
	case []byte:
		return res{isStr: true, s: string(t)}
	case error:
		// json_extract returns an error *value* on a type confusion; treat as error
		return res{err: t}
	}
	return res{err: fmt.Errorf("unexpected result type %T", x)}
}

// evaluator abstracts the route by which the engine's JSON functions are reached.
type evaluator interface {
	name() string
	// docArg wraps a model document as an argument
	docArg(d *jv) res
	// call fn(doc, path[, val]); fn in extract, contains_path, length, type, set, insert, replace, remove, array_append
	call(fn string, doc res, path string, val *jv) res
	// argUnchanged reports whether a document argument built by docArg still denotes d (the
	// functions must not mutate their inputs)
	argUnchanged(arg res, d *jv) bool
}

// ---------------------------------------------------------------------------------------------
// direct route: function expressions evaluated over rows [doc, path, val]
// ---------------------------------------------------------------------------------------------

type directEval struct {
	ctx    *sql.Context
	asText bool // the document argument is passed as JSON text (the function parses it)
	fns    map[string]sql.Expression
	row    sql.Row
}

func newDirectEval(asText bool) *directEval {
	ctx := sql.NewEmptyContext()
	var doc sql.Expression = expression.NewGetField(0, types.JSON, "d", true)
	if asText {
		doc = expression.NewGetField(0, types.LongText, "d", true)
	}
	p := expression.NewGetField(1, types.LongText, "p", true)
	v := expression.NewGetField(2, types.JSON, "v", true)
	one := expression.NewLiteral("one", types.LongText)
	e := &directEval{ctx: ctx, asText: asText, fns: map[string]sql.Expression{}, row: sql.Row{nil, nil, nil}}
	must := func(x sql.Expression, err error) sql.Expression {
		if err != nil {
			panic(err)
		}
		return x
	}
	e.fns["extract"] = must(jsonfn.NewJSONExtract(ctx, doc, p))
	e.fns["contains_path"] = must(jsonfn.NewJSONContainsPath(ctx, doc, one, p))
	e.fns["length"] = must(jsonfn.NewJsonLength(ctx, doc, p))
	e.fns["set"] = must(jsonfn.NewJSONSet(ctx, doc, p, v))
	e.fns["insert"] = must(jsonfn.NewJSONInsert(ctx, doc, p, v))
	e.fns["replace"] = must(jsonfn.NewJSONReplace(ctx, doc, p, v))
	e.fns["remove"] = must(jsonfn.NewJSONRemove(ctx, doc, p))
	e.fns["array_append"] = must(jsonfn.NewJSONArrayAppend(ctx, doc, p, v))
	return e
}

func (e *directEval) name() string {
	if e.asText {
		return "eval-text"
	}
	return "eval-doc"
}

func (e *directEval) docArg(d *jv) res {
	if e.asText {
		return res{isStr: true, s: d.text(false)}
	}
	return res{isJSON: true, wrapper: types.JSONDocument{Val: d.toEngine()}}
}

func (e *directEval) call(fn string, doc res, path string, val *jv) (out res) {
	f := e.fns[fn]
	switch {
	case !e.asText:
		e.row[0] = doc.wrapper
	case doc.isJSON:
		e.row[0] = doc.jsonText() // a previous JSON result handed on to a text-typed argument
	default:
		e.row[0] = doc.s
	}
	e.row[1] = path
	e.row[2] = nil
	if val != nil {
		e.row[2] = types.JSONDocument{Val: val.toEngine()}
	}
	pv, stack := core.Try(func() {
		x, err := f.Eval(e.ctx, e.row)
		out = normalize(e.ctx, x, err)
	})
	if pv != nil {
		return res{panicked: true, err: fmt.Errorf("%v", pv), stack: stack}
	}
	return out
}

func (e *directEval) argUnchanged(arg res, d *jv) bool {
	if e.asText {
		return true // strings are immutable
	}
	v, err := arg.wrapper.ToInterface(e.ctx)
	return err == nil && engineEquals(v, d)
}

// ---------------------------------------------------------------------------------------------
// sql route: one statement per call, every argument a literal
// ---------------------------------------------------------------------------------------------

type sqlEval struct {
	s *eng.Session
}

func newSQLEval() *sqlEval {
	e := eng.New()
	return &sqlEval{s: e.NewSession("root")}
}

func sqlStr(s string) string {
	return "'" + strings.NewReplacer(`\`, `\\`, "'", `''`, "\x00", `\0`, "\n", `\n`).Replace(s) + "'"
}

func (e *sqlEval) name() string { return "sql" }

func (e *sqlEval) docArg(d *jv) res { return res{expr: sqlStr(d.text(false))} }

var sqlFn = map[string]string{"extract": "json_extract", "contains_path": "json_contains_path", "length": "json_length", "set": "json_set",
	"insert": "json_insert", "replace": "json_replace", "remove": "json_remove", "array_append": "json_array_append"}

func (e *sqlEval) call(fn string, doc res, path string, val *jv) res {
	var ex string
	switch fn {
	case "contains_path":
		ex = fmt.Sprintf("json_contains_path(%s,'one',%s)", doc.expr, sqlStr(path))
	case "extract", "length", "remove":
		ex = fmt.Sprintf("%s(%s,%s)", sqlFn[fn], doc.expr, sqlStr(path))
	default:
		ex = fmt.Sprintf("%s(%s,%s,cast(%s as json))", sqlFn[fn], doc.expr, sqlStr(path), sqlStr(val.text(true)))
	}
	r := e.s.Exec("select " + ex)
	if r.Panic != nil {
		return res{panicked: true, err: fmt.Errorf("%v", r.Panic), stack: r.Stack}
	}
	if r.Err != nil {
		return res{err: r.Err}
	}
	if len(r.Rows) != 1 || len(r.Rows[0]) != 1 {
		return res{err: fmt.Errorf("expected one value, got %d rows", len(r.Rows))}
	}
	out := normalize(e.s.Ctx, r.Rows[0][0], nil)
	out.expr = ex
	return out
}

func (e *sqlEval) argUnchanged(arg res, d *jv) bool { return true }
