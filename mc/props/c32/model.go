package c32

import (
	"bytes"
	"encoding/json"
	"fmt"
	"sort"
	"strconv"
	"strings"
)

// jv is the harness' own JSON document model (independent of the engine's representation).
//
//	kind: 'z' null, 't' true, 'f' false, 'n' number, 's' string, 'A' array, 'O' object
type jv struct {
	kind byte
	num  float64
	str  string
	arr  []*jv
	keys []string // object keys in MySQL's canonical order (length, then bytes)
	vals map[string]*jv
}

func jNull() *jv         { return &jv{kind: 'z'} }
func jTrue() *jv         { return &jv{kind: 't'} }
func jNum(f float64) *jv { return &jv{kind: 'n', num: f} }
func jStr(s string) *jv  { return &jv{kind: 's', str: s} }
func jArr(xs ...*jv) *jv { return &jv{kind: 'A', arr: xs} }
func keyLess(a, b string) bool {
	if len(a) != len(b) {
		return len(a) < len(b)
	}
	return a < b
}
func jObj(keys []string, vals []*jv) *jv {
	o := &jv{kind: 'O', vals: map[string]*jv{}}
	for i, k := range keys {
		o.vals[k] = vals[i]
	}
	for k := range o.vals {
		o.keys = append(o.keys, k)
	}
	sort.Slice(o.keys, func(i, j int) bool { return keyLess(o.keys[i], o.keys[j]) })
	return o
}

func (v *jv) isContainer() bool { return v.kind == 'A' || v.kind == 'O' }

func (v *jv) nodes() int {
	n := 1
	for _, x := range v.arr {
		n += x.nodes()
	}
	for _, x := range v.vals {
		n += x.nodes()
	}
	return n
}

func (v *jv) clone() *jv {
	c := &jv{kind: v.kind, num: v.num, str: v.str}
	for _, x := range v.arr {
		c.arr = append(c.arr, x.clone())
	}
	if v.kind == 'O' {
		c.vals = map[string]*jv{}
		c.keys = append([]string(nil), v.keys...)
		for k, x := range v.vals {
			c.vals[k] = x.clone()
		}
	}
	return c
}

func (v *jv) equal(w *jv) bool {
	if v.kind != w.kind {
		return false
	}
	switch v.kind {
	case 'n':
		return v.num == w.num
	case 's':
		return v.str == w.str
	case 'A':
		if len(v.arr) != len(w.arr) {
			return false
		}
		for i := range v.arr {
			if !v.arr[i].equal(w.arr[i]) {
				return false
			}
		}
	case 'O':
		if len(v.vals) != len(w.vals) {
			return false
		}
		for k, x := range v.vals {
			y, ok := w.vals[k]
			if !ok || !x.equal(y) {
				return false
			}
		}
	}
	return true
}

// toEngine builds the engine's in-memory representation (what its own parser produces for such a
// document: nil, bool, float64, string, []interface{}, map[string]interface{}).
func (v *jv) toEngine() interface{} {
	switch v.kind {
	case 'z':
		return nil
	case 't':
		return true
	case 'f':
		return false
	case 'n':
		return v.num
	case 's':
		return v.str
	case 'A':
		out := make([]interface{}, len(v.arr))
		for i, x := range v.arr {
			out[i] = x.toEngine()
		}
		return out
	case 'O':
		out := make(map[string]interface{}, len(v.vals))
		for k, x := range v.vals {
			out[k] = x.toEngine()
		}
		return out
	}
	panic("bad kind")
}

func quoteJSON(s string) string {
	var sb strings.Builder
	sb.WriteByte('"')
	for i := 0; i < len(s); i++ {
		c := s[i]
		switch {
		case c == '"':
			sb.WriteString(`\"`)
		case c == '\\':
			sb.WriteString(`\\`)
		case c == '\n':
			sb.WriteString(`\n`)
		case c < 0x20:
			fmt.Fprintf(&sb, `\u%04x`, c)
		default:
			sb.WriteByte(c)
		}
	}
	sb.WriteByte('"')
	return sb.String()
}

// text writes the document as JSON text. canonical: MySQL's layout (", " and ": " separators, keys in
// canonical order); otherwise a compact layout with the keys in reverse order (an equivalent,
// non-canonical spelling used as parser input).
func (v *jv) text(canonical bool) string {
	var sb strings.Builder
	v.write(&sb, canonical)
	return sb.String()
}

func (v *jv) write(sb *strings.Builder, canonical bool) {
	sep, colon := ", ", ": "
	if !canonical {
		sep, colon = " ,", ":"
	}
	switch v.kind {
	case 'z':
		sb.WriteString("null")
	case 't':
		sb.WriteString("true")
	case 'f':
		sb.WriteString("false")
	case 'n':
		sb.WriteString(strconv.FormatFloat(v.num, 'f', -1, 64))
	case 's':
		sb.WriteString(quoteJSON(v.str))
	case 'A':
		sb.WriteByte('[')
		for i, x := range v.arr {
			if i > 0 {
				sb.WriteString(sep)
			}
			x.write(sb, canonical)
		}
		sb.WriteByte(']')
	case 'O':
		sb.WriteByte('{')
		for i := range v.keys {
			k := v.keys[i]
			if !canonical {
				k = v.keys[len(v.keys)-1-i]
			}
			if i > 0 {
				sb.WriteString(sep)
			}
			sb.WriteString(quoteJSON(k))
			sb.WriteString(colon)
			v.vals[k].write(sb, canonical)
		}
		sb.WriteByte('}')
	}
}

// parseText parses JSON text with Go's encoding/json token stream (independent of the engine's
// marshaller) into the model. keysCanonical reports whether every object listed its keys in
// MySQL's canonical order without duplicates.
func parseText(s string) (v *jv, keysCanonical bool, err error) {
	dec := json.NewDecoder(bytes.NewReader([]byte(s)))
	dec.UseNumber()
	keysCanonical = true
	v, err = parseValue(dec, &keysCanonical)
	if err != nil {
		return nil, false, err
	}
	if _, e := dec.Token(); e == nil {
		return nil, false, fmt.Errorf("trailing data")
	}
	return v, keysCanonical, nil
}

func parseValue(dec *json.Decoder, canon *bool) (*jv, error) {
	tok, err := dec.Token()
	if err != nil {
		return nil, err
	}
	switch t := tok.(type) {
	case nil:
		return jNull(), nil
	case bool:
		if t {
			return jTrue(), nil
		}
		return &jv{kind: 'f'}, nil
	case json.Number:
		f, err := t.Float64()
		if err != nil {
			return nil, err
		}
		return jNum(f), nil
	case string:
		return jStr(t), nil
	case json.Delim:
		switch t {
		case '[':
			a := &jv{kind: 'A'}
			for dec.More() {
				x, err := parseValue(dec, canon)
				if err != nil {
					return nil, err
				}
				a.arr = append(a.arr, x)
			}
			if _, err := dec.Token(); err != nil {
				return nil, err
			}
			return a, nil
		case '{':
			var keys []string
			var vals []*jv
			for dec.More() {
				kt, err := dec.Token()
				if err != nil {
					return nil, err
				}
				k, ok := kt.(string)
				if !ok {
					return nil, fmt.Errorf("non-string key")
				}
				if len(keys) > 0 && !keyLess(keys[len(keys)-1], k) {
					*canon = false
				}
				x, err := parseValue(dec, canon)
				if err != nil {
					return nil, err
				}
				keys = append(keys, k)
				vals = append(vals, x)
			}
			if _, err := dec.Token(); err != nil {
				return nil, err
			}
			return jObj(keys, vals), nil
		}
	}
	return nil, fmt.Errorf("unexpected token %v", tok)
}

// ------------------------------------------------------------------------------------------------
// document enumeration
// ------------------------------------------------------------------------------------------------

func scalarAlphabet() []*jv {
	return []*jv{jNull(), jTrue(), jNum(0), jNum(-1), jNum(1.5), jNum(100), jStr(""), jStr("a"), jStr(`"`), jStr("é")}
}

var keyAlphabet = []string{"", "a", "b", "A"} // in canonical order: "" < "A" < "a" < "b" by (len, bytes)

func init() {
	sort.Slice(keyAlphabet, func(i, j int) bool { return keyLess(keyAlphabet[i], keyAlphabet[j]) })
}

// genDocs returns, per node count 1..max, every document with exactly that many nodes over the
// scalar and key alphabets (a container counts as one node). Deterministic order.
func genDocs(max int) [][]*jv {
	by := make([][]*jv, max+1)
	by[1] = append(scalarAlphabet(), jArr(), jObj(nil, nil))
	// seqs(total, parts): every sequence of `parts` documents whose node counts sum to total
	var seqs func(total, parts int) [][]*jv
	seqs = func(total, parts int) [][]*jv {
		if parts == 0 {
			if total == 0 {
				return [][]*jv{nil}
			}
			return nil
		}
		var out [][]*jv
		for first := 1; first <= total-(parts-1); first++ {
			rest := seqs(total-first, parts-1)
			if len(rest) == 0 {
				continue
			}
			for _, d := range by[first] {
				for _, r := range rest {
					out = append(out, append([]*jv{d}, r...))
				}
			}
		}
		return out
	}
	var keySets func(start, n int) [][]string
	keySets = func(start, n int) [][]string {
		if n == 0 {
			return [][]string{nil}
		}
		var out [][]string
		for i := start; i < len(keyAlphabet); i++ {
			for _, r := range keySets(i+1, n-1) {
				out = append(out, append([]string{keyAlphabet[i]}, r...))
			}
		}
		return out
	}
	for n := 2; n <= max; n++ {
		var out []*jv
		for parts := 1; parts <= n-1; parts++ {
			for _, sq := range seqs(n-1, parts) {
				out = append(out, jArr(sq...))
			}
		}
		for parts := 1; parts <= n-1 && parts <= len(keyAlphabet); parts++ {
			ks := keySets(0, parts)
			for _, sq := range seqs(n-1, parts) {
				for _, k := range ks {
					out = append(out, jObj(k, sq))
				}
			}
		}
		by[n] = out
	}
	return by
}

// ------------------------------------------------------------------------------------------------
// paths
// ------------------------------------------------------------------------------------------------

// leg of a simple path: member (key) or index (n, or last-n when fromEnd).
type leg struct {
	member  bool
	key     string
	n       int
	fromEnd bool
}

func (l leg) String() string {
	if l.member {
		if l.key != "" && strings.Trim(l.key, "abAcdefghijklmnopqrstuvwxyz") == "" {
			return "." + l.key
		}
		return "." + quoteJSON(l.key)
	}
	if l.fromEnd {
		if l.n == 0 {
			return "[last]"
		}
		return fmt.Sprintf("[last-%d]", l.n)
	}
	return fmt.Sprintf("[%d]", l.n)
}

type path struct {
	legs []leg
	text string
}

func mkPath(legs ...leg) path {
	t := "$"
	for _, l := range legs {
		t += l.String()
	}
	return path{legs: legs, text: t}
}

func (p path) parent() path { return mkPath(p.legs[:len(p.legs)-1]...) }

func mem(k string) leg { return leg{member: true, key: k} }
func idx(n int) leg    { return leg{n: n} }
func last(n int) leg   { return leg{n: n, fromEnd: true} }

func pathAlphabet() []path {
	first := []leg{mem("a"), mem("b"), mem("A"), mem(""), idx(0), idx(1), idx(2), last(0), last(1)}
	second := []leg{mem("a"), mem("b"), idx(0), idx(1), last(0)}
	out := []path{mkPath()}
	for _, a := range first {
		out = append(out, mkPath(a))
	}
	for _, a := range second {
		for _, b := range second {
			out = append(out, mkPath(a, b))
		}
	}
	return out
}

// wildcard paths are only valid for the read functions.
var wildcardPaths = []string{"$.*", "$[*]", "$**.a", "$.a[*]"}

// lookupResult of the model's path evaluation (MySQL semantics for simple paths).
type lookupResult struct {
	node     *jv
	exists   bool
	autowrap bool // some index leg was applied to a non-array ([0] / [last] select the value itself)
	// when the path does not exist: which leg failed and why
	failLeg  int
	failKind string // missing-member | member-on-non-object | index-out-of-range | index-on-non-array
}

// fail classifies a failed lookup for violation subjects: "<kind>@inner" (a leg before the last
// one failed) or "<kind>@last".
func (l lookupResult) fail(nlegs int) string {
	if l.exists {
		return "none"
	}
	if l.failLeg < nlegs-1 {
		return l.failKind + "@inner"
	}
	return l.failKind + "@last"
}

// get evaluates a simple path with MySQL's rules: a member leg matches only objects; an index
// leg on an array selects the cell (last-n counts from the end); an index leg on a non-array
// treats the value as a one-element array ([0] and [last] select the value itself).
func get(d *jv, legs []leg) lookupResult {
	cur := d
	res := lookupResult{}
	for i, l := range legs {
		if l.member {
			if cur.kind != 'O' {
				return lookupResult{autowrap: res.autowrap, failLeg: i, failKind: "member-on-non-object"}
			}
			nx, ok := cur.vals[l.key]
			if !ok {
				return lookupResult{autowrap: res.autowrap, failLeg: i, failKind: "missing-member"}
			}
			cur = nx
			continue
		}
		if cur.kind == 'A' {
			ix := l.n
			if l.fromEnd {
				ix = len(cur.arr) - 1 - l.n
			}
			if ix < 0 || ix >= len(cur.arr) {
				return lookupResult{autowrap: res.autowrap, failLeg: i, failKind: "index-out-of-range"}
			}
			cur = cur.arr[ix]
			continue
		}
		res.autowrap = true
		if l.n != 0 { // [0] or [last] on a non-array: the value itself
			return lookupResult{autowrap: true, failLeg: i, failKind: "index-on-non-array"}
		}
	}
	res.node, res.exists = cur, true
	return res
}

func (p path) hasEmptyKey() bool {
	for _, l := range p.legs {
		if l.member && l.key == "" {
			return true
		}
	}
	return false
}

func (p path) usesLast() bool {
	for _, l := range p.legs {
		if l.fromEnd {
			return true
		}
	}
	return false
}
