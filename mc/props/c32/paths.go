package c32

import (
	"fmt"
	"strings"

	"verif/mc/core"
	"verif/mc/eng"
)

// ------------------------------------------------------------------------------------------------
// path laws
// ------------------------------------------------------------------------------------------------

type pathJudge struct {
	r   *core.Run
	ev  evaluator
	d   *jv
	arg res
	p   path
	nt  bool
}

// frameOf: first engine frame below the panic (stacks captured by eng start with its own frames).
func frameOf(stack string) string {
	if i := strings.Index(stack, "\npanic("); i >= 0 {
		stack = stack[i+1:]
	}
	return core.TopFrame(stack)
}

func (j *pathJudge) violate(clause, kind string, subj map[string]string, v *jv, call, obs, exp string) {
	c := c32Case{Check: "paths", Route: j.ev.name(), Doc: j.d.text(true), Path: j.p.text, Call: call}
	if v != nil {
		c.Value = v.text(true)
	}
	if subj == nil {
		subj = map[string]string{}
	}
	j.r.Violate(core.Violation{Check: "paths", Clause: clause, Kind: kind, Subject: subj, Witness: core.J(c), Observed: obs, Expected: exp})
}

func kindName(v *jv) string {
	switch v.kind {
	case 'A':
		return "array"
	case 'O':
		return "object"
	}
	return "scalar"
}

// bad reports a panic (always a violation) or an error (a violation for a simple path) and tells
// whether the result is unusable.
func (j *pathJudge) bad(fn string, x res, v *jv, call string, usesLast bool) bool {
	if x.panicked {
		j.violate("no-panic", "panic", map[string]string{"func": fn, "frame": frameOf(x.stack)}, v, call, x.String(), "a result or an error")
		return true
	}
	if x.err != nil {
		j.violate("simple-path-accepted", "unexpected-error", map[string]string{"func": fn, "uses_last": b2s(usesLast), "error_class": eng.ErrClass(x.err)}, v, call, x.String(), "a result")
		return true
	}
	return false
}

func (j *pathJudge) run() {
	ev, d, p := j.ev, j.d, j.p
	m := get(d, p.legs)
	ek := b2s(p.hasEmptyKey())
	ul := p.usesLast()
	evals := int64(0)
	call := func(fn string, doc res, path string, v *jv) res {
		evals++
		return ev.call(fn, doc, path, v)
	}
	defer func() { j.r.EvalN(evals) }()
	// classifying coordinates shared by the value laws
	subj := func(autowrap bool, extra ...string) map[string]string {
		s := map[string]string{"autowrap": b2s(autowrap), "empty_key": ek}
		for i := 0; i+1 < len(extra); i += 2 {
			s[extra[i]] = extra[i+1]
		}
		return s
	}

	// --- reads ---------------------------------------------------------------------------------
	E := call("extract", j.arg, p.text, nil)
	C := call("contains_path", j.arg, p.text, nil)
	L := call("length", j.arg, p.text, nil)
	badE := j.bad("json_extract", E, nil, "json_extract(d,p)", ul)
	badC := j.bad("json_contains_path", C, nil, "json_contains_path(d,'one',p)", ul)
	badL := j.bad("json_length", L, nil, "json_length(d,p)", ul)
	if !badE && !badC {
		if !C.isInt || (C.n == 1) != !E.null {
			j.violate("contains-path-iff-extract-non-null", "disagree", subj(m.autowrap), nil, "json_contains_path(d,'one',p) vs json_extract(d,p)", "contains_path="+C.String()+" extract="+E.String(), "both find the path or neither does")
		}
	}
	if !badE {
		if m.exists != !E.null || (m.exists && !E.jsonEquals(m.node)) {
			exp := "NULL"
			if m.exists {
				exp = m.node.text(true)
			}
			j.violate("extract-returns-addressed-value", "wrong-value", subj(m.autowrap), nil, "json_extract(d,p)", E.String(), exp)
		}
	}
	if !badL {
		want := res{null: true}
		if m.exists {
			want = res{isInt: true, n: 1}
			if m.node.kind == 'A' {
				want.n = int64(len(m.node.arr))
			} else if m.node.kind == 'O' {
				want.n = int64(len(m.node.vals))
			}
		}
		if L.null != want.null || (!want.null && (!L.isInt || L.n != want.n)) {
			j.violate("length-of-addressed-value", "wrong-value", subj(m.autowrap), nil, "json_length(d,p)", L.String(), want.String())
		}
	}
	if m.exists {
		j.nt = true
	}

	// --- mutations ------------------------------------------------------------------------------
	unchanged := func(fn string, v *jv, callText string) {
		if !ev.argUnchanged(j.arg, d) {
			j.violate("argument-not-mutated", "input-mutated", map[string]string{}, v, callText, j.arg.jsonText(), d.text(true))
			// repair so that later cases start from the right document
			j.arg = ev.docArg(d)
		}
	}
	// where a new value lands when the path does not exist yet (MySQL: member of an existing
	// object, or a position past the end of an existing array / autowrapped non-array)
	type creation struct {
		creatable bool
		at        string // path text that addresses the created value
		autowrap  bool
		edge      bool // last / last-n on a missing cell: outside the documented cases
	}
	classify := func() creation {
		if len(p.legs) == 0 || m.exists {
			return creation{}
		}
		par := get(d, p.legs[:len(p.legs)-1])
		if !par.exists {
			return creation{}
		}
		l := p.legs[len(p.legs)-1]
		pp := p.parent().text
		if l.member {
			if par.node.kind == 'O' {
				return creation{creatable: true, at: p.text, autowrap: par.autowrap}
			}
			return creation{}
		}
		if l.fromEnd {
			return creation{edge: true}
		}
		if par.node.kind == 'A' {
			return creation{creatable: true, at: fmt.Sprintf("%s[%d]", pp, len(par.node.arr)), autowrap: par.autowrap}
		}
		// non-array parent: [0] exists (handled by exists), [n>=1] wraps the value and appends
		return creation{creatable: true, at: pp + "[1]", autowrap: true}
	}
	cr := classify()
	fail := m.fail(len(p.legs))

	for _, v := range valueAlphabet() {
		vt := v.text(true)
		// SET / INSERT / REPLACE
		for _, fn := range []string{"set", "insert", "replace"} {
			sqlName := "json_" + fn
			callText := fmt.Sprintf("%s(d,p,%s)", sqlName, vt)
			S := call(fn, j.arg, p.text, v)
			unchanged(sqlName, v, callText)
			if j.bad(sqlName, S, v, callText, ul) {
				continue
			}
			if !S.isJSON {
				j.violate("mutator-returns-json", "wrong-type", map[string]string{"func": sqlName}, v, callText, S.String(), "a JSON document")
				continue
			}
			writes := (fn == "set") || (fn == "insert" && !m.exists) || (fn == "replace" && m.exists)
			switch {
			case m.exists && writes:
				// existing path: the value is overwritten and json_extract finds it there
				X := call("extract", S, p.text, nil)
				if !j.bad("json_extract", X, v, fmt.Sprintf("json_extract(%s,p)", callText), ul) && !X.jsonEquals(v) {
					j.violate(fn+"-then-extract-returns-value", "wrong-value", subj(m.autowrap, "path_state", "exists"), v,
						fmt.Sprintf("json_extract(%s,p)", callText), X.String()+"   (after "+fn+": "+S.jsonText()+")", vt)
				}
			case !m.exists && writes && cr.creatable:
				X := call("extract", S, cr.at, nil)
				if !j.bad("json_extract", X, v, fmt.Sprintf("json_extract(%s,'%s')", callText, cr.at), ul) && !X.jsonEquals(v) {
					j.violate(fn+"-then-extract-returns-value", "wrong-value", subj(cr.autowrap || m.autowrap, "path_state", "creatable"), v,
						fmt.Sprintf("json_extract(%s,'%s')", callText, cr.at), X.String()+"   (after "+fn+": "+S.jsonText()+")", vt)
				}
			case cr.edge && !m.exists:
				j.r.Count("skipped_last_on_missing_cell", 1)
			default:
				// nothing to write: the document is returned unchanged
				if !S.jsonEquals(d) {
					j.violate(fn+"-without-target-is-noop", "document-changed", subj(m.autowrap, "fail", fail), v, callText, S.jsonText(), d.text(true))
				}
			}
		}
		// ARRAY_APPEND
		{
			callText := fmt.Sprintf("json_array_append(d,p,%s)", vt)
			A := call("array_append", j.arg, p.text, v)
			unchanged("json_array_append", v, callText)
			if !j.bad("json_array_append", A, v, callText, ul) {
				switch {
				case !A.isJSON:
					j.violate("mutator-returns-json", "wrong-type", map[string]string{"func": "json_array_append"}, v, callText, A.String(), "a JSON document")
				case !m.exists:
					if !A.jsonEquals(d) {
						j.violate("array-append-without-target-is-noop", "document-changed", subj(m.autowrap, "fail", fail), v, callText, A.jsonText(), d.text(true))
					}
				case m.autowrap:
					j.r.Count("skipped_autowrap_array_append", 1)
				default:
					n := 1
					if m.node.kind == 'A' {
						n = len(m.node.arr)
					}
					AL := call("length", A, p.text, nil)
					if !j.bad("json_length", AL, v, fmt.Sprintf("json_length(%s,p)", callText), ul) && (!AL.isInt || AL.n != int64(n+1)) {
						j.violate("array-append-adds-exactly-one-element", "wrong-length", subj(false, "target", kindName(m.node)), v, fmt.Sprintf("json_length(%s,p)", callText), AL.String()+"   (after append: "+A.jsonText()+")", fmt.Sprint(n+1))
					}
					lastPath := fmt.Sprintf("%s[%d]", p.text, n)
					AX := call("extract", A, lastPath, nil)
					if !j.bad("json_extract", AX, v, fmt.Sprintf("json_extract(%s,'%s')", callText, lastPath), ul) && !AX.jsonEquals(v) {
						j.violate("array-append-adds-exactly-one-element", "wrong-last-element", subj(false, "target", kindName(m.node)), v, fmt.Sprintf("json_extract(%s,'%s')", callText, lastPath), AX.String()+"   (after append: "+A.jsonText()+")", vt)
					}
				}
			}
		}
	}

	// --- REMOVE ---------------------------------------------------------------------------------
	{
		callText := "json_remove(d,p)"
		R := call("remove", j.arg, p.text, nil)
		unchanged("json_remove", nil, callText)
		switch {
		case len(p.legs) == 0:
			if R.panicked {
				j.bad("json_remove", R, nil, callText, ul)
			} else if R.err == nil {
				j.violate("remove-root-rejected", "accepted", nil, nil, callText, R.String(), "an error: '$' is not allowed")
			}
		case j.bad("json_remove", R, nil, callText, ul):
		case !R.isJSON:
			j.violate("mutator-returns-json", "wrong-type", map[string]string{"func": "json_remove"}, nil, callText, R.String(), "a JSON document")
		case !m.exists:
			if !R.jsonEquals(d) {
				j.violate("remove-without-target-is-noop", "document-changed", subj(m.autowrap, "fail", fail), nil, callText, R.jsonText(), d.text(true))
			}
		case m.autowrap:
			j.r.Count("skipped_autowrap_remove", 1)
		default:
			l := p.legs[len(p.legs)-1]
			par := get(d, p.legs[:len(p.legs)-1])
			gone := p.text // the path that must no longer be found
			if !l.member {
				gone = fmt.Sprintf("%s[%d]", p.parent().text, len(par.node.arr)-1)
				RL := call("length", R, p.parent().text, nil)
				if !j.bad("json_length", RL, nil, "json_length(json_remove(d,p),parent)", p.parent().usesLast()) && (!RL.isInt || RL.n != int64(len(par.node.arr))-1) {
					j.violate("remove-removes-exactly-one-element", "wrong-length", subj(false), nil, "json_length(json_remove(d,p),parent)", RL.String()+"   (after remove: "+R.jsonText()+")", fmt.Sprint(len(par.node.arr)-1))
				}
			}
			RC := call("contains_path", R, gone, nil)
			if !j.bad("json_contains_path", RC, nil, fmt.Sprintf("json_contains_path(json_remove(d,p),'one','%s')", gone), strings.Contains(gone, "last")) && (!RC.isInt || RC.n != 0) {
				j.violate("remove-makes-contains-path-false", "still-present", subj(false), nil, fmt.Sprintf("json_contains_path(json_remove(d,p),'one','%s')", gone), RC.String()+"   (after remove: "+R.jsonText()+")", "0")
			}
			// and nothing else changed: the model's removal
			want := d.clone()
			wp := get(want, p.legs[:len(p.legs)-1]).node
			if l.member {
				delete(wp.vals, l.key)
				var ks []string
				for _, k := range wp.keys {
					if k != l.key {
						ks = append(ks, k)
					}
				}
				wp.keys = ks
			} else {
				i := l.n
				if l.fromEnd {
					i = len(wp.arr) - 1 - l.n
				}
				wp.arr = append(append([]*jv{}, wp.arr[:i]...), wp.arr[i+1:]...)
			}
			if !R.jsonEquals(want) {
				j.violate("remove-removes-exactly-one-element", "wrong-document", subj(false), nil, callText, R.jsonText(), want.text(true))
			}
		}
	}
}

func b2s(b bool) string {
	if b {
		return "y"
	}
	return "n"
}

func runPaths(r *core.Run, ev evaluator, d *jv, paths []path) {
	arg := ev.docArg(d)
	any := false
	for _, p := range paths {
		j := &pathJudge{r: r, ev: ev, d: d, arg: arg, p: p}
		j.run()
		arg = j.arg
		if j.nt && len(p.legs) > 0 {
			any = true
			r.NonTrivial("paths\x00" + ev.name() + "\x00" + d.text(true) + "\x00" + p.text)
		}
	}
	// wildcard paths: reads must agree with each other; nothing may panic
	for _, wp := range wildcardPaths {
		E := ev.call("extract", arg, wp, nil)
		C := ev.call("contains_path", arg, wp, nil)
		r.EvalN(2)
		c := c32Case{Check: "paths", Route: ev.name(), Doc: d.text(true), Path: wp}
		for _, x := range []res{E, C} {
			if x.panicked {
				r.Violate(core.Violation{Check: "paths", Clause: "no-panic", Kind: "panic", Subject: map[string]string{"func": "wildcard-read", "frame": frameOf(x.stack)}, Witness: core.J(c), Observed: x.String()})
			}
		}
		if E.ok() && C.ok() && (!C.isInt || (C.n == 1) != !E.null) {
			r.Violate(core.Violation{Check: "paths", Clause: "contains-path-iff-extract-non-null", Kind: "disagree", Subject: map[string]string{"autowrap": "wildcard", "empty_key": "n"}, Witness: core.J(c), Observed: "contains_path=" + C.String() + " extract=" + E.String(), Expected: "both find the path or neither does"})
		}
		if E.err != nil || C.err != nil {
			r.Count("skipped_unsupported", 1)
		}
		for _, fn := range []string{"set", "remove", "array_append"} {
			var v *jv
			if fn != "remove" {
				v = jNum(7)
			}
			X := ev.call(fn, arg, wp, v)
			r.Eval()
			if X.panicked {
				r.Violate(core.Violation{Check: "paths", Clause: "no-panic", Kind: "panic", Subject: map[string]string{"func": "json_" + fn, "frame": frameOf(X.stack)}, Witness: core.J(c), Observed: X.String()})
			} else if X.err == nil {
				// MySQL rejects wildcards in mutators; the property does not state it, so only count
				r.Count("wildcard_path_accepted_by_mutator", 1)
			}
		}
	}
	if any {
		r.Outcome("paths:" + kindName(d) + ":some-path-exists")
	} else {
		r.Outcome("paths:" + kindName(d) + ":only-root-exists")
	}
}
