// Package c33 — regular expression functions agree with each other and with the pattern.
//
// Space: every pattern with <=3 (quick) / <=4 (thorough) AST nodes over {a, b, ., [ab], [^a], ^, $,
// concatenation, |, *, +, ?, {1,2}, group} x every subject of length <=4 over {a,b,A,\n} x
// match_type x pos 1..5 x occurrence (0..)1..6 x return_option 0/1 x replacement text, through
// REGEXP_LIKE / REGEXP_INSTR / REGEXP_SUBSTR / REGEXP_REPLACE.
package c33

import (
	"encoding/json"
	"fmt"
	"regexp"
	"runtime/debug"
	"strconv"
	"strings"

	"github.com/dolthub/go-mysql-server/sql"
	"github.com/dolthub/go-mysql-server/sql/expression"
	"github.com/dolthub/go-mysql-server/sql/expression/function"
	"github.com/dolthub/go-mysql-server/sql/types"

	"verif/mc/core"
	"verif/mc/eng"
)

const (
	absentMT = "(absent)"
	maxPos   = 5
	maxOcc   = 6 // regexp_instr is asked for occurrences 1..6; a subject of length <=4 has at most 5 matches
	// regexp_substr is asked for occurrences 1..3
	maxSubstrOcc = 3
)

var matchTypes = []string{absentMT, "", "c", "i", "m", "n", "ic", "imn"}
var replacements = []string{"#", "<->", ""}
var invalidPatterns = []string{"(", ")", "[", "*a", "+", "?a", "a{2,1}", `\`, "[b-a]", "(a", "a)", "a|*", "(?<", "[[:foo:]]"}

// c33Case identifies one executed case: all options are swept inside it.
type c33Case struct {
	Route   string `json:"route"` // eval | sql-column | sql-literal | invalid | null
	Pattern string `json:"pattern"`
	Subject string `json:"subject"`
	MT      string `json:"match_type"`
	// the failing call (informational; replay sweeps every option again)
	Call string `json:"call,omitempty"`
}

// ------------------------------------------------------------------------------------------------
// engine side: the four functions built once per (pattern, match_type), evaluated over rows
// ------------------------------------------------------------------------------------------------

type fnSet struct {
	ctx                       *sql.Context
	like, instr, substr, repl sql.Expression
	row                       sql.Row // [text, pos, occ, ret, rtext]
}

func newFnSet(ctx *sql.Context, p, mt string) (*fnSet, error) {
	txt := expression.NewGetField(0, types.LongText, "s", true)
	pos := expression.NewGetField(1, types.Int32, "pos", true)
	occ := expression.NewGetField(2, types.Int32, "occ", true)
	ret := expression.NewGetField(3, types.Int32, "ret", true)
	rt := expression.NewGetField(4, types.LongText, "r", true)
	pl := expression.NewLiteral(p, types.LongText)
	with := func(args ...sql.Expression) []sql.Expression {
		if mt != absentMT {
			args = append(args, expression.NewLiteral(mt, types.LongText))
		}
		return args
	}
	fs := &fnSet{ctx: ctx, row: sql.Row{"", int32(1), int32(1), int32(0), ""}}
	var err error
	if fs.like, err = function.NewRegexpLike(ctx, with(txt, pl)...); err != nil {
		return nil, err
	}
	if fs.instr, err = function.NewRegexpInstr(ctx, with(txt, pl, pos, occ, ret)...); err != nil {
		return nil, err
	}
	if fs.substr, err = function.NewRegexpSubstr(ctx, with(txt, pl, pos, occ)...); err != nil {
		return nil, err
	}
	if fs.repl, err = function.NewRegexpReplace(ctx, with(txt, pl, rt, pos, occ)...); err != nil {
		return nil, err
	}
	return fs, nil
}

func (fs *fnSet) dispose() {
	for _, e := range []sql.Expression{fs.like, fs.instr, fs.substr, fs.repl} {
		if d, ok := e.(sql.Disposable); ok && e != nil {
			d.Dispose(fs.ctx)
		}
	}
}

// val is a normalised function result: err / null / int / string.
type val struct {
	err  error
	null bool
	n    int64
	s    string
	isS  bool
}

func (v val) String() string {
	switch {
	case v.err != nil:
		return "ERR(" + v.err.Error() + ")"
	case v.null:
		return "NULL"
	case v.isS:
		return strconv.Quote(v.s)
	}
	return strconv.FormatInt(v.n, 10)
}

func norm(x any, err error) val {
	if err != nil {
		return val{err: err}
	}
	switch t := x.(type) {
	case nil:
		return val{null: true}
	case string:
		return val{s: t, isS: true}
	case []byte:
		return val{s: string(t), isS: true}
	case bool:
		if t {
			return val{n: 1}
		}
		return val{}
	case int8:
		return val{n: int64(t)}
	case int16:
		return val{n: int64(t)}
	case int32:
		return val{n: int64(t)}
	case int64:
		return val{n: t}
	case int:
		return val{n: int64(t)}
	case uint64:
		return val{n: int64(t)}
	case uint32:
		return val{n: int64(t)}
	case sql.StringWrapper:
		s, e := t.Unwrap(nil)
		if e != nil {
			return val{err: e}
		}
		return val{s: s, isS: true}
	}
	return val{err: fmt.Errorf("unexpected result type %T", x)}
}

// results of one (pattern, subject, match_type) sweep
type sweep struct {
	like   val
	instr  [maxPos + 1][maxOcc + 1][2]val // [pos][occ][ret]
	substr [maxPos + 1][maxOcc + 1]val
	repl   [maxPos + 1][4][]val // [pos][occ 0..3][replacement]
}

func (fs *fnSet) sweep(s string) *sweep {
	sw := &sweep{}
	fs.row[0] = s
	sw.like = norm(fs.like.Eval(fs.ctx, fs.row))
	for pos := 1; pos <= maxPos; pos++ {
		fs.row[1] = int32(pos)
		for occ := 1; occ <= maxOcc; occ++ {
			fs.row[2] = int32(occ)
			for ret := 0; ret < 2; ret++ {
				fs.row[3] = int32(ret)
				sw.instr[pos][occ][ret] = norm(fs.instr.Eval(fs.ctx, fs.row))
			}
			if occ <= maxSubstrOcc {
				sw.substr[pos][occ] = norm(fs.substr.Eval(fs.ctx, fs.row))
			}
		}
		for occ := 0; occ <= 3; occ++ {
			fs.row[2] = int32(occ)
			vs := make([]val, len(replacements))
			for ri, rtext := range replacements {
				if !replSwept(occ, ri) {
					continue
				}
				fs.row[4] = rtext
				vs[ri] = norm(fs.repl.Eval(fs.ctx, fs.row))
			}
			sw.repl[pos][occ] = vs
		}
	}
	return sw
}

// replSwept: replacement '#' with occurrence 0..3, the other replacement texts with occurrence 0 and 1.
func replSwept(occ, ri int) bool { return ri == 0 || occ <= 1 }

const evalsPerSweep = 1 + maxPos*(maxOcc*2+maxSubstrOcc+4+2*2)

// ------------------------------------------------------------------------------------------------
// oracle
// ------------------------------------------------------------------------------------------------

func posInDomain(s string, pos int) bool {
	return pos <= len(s) || (len(s) == 0 && pos == 1)
}

func b2s(b bool) string {
	if b {
		return "y"
	}
	return "n"
}

type judge struct {
	r    *core.Run
	c    c33Case
	n    *node
	g    *goRef // Go regexp reference for (pattern, match_type), shared over subjects
	viol int
}

func (j *judge) violate(check, clause, kind string, subj map[string]string, call, observed, expected string) {
	j.viol++
	c := j.c
	c.Call = call
	if subj == nil {
		subj = map[string]string{}
	}
	j.r.Violate(core.Violation{Check: check, Clause: clause, Kind: kind, Subject: subj, Witness: core.J(c), Observed: observed, Expected: expected})
}

func replaceAll(s string, ms [][2]int, rtext string) string {
	var sb strings.Builder
	at := 0
	for _, m := range ms {
		sb.WriteString(s[at:m[0]])
		sb.WriteString(rtext)
		at = m[1]
	}
	sb.WriteString(s[at:])
	return sb.String()
}

// checkSweep applies the oracle to one sweep. Returns the reference matches from pos 1 (for the
// non-trivial rule / outcome classes).
func (j *judge) checkSweep(sw *sweep) [][2]int {
	s, mt := j.c.Subject, j.c.MT
	f := parseFlags(mt)
	n := j.n
	find := func(from int) (int, int, bool) { return refFindFrom(n, s, from, f) }

	// --- oracle self-check: Go's regexp must agree with the AST matcher where RE2 = ICU --------
	if goComparable(n, s, f) {
		g := j.g
		if g == nil {
			g = newGoRef(j.c.Pattern, f)
		}
		for from := 0; from <= len(s); from++ {
			a0, a1, aok := find(from)
			b0, b1, bok := g.findFrom(s, from)
			if aok != bok || (aok && (a0 != b0 || a1 != b1)) {
				j.violate("oracle-selfcheck", "ast-matcher-equals-go-regexp", "reference-disagreement", nil,
					fmt.Sprintf("find from %d", from), fmt.Sprintf("ast: %v [%d,%d)", aok, a0, a1), fmt.Sprintf("go regexp: %v [%d,%d)", bok, b0, b1))
				return nil
			}
		}
		j.r.Count("go_regexp_crosschecked", 1)
	} else {
		j.r.Count("go_regexp_not_comparable", 1)
	}

	all := refMatches(find, len(s), 0, maxOcc+2)
	before := j.viol

	{
		// ---------------- reference comparison ------------------------------------------------
		wantLike := int64(0)
		if len(all) > 0 {
			wantLike = 1
		}
		if sw.like.err != nil || sw.like.null || sw.like.isS || sw.like.n != wantLike {
			j.violate("reference", "like-equals-reference", "wrong-value", map[string]string{"func": "regexp_like"},
				"regexp_like(s,p,mt)", sw.like.String(), fmt.Sprint(wantLike))
		}
		for pos := 1; pos <= maxPos; pos++ {
			inDom := posInDomain(s, pos)
			ms := refMatches(find, len(s), pos-1, maxOcc+2)
			for occ := 1; occ <= maxOcc; occ++ {
				var want [2]int64
				var wantSub val = val{null: true}
				if occ <= len(ms) {
					want = [2]int64{int64(ms[occ-1][0] + 1), int64(ms[occ-1][1] + 1)}
					wantSub = val{s: s[ms[occ-1][0]:ms[occ-1][1]], isS: true}
				}
				for ret := 0; ret < 2; ret++ {
					got := sw.instr[pos][occ][ret]
					if got.err != nil && !inDom {
						continue
					}
					if got.err != nil || got.null || got.isS || got.n != want[ret] {
						kind := "wrong-value"
						if got.err != nil {
							kind = "unexpected-error"
						}
						j.violate("reference", "instr-equals-reference", kind,
							map[string]string{"func": "regexp_instr", "return_option": strconv.Itoa(ret)},
							fmt.Sprintf("regexp_instr(s,p,%d,%d,%d,mt)", pos, occ, ret), got.String(), fmt.Sprint(want[ret]))
					}
				}
				if occ > maxSubstrOcc {
					continue
				}
				got := sw.substr[pos][occ]
				if got.err != nil && !inDom {
					continue
				}
				if got.err != nil || got.null != wantSub.null || (!got.null && (!got.isS || got.s != wantSub.s)) {
					kind := "wrong-value"
					if got.err != nil {
						kind = "unexpected-error"
					}
					j.violate("reference", "substr-equals-reference", kind,
						map[string]string{"func": "regexp_substr"},
						fmt.Sprintf("regexp_substr(s,p,%d,%d,mt)", pos, occ), got.String(), wantSub.String())
				}
			}
			for occ := 0; occ <= 3; occ++ {
				for ri, rtext := range replacements {
					if !replSwept(occ, ri) {
						continue
					}
					got := sw.repl[pos][occ][ri]
					if got.err != nil && !inDom {
						continue
					}
					want := s
					if occ == 0 {
						want = replaceAll(s, ms, rtext)
					} else if occ <= len(ms) {
						want = replaceAll(s, ms[occ-1:occ], rtext)
					}
					if got.err != nil || got.null || !got.isS || got.s != want {
						kind := "wrong-value"
						if got.err != nil {
							kind = "unexpected-error"
						}
						j.violate("reference", "replace-equals-reference", kind,
							map[string]string{"func": "regexp_replace", "subject_empty": b2s(s == "")},
							fmt.Sprintf("regexp_replace(s,p,%q,%d,%d,mt)", rtext, pos, occ), got.String(), strconv.Quote(want))
					}
				}
			}
		}
	}
	if j.viol > before {
		return all // the agreement laws would only restate the same root cause
	}

	// ---------------- internal agreement laws (reference-free) --------------------------------
	agree := func(clause, kind, fn, call, obs, exp string) {
		j.violate("agreement", clause, kind, map[string]string{"func": fn, "subject_empty": b2s(s == "")}, call, obs, exp)
	}
	i11, s11 := sw.instr[1][1][0], sw.substr[1][1]
	if sw.like.err == nil && i11.err == nil && s11.err == nil {
		l := !sw.like.null && sw.like.n == 1
		if l != (i11.n > 0) || l != (!s11.null) || sw.like.null || (sw.like.n != 0 && sw.like.n != 1) {
			agree("like-iff-instr-iff-substr", "disagree", "regexp_like", "like / instr(1,1,0) / substr(1,1)",
				fmt.Sprintf("like=%v instr=%v substr=%v", sw.like, i11, s11), "match reported by all or by none")
		}
	} else {
		// pos 1 is always in the domain: no function may fail there
		agree("like-iff-instr-iff-substr", "unexpected-error", "regexp_like", "like / instr(1,1,0) / substr(1,1)",
			fmt.Sprintf("like=%v instr=%v substr=%v", sw.like, i11, s11), "no error")
	}
	for pos := 1; pos <= maxPos; pos++ {
		inDom := posInDomain(s, pos)
		var enum [][2]int // matches enumerated by successive INSTR calls
		complete := true
		prevEnd, prevEmpty, prevFound := pos, false, true
		for occ := 1; occ <= maxOcc; occ++ {
			a, b, sub := sw.instr[pos][occ][0], sw.instr[pos][occ][1], sw.substr[pos][occ]
			hasSub := occ <= maxSubstrOcc
			if !hasSub {
				sub = val{null: a.n <= 0, isS: true}
				if a.err == nil && b.err == nil && a.n > 0 && b.n >= a.n && int(b.n) <= len(s)+1 {
					sub.s = s[a.n-1 : b.n-1]
				}
			}
			if a.err != nil || b.err != nil || sub.err != nil {
				complete = false
				if inDom {
					agree("no-error-in-domain", "unexpected-error", "regexp_instr", fmt.Sprintf("pos=%d occ=%d", pos, occ),
						fmt.Sprintf("instr0=%v instr1=%v substr=%v", a, b, sub), "no error")
				}
				break
			}
			if a.null || b.null || a.isS || b.isS {
				agree("instr-returns-integer", "wrong-type", "regexp_instr", fmt.Sprintf("pos=%d occ=%d", pos, occ), fmt.Sprintf("%v %v", a, b), "integer")
				complete = false
				break
			}
			found := a.n > 0
			if found != (b.n > 0) || found != !sub.null {
				agree("instr-iff-substr", "disagree", "regexp_substr", fmt.Sprintf("pos=%d occ=%d", pos, occ),
					fmt.Sprintf("instr(ret 0)=%v instr(ret 1)=%v substr=%v", a, b, sub), "all report a match or none does")
				complete = false
				break
			}
			if found && !prevFound {
				agree("occurrences-contiguous", "disagree", "regexp_instr", fmt.Sprintf("pos=%d occ=%d", pos, occ),
					fmt.Sprintf("occurrence %d found although %d was not", occ, occ-1), "no later occurrence after a missing one")
				complete = false
				break
			}
			prevFound = found
			if !found {
				continue
			}
			st, en := int(a.n), int(b.n)
			if st < pos || en < st || en > len(s)+1 {
				agree("match-bounds", "out-of-range", "regexp_instr", fmt.Sprintf("pos=%d occ=%d", pos, occ),
					fmt.Sprintf("start=%d end=%d", st, en), fmt.Sprintf("%d <= start <= end <= %d", pos, len(s)+1))
				complete = false
				break
			}
			if !sub.isS || sub.s != s[st-1:en-1] {
				agree("substr-occurs-at-instr", "disagree", "regexp_substr", fmt.Sprintf("pos=%d occ=%d", pos, occ),
					fmt.Sprintf("substr=%v instr start=%d end=%d", sub, st, en), strconv.Quote(s[st-1:en-1]))
				complete = false
				break
			}
			if occ > 1 && (st < prevEnd || (prevEmpty && st == prevEnd)) {
				agree("occurrences-ordered", "disagree", "regexp_instr", fmt.Sprintf("pos=%d occ=%d", pos, occ),
					fmt.Sprintf("start=%d, previous end=%d (previous empty: %v)", st, prevEnd, prevEmpty), "start >= previous end (> after an empty match)")
				complete = false
				break
			}
			prevEnd, prevEmpty = en, st == en
			enum = append(enum, [2]int{st - 1, en - 1})
		}
		if !complete {
			continue
		}
		if len(enum) == maxOcc {
			agree("occurrences-bounded", "too-many", "regexp_instr", fmt.Sprintf("pos=%d", pos), fmt.Sprintf("%d matches in a subject of length %d", len(enum), len(s)), "<= length+1 matches")
			continue
		}
		for occ := 0; occ <= 3; occ++ {
			for ri, rtext := range replacements {
				if !replSwept(occ, ri) {
					continue
				}
				got := sw.repl[pos][occ][ri]
				if got.err != nil {
					if inDom {
						agree("no-error-in-domain", "unexpected-error", "regexp_replace", fmt.Sprintf("regexp_replace(s,p,%q,%d,%d,mt)", rtext, pos, occ), got.String(), "no error")
					}
					continue
				}
				want := s
				if occ == 0 {
					want = replaceAll(s, enum, rtext)
				} else if occ <= len(enum) {
					want = replaceAll(s, enum[occ-1:occ], rtext)
				}
				if got.null || !got.isS || got.s != want {
					agree("replace-substitutes-reported-matches", "disagree", "regexp_replace", fmt.Sprintf("regexp_replace(s,p,%q,%d,%d,mt)", rtext, pos, occ),
						got.String(), fmt.Sprintf("%q (matches reported by regexp_instr: %v)", want, enum))
				}
			}
		}
	}
	return all
}

// ------------------------------------------------------------------------------------------------
// routes
// ------------------------------------------------------------------------------------------------

func runEval(r *core.Run, p pat, mt string, subjects []string) {
	ctx := sql.NewEmptyContext()
	var fs *fnSet
	pv, stack := core.Try(func() {
		var err error
		fs, err = newFnSet(ctx, p.Text, mt)
		if err != nil {
			panic(err)
		}
	})
	if pv != nil {
		r.Violate(core.Violation{Check: "reference", Clause: "no-panic", Kind: "panic", Subject: map[string]string{"route": "eval", "frame": core.TopFrame(stack)},
			Witness: core.J(c33Case{Route: "eval", Pattern: p.Text, MT: mt}), Observed: fmt.Sprint(pv)})
		return
	}
	defer fs.dispose()
	g := newGoRef(p.Text, parseFlags(mt))
	for _, s := range subjects {
		c := c33Case{Route: "eval", Pattern: p.Text, Subject: s, MT: mt}
		var sw *sweep
		pv, stack := core.Try(func() { sw = fs.sweep(s) })
		r.EvalN(evalsPerSweep)
		if pv != nil {
			r.Violate(core.Violation{Check: "reference", Clause: "no-panic", Kind: "panic", Subject: map[string]string{"route": "eval", "frame": core.TopFrame(stack)},
				Witness: core.J(c), Observed: fmt.Sprint(pv)})
			continue
		}
		j := &judge{r: r, c: c, n: p.N, g: g}
		all := j.checkSweep(sw)
		classify(r, c, p, all, s)
		if len(s) <= partConstMaxLen && (mt == absentMT || mt == "i") {
			runPartConst(r, c, p, mt, s, sw)
		}
	}
}

// partConstMaxLen bounds the subjects of route eval-partconst (85 subjects of length <= 3).
const partConstMaxLen = 3

func classify(r *core.Run, c c33Case, p pat, all [][2]int, s string) {
	empty := 0
	for _, m := range all {
		if m[0] == m[1] {
			empty++
		}
	}
	r.Outcome(fmt.Sprintf("matches=%d,empty=%d", len(all), empty))
	if len(all) > 0 {
		r.NonTrivial(c.Pattern + "\x00" + c.Subject + "\x00" + c.MT)
		if len(all) > 1 {
			r.Count("cases_with_several_matches", 1)
		}
		if r.WantSample() && len(all) > 1 && p.Size >= 3 && len(s) == 4 {
			r.Sample(map[string]any{"case": c, "reference_matches_from_pos_1": all})
		}
	}
}

// --- SQL routes ----------------------------------------------------------------------------------

func sqlStr(s string) string {
	return "'" + strings.NewReplacer(`\`, `\\`, "'", `\'`, "\n", `\n`).Replace(s) + "'"
}

func mtArg(mt string) string {
	if mt == absentMT {
		return ""
	}
	return "," + sqlStr(mt)
}

type sqlFixture struct {
	s        *eng.Session
	subjects []string
}

func newSQLFixture(subjects []string) *sqlFixture {
	e := eng.New()
	s := e.NewSession("root")
	s.MustExec("create table subj (id int primary key, s varchar(8))")
	var vals []string
	for i, x := range subjects {
		vals = append(vals, fmt.Sprintf("(%d,%s)", i, sqlStr(x)))
		if len(vals) == 100 || i == len(subjects)-1 {
			s.MustExec("insert into subj values " + strings.Join(vals, ","))
			vals = vals[:0]
		}
	}
	return &sqlFixture{s: s, subjects: subjects}
}

// the fixed option tuples of the SQL routes: (pos, occ, ret) for instr, (pos, occ) for substr/replace
var sqlInstr = [][3]int{{1, 1, 0}, {2, 1, 1}, {1, 2, 0}}
var sqlSubstr = [][2]int{{1, 1}, {1, 2}, {2, 1}}
var sqlRepl = [][2]int{{1, 0}, {1, 1}, {1, 2}}

func sqlExprs(sub string, p, mt string) []string {
	P := sqlStr(p)
	m := mtArg(mt)
	out := []string{fmt.Sprintf("regexp_like(%s,%s%s)", sub, P, m)}
	for _, o := range sqlInstr {
		out = append(out, fmt.Sprintf("regexp_instr(%s,%s,%d,%d,%d%s)", sub, P, o[0], o[1], o[2], m))
	}
	for _, o := range sqlSubstr {
		out = append(out, fmt.Sprintf("regexp_substr(%s,%s,%d,%d%s)", sub, P, o[0], o[1], m))
	}
	for _, o := range sqlRepl {
		out = append(out, fmt.Sprintf("regexp_replace(%s,%s,'#',%d,%d%s)", sub, P, o[0], o[1], m))
	}
	// the short spellings (defaults for pos / occurrence / return_option)
	if mt == absentMT {
		out = append(out, fmt.Sprintf("regexp_instr(%s,%s)", sub, P), fmt.Sprintf("regexp_substr(%s,%s)", sub, P), fmt.Sprintf("regexp_replace(%s,%s,'#')", sub, P),
			fmt.Sprintf("%s regexp %s", sub, P), fmt.Sprintf("%s not rlike %s", sub, P))
	}
	return out
}

// sqlExpected computes the reference value of each sqlExprs column.
func sqlExpected(n *node, s, mt string) []val {
	f := parseFlags(mt)
	find := func(from int) (int, int, bool) { return refFindFrom(n, s, from, f) }
	at := func(pos int) [][2]int { return refMatches(find, len(s), pos-1, maxOcc+2) }
	iv := func(x int) val { return val{n: int64(x)} }
	var out []val
	m1 := at(1)
	out = append(out, iv(btoi(len(m1) > 0)))
	instr := func(o [3]int) val {
		ms := at(o[0])
		if o[1] > len(ms) {
			return iv(0)
		}
		return iv(ms[o[1]-1][o[2]] + 1)
	}
	substr := func(o [2]int) val {
		ms := at(o[0])
		if o[1] > len(ms) {
			return val{null: true}
		}
		return val{s: s[ms[o[1]-1][0]:ms[o[1]-1][1]], isS: true}
	}
	repl := func(o [2]int) val {
		ms := at(o[0])
		if o[1] == 0 {
			return val{s: replaceAll(s, ms, "#"), isS: true}
		}
		if o[1] > len(ms) {
			return val{s: s, isS: true}
		}
		return val{s: replaceAll(s, ms[o[1]-1:o[1]], "#"), isS: true}
	}
	for _, o := range sqlInstr {
		out = append(out, instr(o))
	}
	for _, o := range sqlSubstr {
		out = append(out, substr(o))
	}
	for _, o := range sqlRepl {
		out = append(out, repl(o))
	}
	if mt == absentMT {
		out = append(out, instr([3]int{1, 1, 0}), substr([2]int{1, 1}), repl([2]int{1, 0}), iv(btoi(len(m1) > 0)), iv(btoi(len(m1) == 0)))
	}
	return out
}

func btoi(b bool) int {
	if b {
		return 1
	}
	return 0
}

func sameVal(got, want val) bool {
	if got.err != nil {
		return false
	}
	if got.null || want.null {
		return got.null == want.null
	}
	if want.isS {
		return got.isS && got.s == want.s
	}
	return !got.isS && got.n == want.n
}

func fnOf(expr string) string {
	if i := strings.Index(expr, "("); i > 0 && strings.HasPrefix(expr, "regexp_") {
		return expr[:i]
	}
	return "regexp-operator"
}

// sqlViolation reports a SQL-route value that differs from the reference, under the same clause
// names as the eval route.
func sqlViolation(r *core.Run, c c33Case, expr string, got, want val) {
	fn := fnOf(expr)
	subj := map[string]string{"func": fn}
	clause := "like-equals-reference"
	switch fn {
	case "regexp_instr":
		clause = "instr-equals-reference"
	case "regexp_substr":
		clause = "substr-equals-reference"
	case "regexp_replace":
		clause = "replace-equals-reference"
		subj["subject_empty"] = b2s(c.Subject == "")
	}
	r.Violate(core.Violation{Check: "reference", Clause: clause, Kind: "wrong-value", Subject: subj, Witness: core.J(c), Observed: got.String(), Expected: want.String()})
}

// runSQLColumn: one statement per (pattern, match_type) over the subject table: the subject is a
// column (per-row evaluation with a cached compiled pattern).
func runSQLColumn(r *core.Run, fx *sqlFixture, p pat, mt string, route string) {
	exprs := sqlExprs("s", p.Text, mt)
	q := "select id, " + strings.Join(exprs, ", ") + " from subj order by id"
	res := fx.s.Exec(q)
	r.EvalN(int64(len(exprs) * len(fx.subjects)))
	c := c33Case{Route: route, Pattern: p.Text, MT: mt}
	if res.Panic != nil {
		r.Violate(core.Violation{Check: "reference", Clause: "no-panic", Kind: "panic", Subject: map[string]string{"route": route, "frame": core.TopFrame(res.Stack)},
			Witness: core.J(c), Observed: fmt.Sprint(res.Panic)})
		return
	}
	if res.Err != nil {
		c.Call = q
		if len(fx.subjects) > 1 {
			// find the smallest subject that fails
			for _, s := range fx.subjects {
				one := newSQLFixture([]string{s})
				if rr := one.s.Exec(q); rr.Err != nil {
					c.Subject = s
					break
				}
			}
		} else {
			c.Subject = fx.subjects[0]
		}
		r.Violate(core.Violation{Check: "reference", Clause: "sql-statement-succeeds", Kind: "unexpected-error", Subject: map[string]string{"route": route, "error_class": eng.ErrClass(res.Err)},
			Witness: core.J(c), Observed: res.Err.Error(), Expected: "a result row per subject"})
		return
	}
	if len(res.Rows) != len(fx.subjects) {
		r.Violate(core.Violation{Check: "reference", Clause: "sql-statement-succeeds", Kind: "wrong-row-count", Subject: map[string]string{"route": route},
			Witness: core.J(c), Observed: fmt.Sprint(len(res.Rows)), Expected: fmt.Sprint(len(fx.subjects))})
		return
	}
	for i, row := range res.Rows {
		s := fx.subjects[i]
		want := sqlExpected(p.N, s, mt)
		for k, e := range exprs {
			got := norm(row[k+1], nil)
			if !sameVal(got, want[k]) {
				cc := c
				cc.Subject = s
				cc.Call = e
				sqlViolation(r, cc, e, got, want[k])
			}
		}
	}
}

// runSQLLiteral: every argument a literal (constant folding / cached-value path), one statement per
// (pattern, subject, match_type).
func runSQLLiteral(r *core.Run, sess *eng.Session, p pat, s, mt string) {
	exprs := sqlExprs(sqlStr(s), p.Text, mt)
	q := "select " + strings.Join(exprs, ", ")
	res := sess.Exec(q)
	r.EvalN(int64(len(exprs)))
	c := c33Case{Route: "sql-literal", Pattern: p.Text, Subject: s, MT: mt}
	if res.Panic != nil {
		r.Violate(core.Violation{Check: "reference", Clause: "no-panic", Kind: "panic", Subject: map[string]string{"route": c.Route, "frame": core.TopFrame(res.Stack)},
			Witness: core.J(c), Observed: fmt.Sprint(res.Panic)})
		return
	}
	if res.Err != nil || len(res.Rows) != 1 {
		c.Call = q
		r.Violate(core.Violation{Check: "reference", Clause: "sql-statement-succeeds", Kind: "unexpected-error", Subject: map[string]string{"route": c.Route, "error_class": eng.ErrClass(res.Err)},
			Witness: core.J(c), Observed: fmt.Sprint(res.Err), Expected: "one row"})
		return
	}
	want := sqlExpected(p.N, s, mt)
	for k, e := range exprs {
		got := norm(res.Rows[0][k], nil)
		if !sameVal(got, want[k]) {
			cc := c
			cc.Call = e
			sqlViolation(r, cc, e, got, want[k])
		}
	}
}

// --- invalid patterns and NULL arguments -----------------------------------------------------------

func invalidExprs(sub, p, mt string) []string {
	P, m := sqlStr(p), mtArg(mt)
	return []string{
		fmt.Sprintf("regexp_like(%s,%s%s)", sub, P, m),
		fmt.Sprintf("regexp_instr(%s,%s,1,1,0%s)", sub, P, m),
		fmt.Sprintf("regexp_substr(%s,%s,1,1%s)", sub, P, m),
		fmt.Sprintf("regexp_replace(%s,%s,'#',1,0%s)", sub, P, m),
	}
}

func runInvalid(r *core.Run, p, mt string) {
	// sanity of the alphabet: the pattern must be invalid for the reference engine as well
	if _, err := regexp.Compile(p); err == nil {
		panic("harness: pattern " + p + " is valid for Go regexp; not a common-subset invalid pattern")
	}
	fx := newSQLFixture([]string{"a"})
	for _, sub := range []string{"s", "'a'"} {
		for _, e := range invalidExprs(sub, p, mt) {
			q := "select " + e + " from subj"
			res := fx.s.Exec(q)
			r.Eval()
			c := c33Case{Route: "invalid", Pattern: p, Subject: "a", MT: mt, Call: q}
			arg := "column"
			if sub != "s" {
				arg = "literal"
			}
			subj := map[string]string{"route": "invalid", "func": fnOf(e), "subject_arg": arg}
			switch {
			case res.Panic != nil:
				subj["frame"] = core.TopFrame(res.Stack)
				r.Outcome("invalid:panic")
				r.Violate(core.Violation{Check: "invalid-pattern", Clause: "invalid-pattern-is-an-error", Kind: "panic", Subject: subj, Witness: core.J(c), Observed: fmt.Sprint(res.Panic), Expected: "error"})
			case res.Err == nil:
				r.Outcome("invalid:accepted")
				r.Violate(core.Violation{Check: "invalid-pattern", Clause: "invalid-pattern-is-an-error", Kind: "accepted", Subject: subj, Witness: core.J(c), Observed: strings.Join(res.RowStrings(), " "), Expected: "error"})
			default:
				r.Outcome("invalid:error")
				r.NonTrivial("invalid\x00" + q)
			}
		}
	}
}

func runNull(r *core.Run) {
	fx := newSQLFixture([]string{"a"})
	qs := []string{
		"regexp_like(NULL,'a')", "regexp_like(s,NULL)", "regexp_like(s,'a',NULL)",
		"regexp_instr(NULL,'a')", "regexp_instr(s,NULL)", "regexp_instr(s,'a',NULL)", "regexp_instr(s,'a',1,NULL)", "regexp_instr(s,'a',1,1,NULL)", "regexp_instr(s,'a',1,1,0,NULL)",
		"regexp_substr(NULL,'a')", "regexp_substr(s,NULL)", "regexp_substr(s,'a',NULL)", "regexp_substr(s,'a',1,NULL)", "regexp_substr(s,'a',1,1,NULL)",
		"regexp_replace(NULL,'a','#')", "regexp_replace(s,NULL,'#')", "regexp_replace(s,'a',NULL)", "regexp_replace(s,'a','#',NULL)", "regexp_replace(s,'a','#',1,NULL)", "regexp_replace(s,'a','#',1,0,NULL)",
	}
	for _, e := range qs {
		q := "select " + e + " from subj"
		res := fx.s.Exec(q)
		r.Eval()
		c := c33Case{Route: "null", Pattern: "a", Subject: "a", Call: q}
		if res.Panic != nil || res.Err != nil || len(res.Rows) != 1 || res.Rows[0][0] != nil {
			kind := "wrong-value"
			if res.Panic != nil {
				kind = "panic"
			} else if res.Err != nil {
				kind = "unexpected-error"
			}
			r.Violate(core.Violation{Check: "null-argument", Clause: "null-argument-gives-null", Kind: kind, Subject: map[string]string{"route": "null", "func": fnOf(e)},
				Witness: core.J(c), Observed: res.Summary(), Expected: "NULL"})
		} else {
			r.Outcome("null:NULL")
		}
	}
}

// ------------------------------------------------------------------------------------------------

func subjectsUpTo(s string) []string {
	all := genSubjects(4)
	for i, x := range all {
		if x == s {
			return all[:i+1]
		}
	}
	return []string{s}
}

func findPat(text string) (pat, bool) {
	for _, p := range genPatterns(5) {
		if p.Text == text {
			return p, true
		}
	}
	return pat{}, false
}

func init() {
	core.Register(&core.Prop{
		ID:    "C33",
		Level: "exploration",
		Rule: "every pattern with <=3 (quick) / <=4 (thorough) AST nodes over {a,b,.,[ab],[^a],^,$,concat,|,*,+,?,{1,2},group} (no quantifier directly on a quantifier or on a bare anchor) " +
			"x every subject of length <=4 over {a,b,A,\\n} x match_type in {absent,'',c,i,m,n,ic,imn} x pos 1..5 x occurrence (instr 1..6, substr 1..3, replace 0..3) x return_option 0/1 x replacement ('#' with every occurrence, '<->' and '' with occurrence 0 and 1): " +
			"route eval = the four function expressions evaluated directly (pattern literal, other arguments row fields); routes sql-column / sql-literal = SQL statements over a subject table / all-literal arguments with 3 option tuples per function; route eval-partconst (subjects of length <=3, match_type absent / i) = INSTR/SUBSTR/REPLACE with every argument a literal except one (pos, occurrence, return_option or replacement), which comes from the row and is swept over its domain ascending and descending on one expression object — must equal the all-field call; " +
			"plus a list of invalid patterns (must be an error in all four functions) and NULL arguments (must give NULL). " +
			"Oracle: (1) reference = backtracking AST matcher with ICU's rules for ^ $ . nullable loops and findNext, itself cross-checked against Go regexp (find-from-offset with whole-subject context) on every case where RE2 and ICU coincide (not: '$' without m / '^' with m on a subject ending in \\n; quantified nullable bodies); " +
			"(2) when the reference comparison of a case passes, the reference-free agreement laws: LIKE <=> INSTR>0 <=> SUBSTR non-NULL, SUBSTR = subject[INSTR start, INSTR end), occurrences ordered/contiguous, REPLACE = subject with the matches enumerated by successive INSTR calls replaced. " +
			"pos > length(subject) (non-empty subject) is outside the domain: an error or the reference value are both accepted. " +
			"non-trivial = (pattern, subject, match_type) for which the reference finds at least one match from pos 1 (plus each invalid-pattern call that errors)",
		Assumptions: []string{
			"string literals and the varchar column have the default collation utf8mb4_0900_bin, so an absent match_type means case-sensitive",
			"MySQL semantics = ICU semantics: leftmost-first backtracking, find(start) keeps anchors relative to the whole subject, findNext restarts at the previous end (+1 after an empty match)",
			"only '\\n' is used as line terminator",
		},
		Run: func(r *core.Run) {
			eng.ResetGlobals()
			debug.SetGCPercent(400) // millions of tiny short-lived values; fewer GC cycles, same results
			maxSize := 3
			if r.Thorough() {
				maxSize = 4
			}
			pats := genPatterns(maxSize)
			subjects := genSubjects(4)
			short := genSubjects(2)
			r.Info("patterns", len(pats))
			r.Info("subjects", len(subjects))
			r.Info("match_types", len(matchTypes))
			r.Info("invalid_patterns", len(invalidPatterns))
			nl := 0
			for _, p := range pats {
				if p.N.hasNullableLoop() {
					nl++
				}
			}
			r.Info("patterns_with_nullable_loop_not_crosschecked_with_go_regexp", nl)
			var fx *sqlFixture
			var idx int64
			capped := false
			for _, p := range pats {
				for _, mt := range matchTypes {
					idx++
					if !r.Mine(idx) {
						continue
					}
					if r.Expired() {
						capped = true
						continue
					}
					r.AnnounceCase(p.Text + " " + mt)
					runEval(r, p, mt, subjects)
					if fx == nil {
						fx = newSQLFixture(subjects)
					}
					runSQLColumn(r, fx, p, mt, "sql-column")
					if mt == absentMT || mt == "i" || mt == "m" {
						for _, s := range short {
							runSQLLiteral(r, fx.s, p, s, mt)
						}
					}
				}
			}
			if capped {
				r.Capped("time budget: some (pattern, match_type) cases were not run")
			}
			for _, p := range invalidPatterns {
				for _, mt := range []string{absentMT, "i"} {
					idx++
					if r.Mine(idx) {
						runInvalid(r, p, mt)
					}
				}
			}
			idx++
			if r.Mine(idx) {
				runNull(r)
			}
		},
		Replay: func(r *core.Run, w json.RawMessage) {
			var c c33Case
			if json.Unmarshal(w, &c) != nil {
				return
			}
			eng.ResetGlobals()
			switch c.Route {
			case "invalid":
				runInvalid(r, c.Pattern, c.MT)
			case "null":
				runNull(r)
			default:
				p, ok := findPat(c.Pattern)
				if !ok {
					return
				}
				// The function objects (compiled pattern, cached value) live across the subjects of a
				// (pattern, match_type) case, so a replay re-runs the subjects in the explorer's order
				// up to and including the witness subject.
				switch c.Route {
				case "eval", "eval-partconst":
					runEval(r, p, c.MT, subjectsUpTo(c.Subject))
				case "sql-column":
					runSQLColumn(r, newSQLFixture(subjectsUpTo(c.Subject)), p, c.MT, "sql-column")
				case "sql-literal":
					runSQLLiteral(r, newSQLFixture([]string{c.Subject}).s, p, c.Subject, c.MT)
				}
			}
		},
	})
}
