package c33

import "sort"

// Pattern ASTs over the common ICU/RE2 subset.
//
// kinds:  'a' 'b' literal; '.' any; 'S' [ab]; 'N' [^a]; '^'; '$';
//
//	'C' concatenation (x,y); '|' alternation (x,y); 'Q' quantifier (x, q); 'G' group (x).
type node struct {
	kind byte
	x, y *node
	q    string // for 'Q': "*", "+", "?", "{1,2}"
}

var atomKinds = []byte{'a', 'b', '.', 'S', 'N', '^', '$'}
var quantifiers = []string{"*", "+", "?", "{1,2}"}

func (n *node) size() int {
	switch n.kind {
	case 'C', '|':
		return 1 + n.x.size() + n.y.size()
	case 'Q', 'G':
		return 1 + n.x.size()
	}
	return 1
}

// prec: 0 alternation, 1 concatenation, 2 quantified, 3 atom/group.
func (n *node) prec() int {
	switch n.kind {
	case '|':
		return 0
	case 'C':
		return 1
	case 'Q':
		return 2
	}
	return 3
}

func wrap(n *node, min int) string {
	s := n.String()
	if n.prec() < min {
		return "(" + s + ")"
	}
	return s
}

func (n *node) String() string {
	switch n.kind {
	case 'a', 'b', '.', '^', '$':
		return string(n.kind)
	case 'S':
		return "[ab]"
	case 'N':
		return "[^a]"
	case 'C':
		return wrap(n.x, 1) + wrap(n.y, 1)
	case '|':
		return wrap(n.x, 0) + "|" + wrap(n.y, 0)
	case 'Q':
		return wrap(n.x, 3) + n.q
	case 'G':
		return "(" + n.x.String() + ")"
	}
	panic("bad node")
}

// nullable: can the node match the empty string (at some position)?
func (n *node) nullable() bool {
	switch n.kind {
	case '^', '$':
		return true
	case 'C':
		return n.x.nullable() && n.y.nullable()
	case '|':
		return n.x.nullable() || n.y.nullable()
	case 'G':
		return n.x.nullable()
	case 'Q':
		return n.q == "*" || n.q == "?" || n.x.nullable()
	}
	return false
}

// hasNullableLoop: some quantifier is applied to a body that can match the empty string. Engines
// legitimately differ on how such loops terminate (Perl/ICU "leave the loop after an empty
// iteration" vs. RE2's simulation), so these patterns are not cross-checked against Go's regexp;
// the AST reference matcher implements ICU's rule and is compared with the engine on them too.
func (n *node) hasNullableLoop() bool {
	if n == nil {
		return false
	}
	if n.kind == 'Q' && n.x.nullable() {
		return true
	}
	return n.x.hasNullableLoop() || n.y.hasNullableLoop()
}

func (n *node) has(kind byte) bool {
	if n == nil {
		return false
	}
	return n.kind == kind || n.x.has(kind) || n.y.has(kind)
}

// bare anchor directly under a quantifier ("^*", "$+"): not in the common subset (RE2 accepts,
// ICU's treatment is version dependent); excluded from generation.
func quantOK(x *node) bool {
	return x.kind != 'Q' && x.kind != '^' && x.kind != '$'
}

type pat struct {
	Text string
	N    *node
	Size int
}

// genPatterns returns every distinct pattern text with an AST of at most maxSize nodes (the
// smallest AST wins for a text), ordered by (size, text).
func genPatterns(maxSize int) []pat {
	bySize := make([][]*node, maxSize+1)
	for _, k := range atomKinds {
		bySize[1] = append(bySize[1], &node{kind: k})
	}
	for sz := 2; sz <= maxSize; sz++ {
		var out []*node
		for _, x := range bySize[sz-1] {
			if quantOK(x) {
				for _, q := range quantifiers {
					out = append(out, &node{kind: 'Q', x: x, q: q})
				}
			}
			if x.kind != 'G' {
				out = append(out, &node{kind: 'G', x: x})
			}
		}
		for l := 1; l <= sz-2; l++ {
			for _, x := range bySize[l] {
				for _, y := range bySize[sz-1-l] {
					out = append(out, &node{kind: 'C', x: x, y: y}, &node{kind: '|', x: x, y: y})
				}
			}
		}
		bySize[sz] = out
	}
	seen := map[string]bool{}
	var res []pat
	for sz := 1; sz <= maxSize; sz++ {
		var level []pat
		for _, n := range bySize[sz] {
			t := n.String()
			if seen[t] {
				continue
			}
			seen[t] = true
			level = append(level, pat{Text: t, N: n, Size: sz})
		}
		sort.Slice(level, func(i, j int) bool { return level[i].Text < level[j].Text })
		res = append(res, level...)
	}
	return res
}

// genSubjects: every string of length <= maxLen over {a,b,A,\n}, ordered by (length, text).
func genSubjects(maxLen int) []string {
	alpha := []byte{'a', 'b', 'A', '\n'}
	out := []string{""}
	prev := []string{""}
	for l := 1; l <= maxLen; l++ {
		var cur []string
		for _, p := range prev {
			for _, c := range alpha {
				cur = append(cur, p+string(c))
			}
		}
		out = append(out, cur...)
		prev = cur
	}
	return out
}
