package c33

import (
	"fmt"

	"github.com/dolthub/go-mysql-server/sql"
	"github.com/dolthub/go-mysql-server/sql/expression"
	"github.com/dolthub/go-mysql-server/sql/expression/function"
	"github.com/dolthub/go-mysql-server/sql/types"

	"verif/mc/core"
)

// Route eval-partconst: every argument of REGEXP_INSTR / REGEXP_SUBSTR / REGEXP_REPLACE is a
// literal except ONE, which is a row field swept over its whole domain (ascending, then
// descending) on one expression object — the shape of `select regexp_substr('abc def', '[a-z]+',
// 1, n) from seq`. The functions cache the compiled pattern and, when they believe every argument
// is constant, the value itself; the route decides that the cached value is only reused when
// nothing that determines it varies. Expected values are the ones the all-field expression gave
// for the same arguments in the eval route's sweep (which was compared with the reference just
// before), so a known engine/reference difference cancels out and is not reported twice.

type pcBase struct{ pos, occ, ret, ri int }

var pcBases = []pcBase{{1, 1, 0, 0}, {2, 2, 1, 0}, {1, 1, 1, 1}}

const (
	vPos = iota
	vOcc
	vRet
	vRepl
)

var pcVarName = [...]string{"pos", "occurrence", "return_option", "replacement"}

func pcLit(v any, t sql.Type) sql.Expression { return expression.NewLiteral(v, t) }

// pcBuild builds fn with subject s and base b as literals, argument `vary` as field 0 of the row.
func pcBuild(ctx *sql.Context, fn string, p, mt, s string, b pcBase, vary int) (sql.Expression, error) {
	arg := func(which int, lit sql.Expression, t sql.Type) sql.Expression {
		if which == vary {
			return expression.NewGetField(0, t, pcVarName[which], true)
		}
		return lit
	}
	txt := pcLit(s, types.LongText)
	pl := pcLit(p, types.LongText)
	pos := arg(vPos, pcLit(int32(b.pos), types.Int32), types.Int32)
	occ := arg(vOcc, pcLit(int32(b.occ), types.Int32), types.Int32)
	ret := arg(vRet, pcLit(int32(b.ret), types.Int32), types.Int32)
	rt := arg(vRepl, pcLit(replacements[b.ri], types.LongText), types.LongText)
	with := func(args ...sql.Expression) []sql.Expression {
		if mt != absentMT {
			args = append(args, pcLit(mt, types.LongText))
		}
		return args
	}
	switch fn {
	case "regexp_instr":
		return function.NewRegexpInstr(ctx, with(txt, pl, pos, occ, ret)...)
	case "regexp_substr":
		return function.NewRegexpSubstr(ctx, with(txt, pl, pos, occ)...)
	}
	return function.NewRegexpReplace(ctx, with(txt, pl, rt, pos, occ)...)
}

// pcExpected looks the value up in the all-field sweep; ok=false when the sweep did not run it.
func pcExpected(sw *sweep, fn string, pos, occ, ret, ri int) (val, bool) {
	switch fn {
	case "regexp_instr":
		if occ < 1 || occ > maxOcc {
			return val{}, false
		}
		return sw.instr[pos][occ][ret], true
	case "regexp_substr":
		if occ < 1 || occ > maxSubstrOcc {
			return val{}, false
		}
		return sw.substr[pos][occ], true
	}
	if occ < 0 || occ > 3 || !replSwept(occ, ri) {
		return val{}, false
	}
	return sw.repl[pos][occ][ri], true
}

func pcSame(got, want val) bool {
	if got.err != nil || want.err != nil {
		return (got.err != nil) == (want.err != nil)
	}
	return sameVal(got, want)
}

func runPartConst(r *core.Run, c c33Case, p pat, mt string, s string, sw *sweep) {
	ctx := sql.NewEmptyContext()
	type fv struct {
		fn   string
		vary []int
	}
	fns := []fv{{"regexp_instr", []int{vPos, vOcc, vRet}}, {"regexp_substr", []int{vPos, vOcc}}, {"regexp_replace", []int{vPos, vOcc, vRepl}}}
	for _, f := range fns {
		for _, vary := range f.vary {
			for bi, b := range pcBases {
				if f.fn != "regexp_instr" && bi == 2 && vary != vRepl {
					continue // base 3 differs from base 1 only in ret / replacement
				}
				if f.fn == "regexp_substr" && b.occ > maxSubstrOcc {
					continue
				}
				var dom []int
				switch vary {
				case vPos:
					for i := 1; i <= maxPos; i++ {
						dom = append(dom, i)
					}
				case vOcc:
					lo, hi := 1, maxOcc
					if f.fn == "regexp_substr" {
						hi = maxSubstrOcc
					} else if f.fn == "regexp_replace" {
						lo, hi = 0, 3
					}
					for i := lo; i <= hi; i++ {
						dom = append(dom, i)
					}
				case vRet:
					dom = []int{0, 1}
				case vRepl:
					dom = []int{0, 1, 2}
				}
				for dir := 0; dir < 2; dir++ {
					var e sql.Expression
					var cerr error
					pv, stack := core.Try(func() { e, cerr = pcBuild(ctx, f.fn, p.Text, mt, s, b, vary) })
					if pv != nil {
						r.Violate(core.Violation{Check: "reference", Clause: "no-panic", Kind: "panic", Subject: map[string]string{"route": "eval-partconst", "frame": core.TopFrame(stack)},
							Witness: core.J(c), Observed: fmt.Sprint(pv)})
						return
					}
					for k := range dom {
						x := dom[k]
						if dir == 1 {
							x = dom[len(dom)-1-k]
						}
						pos, occ, ret, ri := b.pos, b.occ, b.ret, b.ri
						var row sql.Row
						switch vary {
						case vPos:
							pos, row = x, sql.Row{int32(x)}
						case vOcc:
							occ, row = x, sql.Row{int32(x)}
						case vRet:
							ret, row = x, sql.Row{int32(x)}
						case vRepl:
							ri, row = x, sql.Row{replacements[x]}
						}
						want, ok := pcExpected(sw, f.fn, pos, occ, ret, ri)
						if !ok {
							continue
						}
						var got val
						if cerr != nil {
							got = val{err: cerr}
						} else {
							pv, stack := core.Try(func() { got = norm(e.Eval(ctx, row)) })
							if pv != nil {
								r.Violate(core.Violation{Check: "reference", Clause: "no-panic", Kind: "panic", Subject: map[string]string{"route": "eval-partconst", "frame": core.TopFrame(stack)},
									Witness: core.J(c), Observed: fmt.Sprint(pv)})
								return
							}
						}
						r.Eval()
						if !pcSame(got, want) {
							cc := c
							cc.Route = "eval-partconst"
							order := "ascending"
							if dir == 1 {
								order = "descending"
							}
							cc.Call = fmt.Sprintf("%s(subject=%q literal, pattern literal, base pos=%d occ=%d ret=%d repl=%q; %s from the row, rows in %s order) at %s=%d",
								f.fn, s, b.pos, b.occ, b.ret, replacements[b.ri], pcVarName[vary], order, pcVarName[vary], x)
							r.Violate(core.Violation{Check: "agreement", Clause: "row-argument-equals-literal-argument", Kind: "wrong-value",
								Subject: map[string]string{"func": f.fn, "varying": pcVarName[vary], "route": "eval-partconst"},
								Witness: core.J(cc), Observed: got.String(), Expected: want.String() + " (value of the same call with every argument taken from the row)"})
						}
					}
					if cerr == nil {
						if d, ok := e.(sql.Disposable); ok {
							d.Dispose(ctx)
						}
					}
				}
			}
		}
	}
}
