package c33

import (
	"fmt"
	"regexp"
)

// ---------------------------------------------------------------------------------------------
// Reference 1: a small backtracking matcher over the AST with ICU's (= MySQL's) rules for the
// places where ICU and RE2 differ on '\n':
//   '$'  without 'm': at end of input, or before a line terminator that ends the input
//   '$'  with 'm'   : at end of input or before any line terminator
//   '^'  with 'm'   : at start of input, or after a line terminator that is not the last character
//   '.'             : anything but '\n' unless 'n' (DOTALL)
// Leftmost-first (backtracking priority) semantics, greedy quantifiers.
// ---------------------------------------------------------------------------------------------

type flags struct{ i, m, n bool }

func parseFlags(mt string) flags {
	var f flags
	if mt == absentMT {
		return f
	}
	for _, c := range mt {
		switch c {
		case 'i':
			f.i = true
		case 'c':
			f.i = false
		case 'm':
			f.m = true
		case 'n':
			f.n = true
		}
	}
	return f
}

func lower(c byte) byte {
	if c >= 'A' && c <= 'Z' {
		return c + 32
	}
	return c
}

func match(n *node, s string, i int, f flags, k func(int) bool) bool {
	switch n.kind {
	case 'a', 'b':
		if i < len(s) && (s[i] == n.kind || (f.i && lower(s[i]) == n.kind)) {
			return k(i + 1)
		}
		return false
	case '.':
		if i < len(s) && (f.n || s[i] != '\n') {
			return k(i + 1)
		}
		return false
	case 'S':
		if i < len(s) {
			c := s[i]
			if f.i {
				c = lower(c)
			}
			if c == 'a' || c == 'b' {
				return k(i + 1)
			}
		}
		return false
	case 'N':
		if i < len(s) {
			c := s[i]
			if f.i {
				c = lower(c)
			}
			if c != 'a' {
				return k(i + 1)
			}
		}
		return false
	case '^':
		if i == 0 || (f.m && s[i-1] == '\n' && i < len(s)) {
			return k(i)
		}
		return false
	case '$':
		if i == len(s) || (f.m && s[i] == '\n') || (!f.m && i == len(s)-1 && s[i] == '\n') {
			return k(i)
		}
		return false
	case 'C':
		return match(n.x, s, i, f, func(j int) bool { return match(n.y, s, j, f, k) })
	case '|':
		return match(n.x, s, i, f, k) || match(n.y, s, i, f, k)
	case 'G':
		return match(n.x, s, i, f, k)
	case 'Q':
		min, max := 0, -1
		switch n.q {
		case "+":
			min = 1
		case "?":
			max = 1
		case "{1,2}":
			min, max = 1, 2
		}
		var rep func(count, at int) bool
		rep = func(count, at int) bool {
			if max < 0 || count < max {
				if match(n.x, s, at, f, func(j int) bool {
					if j == at && max < 0 {
						// an iteration of an unbounded loop that consumed nothing ends the loop
						return k(j)
					}
					return rep(count+1, j)
				}) {
					return true
				}
			}
			if count >= min {
				return k(at)
			}
			return false
		}
		return rep(0, i)
	}
	panic("bad node")
}

// findFrom: leftmost match starting at or after byte offset `from` of the whole subject (anchors
// see the whole subject, as with ICU's find(start)). ok=false if there is none.
func refFindFrom(n *node, s string, from int, f flags) (start, end int, ok bool) {
	for st := from; st <= len(s); st++ {
		e := -1
		if match(n, s, st, f, func(j int) bool { e = j; return true }) {
			return st, e, true
		}
	}
	return 0, 0, false
}

// refMatches enumerates the successive matches from 0-based offset `from` with ICU's findNext
// rule: the next search starts at the end of the previous match, one character further if that
// match was empty. At most limit matches.
func refMatches(find func(from int) (int, int, bool), slen, from, limit int) [][2]int {
	var out [][2]int
	if from > slen {
		return nil
	}
	at := from
	for len(out) < limit {
		st, e, ok := find(at)
		if !ok {
			break
		}
		out = append(out, [2]int{st, e})
		at = e
		if st == e {
			at = e + 1
			if at > slen {
				break
			}
		}
	}
	return out
}

// ---------------------------------------------------------------------------------------------
// Reference 2: Go's regexp (RE2, leftmost-first). "Find from offset with whole-subject context" is
// expressed as  \A(?s:.{from})(?s:.*?)(P) : leftmost-first priority makes the lazy prefix as short
// as possible, i.e. group 1 is what a backtracking engine finds first at or after `from`.
// Only used where RE2 and ICU are known to coincide (see goComparable).
// ---------------------------------------------------------------------------------------------

type goRef struct {
	res map[int]*regexp.Regexp
	pat string
	fl  string
}

func newGoRef(p string, f flags) *goRef {
	fl := ""
	if f.i {
		fl += "i"
	}
	if f.m {
		fl += "m"
	}
	if f.n {
		fl += "s"
	}
	return &goRef{res: map[int]*regexp.Regexp{}, pat: p, fl: fl}
}

func (g *goRef) findFrom(s string, from int) (int, int, bool) {
	re := g.res[from]
	if re == nil {
		inner := g.pat
		if g.fl != "" {
			inner = "(?" + g.fl + ":" + g.pat + ")"
		} else {
			inner = "(?:" + g.pat + ")"
		}
		re = regexp.MustCompile(fmt.Sprintf(`\A(?s:.{%d})(?s:.*?)(%s)`, from, inner))
		g.res[from] = re
	}
	loc := re.FindStringSubmatchIndex(s)
	if loc == nil {
		return 0, 0, false
	}
	return loc[2], loc[3], true
}

// goComparable: RE2 and ICU agree on (pattern, subject, flags) unless
//   - the subject ends in '\n' and the pattern uses '$' without 'm' (ICU: also before a final
//     line terminator; RE2: only at the very end) or '^' with 'm' (RE2: also after a final '\n');
//   - a quantifier is applied to a body that can match the empty string: a backtracking engine
//     (ICU, Perl, Java) leaves an unbounded loop after an iteration that consumed nothing, RE2's
//     simulation keeps going; e.g. ($|.)* on "A\n" with 'mn': ICU [0,1), Go [0,2) (measured).
func goComparable(n *node, s string, f flags) bool {
	if n.hasNullableLoop() {
		return false
	}
	if len(s) > 0 && s[len(s)-1] == '\n' {
		if !f.m && n.has('$') {
			return false
		}
		if f.m && n.has('^') {
			return false
		}
	}
	return true
}
