// Package c34 — built-in scalar functions satisfy their defining identities.
//
// Bounded-exhaustive: every tuple of arguments from small alphabets (strings of length <= 2 (quick) /
// <= 3 (thorough) over {a, B, é, 😀, space, %} plus NULL; integers {-2..3, 16, 255, 2^32-1, 2^63-1};
// exact decimals and doubles around the .5 ties; positions/lengths -2..5; bases 2..36 boundaries) is fed
// through `SELECT f(...)` on the real engine, and each law is judged twice where possible: as the
// identity between engine expressions the property states, and against a reference computed in Go from
// the MySQL manual's definition (character = Unicode code point, utf8mb4 bytes).
package c34

import (
	"encoding/json"
	"fmt"
	"runtime"
	"runtime/debug"

	"verif/mc/core"
	"verif/mc/eng"
)

// Case is one replayable evaluation: a law and its argument tuple (nil = SQL NULL; numbers in decimal text).
type Case struct {
	Law string    `json:"law"`
	A   []*string `json:"args"`
}

func sp(s string) *string { return &s }

func (c Case) key() string { b, _ := json.Marshal(c); return string(b) }

type checker struct {
	r *core.Run
	s *eng.Session
}

// pending is a batch of cases evaluated in one statement.
type pending struct {
	c     Case
	l     *law
	exprs []string
}

type batcher struct {
	k     *checker
	items []pending
	ncol  int
}

const maxCols = 48

func (b *batcher) add(c Case) {
	l := laws[c.Law]
	if l == nil {
		return
	}
	ex := l.exprs(c.A)
	b.items = append(b.items, pending{c, l, ex})
	b.ncol += len(ex)
	if b.ncol >= maxCols {
		b.flush()
	}
}

func (b *batcher) flush() {
	if len(b.items) == 0 {
		return
	}
	var all []string
	for _, it := range b.items {
		all = append(all, it.exprs...)
	}
	cells := evalBoth(b.k.r, b.k.s, all)
	off := 0
	for _, it := range b.items {
		b.k.finish(it.c, it.l, cells[off:off+len(it.exprs)])
		off += len(it.exprs)
	}
	b.items = b.items[:0]
	b.ncol = 0
}

func (k *checker) finish(c Case, l *law, cells []cell) {
	k.r.Eval()
	nt, ok := k.judge(c, l, cells)
	if nt {
		k.r.NonTrivial(c.key())
	}
	if ok {
		k.r.Outcome(c.Law + ":ok")
	} else {
		k.r.Outcome(c.Law + ":violation")
	}
	if ok && nt && k.r.WantSample() && len(c.A) > 1 {
		var vals []string
		for _, x := range cells {
			vals = append(vals, x.String())
		}
		k.r.Sample(map[string]any{"case": c, "exprs": l.exprs(c.A), "values": vals})
	}
}

func (k *checker) runCase(c Case) {
	l := laws[c.Law]
	if l == nil {
		return
	}
	k.finish(c, l, evalBoth(k.r, k.s, l.exprs(c.A)))
}

// subject: the classifying coordinates of a violation: the function/law and coarse classes of the arguments.
func subject(c Case, l *law, extra map[string]string) map[string]string {
	s := map[string]string{"fn": l.fn}
	mb := "no"
	null := "no"
	for _, a := range c.A {
		if a == nil {
			null = "yes"
			continue
		}
		for i := 0; i < len(*a); i++ {
			if (*a)[i] >= 0x80 {
				mb = "yes"
			}
		}
	}
	if l.strings {
		s["multibyte"] = mb
	}
	s["null_arg"] = null
	for a, b := range extra {
		s[a] = b
	}
	return s
}

func (k *checker) violate(c Case, l *law, clause, kind string, extra map[string]string, observed, expected string) {
	k.r.Violate(core.Violation{Check: c.Law, Clause: clause, Kind: kind, Subject: subject(c, l, extra), Witness: core.J(c), Observed: observed, Expected: expected})
}

// judge returns (nonTrivial, ok).
func (k *checker) judge(c Case, l *law, cells []cell) (bool, bool) {
	for _, x := range cells {
		if x.Panic != nil {
			k.violate(c, l, "no-panic", "panic", map[string]string{"frame": core.TopFrame(x.Stack)}, x.String(), "a value or NULL")
			return true, false
		}
	}
	for _, x := range cells {
		if x.RouteDiff != "" {
			k.violate(c, l, "engine-route-equals-direct-eval", "routes-disagree", nil, x.RouteDiff, "the same value on both routes")
			return true, false
		}
	}
	v := l.judge(c.A, cells)
	if v == nil {
		return true, true
	}
	if v.trivial {
		return false, true
	}
	k.violate(c, l, v.clause, v.kind, v.extra, v.observed, v.expected)
	return true, false
}

func run(r *core.Run) {
	runtime.GOMAXPROCS(2)
	debug.SetGCPercent(400)
	e := eng.New()
	k := &checker{r: r, s: e.NewSession("root")}
	b := &batcher{k: k}

	maxLen := 2
	if r.Thorough() {
		maxLen = 3
	}
	S := stringsUpTo(maxLen)
	S1 := stringsUpTo(1)
	S2 := stringsUpTo(2)
	r.Info("strings", len(S))
	r.Info("alphabet", alphabet)
	r.Info("ints", ints)
	r.Info("positions", positions)

	var n, mine int64
	capped := false
	emit := func(c Case) {
		n++
		if capped || !r.Mine(n) {
			return
		}
		mine++
		if mine%256 == 0 && r.Expired() {
			capped = true
			return
		}
		b.add(c)
	}
	withNull := func(xs []string) []*string {
		out := []*string{nil}
		for i := range xs {
			out = append(out, &xs[i])
		}
		return out
	}
	SN, S1N, S2N := withNull(S), withNull(S1), withNull(S2)
	var PN []*string // positions / lengths incl. NULL
	PN = append(PN, nil)
	for _, p := range positions {
		PN = append(PN, sp(fmt.Sprint(p)))
	}

	// unary string laws
	for _, x := range SN {
		for _, l := range []string{"reverse", "hex-unhex", "base64", "compress", "lengths", "case", "trim"} {
			emit(Case{l, []*string{x}})
		}
	}
	// binary string laws
	for _, x := range SN {
		for _, y := range SN {
			for _, l := range []string{"concat", "locate", "locate-case", "replace", "strcmp"} {
				emit(Case{l, []*string{x, y}})
			}
		}
	}
	// locate with a start position: needle of length <= 1
	for _, x := range SN {
		for _, y := range S1N {
			for _, p := range PN {
				emit(Case{"locate3", []*string{x, y, p}})
			}
		}
	}
	// (string, count)
	for _, x := range SN {
		for _, p := range PN {
			for _, l := range []string{"left-right", "substring2", "repeat"} {
				emit(Case{l, []*string{x, p}})
			}
			for _, q := range PN {
				emit(Case{"substring3", []*string{x, p, q}})
			}
		}
	}
	// pads: (string, n, pad of length <= 2)
	for _, x := range SN {
		for _, p := range PN {
			for _, y := range S2N {
				emit(Case{"lpad", []*string{x, p, y}})
				emit(Case{"rpad", []*string{x, p, y}})
			}
		}
	}
	// insert: (string, pos, len, insertion of length <= 1)
	for _, x := range SN {
		for _, p := range PN {
			for _, q := range PN {
				for _, y := range S1N {
					emit(Case{"insert", []*string{x, p, q, y}})
				}
			}
		}
	}
	// numbers
	var IN []*string
	IN = append(IN, nil)
	for _, i := range ints {
		IN = append(IN, sp(fmt.Sprint(i)))
	}
	var BN []*string
	BN = append(BN, nil)
	for _, bb := range bases {
		BN = append(BN, sp(fmt.Sprint(bb)))
	}
	for _, i := range IN {
		for _, bb := range BN {
			emit(Case{"conv", []*string{i, bb}})
		}
		emit(Case{"hex-bin-oct", []*string{i}})
		emit(Case{"inet-ntoa", []*string{i}})
		emit(Case{"space", []*string{i}})
		for _, j := range IN {
			emit(Case{"div-mod", []*string{i, j}})
		}
	}
	for _, a := range octets {
		for _, bb := range octets {
			for _, c := range octets {
				for _, d := range octets {
					emit(Case{"inet-aton", []*string{sp(fmt.Sprintf("%d.%d.%d.%d", a, bb, c, d))}})
				}
			}
		}
	}
	for _, bad := range badInet {
		emit(Case{"inet-aton", []*string{sp(bad)}})
	}
	emit(Case{"inet-aton", []*string{nil}})
	for _, a := range inet6 {
		emit(Case{"inet6", []*string{sp(a)}})
	}
	emit(Case{"inet6", []*string{nil}})
	var DN []*string
	DN = append(DN, nil)
	for _, d := range roundDigits {
		DN = append(DN, sp(fmt.Sprint(d)))
	}
	for _, x := range numerics() {
		xx := x
		emit(Case{"floor-ceil", []*string{&xx}})
		for _, d := range DN {
			emit(Case{"round", []*string{&xx, d}})
			emit(Case{"truncate", []*string{&xx, d}})
		}
	}
	emit(Case{"floor-ceil", []*string{nil}})
	for _, d := range DN {
		emit(Case{"round", []*string{nil, d}})
		emit(Case{"truncate", []*string{nil, d}})
	}
	b.flush()
	if capped {
		r.Capped("time budget reached before all tuples were evaluated")
	}
}

func init() {
	core.Register(&core.Prop{
		ID:    "C34",
		Level: "exploration",
		Rule: "every argument tuple: strings of length <=2 (quick) / <=3 (thorough) over {a,B,é,😀,space,%} plus NULL; unary laws (REVERSE, HEX/UNHEX, TO/FROM_BASE64, COMPRESS/UNCOMPRESS, lengths, UPPER/LOWER, TRIM) over all strings; " +
			"binary laws (CONCAT lengths, LOCATE/INSTR/SUBSTRING, REPLACE, STRCMP) over all ordered pairs; LEFT/RIGHT/SUBSTRING/REPEAT x positions {-2..5,NULL}; SUBSTRING x pos x len; LOCATE with start; LPAD/RPAD x n x pads of length <=2; INSERT x pos x len x insertion of length <=1; " +
			"CONV round trip for ints {-2..3,16,255,2^32-1,2^63-1} x bases {2,3,8,10,16,35,36,-2,-16,-36 and invalid 0,1,37}; HEX/BIN/OCT; INET_ATON/NTOA over all quads of octets {0,1,127,128,255} plus malformed; INET6; DIV/MOD identity over int pairs; " +
			"ROUND/TRUNCATE(x,d in {-1,0,1,2,NULL}) and FLOOR/CEIL over exact decimals and doubles around the .5 ties (exact rational reference; for doubles either neighbour at an exact tie). " +
			"Each case is judged as the identity between engine expressions and against a Go reference (code-point semantics). non-trivial = every tuple on which the law is defined (all of them; NULL tuples exercise NULL propagation)",
		Assumptions: []string{
			"default connection collation (utf8mb4_0900_bin in this engine): string equality of results is exact code-point equality",
			"reference semantics from the MySQL 8.0 manual; where 5.7 and 8.0 differ (INSERT at pos = length+1, LPAD/RPAD with an empty pad) both answers are accepted",
			"one engine per worker is reused: all statements are read-only SELECTs without tables",
		},
		QuickBudget: 70, ThoroughBudget: 900,
		Run: run,
		Replay: func(r *core.Run, w json.RawMessage) {
			var c Case
			if json.Unmarshal(w, &c) != nil {
				return
			}
			e := eng.New()
			k := &checker{r: r, s: e.NewSession("root")}
			k.runCase(c)
		},
	})
}
