package c34

import (
	"encoding/base64"
	"fmt"
	"math/big"
	"net/netip"
	"strconv"
	"strings"

	"verif/mc/eng"
)

// ---------------------------------------------------------------------------------------------
// alphabets
// ---------------------------------------------------------------------------------------------

var alphabet = []string{"a", "B", "é", "😀", " ", "%"}
var ints = []int64{-2, -1, 0, 1, 2, 3, 16, 255, 4294967295, 9223372036854775807}
var positions = []int{-2, -1, 0, 1, 2, 3, 4, 5}
var bases = []int{2, 3, 8, 10, 16, 35, 36, -2, -16, -36, 0, 1, 37}
var octets = []int{0, 1, 127, 128, 255}
var badInet = []string{"", "a", "256.0.0.1", "1.2.3.", ".1.2.3", "1..2.3", "1.2.3.4.5", "1.2.3.-4", "1.2.3.4 "}
var inet6 = []string{"::", "::1", "1::", "fe80::1", "2001:db8::ff00:42:8329", "::ffff:1.2.3.4", "ffff:ffff:ffff:ffff:ffff:ffff:ffff:ffff", "1.2.3.4", "255.255.255.255", "2001:db8:0:1:1:1:1:1", "1:2:3:4:5:6:7::", "nonsense", ":::", "1.2.3.256"}

// addresses whose text form is the same under RFC 5952 and under MySQL's printer (which also compresses a single zero group)
var inet6Canonical = map[string]bool{"::": true, "::1": true, "1::": true, "fe80::1": true, "2001:db8::ff00:42:8329": true, "::ffff:1.2.3.4": true,
	"ffff:ffff:ffff:ffff:ffff:ffff:ffff:ffff": true, "1.2.3.4": true, "255.255.255.255": true}
var roundDigits = []int{-1, 0, 1, 2}

func numerics() []string {
	dec := []string{"0", "0.5", "-0.5", "1.5", "-1.5", "2.5", "-2.5", "0.4", "-0.6", "2.45", "-2.55", "0.05", "-0.05", "15", "-25", "3", "-2", "1000000000000000.5"}
	out := append([]string{}, dec...)
	for _, d := range dec {
		out = append(out, d+"e0")
	}
	return out
}

func stringsUpTo(n int) []string {
	out := []string{""}
	level := []string{""}
	for i := 0; i < n; i++ {
		var next []string
		for _, p := range level {
			for _, c := range alphabet {
				next = append(next, p+c)
			}
		}
		out = append(out, next...)
		level = next
	}
	return out
}

// ---------------------------------------------------------------------------------------------
// SQL rendering and value access
// ---------------------------------------------------------------------------------------------

func S(a *string) string { // string literal
	if a == nil {
		return "NULL"
	}
	return "'" + strings.ReplaceAll(strings.ReplaceAll(*a, `\`, `\\`), "'", "''") + "'"
}

func N(a *string) string { // numeric literal (parenthesised: a leading minus must bind to the literal)
	if a == nil {
		return "NULL"
	}
	return "(" + *a + ")"
}

func anyNull(a []*string) bool {
	for _, x := range a {
		if x == nil {
			return true
		}
	}
	return false
}

func atoi(a *string) int64 { n, _ := strconv.ParseInt(*a, 10, 64); return n }

func vStr(c cell) (s string, null, ok bool) {
	switch x := c.V.(type) {
	case nil:
		return "", true, true
	case string:
		return x, false, true
	case []byte:
		return string(x), false, true
	}
	return "", false, false
}

func vRat(c cell) (r *big.Rat, null, ok bool) {
	if c.V == nil {
		return nil, true, true
	}
	if b, isB := c.V.(bool); isB {
		if b {
			return big.NewRat(1, 1), false, true
		}
		return new(big.Rat), false, true
	}
	t := strings.Trim(eng.FormatValue(c.V), "'")
	r, ok = new(big.Rat).SetString(t)
	return r, false, ok
}

type verdict struct {
	trivial            bool
	clause, kind       string
	extra              map[string]string
	observed, expected string
}

func errVerdict(x cell, expected string) *verdict {
	return &verdict{clause: "value-required", kind: "error", extra: map[string]string{"errclass": eng.ErrClass(x.Err)}, observed: x.String(), expected: expected}
}

func wantStr(x cell, exp string, clause string) *verdict {
	if x.Err != nil {
		return errVerdict(x, strconv.Quote(exp))
	}
	s, null, ok := vStr(x)
	if null {
		return &verdict{clause: clause, kind: "null-result", observed: "NULL", expected: strconv.Quote(exp)}
	}
	if !ok || s != exp {
		return &verdict{clause: clause, kind: "wrong-value", observed: x.String(), expected: strconv.Quote(exp)}
	}
	return nil
}

// wantStrOneOf accepts any of the listed strings; a nil entry accepts NULL.
func wantStrOneOf(x cell, clause string, exps ...*string) *verdict {
	var names []string
	for _, e := range exps {
		if e == nil {
			names = append(names, "NULL")
		} else {
			names = append(names, strconv.Quote(*e))
		}
	}
	expected := strings.Join(names, " or ")
	if x.Err != nil {
		return errVerdict(x, expected)
	}
	s, null, ok := vStr(x)
	for _, e := range exps {
		if (e == nil && null) || (e != nil && !null && ok && s == *e) {
			return nil
		}
	}
	kind := "wrong-value"
	if null {
		kind = "null-result"
	}
	return &verdict{clause: clause, kind: kind, observed: x.String(), expected: expected}
}

func wantRat(x cell, exp *big.Rat, clause string) *verdict {
	if x.Err != nil {
		return errVerdict(x, exp.RatString())
	}
	r, null, ok := vRat(x)
	if null {
		return &verdict{clause: clause, kind: "null-result", observed: "NULL", expected: exp.RatString()}
	}
	if !ok || r.Cmp(exp) != 0 {
		return &verdict{clause: clause, kind: "wrong-value", observed: x.String(), expected: exp.RatString()}
	}
	return nil
}

func wantInt(x cell, exp int64, clause string) *verdict {
	return wantRat(x, new(big.Rat).SetInt64(exp), clause)
}

func wantNull(x cell, clause string) *verdict {
	if x.Err != nil {
		return errVerdict(x, "NULL")
	}
	if x.V != nil {
		return &verdict{clause: clause, kind: "non-null", observed: x.String(), expected: "NULL"}
	}
	return nil
}

func first(vs ...*verdict) *verdict {
	for _, v := range vs {
		if v != nil {
			return v
		}
	}
	return nil
}

// ---------------------------------------------------------------------------------------------
// references (code-point semantics)
// ---------------------------------------------------------------------------------------------

func rlen(s string) int { return len([]rune(s)) }

func refReverse(s string) string {
	r := []rune(s)
	for i, j := 0, len(r)-1; i < j; i, j = i+1, j-1 {
		r[i], r[j] = r[j], r[i]
	}
	return string(r)
}

func refLeft(s string, n int64) string {
	r := []rune(s)
	if n <= 0 {
		return ""
	}
	if n > int64(len(r)) {
		n = int64(len(r))
	}
	return string(r[:n])
}

func refRight(s string, n int64) string {
	r := []rune(s)
	if n <= 0 {
		return ""
	}
	if n > int64(len(r)) {
		n = int64(len(r))
	}
	return string(r[int64(len(r))-n:])
}

func refSubstring(s string, pos int64, hasLen bool, l int64) string {
	r := []rune(s)
	n := int64(len(r))
	if pos == 0 {
		return ""
	}
	if pos < 0 {
		pos = n + pos + 1
		if pos < 1 {
			return ""
		}
	}
	if pos > n {
		return ""
	}
	start := pos - 1
	if !hasLen {
		return string(r[start:])
	}
	if l < 1 {
		return ""
	}
	end := start + l
	if end > n {
		end = n
	}
	return string(r[start:end])
}

// refLocate: 1-based code-point position of the first occurrence of sub in s at or after pos; 0 if none.
func refLocate(sub, s string, pos int64) int64 {
	r := []rune(s)
	n := int64(len(r))
	start := pos - 1
	if start < 0 || start > n {
		return 0
	}
	rs := []rune(sub)
	if start+int64(len(rs)) > n {
		return 0
	}
	if len(rs) == 0 {
		return start + 1
	}
	for i := start; i+int64(len(rs)) <= n; i++ {
		if string(r[i:i+int64(len(rs))]) == sub {
			return i + 1
		}
	}
	return 0
}

// refPad: LPAD/RPAD. ok=false means NULL. ambiguous: empty pad needed (NULL in 5.7, '' in 8.0).
func refPad(s string, n int64, pad string, left bool) (res string, null bool, ambiguous bool) {
	if n < 0 {
		return "", true, false
	}
	r := []rune(s)
	if n <= int64(len(r)) {
		return string(r[:n]), false, false
	}
	p := []rune(pad)
	if len(p) == 0 {
		return "", false, true
	}
	need := n - int64(len(r))
	var fill []rune
	for int64(len(fill)) < need {
		fill = append(fill, p...)
	}
	fill = fill[:need]
	if left {
		return string(fill) + s, false, false
	}
	return s + string(fill), false, false
}

// refInsert: INSERT(s,pos,len,ins). alt is the MySQL 5.7 answer when it differs (pos = length+1 appends).
func refInsert(s string, pos, l int64, ins string) (res string, alt *string) {
	r := []rune(s)
	n := int64(len(r))
	if pos == n+1 {
		a := s + ins
		return s, &a
	}
	if pos < 1 || pos > n {
		return s, nil
	}
	if l < 0 || pos-1+l > n {
		l = n - (pos - 1)
	}
	return string(r[:pos-1]) + ins + string(r[pos-1+l:]), nil
}

func refConvOut(n int64, base int) string {
	if base < 0 {
		return strings.ToUpper(strconv.FormatInt(n, -base))
	}
	return strings.ToUpper(strconv.FormatUint(uint64(n), base))
}

func validBase(b int) bool {
	if b < 0 {
		b = -b
	}
	return b >= 2 && b <= 36
}

func refInetAton(a string) (uint32, bool) {
	parts := strings.Split(a, ".")
	if len(parts) != 4 {
		return 0, false
	}
	var n uint32
	for _, p := range parts {
		if p == "" || len(p) > 3 {
			return 0, false
		}
		for _, ch := range p {
			if ch < '0' || ch > '9' {
				return 0, false
			}
		}
		v, _ := strconv.Atoi(p)
		if v > 255 {
			return 0, false
		}
		n = n<<8 | uint32(v)
	}
	return n, true
}

func refInetNtoa(n uint32) string {
	return fmt.Sprintf("%d.%d.%d.%d", n>>24, n>>16&255, n>>8&255, n&255)
}

var half = big.NewRat(1, 2)
var one = big.NewRat(1, 1)

func pow10(d int) *big.Rat {
	r := big.NewRat(1, 1)
	ten := big.NewRat(10, 1)
	for i := 0; i < d; i++ {
		r.Mul(r, ten)
	}
	for i := 0; i > d; i-- {
		r.Quo(r, ten)
	}
	return r
}

func ratFloor(x *big.Rat) *big.Rat {
	q := new(big.Int).Div(x.Num(), x.Denom()) // Euclidean division: floor for positive denominators
	return new(big.Rat).SetInt(q)
}

func ratCeil(x *big.Rat) *big.Rat {
	return new(big.Rat).Neg(ratFloor(new(big.Rat).Neg(x)))
}

// parseNumeric returns the exact value of the literal as the server reads it: exact for decimals, the nearest
// float64 for doubles (a literal with an exponent).
func parseNumeric(lit string) (x *big.Rat, isDouble bool) {
	if strings.ContainsAny(lit, "eE") {
		f, _ := strconv.ParseFloat(lit, 64)
		return new(big.Rat).SetFloat64(f), true
	}
	x, _ = new(big.Rat).SetString(lit)
	return x, false
}

// refRoundSet returns the acceptable results of ROUND (trunc=false) / TRUNCATE (trunc=true) of x to d digits.
// Exact decimals: one answer (half away from zero / toward zero). Doubles: the computation x*10^d is itself
// rounded, so when the scaled value is within 1e-9 of a tie (resp. of an integer) both neighbours are acceptable.
func refRoundSet(x *big.Rat, d int, trunc, isDouble bool) []*big.Rat {
	scale := pow10(d)
	y := new(big.Rat).Mul(x, scale)
	neg := y.Sign() < 0
	ay := new(big.Rat).Abs(y)
	lo := ratFloor(ay)
	hi := new(big.Rat).Add(lo, one)
	frac := new(big.Rat).Sub(ay, lo)
	eps := big.NewRat(1, 1_000_000_000)
	near := func(a, b *big.Rat) bool {
		return new(big.Rat).Abs(new(big.Rat).Sub(a, b)).Cmp(eps) <= 0
	}
	var picks []*big.Rat
	if trunc {
		picks = append(picks, lo)
		if isDouble && near(frac, one) {
			picks = append(picks, hi)
		}
		if isDouble && near(frac, new(big.Rat)) && lo.Sign() > 0 {
			picks = append(picks, new(big.Rat).Sub(lo, one))
		}
	} else {
		switch c := frac.Cmp(half); {
		case isDouble && near(frac, half):
			picks = append(picks, lo, hi)
		case c >= 0:
			picks = append(picks, hi)
		default:
			picks = append(picks, lo)
		}
	}
	var out []*big.Rat
	for _, p := range picks {
		v := new(big.Rat).Quo(p, scale)
		if neg {
			v.Neg(v)
		}
		out = append(out, v)
	}
	return out
}

func wantRatOneOf(x cell, exps []*big.Rat, isDouble bool, clause string) *verdict {
	var names []string
	for _, e := range exps {
		names = append(names, e.FloatString(6))
	}
	expected := strings.Join(names, " or ")
	if x.Err != nil {
		return errVerdict(x, expected)
	}
	r, null, ok := vRat(x)
	if null {
		return &verdict{clause: clause, kind: "null-result", observed: "NULL", expected: expected}
	}
	if ok {
		for _, e := range exps {
			if r.Cmp(e) == 0 {
				return nil
			}
			if isDouble {
				// the result is a double: compare up to its representation error
				diff := new(big.Rat).Abs(new(big.Rat).Sub(r, e))
				tol := new(big.Rat).Mul(big.NewRat(1, 1_000_000_000_000), new(big.Rat).Add(one, new(big.Rat).Abs(e)))
				if diff.Cmp(tol) <= 0 {
					return nil
				}
			}
		}
	}
	return &verdict{clause: clause, kind: "wrong-value", observed: x.String(), expected: expected}
}

// ---------------------------------------------------------------------------------------------
// laws
// ---------------------------------------------------------------------------------------------

type law struct {
	fn      string // function family (signature coordinate)
	strings bool   // arguments are strings: classify by multi-byte content
	// main: expressions in which every argument takes part (they must be NULL when any argument is NULL)
	main func(a []*string) []string
	// aux: further expressions, only evaluated for NULL-free tuples
	aux func(a []*string) []string
	// check judges a NULL-free tuple; m and x are the values of main and aux
	check func(a []*string, m, x []cell) *verdict
	// skip: tuples on which the law is not evaluated at all (trivial)
	skip func(a []*string) bool
}

func (l *law) exprs(a []*string) []string {
	if l.skip != nil && !anyNull(a) && l.skip(a) {
		return nil
	}
	out := l.main(a)
	if !anyNull(a) && l.aux != nil {
		out = append(out, l.aux(a)...)
	}
	return out
}

func (l *law) judge(a []*string, cells []cell) *verdict {
	if len(cells) == 0 {
		return &verdict{trivial: true}
	}
	if anyNull(a) {
		for _, c := range cells {
			if v := wantNull(c, "null-propagation"); v != nil {
				return v
			}
		}
		return nil
	}
	nm := len(l.main(a))
	return l.check(a, cells[:nm], cells[nm:])
}

func f(format string, args ...any) string { return fmt.Sprintf(format, args...) }

var laws = map[string]*law{
	"reverse": {fn: "reverse", strings: true,
		main: func(a []*string) []string { x := S(a[0]); return []string{f("reverse(%s)", x), f("reverse(reverse(%s))", x)} },
		check: func(a []*string, m, _ []cell) *verdict {
			return first(wantStr(m[0], refReverse(*a[0]), "reverses-code-points"), wantStr(m[1], *a[0], "reverse(reverse(x))=x"))
		}},
	"hex-unhex": {fn: "hex", strings: true,
		main: func(a []*string) []string {
			x := S(a[0])
			return []string{f("hex(%s)", x), f("unhex(hex(%s))", x), f("unhex(lower(hex(%s)))", x)}
		},
		check: func(a []*string, m, _ []cell) *verdict {
			return first(wantStr(m[0], strings.ToUpper(fmt.Sprintf("%x", *a[0])), "hex-of-utf8-bytes"), wantStr(m[1], *a[0], "unhex(hex(x))=x"), wantStr(m[2], *a[0], "unhex(hex(x))=x"))
		}},
	"base64": {fn: "base64", strings: true,
		main: func(a []*string) []string {
			x := S(a[0])
			return []string{f("to_base64(%s)", x), f("from_base64(to_base64(%s))", x)}
		},
		check: func(a []*string, m, _ []cell) *verdict {
			return first(wantStr(m[0], base64.StdEncoding.EncodeToString([]byte(*a[0])), "standard-base64"), wantStr(m[1], *a[0], "from_base64(to_base64(x))=x"))
		}},
	"compress": {fn: "compress", strings: true,
		main: func(a []*string) []string {
			x := S(a[0])
			return []string{f("uncompress(compress(%s))", x), f("uncompressed_length(compress(%s))", x)}
		},
		check: func(a []*string, m, _ []cell) *verdict {
			return first(wantStr(m[0], *a[0], "uncompress(compress(x))=x"), wantInt(m[1], int64(len(*a[0])), "uncompressed_length=length"))
		}},
	"lengths": {fn: "length", strings: true,
		main: func(a []*string) []string {
			x := S(a[0])
			return []string{f("char_length(%s)", x), f("character_length(%s)", x), f("length(%s)", x), f("octet_length(%s)", x), f("bit_length(%s)", x)}
		},
		check: func(a []*string, m, _ []cell) *verdict {
			n, b := int64(rlen(*a[0])), int64(len(*a[0]))
			return first(wantInt(m[0], n, "char_length=code-points"), wantInt(m[1], n, "char_length=code-points"), wantInt(m[2], b, "length=bytes"), wantInt(m[3], b, "length=bytes"), wantInt(m[4], 8*b, "bit_length=8*bytes"))
		}},
	"case": {fn: "upper-lower", strings: true,
		main: func(a []*string) []string {
			x := S(a[0])
			return []string{f("upper(%s)", x), f("lower(%s)", x), f("upper(lower(%s))", x), f("lower(upper(%s))", x)}
		},
		check: func(a []*string, m, _ []cell) *verdict {
			u, l := strings.ToUpper(*a[0]), strings.ToLower(*a[0])
			return first(wantStr(m[0], u, "upper"), wantStr(m[1], l, "lower"), wantStr(m[2], u, "upper(lower(x))=upper(x)"), wantStr(m[3], l, "lower(upper(x))=lower(x)"))
		}},
	"trim": {fn: "trim", strings: true,
		main: func(a []*string) []string {
			x := S(a[0])
			return []string{f("trim(%s)", x), f("ltrim(%s)", x), f("rtrim(%s)", x), f("ltrim(rtrim(%s))", x)}
		},
		check: func(a []*string, m, _ []cell) *verdict {
			x := *a[0]
			return first(wantStr(m[0], strings.Trim(x, " "), "trim"), wantStr(m[1], strings.TrimLeft(x, " "), "ltrim"), wantStr(m[2], strings.TrimRight(x, " "), "rtrim"), wantStr(m[3], strings.Trim(x, " "), "ltrim(rtrim(x))=trim(x)"))
		}},
	"concat": {fn: "concat", strings: true,
		main: func(a []*string) []string {
			x, y := S(a[0]), S(a[1])
			return []string{f("concat(%s,%s)", x, y), f("char_length(concat(%s,%s))", x, y), f("length(concat(%s,%s))", x, y)}
		},
		aux: func(a []*string) []string {
			x, y := S(a[0]), S(a[1])
			return []string{f("char_length(%s)+char_length(%s)", x, y), f("length(%s)+length(%s)", x, y)}
		},
		check: func(a []*string, m, x []cell) *verdict {
			s := *a[0] + *a[1]
			return first(wantStr(m[0], s, "concatenation"),
				wantInt(m[1], int64(rlen(s)), "char_length(concat)=code-points"), wantInt(x[0], int64(rlen(s)), "char_length(x)+char_length(y)"),
				wantInt(m[2], int64(len(s)), "length(concat)=bytes"), wantInt(x[1], int64(len(s)), "length(x)+length(y)"))
		}},
	"locate": {fn: "locate", strings: true,
		main: func(a []*string) []string {
			x, y := S(a[0]), S(a[1])
			return []string{f("locate(%s,%s)", y, x), f("instr(%s,%s)", x, y), f("substring(%s, locate(%s,%s), char_length(%s))", x, y, x, y)}
		},
		check: func(a []*string, m, _ []cell) *verdict {
			p := refLocate(*a[1], *a[0], 1)
			v := first(wantInt(m[0], p, "locate=first-code-point-position"), wantInt(m[1], p, "instr=locate"))
			if v == nil && p > 0 {
				v = wantStr(m[2], *a[1], "substring(x,locate(y,x),char_length(y))=y")
			}
			return v
		}},
	// the connection collation of this engine is utf8mb4_0900_bin: matching is case-sensitive
	"locate-case": {fn: "locate-case", strings: true,
		main: func(a []*string) []string {
			x, y := S(a[0]), S(a[1])
			return []string{f("locate(upper(%s), lower(%s))", y, x), f("instr(lower(%s), upper(%s))", x, y), f("replace(lower(%s), upper(%s), 'zz')", x, y)}
		},
		check: func(a []*string, m, _ []cell) *verdict {
			x, y := strings.ToLower(*a[0]), strings.ToUpper(*a[1])
			p := refLocate(y, x, 1)
			rep := x
			if y != "" {
				rep = strings.ReplaceAll(x, y, "zz")
			}
			return first(wantInt(m[0], p, "locate-is-case-sensitive-under-bin-collation"), wantInt(m[1], p, "locate-is-case-sensitive-under-bin-collation"), wantStr(m[2], rep, "replace-is-case-sensitive"))
		}},
	"locate3": {fn: "locate", strings: true,
		main: func(a []*string) []string { return []string{f("locate(%s,%s,%s)", S(a[1]), S(a[0]), N(a[2]))} },
		check: func(a []*string, m, _ []cell) *verdict {
			p := atoi(a[2])
			e := refLocate(*a[1], *a[0], p)
			if *a[1] == "" && p >= 2 && e == p {
				// empty needle at a later start: the manual is silent (the server answers pos); 0 is tolerated
				return wantRatOneOf(m[0], []*big.Rat{new(big.Rat).SetInt64(e), new(big.Rat)}, false, "locate-from-position")
			}
			return wantInt(m[0], e, "locate-from-position")
		}},
	"replace": {fn: "replace", strings: true,
		main: func(a []*string) []string {
			x, y := S(a[0]), S(a[1])
			return []string{f("replace(%s,%s,%s)", x, y, y), f("replace(%s,%s,'')", x, y), f("replace(%s,%s,'zz')", x, y)}
		},
		check: func(a []*string, m, _ []cell) *verdict {
			x, y := *a[0], *a[1]
			del, zz := x, x
			if y != "" {
				del, zz = strings.ReplaceAll(x, y, ""), strings.ReplaceAll(x, y, "zz")
			}
			return first(wantStr(m[0], x, "replace(x,y,y)=x"), wantStr(m[1], del, "replace-all-occurrences"), wantStr(m[2], zz, "replace-all-occurrences"))
		}},
	"strcmp": {fn: "strcmp", strings: true,
		main: func(a []*string) []string {
			x, y := S(a[0]), S(a[1])
			return []string{f("strcmp(%s,%s)", x, y), f("strcmp(%s,%s)", y, x), f("%s = %s", x, y)}
		},
		check: func(a []*string, m, _ []cell) *verdict {
			c := int64(strings.Compare(*a[0], *a[1]))
			eq := int64(0)
			if c == 0 {
				eq = 1
			}
			return first(wantInt(m[0], c, "strcmp=code-point-order"), wantInt(m[1], -c, "strcmp(x,y)=-strcmp(y,x)"), wantInt(m[2], eq, "(x=y)<=>strcmp=0"))
		}},
	"left-right": {fn: "left-right", strings: true,
		main: func(a []*string) []string {
			x, n := S(a[0]), N(a[1])
			return []string{f("left(%s,%s)", x, n), f("right(%s,%s)", x, n), f("concat(left(%s,%s), substring(%s,%s+1))", x, n, x, n), f("concat(substring(%s,1,char_length(%s)-%s), right(%s,%s))", x, x, n, x, n)}
		},
		check: func(a []*string, m, _ []cell) *verdict {
			x, n := *a[0], atoi(a[1])
			v := first(wantStr(m[0], refLeft(x, n), "left=first-n-code-points"), wantStr(m[1], refRight(x, n), "right=last-n-code-points"))
			if v == nil && n >= 0 {
				v = wantStr(m[2], x, "concat(left(x,n),substring(x,n+1))=x")
			}
			if v == nil && n >= 0 && n <= int64(rlen(x)) {
				v = wantStr(m[3], x, "concat(substring(x,1,len-n),right(x,n))=x")
			}
			return v
		}},
	"substring2": {fn: "substring", strings: true,
		main: func(a []*string) []string {
			x, p := S(a[0]), N(a[1])
			// (SUBSTRING(x FROM p) is rejected by the pinned parser: outside the domain)
			return []string{f("substring(%s,%s)", x, p), f("substr(%s,%s)", x, p)}
		},
		check: func(a []*string, m, _ []cell) *verdict {
			e := refSubstring(*a[0], atoi(a[1]), false, 0)
			return first(wantStr(m[0], e, "substring-from-position"), wantStr(m[1], e, "substring-from-position"))
		}},
	"substring3": {fn: "substring", strings: true,
		main: func(a []*string) []string {
			x, p, l := S(a[0]), N(a[1]), N(a[2])
			return []string{f("substring(%s,%s,%s)", x, p, l), f("mid(%s,%s,%s)", x, p, l)}
		},
		check: func(a []*string, m, _ []cell) *verdict {
			e := refSubstring(*a[0], atoi(a[1]), true, atoi(a[2]))
			return first(wantStr(m[0], e, "substring-position-length"), wantStr(m[1], e, "substring-position-length"))
		}},
	"repeat": {fn: "repeat", strings: true,
		main: func(a []*string) []string {
			x, n := S(a[0]), N(a[1])
			return []string{f("repeat(%s,%s)", x, n), f("char_length(repeat(%s,%s))", x, n)}
		},
		check: func(a []*string, m, _ []cell) *verdict {
			n := atoi(a[1])
			e := ""
			if n > 0 {
				e = strings.Repeat(*a[0], int(n))
			}
			return first(wantStr(m[0], e, "repeat-n-times"), wantInt(m[1], int64(rlen(e)), "char_length(repeat(x,n))=n*char_length(x)"))
		}},
	"lpad": padLaw(true),
	"rpad": padLaw(false),
	"insert": {fn: "insert", strings: true,
		main: func(a []*string) []string {
			return []string{f("insert(%s,%s,%s,%s)", S(a[0]), N(a[1]), N(a[2]), S(a[3]))}
		},
		aux: func(a []*string) []string {
			x, p, l, y := S(a[0]), N(a[1]), N(a[2]), S(a[3])
			return []string{f("concat(left(%s,%s-1), %s, substring(%s,%s+%s))", x, p, y, x, p, l)}
		},
		check: func(a []*string, m, x []cell) *verdict {
			s, p, l, y := *a[0], atoi(a[1]), atoi(a[2]), *a[3]
			e, alt := refInsert(s, p, l, y)
			if alt != nil {
				return wantStrOneOf(m[0], "insert-replaces-code-points", &e, alt)
			}
			v := wantStr(m[0], e, "insert-replaces-code-points")
			if v == nil && p >= 1 && p <= int64(rlen(s)) && l >= 0 {
				v = wantStr(x[0], e, "insert=concat(left,new,substring)")
			}
			return v
		}},
	"conv": {fn: "conv",
		main: func(a []*string) []string {
			n, b := N(a[0]), N(a[1])
			return []string{f("conv(%s,10,%s)", n, b), f("conv(conv(%s,10,%s),%s,10)", n, b, b)}
		},
		check: func(a []*string, m, _ []cell) *verdict {
			n, b := atoi(a[0]), int(atoi(a[1]))
			if !validBase(b) {
				return first(wantNull(m[0], "invalid-base-is-null"), wantNull(m[1], "invalid-base-is-null"))
			}
			v := first(wantStr(m[0], refConvOut(n, b), "conv-to-base"), wantStr(m[1], strconv.FormatUint(uint64(n), 10), "conv(conv(n,10,b),b,10)=n"))
			if v != nil {
				v.extra = map[string]string{"base_sign": map[bool]string{true: "negative", false: "positive"}[b < 0], "n_sign": map[bool]string{true: "negative", false: "non-negative"}[n < 0]}
			}
			return v
		}},
	"hex-bin-oct": {fn: "hex-bin-oct",
		main: func(a []*string) []string {
			n := N(a[0])
			return []string{f("hex(%s)", n), f("bin(%s)", n), f("oct(%s)", n), f("conv(hex(%s),16,10)", n)}
		},
		check: func(a []*string, m, _ []cell) *verdict {
			u := uint64(atoi(a[0]))
			v := first(wantStr(m[0], strings.ToUpper(strconv.FormatUint(u, 16)), "hex-of-integer"), wantStr(m[1], strconv.FormatUint(u, 2), "bin-of-integer"),
				wantStr(m[2], strconv.FormatUint(u, 8), "oct-of-integer"), wantStr(m[3], strconv.FormatUint(u, 10), "conv(hex(n),16,10)=n"))
			if v != nil {
				v.extra = map[string]string{"n_sign": map[bool]string{true: "negative", false: "non-negative"}[atoi(a[0]) < 0]}
			}
			return v
		}},
	"inet-ntoa": {fn: "inet_ntoa",
		main: func(a []*string) []string {
			n := N(a[0])
			return []string{f("inet_ntoa(%s)", n), f("inet_aton(inet_ntoa(%s))", n)}
		},
		check: func(a []*string, m, _ []cell) *verdict {
			n := atoi(a[0])
			if n < 0 || n > 4294967295 {
				return first(wantNull(m[0], "out-of-range-is-null"), wantNull(m[1], "out-of-range-is-null"))
			}
			v := first(wantStr(m[0], refInetNtoa(uint32(n)), "dotted-quad"), wantInt(m[1], n, "inet_aton(inet_ntoa(n))=n"))
			if v != nil {
				v.extra = map[string]string{"range": map[bool]string{true: ">=2^31", false: "<2^31"}[n >= 1<<31]}
			}
			return v
		}},
	"inet-aton": {fn: "inet_aton",
		main: func(a []*string) []string {
			x := S(a[0])
			return []string{f("inet_aton(%s)", x), f("inet_ntoa(inet_aton(%s))", x)}
		},
		check: func(a []*string, m, _ []cell) *verdict {
			n, ok := refInetAton(*a[0])
			if !ok {
				v := first(wantNull(m[0], "malformed-is-null"), wantNull(m[1], "malformed-is-null"))
				if v != nil {
					v.extra = map[string]string{"input": "malformed"}
				}
				return v
			}
			v := first(wantInt(m[0], int64(n), "address-to-number"), wantStr(m[1], *a[0], "inet_ntoa(inet_aton(a))=a"))
			if v != nil {
				v.extra = map[string]string{"range": map[bool]string{true: ">=2^31", false: "<2^31"}[n >= 1<<31]}
			}
			return v
		}},
	"inet6": {fn: "inet6",
		main: func(a []*string) []string {
			x := S(a[0])
			return []string{f("hex(inet6_aton(%s))", x), f("hex(inet6_aton(inet6_ntoa(inet6_aton(%s))))", x), f("inet6_ntoa(inet6_aton(%s))", x)}
		},
		check: func(a []*string, m, _ []cell) *verdict {
			s := *a[0]
			addr, err := netip.ParseAddr(s)
			if err != nil {
				return first(wantNull(m[0], "malformed-is-null"), wantNull(m[1], "malformed-is-null"), wantNull(m[2], "malformed-is-null"))
			}
			hx := strings.ToUpper(fmt.Sprintf("%x", addr.AsSlice()))
			v := first(wantStr(m[0], hx, "address-to-bytes"), wantStr(m[1], hx, "inet6_aton(inet6_ntoa(b))=b"))
			if v == nil && inet6Canonical[s] {
				v = wantStr(m[2], s, "inet6_ntoa(inet6_aton(a))=a")
			}
			return v
		}},
	"space": {fn: "space",
		skip: func(a []*string) bool { return atoi(a[0]) > 255 },
		main: func(a []*string) []string {
			n := N(a[0])
			return []string{f("space(%s)", n), f("char_length(space(%s))", n)}
		},
		check: func(a []*string, m, _ []cell) *verdict {
			n := atoi(a[0])
			if n < 0 {
				n = 0
			}
			return first(wantStr(m[0], strings.Repeat(" ", int(n)), "n-spaces"), wantInt(m[1], n, "char_length(space(n))=n"))
		}},
	"div-mod": {fn: "div-mod",
		main: func(a []*string) []string {
			x, y := N(a[0]), N(a[1])
			return []string{f("%s div %s", x, y), f("%s mod %s", x, y), f("(%s div %s) * %s + (%s mod %s)", x, y, y, x, y)}
		},
		check: func(a []*string, m, _ []cell) *verdict {
			x, y := atoi(a[0]), atoi(a[1])
			if y == 0 {
				return first(wantNull(m[0], "division-by-zero-is-null"), wantNull(m[1], "division-by-zero-is-null"), wantNull(m[2], "division-by-zero-is-null"))
			}
			return first(wantInt(m[0], x/y, "div-truncates-toward-zero"), wantInt(m[1], x%y, "mod-has-sign-of-dividend"), wantInt(m[2], x, "(a div b)*b+(a mod b)=a"))
		}},
	"floor-ceil": {fn: "floor-ceil",
		main: func(a []*string) []string {
			x := N(a[0])
			return []string{f("floor(%s)", x), f("ceil(%s)", x), f("ceiling(%s)", x)}
		},
		check: func(a []*string, m, _ []cell) *verdict {
			x, dbl := parseNumeric(*a[0])
			v := first(wantRat(m[0], ratFloor(x), "floor(x)<=x<floor(x)+1"), wantRat(m[1], ratCeil(x), "ceil(x)-1<x<=ceil(x)"), wantRat(m[2], ratCeil(x), "ceil(x)-1<x<=ceil(x)"))
			if v != nil {
				v.extra = numExtra(dbl)
			}
			return v
		}},
	"round": {fn: "round",
		main: func(a []*string) []string { return []string{f("round(%s,%s)", N(a[0]), N(a[1]))} },
		aux: func(a []*string) []string {
			if *a[1] == "0" {
				return []string{f("round(%s)", N(a[0]))}
			}
			return nil
		},
		check: func(a []*string, m, x []cell) *verdict {
			v, dbl := parseNumeric(*a[0])
			set := refRoundSet(v, int(atoi(a[1])), false, dbl)
			r := wantRatOneOf(m[0], set, dbl, "round-half-away-within-half-unit")
			if r == nil && len(x) > 0 {
				r = wantRatOneOf(x[0], set, dbl, "round-half-away-within-half-unit")
			}
			if r != nil {
				r.extra = numExtra(dbl)
				r.extra["digits"] = digitsClass(atoi(a[1]))
			}
			return r
		}},
	"truncate": {fn: "truncate",
		main: func(a []*string) []string { return []string{f("truncate(%s,%s)", N(a[0]), N(a[1]))} },
		check: func(a []*string, m, _ []cell) *verdict {
			v, dbl := parseNumeric(*a[0])
			r := wantRatOneOf(m[0], refRoundSet(v, int(atoi(a[1])), true, dbl), dbl, "truncate-toward-zero")
			if r != nil {
				r.extra = numExtra(dbl)
				r.extra["digits"] = digitsClass(atoi(a[1]))
			}
			return r
		}},
}

func numExtra(dbl bool) map[string]string {
	if dbl {
		return map[string]string{"numtype": "double"}
	}
	return map[string]string{"numtype": "exact"}
}

func digitsClass(d int64) string {
	switch {
	case d < 0:
		return "negative"
	case d == 0:
		return "zero"
	}
	return "positive"
}

func padLaw(left bool) *law {
	name := "rpad"
	if left {
		name = "lpad"
	}
	return &law{fn: name, strings: true,
		main: func(a []*string) []string {
			x, n, p := S(a[0]), N(a[1]), S(a[2])
			return []string{f("%s(%s,%s,%s)", name, x, n, p), f("char_length(%s(%s,%s,%s))", name, x, n, p)}
		},
		check: func(a []*string, m, _ []cell) *verdict {
			n := atoi(a[1])
			e, null, amb := refPad(*a[0], n, *a[2], left)
			if null {
				return first(wantNull(m[0], "negative-length-is-null"), wantNull(m[1], "negative-length-is-null"))
			}
			if amb {
				return wantStrOneOf(m[0], "empty-pad", &e, nil)
			}
			return first(wantStr(m[0], e, "pads-to-n-code-points"), wantInt(m[1], n, "char_length(pad(x,n,p))=n"))
		}}
}
