// Package c35 — clients receive exactly the engine's results over the wire.
//
// Bounded-exhaustive over result sizes around the row-batch boundary × iterator kinds × protocol
// routes × fault positions, plus every statement-granularity interleaving of small multi-client
// scenarios, plus a real go-sql-driver client on a unix socket at the boundary sizes. The real
// *server.Handler is driven in-process (package wire); the row source of the size/fault parts is
// the harness database hdb (hdb.go).
package c35

import (
	"context"
	"encoding/json"
	"errors"
	"fmt"
	"strconv"
	"strings"

	"github.com/dolthub/go-mysql-server/sql"
	"github.com/dolthub/go-mysql-server/sql/types"
	"github.com/dolthub/vitess/go/sqltypes"
	querypb "github.com/dolthub/vitess/go/vt/proto/query"

	"verif/mc/core"
	"verif/mc/eng"
	"verif/mc/props/c35/wire"
)

func init() {
	core.Register(&core.Prop{
		ID:    "C35",
		Level: "exploration",
		Rule: "handler part: every result size N in 0..258 ∪ {511..514, 1023..1026} × iterator kind {rows: select * from a harness sql.Table (default pipeline); proj: top-level projection (deferred projection); param: filter with a bound parameter; value/vfilter: the same table as sql.ValueRowIter (value-row pipeline); ok: INSERT…SELECT of N rows (OK packet); max1: top-level aggregate over N rows and a primary-key lookup (max-1-row path); empty: CALL of a procedure without result set} × route {text ComQuery, binary ComPrepare+ComStmtExecute, ComMultiQuery with a statement before and after} on the real *server.Handler with a recording callback; compared with Engine.Query on a second fresh engine (rows in order, fields, OK counts, warning count, more-results flags). " +
			"fault part: for every such N, kind and route: the row source fails at row k ∈ {0,1,127,128,129,N-1}; the callback fails at batch j for every j; KILL QUERY (ProcessList.Kill) arrives while row k ∈ {0,1,127,128,129,N-1} is being produced (each kill case is executed R times: 25 quick / 400 thorough, because which goroutine notices the cancellation first is decided by the Go runtime). Oracle: the statement returns that error (or, for kill, an error or the complete result), what was delivered before is a prefix of the expected rows, no callback after a failed callback, and the next statement on the same connection returns its full result. " +
			"schedule part: 7 scenarios of 2–3 clients with 2–3 statements each (session variables, auto-increment / LAST_INSERT_ID, prepared statements with the same text, transactions, FOUND_ROWS, warnings, temporary tables): every interleaving at statement granularity is executed on the handler and on plain engine sessions of a second engine; per-statement results must be equal. " +
			"socket part: go-sql-driver/mysql on a unix socket for N ∈ {0,1,2,127,128,129,255,256,257,258,511..514,1023..1026} × {text, prepared (binary rows), multi-statement} and iterator faults at k ∈ {0,1,127,128,129,N-1}. " +
			"A case is non-trivial when the intended handler path was really taken (value-row kinds: NextValueRow was called; OK kinds: an OK packet was produced) and, for fault cases, when the fault fired.",
		Assumptions: []string{
			"interleavings inside one statement's three pipeline goroutines (rowChan/resChan/select) are not under a scheduler: only the schedule the Go runtime picks is seen (kill cases are repeated R times for that reason)",
			"the harness row source (a sql.Table of the integrator seam) decides how many rows exist and where it fails; column types are BIGINT and VARCHAR only (value encodings are C28's subject)",
			"handler part: the vitess packet writer is replaced by a recording callback; the socket part runs the real vitess listener and go-sql-driver but only at the boundary sizes",
		},
		Run:    run,
		Replay: replay,
	})
}

// kase is one case (also the replay witness).
type kase struct {
	Part  string `json:"part"`            // handler | socket | sched
	Kind  string `json:"kind,omitempty"`  // rows proj param value vfilter ok max1 max1pk empty
	Proto string `json:"proto,omitempty"` // text binary multi
	N     int    `json:"n"`
	Fault string `json:"fault,omitempty"` // iter cb kill
	K     int    `json:"k,omitempty"`
	Scen  string `json:"scen,omitempty"`
	Order []int  `json:"order,omitempty"`
}

func sizes() []int {
	var out []int
	for n := 0; n <= 2*128+2; n++ {
		out = append(out, n)
	}
	out = append(out, 511, 512, 513, 514, 1023, 1024, 1025, 1026)
	return out
}

var socketSizes = []int{0, 1, 2, 127, 128, 129, 255, 256, 257, 258, 511, 512, 513, 514, 1023, 1024, 1025, 1026}

func faultRows(n int) []int {
	var out []int
	seen := map[int]bool{}
	for _, k := range []int{0, 1, 127, 128, 129, n - 1} {
		if k >= 0 && k < n && !seen[k] {
			seen[k] = true
			out = append(out, k)
		}
	}
	return out
}

// path is the handler function a kind is meant to reach (the classifying coordinate).
func pathOf(kind string) string {
	switch kind {
	case "rows", "proj", "param":
		return "resultForDefaultIter"
	case "value", "vfilter":
		return "resultForValueRowIter"
	case "ok":
		return "resultForOkIter"
	case "max1", "max1pk":
		return "resultForMax1RowIter"
	case "empty":
		return "resultForEmptyIter"
	}
	return kind
}

// query returns the statement of a kind (with ? for the binary route where the kind has a
// parameter), its parameters, and the same statement with the parameters inlined.
func query(kind string, n int, sfx string) (q string, params []*querypb.BindVariable, inlined string) {
	tbl := func(p string) string { return fmt.Sprintf("hdb.%s_%d%s", p, n, sfx) }
	switch kind {
	case "rows":
		q = "select * from " + tbl("r")
	case "proj":
		q = "select id+1, s from " + tbl("r")
	case "param":
		q = "select * from " + tbl("r") + " where id >= ?"
		params = []*querypb.BindVariable{sqltypes.Int64BindVariable(int64(n / 2))}
		return q, params, "select * from " + tbl("r") + " where id >= " + strconv.Itoa(n/2)
	case "value":
		q = "select * from " + tbl("v")
	case "vfilter":
		q = "select * from " + tbl("v") + " where id >= 1"
	case "ok":
		q = "insert into m select * from " + tbl("r")
	case "max1":
		q = "select count(*), max(id) from " + tbl("r")
	case "max1pk":
		q = "select * from m where id = 1"
	case "empty":
		q = "call p0()"
	default:
		panic("kind " + kind)
	}
	return q, nil, q
}

// env is one system under test plus its reference twin.
type env struct {
	h, refH *hdb
	e, refE *eng.Engine
	srv     *wire.Server
	c       *wire.Conn
	ref     *eng.Session

	shared    bool
	fullCache map[string]*eng.Result
}

// readOnly kinds touch only hdb tables: they share one engine pair per worker (fresh connection
// and reference results per case); the other kinds get fresh engines.
func readOnly(kind string) bool {
	switch kind {
	case "ok", "max1pk", "empty":
		return false
	}
	return true
}

var sharedEnv *env

func newEnv(kind string, n int) *env {
	if readOnly(kind) {
		if sharedEnv == nil {
			sharedEnv = buildEnv(kind, n)
			sharedEnv.shared = true
			sharedEnv.fullCache = map[string]*eng.Result{}
		}
		v := sharedEnv
		v.h.resetStats()
		v.h.onCancel.Store(nil)
		v.c = v.srv.NewConn("mydb")
		return v
	}
	v := buildEnv(kind, n)
	v.c = v.srv.NewConn("mydb")
	return v
}

func buildEnv(kind string, n int) *env {
	v := &env{h: newHDB(), refH: newHDB()}
	v.refE = newEngine(v.refH)
	v.ref = v.refE.NewSession("root")
	v.e = newEngine(v.h) // last: the process-global variables belong to the system under test
	setup := v.e.NewSession("root")
	for _, s := range []*eng.Session{setup, v.ref} {
		switch kind {
		case "ok":
			s.MustExec("create table m (id bigint primary key, s varchar(20))")
		case "max1pk":
			s.MustExec("create table m (id bigint primary key, s varchar(20))")
			s.MustExec(fmt.Sprintf("insert into m select * from hdb.r_%d", n))
		case "empty":
			s.MustExec("create procedure p0() begin declare x int; set x = 1; end")
		}
	}
	v.srv = wire.Start(v.e.E, v.e.Pro, wire.Options{})
	return v
}

func (v *env) close() {
	v.c.Close()
	if !v.shared {
		v.srv.Close()
	}
}

// refFull is the engine's result of a fault-free read-only statement (cached per worker).
func (v *env) refFull(q string) *eng.Result {
	if v.fullCache != nil {
		if r, ok := v.fullCache[q]; ok {
			return r
		}
	}
	r := v.ref.Exec(q)
	if v.fullCache != nil && len(v.fullCache) < 4096 {
		v.fullCache[q] = r
	}
	return r
}

func cell(v any) string {
	switch x := v.(type) {
	case nil:
		return "NULL"
	case int64:
		return strconv.FormatInt(x, 10)
	case int32:
		return strconv.FormatInt(int64(x), 10)
	case int8:
		return strconv.FormatInt(int64(x), 10)
	case int:
		return strconv.Itoa(x)
	case uint64:
		return strconv.FormatUint(x, 10)
	case string:
		return x
	case []byte:
		return string(x)
	default:
		return eng.FormatValue(v)
	}
}

func refRows(res *eng.Result) []string {
	out := make([]string, len(res.Rows))
	for i, row := range res.Rows {
		parts := make([]string, len(row))
		for j, c := range row {
			parts[j] = cell(c)
		}
		out[i] = strings.Join(parts, "|")
	}
	return out
}

func wireRows(rows [][]sqltypes.Value) []string {
	out := make([]string, len(rows))
	for i, row := range rows {
		if row == nil {
			out[i] = "<nil row>"
			continue
		}
		parts := make([]string, len(row))
		for j, c := range row {
			if c.IsNull() {
				parts[j] = "NULL"
			} else {
				parts[j] = string(c.Raw())
			}
		}
		out[i] = strings.Join(parts, "|")
	}
	return out
}

func brief(rows []string) string {
	if len(rows) <= 6 {
		return fmt.Sprintf("%d rows %v", len(rows), rows)
	}
	return fmt.Sprintf("%d rows [%s %s %s … %s %s]", len(rows), rows[0], rows[1], rows[2], rows[len(rows)-2], rows[len(rows)-1])
}

// firstDiff describes the first position where got and want differ.
func firstDiff(got, want []string) string {
	for i := 0; i < len(got) && i < len(want); i++ {
		if got[i] != want[i] {
			return fmt.Sprintf("row %d: got %q want %q", i, got[i], want[i])
		}
	}
	return fmt.Sprintf("length: got %d want %d", len(got), len(want))
}

func errNumber(err error) int {
	if err == nil {
		return 0
	}
	if c := sql.CastSQLError(err); c != nil {
		return c.Number()
	}
	return -1
}

type judge struct {
	r *core.Run
	k kase
}

func (j judge) subject() map[string]string {
	if j.k.Part == "sched" {
		return map[string]string{"scenario": j.k.Scen}
	}
	f := j.k.Fault
	if f == "" {
		f = "none"
	}
	return map[string]string{"path": pathOf(j.k.Kind), "fault": f}
}

func (j judge) viol(clause, kind, observed, expected string) {
	j.r.Violate(core.Violation{Check: j.k.Part, Clause: clause, Kind: kind, Subject: j.subject(), Witness: core.J(j.k), Observed: observed, Expected: expected})
}

func topFrame(stack string) string {
	lines := strings.Split(stack, "\n")
	for _, l := range lines {
		if strings.HasPrefix(l, "github.com/dolthub/") && !strings.Contains(l, "verif") {
			if i := strings.LastIndex(l, "("); i > 0 {
				l = l[:i]
			}
			return l
		}
	}
	return "unknown"
}

// compare judges one successfully expected statement: got (from the handler) against ref (from
// Engine.Query). wantMore: the more-results flag every batch must carry.
func (j judge) compare(label string, got *wire.Res, ref *eng.Result, refWarn uint16, wantMore bool) bool {
	if got.Panic != nil {
		j.viol(label+"no-panic", "panic", fmt.Sprintf("%v at %s", got.Panic, topFrame(got.Stack)), "no panic")
		return false
	}
	if ref.Err != nil || got.Err != nil {
		if errNumber(ref.Err) != errNumber(got.Err) {
			j.viol(label+"same-error", "error-differs", fmt.Sprintf("handler: %v", got.Err), fmt.Sprintf("engine: %v", ref.Err))
			return false
		}
		return true
	}
	if len(got.Batches) == 0 {
		j.viol(label+"answer-sent", "no-callback", "statement succeeded without any callback (the connection would send nothing)", "at least the fields / an OK packet")
		return false
	}
	for bi, b := range got.Batches {
		if b.More != wantMore {
			j.viol(label+"more-results-flag", "wrong-flag", fmt.Sprintf("batch %d more=%v", bi, b.More), fmt.Sprintf("more=%v", wantMore))
			return false
		}
	}
	if ok, isOK := ref.OK(); isOK || types.IsOkResultSchema(ref.Schema) || ref.Schema == nil {
		// OK packet expected
		b := got.Batches[0]
		if len(got.Batches) != 1 || len(b.Fields) != 0 || len(b.Rows) != 0 {
			j.viol(label+"ok-packet", "not-an-ok-packet", fmt.Sprintf("%d batches, %d fields, %d rows", len(got.Batches), len(b.Fields), len(b.Rows)), "one field-less result")
			return false
		}
		info := ""
		if ok.Info != nil {
			info = ok.Info.String()
		}
		if b.RowsAffected != ok.RowsAffected || b.InsertID != ok.InsertID || b.Info != info {
			j.viol(label+"ok-counts", "wrong-counts", fmt.Sprintf("affected=%d insert_id=%d info=%q", b.RowsAffected, b.InsertID, b.Info), fmt.Sprintf("affected=%d insert_id=%d info=%q", ok.RowsAffected, ok.InsertID, info))
			return false
		}
	} else {
		// result set expected
		if msg := fieldsDiffer(got.Batches[0].Fields, ref.Schema); msg != "" {
			j.viol(label+"fields-equal-schema", "wrong-fields", msg, "fields of the engine's schema")
			return false
		}
		for bi, b := range got.Batches {
			if uint64(len(b.Rows)) != b.RowsAffected {
				j.viol(label+"batch-row-count", "rows-vs-count", fmt.Sprintf("batch %d: %d rows, RowsAffected=%d", bi, len(b.Rows), b.RowsAffected), "equal")
				return false
			}
			if bi > 0 && fieldsDiffer(b.Fields, ref.Schema) != "" {
				j.viol(label+"fields-equal-schema", "wrong-fields-later-batch", fieldsDiffer(b.Fields, ref.Schema), "fields of the engine's schema")
				return false
			}
		}
		g, w := wireRows(got.Rows()), refRows(ref)
		if !eng.EqualStrings(g, w) {
			kind := "wrong-rows"
			switch {
			case len(g) < len(w):
				kind = "rows-lost"
			case len(g) > len(w):
				kind = "rows-duplicated-or-extra"
			}
			j.viol(label+"rows-equal-in-order", kind, brief(g)+" ("+firstDiff(g, w)+")", brief(w))
			return false
		}
	}
	if got.Warnings != refWarn {
		j.viol(label+"warning-count", "wrong-warning-count", fmt.Sprint(got.Warnings), fmt.Sprint(refWarn))
		return false
	}
	return true
}

func fieldsDiffer(f []*querypb.Field, sch sql.Schema) string {
	if len(f) != len(sch) {
		return fmt.Sprintf("%d fields for %d columns", len(f), len(sch))
	}
	for i, c := range sch {
		if f[i].Name != c.Name {
			return fmt.Sprintf("field %d name %q, column %q", i, f[i].Name, c.Name)
		}
		if f[i].Type != c.Type.Type() {
			return fmt.Sprintf("field %q type %v, column type %v", c.Name, f[i].Type, c.Type.Type())
		}
		if f[i].Table != c.Source {
			return fmt.Sprintf("field %q table %q, column source %q", c.Name, f[i].Table, c.Source)
		}
		notNull := f[i].Flags&uint32(querypb.MySqlFlag_NOT_NULL_FLAG) != 0
		if notNull == c.Nullable {
			return fmt.Sprintf("field %q NOT_NULL=%v, column nullable=%v", c.Name, notNull, c.Nullable)
		}
	}
	return ""
}

var errWrite = errors.New("injected fault: write to client failed")

// runStmt executes the statement under test on the given route. hook applies to the statement
// under test only. It returns the result of the statement under test plus (multi) the
// surrounding results.
func runStmt(c *wire.Conn, proto, q string, params []*querypb.BindVariable, inlined string, hook wire.Hook) (res *wire.Res, around []*wire.Res, wantMore bool) {
	ctx := context.Background()
	switch proto {
	case "text":
		return c.QueryCtx(ctx, inlined, hook), nil, false
	case "binary":
		st, err := c.Prepare(q, len(params))
		if err != nil {
			return &wire.Res{Err: err}, nil, false
		}
		return st.Execute(params, hook), nil, false
	case "multi":
		all := c.MultiQuery(ctx, "select 7; "+inlined+"; select 8", func(i int) wire.Hook {
			if i == 1 {
				return hook
			}
			return nil
		})
		if len(all) < 2 {
			return all[0], all, true
		}
		return all[1], all, true
	}
	panic("proto " + proto)
}

func (j judge) checkAround(around []*wire.Res, middleFailed bool) {
	if around == nil {
		return
	}
	want := func(r *wire.Res, v string, more bool, label string) {
		g := wireRows(r.Rows())
		if r.Err != nil || len(g) != 1 || g[0] != v || len(r.Batches) != 1 || r.Batches[0].More != more {
			j.viol("multi-"+label+"-statement", "wrong-neighbour-result", fmt.Sprintf("err=%v rows=%v batches=%d", r.Err, g, len(r.Batches)), fmt.Sprintf("[%s] more=%v", v, more))
		}
	}
	want(around[0], "7", true, "first")
	if middleFailed {
		if len(around) != 2 {
			j.viol("multi-stops-at-error", "continued-after-error", fmt.Sprintf("%d statements ran", len(around)), "2")
		}
		return
	}
	if len(around) != 3 {
		j.viol("multi-runs-all", "wrong-statement-count", fmt.Sprintf("%d statements ran", len(around)), "3")
		return
	}
	want(around[2], "8", false, "last")
}

// followUp: the next statement on the same connection must work.
func (j judge) followUp(v *env) {
	r := v.c.Query("select * from hdb.r_3")
	g := wireRows(r.Rows())
	if r.Err != nil || r.Panic != nil || !eng.EqualStrings(g, []string{"0|r0", "1|r1", "2|r2"}) {
		j.viol("next-statement-works", "connection-unusable", fmt.Sprintf("err=%v panic=%v rows=%v", r.Err, r.Panic, g), "3 rows")
	}
}

func isPrefix(p, full []string) bool {
	if len(p) > len(full) {
		return false
	}
	for i := range p {
		if p[i] != full[i] {
			return false
		}
	}
	return true
}

func killReps(r *core.Run) int {
	if r.Thorough() {
		return 400
	}
	return 25
}

// handlerCase runs one case of the handler part.
func handlerCase(r *core.Run, k kase, reps int) {
	j := judge{r, k}
	sfx := ""
	switch k.Fault {
	case "iter":
		sfx = fmt.Sprintf("_f%d", k.K)
	case "kill":
		sfx = fmt.Sprintf("_c%d", k.K)
	}
	v := newEnv(k.Kind, k.N)
	defer v.close()
	q, params, inlined := query(k.Kind, k.N, sfx)
	_, _, cleanInlined := query(k.Kind, k.N, "")
	r.Outcome(fmt.Sprintf("%s/%s/%s", k.Kind, k.Proto, orNone(k.Fault)))

	switch k.Fault {
	case "":
		ref := v.ref.Exec(cleanInlined)
		refWarn := v.ref.Sess.WarningCount()
		if readOnly(k.Kind) && ref.Err == nil && v.fullCache != nil {
			v.fullCache[cleanInlined] = ref
		}
		v.h.resetStats()
		got, around, wantMore := runStmt(v.c, k.Proto, q, params, inlined, nil)
		ok := j.compare("", got, ref, refWarn, wantMore)
		j.checkAround(around, false)
		if k.Kind == "ok" {
			a, b := v.e.NewSession("root").DumpRows(), v.ref.DumpRows()
			if a != b {
				j.viol("same-effects", "table-differs", a, b)
			}
		}
		nt := ok && ref.Err == nil
		switch pathOf(k.Kind) {
		case "resultForValueRowIter":
			nt = nt && v.h.valueNext.Load() > 0
			if v.h.valueNext.Load() == 0 {
				r.Count("value_path_not_reached", 1)
			}
		case "resultForOkIter", "resultForEmptyIter":
			nt = nt && got.IsOK()
		}
		if nt {
			r.NonTrivial(fmt.Sprintf("%s/%s/%d", k.Kind, k.Proto, k.N))
		}
		if r.WantSample() && (k.N == 129 || k.Kind == "empty") && got.Err == nil {
			var bs []int
			for _, b := range got.Batches {
				bs = append(bs, len(b.Rows))
			}
			r.Sample(map[string]any{"case": k, "statement": q, "batch_sizes": bs, "rows_delivered": brief(wireRows(got.Rows())), "engine_rows": brief(refRows(ref)), "warnings": got.Warnings})
		}

	case "iter":
		var full *eng.Result
		if readOnly(k.Kind) {
			full = v.refFull(cleanInlined)
		} else {
			v.ref.Exec(inlined) // what the engine itself does with the failing source (effects are compared)
		}
		got, around, _ := runStmt(v.c, k.Proto, q, params, inlined, nil)
		fired := v.h.faultFired.Load() > 0
		if !fired {
			// the plan did not read as far as row k (cannot happen for these kinds)
			r.Count("fault_not_reached", 1)
			return
		}
		r.NonTrivial(fmt.Sprintf("%s/%s/%d/iter%d", k.Kind, k.Proto, k.N, k.K))
		switch {
		case got.Panic != nil:
			j.viol("no-panic", "panic", fmt.Sprintf("%v at %s", got.Panic, topFrame(got.Stack)), "the injected error")
		case got.Err == nil:
			j.viol("error-reaches-client", "error-swallowed", fmt.Sprintf("success, %s", brief(wireRows(got.Rows()))), "the injected row-source error")
		case !strings.Contains(got.Err.Error(), "injected fault: row source failed"):
			j.viol("error-reaches-client", "different-error", got.Err.Error(), errInjected.Error())
		default:
			if full != nil && full.Err == nil {
				g := wireRows(got.Rows())
				if !isPrefix(g, refRows(full)) || len(g) > k.K {
					j.viol("delivered-rows-are-a-prefix", "wrong-rows-before-error", brief(g), fmt.Sprintf("a prefix (≤ %d rows) of %s", k.K, brief(refRows(full))))
				}
			}
		}
		j.checkAround(around, true)
		if k.Kind == "ok" {
			a, b := v.e.NewSession("root").DumpRows(), v.ref.DumpRows()
			if a != b {
				j.viol("same-effects", "table-differs-after-error", a, b)
			}
		}
		j.followUp(v)
		if r.WantSample() && k.N == 130 && k.K == 128 {
			r.Sample(map[string]any{"case": k, "statement": q, "error_seen_by_client": fmt.Sprint(got.Err), "rows_delivered_before": len(got.Rows())})
		}

	case "cb":
		var full *eng.Result
		if readOnly(k.Kind) {
			full = v.refFull(cleanInlined)
		} else {
			v.ref.Exec(inlined)
		}
		calls, failedAt := 0, -1
		hook := func(jj int, qr *sqltypes.Result) error {
			calls++
			if failedAt >= 0 {
				return errWrite
			}
			if jj == k.K {
				failedAt = calls
				return errWrite
			}
			return nil
		}
		got, around, _ := runStmt(v.c, k.Proto, q, params, inlined, hook)
		if failedAt < 0 {
			r.Count("fault_not_reached", 1) // fewer than K+1 batches
			return
		}
		r.NonTrivial(fmt.Sprintf("%s/%s/%d/cb%d", k.Kind, k.Proto, k.N, k.K))
		switch {
		case got.Panic != nil:
			j.viol("no-panic", "panic", fmt.Sprintf("%v at %s", got.Panic, topFrame(got.Stack)), "the write error")
		case got.Err == nil:
			j.viol("error-reaches-client", "write-error-swallowed", "statement reported success", "the write error")
		case !strings.Contains(got.Err.Error(), "injected fault: write to client failed"):
			j.viol("error-reaches-client", "different-error", got.Err.Error(), errWrite.Error())
		}
		if calls > failedAt {
			j.viol("no-callback-after-failed-write", "callback-after-error", fmt.Sprintf("%d further callbacks", calls-failedAt), "none")
		}
		if full != nil && full.Err == nil {
			if g := wireRows(got.Rows()); !isPrefix(g, refRows(full)) {
				j.viol("delivered-rows-are-a-prefix", "wrong-rows-before-error", brief(g), "a prefix of "+brief(refRows(full)))
			}
		}
		j.checkAround(around, true)
		j.followUp(v)

	case "kill":
		full := v.refFull(cleanInlined)
		want := refRows(full)
		kill := func() { v.e.E.ProcessList.Kill(v.c.C.ConnectionID) }
		v.h.onCancel.Store(&kill)
		r.Count("kill_executions", int64(reps))
		nErr, nFull := 0, 0
		for rep := 0; rep < reps; rep++ {
			v.h.faultFired.Store(0)
			got, _, _ := runStmt(v.c, k.Proto, q, params, inlined, nil)
			if v.h.faultFired.Load() == 0 {
				r.Count("fault_not_reached", 1)
				return
			}
			if got.Panic != nil {
				j.viol("no-panic", "panic", fmt.Sprintf("%v at %s", got.Panic, topFrame(got.Stack)), "an error or the complete result")
				break
			}
			if got.Err != nil {
				nErr++
				if g := wireRows(got.Rows()); !isPrefix(g, want) {
					j.viol("delivered-rows-are-a-prefix", "wrong-rows-before-error", brief(g), "a prefix of "+brief(want))
					break
				}
				continue
			}
			g := wireRows(got.Rows())
			if pathOf(k.Kind) == "resultForOkIter" || eng.EqualStrings(g, want) {
				nFull++
				continue
			}
			j.viol("killed-statement-fails-or-completes", "truncated-result-reported-as-success", fmt.Sprintf("success with %s (execution %d of %d)", brief(g), rep+1, reps), "error 'context canceled' or all of "+brief(want))
			break
		}
		r.NonTrivial(fmt.Sprintf("%s/%s/%d/kill%d", k.Kind, k.Proto, k.N, k.K))
		r.Count("kill_outcome_error", int64(nErr))
		r.Count("kill_outcome_complete", int64(nFull))
		v.h.onCancel.Store(nil)
		j.followUp(v)
	}
}

func orNone(s string) string {
	if s == "" {
		return "none"
	}
	return s
}

// handlerCases enumerates the handler part.
func handlerCases(thorough bool) []kase {
	var out []kase
	protos := []string{"text", "binary", "multi"}
	sizeKinds := []string{"rows", "proj", "param", "value", "vfilter", "ok", "max1"}
	for _, n := range sizes() {
		for _, kind := range sizeKinds {
			for _, p := range protos {
				out = append(out, kase{Part: "handler", Kind: kind, Proto: p, N: n})
			}
		}
	}
	for _, n := range []int{0, 1, 2, 3} { // m holds ids 0..n-1; the lookup id = 1 finds 0 or 1 row
		for _, p := range protos {
			out = append(out, kase{Part: "handler", Kind: "max1pk", Proto: p, N: n})
		}
	}
	for _, p := range protos {
		out = append(out, kase{Part: "handler", Kind: "empty", Proto: p, N: 0})
	}
	// faults
	faultKinds := []string{"rows", "proj", "value", "ok", "max1"}
	if thorough {
		faultKinds = []string{"rows", "proj", "param", "value", "vfilter", "ok", "max1"}
	}
	for _, n := range sizes() {
		for _, kind := range faultKinds {
			for _, p := range protos {
				for _, k := range faultRows(n) {
					if kind == "vfilter" && k == 0 {
						// row 0 is filtered out, the fault still fires: keep
					}
					out = append(out, kase{Part: "handler", Kind: kind, Proto: p, N: n, Fault: "iter", K: k})
				}
				// callback failure at every batch: ⌈N/128⌉ batches for streamed kinds (at least 1)
				nb := 1
				if pathOf(kind) == "resultForDefaultIter" || pathOf(kind) == "resultForValueRowIter" {
					if nb = (n + 127) / 128; nb == 0 {
						nb = 1
					}
				}
				for b := 0; b < nb; b++ {
					out = append(out, kase{Part: "handler", Kind: kind, Proto: p, N: n, Fault: "cb", K: b})
				}
			}
		}
	}
	killKinds := []string{"rows", "proj", "value"}
	if thorough {
		killKinds = []string{"rows", "proj", "param", "value", "vfilter", "max1"}
	}
	for _, n := range sizes() {
		for _, kind := range killKinds {
			for _, p := range protos {
				for _, k := range faultRows(n) {
					out = append(out, kase{Part: "handler", Kind: kind, Proto: p, N: n, Fault: "kill", K: k})
				}
			}
		}
	}
	return out
}

func run(r *core.Run) {
	// cheap and diverse parts first: if the budget caps the run, it is the repeated KILL executions
	// at the end of the handler part that are cut
	idx := runSched(r, 0)
	idx = runSocket(r, idx)
	hc := handlerCases(r.Thorough())
	r.Info("handler_cases", len(hc))
	r.Info("sizes", len(sizes()))
	capped := false
	for _, k := range hc {
		i := idx
		idx++
		if !r.Mine(i) {
			continue
		}
		if r.Expired() {
			capped = true
			break
		}
		r.AnnounceCase(string(core.J(k)))
		r.Eval()
		pv, stack := core.Try(func() { handlerCase(r, k, killReps(r)) })
		if pv != nil {
			panic(fmt.Sprintf("harness panic in case %s: %v\n%s", core.J(k), pv, stack))
		}
	}
	if capped {
		r.Capped("handler part stopped by the time budget")
	}
}

func replay(r *core.Run, w json.RawMessage) {
	var k kase
	if err := json.Unmarshal(w, &k); err != nil {
		panic(err)
	}
	switch k.Part {
	case "handler":
		reps := 1
		if k.Fault == "kill" {
			reps = 3000
		}
		handlerCase(r, k, reps)
	case "sched":
		schedCase(r, k)
	case "socket":
		socketReplay(r, k)
	}
}
