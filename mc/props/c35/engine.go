package c35

import (
	sqle "github.com/dolthub/go-mysql-server"
	"github.com/dolthub/go-mysql-server/memory"

	"verif/mc/eng"
)

// newEngine is eng.New() plus the harness database: a fresh engine on a memory provider that
// holds the memory database "mydb" and hdb.
func newEngine(h *hdb) *eng.Engine {
	eng.ResetGlobals()
	db := memory.NewDatabase("mydb")
	pro := memory.NewDBProvider(db, h)
	return &eng.Engine{E: sqle.NewDefault(pro), Pro: pro, DBs: []*memory.Database{db}}
}
