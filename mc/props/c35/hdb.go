package c35

import (
	"errors"
	"io"
	"strconv"
	"strings"
	"sync/atomic"

	"github.com/dolthub/go-mysql-server/sql"
	"github.com/dolthub/go-mysql-server/sql/types"
	"github.com/dolthub/go-mysql-server/sql/values"
	querypb "github.com/dolthub/vitess/go/vt/proto/query"
)

// The harness database "hdb": a sql.Database of the integrator seam whose tables are generated
// from their *name*:
//
//	r_<N>            N rows (id BIGINT NOT NULL, s VARCHAR(20)) through a plain sql.RowIter
//	v_<N>            the same rows through a sql.ValueRowIter (reaches resultForValueRowIter)
//	…_f<K>           the iterator returns errInjected instead of row K (0-based)
//	…_c<K>           the iterator calls the registered cancel function while producing row K
//	                 (the row itself is still returned) — models KILL QUERY arriving at that moment
//
// Row i is (i, "r<i>") with s = NULL when i%7 == 3.
var errInjected = errors.New("injected fault: row source failed")

type hdb struct {
	name string
	// onCancel is called by _c tables; set by the case that runs.
	onCancel atomic.Pointer[func()]
	// stats of the most recent iterators (reset by the case)
	opened, closed, valueNext, rowNext, faultFired atomic.Int64
}

func newHDB() *hdb { return &hdb{name: "hdb"} }

func (d *hdb) Name() string { return d.name }

func (d *hdb) GetTableNames(ctx *sql.Context) ([]string, error) { return nil, nil }

func (d *hdb) resetStats() {
	d.opened.Store(0)
	d.closed.Store(0)
	d.valueNext.Store(0)
	d.rowNext.Store(0)
	d.faultFired.Store(0)
}

type tspec struct {
	value  bool
	n      int
	failAt int // -1 none
	cancAt int // -1 none
}

func parseTable(name string) (tspec, bool) {
	sp := tspec{failAt: -1, cancAt: -1}
	parts := strings.Split(strings.ToLower(name), "_")
	if len(parts) < 2 || len(parts) > 3 {
		return sp, false
	}
	switch parts[0] {
	case "r":
	case "v":
		sp.value = true
	default:
		return sp, false
	}
	n, err := strconv.Atoi(parts[1])
	if err != nil || n < 0 {
		return sp, false
	}
	sp.n = n
	if len(parts) == 3 {
		if len(parts[2]) < 2 {
			return sp, false
		}
		k, err := strconv.Atoi(parts[2][1:])
		if err != nil || k < 0 {
			return sp, false
		}
		switch parts[2][0] {
		case 'f':
			sp.failAt = k
		case 'c':
			sp.cancAt = k
		default:
			return sp, false
		}
	}
	return sp, true
}

func (d *hdb) GetTableInsensitive(ctx *sql.Context, name string) (sql.Table, bool, error) {
	sp, ok := parseTable(name)
	if !ok {
		return nil, false, nil
	}
	return &htable{db: d, name: strings.ToLower(name), sp: sp}, true, nil
}

type htable struct {
	db   *hdb
	name string
	sp   tspec
}

var _ sql.Table = (*htable)(nil)

func hschema(src string) sql.Schema {
	return sql.Schema{
		{Name: "id", Type: types.Int64, Nullable: false, Source: src, DatabaseSource: "hdb"},
		{Name: "s", Type: types.MustCreateStringWithDefaults(querypb.Type_VARCHAR, 20), Nullable: true, Source: src, DatabaseSource: "hdb"},
	}
}

func (t *htable) Name() string                   { return t.name }
func (t *htable) String() string                 { return t.name }
func (t *htable) Schema(*sql.Context) sql.Schema { return hschema(t.name) }
func (t *htable) Collation() sql.CollationID     { return sql.Collation_Default }
func (t *htable) Partitions(*sql.Context) (sql.PartitionIter, error) {
	return sql.PartitionsToPartitionIter(hpart{}), nil
}

type hpart struct{}

func (hpart) Key() []byte { return []byte("p0") }

func (t *htable) PartitionRows(ctx *sql.Context, _ sql.Partition) (sql.RowIter, error) {
	t.db.opened.Add(1)
	if t.sp.value {
		return &hvalIter{hiter{t: t}}, nil
	}
	return &hiter{t: t}, nil
}

// rowS is column s of row i (ok=false: NULL).
func rowS(i int) (string, bool) {
	if i%7 == 3 {
		return "", false
	}
	return "r" + strconv.Itoa(i), true
}

// expectedText is the text-protocol form of row i.
func expectedText(i int) string {
	s, ok := rowS(i)
	if !ok {
		return strconv.Itoa(i) + "|NULL"
	}
	return strconv.Itoa(i) + "|" + s
}

type hiter struct {
	t      *htable
	i      int
	closed bool
}

// step decides what happens at position i: io.EOF, the injected error, or a row (after the
// cancel hook, if this is the cancel position).
func (it *hiter) step() (int, error) {
	sp := it.t.sp
	if it.i >= sp.n {
		return 0, io.EOF
	}
	i := it.i
	if sp.failAt == i {
		it.i++
		it.t.db.faultFired.Add(1)
		return 0, errInjected
	}
	if sp.cancAt == i {
		it.t.db.faultFired.Add(1)
		if f := it.t.db.onCancel.Load(); f != nil {
			(*f)()
		}
	}
	it.i++
	return i, nil
}

func (it *hiter) Next(ctx *sql.Context) (sql.Row, error) {
	it.t.db.rowNext.Add(1)
	i, err := it.step()
	if err != nil {
		return nil, err
	}
	s, ok := rowS(i)
	if !ok {
		return sql.Row{int64(i), nil}, nil
	}
	return sql.Row{int64(i), s}, nil
}

func (it *hiter) Close(*sql.Context) error {
	if it.closed {
		return nil
	}
	it.closed = true
	it.t.db.closed.Add(1)
	return nil
}

type hvalIter struct{ hiter }

var _ sql.ValueRowIter = (*hvalIter)(nil)

func (it *hvalIter) IsValueRowIter(*sql.Context) bool { return true }

func (it *hvalIter) NextValueRow(ctx *sql.Context) (sql.ValueRow, error) {
	it.t.db.valueNext.Add(1)
	i, err := it.step()
	if err != nil {
		return nil, err
	}
	row := make(sql.ValueRow, 2)
	row[0] = sql.Value{Val: values.WriteInt64(make([]byte, 8), int64(i)), Typ: querypb.Type_INT64}
	if s, ok := rowS(i); ok {
		row[1] = sql.Value{Val: []byte(s), Typ: querypb.Type_VARCHAR}
	} else {
		row[1] = sql.NullValue
	}
	return row, nil
}
