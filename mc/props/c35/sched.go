package c35

import (
	"fmt"
	"strings"

	"github.com/dolthub/vitess/go/mysql"
	querypb "github.com/dolthub/vitess/go/vt/proto/query"

	"verif/mc/core"
	"verif/mc/eng"
	"verif/mc/props/c35/wire"
)

// sstmt is one client statement: text route (Q as is) or binary route (Q with ? and Params; the
// reference runs Inl, the same statement with the parameters inlined).
type sstmt struct {
	Q      string
	Bin    bool
	Params []*querypb.BindVariable
	Inl    string
}

func txt(q string) sstmt { return sstmt{Q: q, Inl: q} }
func bin(q string, inl string, params ...*querypb.BindVariable) sstmt {
	return sstmt{Q: q, Bin: true, Params: params, Inl: inl}
}

type scenario struct {
	Name     string
	Setup    []string
	Clients  [][]sstmt
	Final    []string // run by client 0 after the interleaving
	Thorough bool
}

func i64(v int64) *querypb.BindVariable { return wire.BV(querypb.Type_INT64, fmt.Sprint(v)) }

func scenarios() []scenario {
	autoinc := func(who string) []sstmt {
		return []sstmt{txt("set @me = '" + who + "'"), txt("insert into t (who) values (@me)"), txt("select last_insert_id(), @me")}
	}
	three := func(n int) [][]sstmt {
		var cl [][]sstmt
		for _, who := range []string{"A", "B", "C"} {
			l := []sstmt{txt("insert into t (who) values ('" + who + "')"), txt("select last_insert_id(), row_count()")}
			if n == 3 {
				l = append(l, bin("select count(*) from t where who = ?", "select count(*) from t where who = '"+who+"'", wire.BV(querypb.Type_VARCHAR, who)))
			}
			cl = append(cl, l)
		}
		return cl
	}
	return []scenario{
		{Name: "session-vars-autoinc", Setup: []string{"create table t (id int primary key auto_increment, who varchar(10))"},
			Clients: [][]sstmt{autoinc("A"), autoinc("B")}, Final: []string{"select id, who from t order by id"}},
		{Name: "prepared-same-text", Setup: []string{"create table t (id int primary key, v int)", "insert into t values (1,10),(2,20),(3,30)"},
			Clients: [][]sstmt{
				{bin("select v from t where id = ?", "select v from t where id = 1", i64(1)), txt("update t set v = v + 1 where id = 1"), bin("select v from t where id = ?", "select v from t where id = 1", i64(1))},
				{bin("select v from t where id = ?", "select v from t where id = 2", i64(2)), bin("update t set v = ? where id = ?", "update t set v = 7 where id = 2", i64(7), i64(2)), bin("select v from t where id = ?", "select v from t where id = 2", i64(2))},
			}, Final: []string{"select id, v from t order by id"}},
		{Name: "transactions", Setup: []string{"create table t (id int primary key, who varchar(10))"},
			Clients: [][]sstmt{
				{txt("begin"), txt("insert into t values (1,'A')"), txt("commit")},
				{txt("select count(*) from t"), txt("insert into t values (2,'B')"), txt("select count(*) from t")},
			}, Final: []string{"select id, who from t order by id"}},
		{Name: "found-rows", Clients: [][]sstmt{
			{txt("select sql_calc_found_rows * from hdb.r_10 limit 3"), txt("select found_rows()")},
			{txt("select * from hdb.r_4"), txt("select found_rows()"), txt("select * from hdb.v_130")},
		}},
		{Name: "warnings", Clients: [][]sstmt{
			{txt("select cast('x' as signed)"), txt("show warnings"), txt("select @@warning_count")},
			{txt("select 1"), txt("show warnings"), txt("select cast('y' as signed), cast('z' as signed)")},
		}},
		{Name: "temp-tables-use-db", Setup: []string{"create database other", "create table other.o (a int)", "insert into other.o values (5)"},
			Clients: [][]sstmt{
				{txt("create temporary table tt (a int)"), txt("insert into tt values (1),(2)"), txt("select count(*) from tt")},
				{txt("select count(*) from tt"), txt("use other"), txt("select database(), (select a from o)")},
			}, Final: []string{"select database()"}},
		{Name: "three-clients", Setup: []string{"create table t (id int primary key auto_increment, who varchar(10))"},
			Clients: three(2), Final: []string{"select id, who from t order by id"}},
		{Name: "three-clients-3", Setup: []string{"create table t (id int primary key auto_increment, who varchar(10))"},
			Clients: three(3), Final: []string{"select id, who from t order by id"}, Thorough: true},
	}
}

// interleavings lists every sequence of client indexes in which client i occurs counts[i] times.
func interleavings(counts []int) [][]int {
	var out [][]int
	total := 0
	for _, c := range counts {
		total += c
	}
	left := append([]int(nil), counts...)
	cur := make([]int, 0, total)
	var rec func()
	rec = func() {
		if len(cur) == total {
			out = append(out, append([]int(nil), cur...))
			return
		}
		for i := range left {
			if left[i] > 0 {
				left[i]--
				cur = append(cur, i)
				rec()
				cur = cur[:len(cur)-1]
				left[i]++
			}
		}
	}
	rec()
	return out
}

func scenarioByName(name string) (scenario, bool) {
	for _, s := range scenarios() {
		if s.Name == name {
			return s, true
		}
	}
	return scenario{}, false
}

func runSched(r *core.Run, idx int64) int64 {
	capped := false
	total := 0
	for _, sc := range scenarios() {
		if sc.Thorough && !r.Thorough() {
			continue
		}
		counts := make([]int, len(sc.Clients))
		for i, c := range sc.Clients {
			counts[i] = len(c)
		}
		for _, order := range interleavings(counts) {
			total++
			i := idx
			idx++
			if !r.Mine(i) {
				continue
			}
			if r.Expired() {
				capped = true
				continue
			}
			k := kase{Part: "sched", Scen: sc.Name, Order: order}
			r.AnnounceCase(string(core.J(k)))
			r.Eval()
			schedCase(r, k)
		}
	}
	r.Info("schedule_cases", total)
	if capped {
		r.Capped("schedule part stopped by the time budget")
	}
	return idx
}

func schedCase(r *core.Run, k kase) {
	sc, ok := scenarioByName(k.Scen)
	if !ok {
		panic("unknown scenario " + k.Scen)
	}
	j := judge{r, k}
	h, refH := newHDB(), newHDB()
	refE := newEngine(refH)
	e := newEngine(h)
	refSetup, setup := refE.NewSession("root"), e.NewSession("root")
	for _, q := range sc.Setup {
		refSetup.MustExec(q)
		setup.MustExec(q)
	}
	srv := wire.Start(e.E, e.Pro, wire.Options{})
	defer srv.Close()
	conns := make([]*wire.Conn, len(sc.Clients))
	refs := make([]*eng.Session, len(sc.Clients))
	for i := range sc.Clients {
		conns[i] = srv.NewConn("mydb")
		refs[i] = refE.NewSession("root")
	}
	defer func() {
		for _, c := range conns {
			c.Close()
		}
	}()
	pos := make([]int, len(sc.Clients))
	var trace []string
	step := func(ci int, st sstmt) bool {
		var got *wire.Res
		if st.Bin {
			ps, err := conns[ci].Prepare(st.Q, len(st.Params))
			if err != nil {
				got = &wire.Res{Err: err}
			} else {
				got = ps.Execute(st.Params, nil)
			}
		} else {
			got = conns[ci].Query(st.Q)
		}
		ref := refs[ci].Exec(st.Inl)
		refWarn := refs[ci].Sess.WarningCount()
		trace = append(trace, fmt.Sprintf("%c: %s", 'A'+ci, st.Inl))
		if !j.compare("", got, ref, refWarn, false) {
			return false
		}
		// transaction status flag = the engine session's transaction state
		inTx := got.Status&uint16(mysql.ServerInTransaction) != 0
		refTx := refs[ci].Sess.GetTransaction() != nil
		if got.Err == nil && inTx != refTx {
			j.viol("status-flags", "in-transaction-flag", fmt.Sprintf("in_transaction=%v after %q", inTx, st.Inl), fmt.Sprintf("%v", refTx))
			return false
		}
		return true
	}
	okAll := true
	for _, ci := range k.Order {
		st := sc.Clients[ci][pos[ci]]
		pos[ci]++
		if !step(ci, st) {
			okAll = false
			break
		}
	}
	if okAll {
		for _, q := range sc.Final {
			if !step(0, txt(q)) {
				okAll = false
				break
			}
		}
	}
	if okAll {
		if a, b := setup.DumpRows(), refSetup.DumpRows(); a != b {
			j.viol("same-effects", "table-differs", a, b)
		}
	}
	r.Outcome("sched/" + sc.Name)
	r.NonTrivial("sched/" + sc.Name + "/" + fmt.Sprint(k.Order))
	if r.WantSample() && sc.Name == "session-vars-autoinc" && len(k.Order) > 3 && k.Order[0] != k.Order[1] {
		r.Sample(map[string]any{"case": k, "executed": strings.Join(trace, " ; "), "equal_to_engine_sessions": okAll})
	}
}
