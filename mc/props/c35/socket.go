package c35

import (
	"context"
	dsql "database/sql"
	"errors"
	"fmt"
	"strconv"
	"strings"

	gomysql "github.com/go-sql-driver/mysql"

	"verif/mc/core"
	"verif/mc/eng"
	"verif/mc/props/c35/wire"
)

// socketEnv: one server on a unix socket per worker (the hdb tables are read-only), two pools of
// go-sql-driver (with and without multiStatements), and a reference engine.
type socketEnv struct {
	v       *env
	srv     *wire.Server
	db, dbm *dsql.DB
}

func newSocketEnv() *socketEnv {
	se := &socketEnv{}
	se.v = &env{h: newHDB(), refH: newHDB()}
	se.v.refE = newEngine(se.v.refH)
	se.v.ref = se.v.refE.NewSession("root")
	se.v.e = newEngine(se.v.h)
	se.srv = wire.Start(se.v.e.E, se.v.e.Pro, wire.Options{Socket: true})
	se.db = se.srv.DB("mydb", "")
	se.dbm = se.srv.DB("mydb", "multiStatements=true")
	return se
}

func (se *socketEnv) close() {
	se.db.Close()
	se.dbm.Close()
	se.srv.Close()
}

func driverCell(v any) string {
	switch x := v.(type) {
	case nil:
		return "NULL"
	case int64:
		return strconv.FormatInt(x, 10)
	case uint64:
		return strconv.FormatUint(x, 10)
	case []byte:
		return string(x)
	case string:
		return x
	default:
		return fmt.Sprintf("%T(%v)", v, v)
	}
}

// drain reads the current result set.
func drain(rows *dsql.Rows) (names []string, out []string, err error) {
	// a malformed stream can make the client library panic; database/sql would then dead-lock in
	// Conn.Close (the connection stays grabbed by the unclosed Rows): turn it into an error
	defer func() {
		if x := recover(); x != nil {
			err = fmt.Errorf("client library panic on the received stream: %v", x)
		}
	}()
	names, err = rows.Columns()
	if err != nil {
		return nil, nil, err
	}
	for rows.Next() {
		vals := make([]any, len(names))
		ptrs := make([]any, len(names))
		for i := range vals {
			ptrs[i] = &vals[i]
		}
		if err := rows.Scan(ptrs...); err != nil {
			return names, out, err
		}
		parts := make([]string, len(vals))
		for i, v := range vals {
			parts[i] = driverCell(v)
		}
		out = append(out, strings.Join(parts, "|"))
	}
	return names, out, rows.Err()
}

func socketCases() []kase {
	var out []kase
	for _, n := range socketSizes {
		for _, kind := range []string{"rows", "proj", "value"} {
			for _, p := range []string{"text", "binary", "multi"} {
				out = append(out, kase{Part: "socket", Kind: kind, Proto: p, N: n})
				for _, k := range faultRows(n) {
					out = append(out, kase{Part: "socket", Kind: kind, Proto: p, N: n, Fault: "iter", K: k})
				}
			}
		}
	}
	return out
}

func runSocket(r *core.Run, idx int64) int64 {
	cases := socketCases()
	r.Info("socket_cases", len(cases))
	var se *socketEnv
	defer func() {
		if se != nil {
			se.close()
		}
	}()
	capped := false
	for _, k := range cases {
		i := idx
		idx++
		if !r.Mine(i) {
			continue
		}
		if r.Expired() {
			capped = true
			break
		}
		if se == nil {
			se = newSocketEnv()
		}
		r.AnnounceCase(string(core.J(k)))
		r.Eval()
		socketCase(r, se, k)
	}
	if capped {
		r.Capped("socket part stopped by the time budget")
	}
	return idx
}

func socketReplay(r *core.Run, k kase) {
	se := newSocketEnv()
	defer se.close()
	socketCase(r, se, k)
}

func socketCase(r *core.Run, se *socketEnv, k kase) {
	j := judge{r, k}
	ctx := context.Background()
	sfx := ""
	if k.Fault == "iter" {
		sfx = fmt.Sprintf("_f%d", k.K)
	}
	_, _, q := query(k.Kind, k.N, sfx)
	_, _, clean := query(k.Kind, k.N, "")
	full := se.v.ref.Exec(clean)
	if full.Err != nil {
		panic(fmt.Sprintf("reference failed: %s: %v", clean, full.Err))
	}
	want := refRows(full)
	r.Outcome(fmt.Sprintf("socket/%s/%s/%s", k.Kind, k.Proto, orNone(k.Fault)))

	pool := se.db
	if k.Proto == "multi" {
		pool = se.dbm
	}
	conn, err := pool.Conn(ctx)
	if err != nil {
		panic(fmt.Sprintf("harness: cannot connect: %v", err))
	}
	defer conn.Close()
	se.v.h.resetStats()

	var got []string
	var names []string
	var runErr error
	neighboursOK := true
	switch k.Proto {
	case "text":
		rows, err := conn.QueryContext(ctx, q)
		if err != nil {
			runErr = err
		} else {
			names, got, runErr = drain(rows)
			rows.Close()
		}
	case "binary":
		st, err := conn.PrepareContext(ctx, q)
		if err != nil {
			runErr = err
		} else {
			rows, err := st.QueryContext(ctx)
			if err != nil {
				runErr = err
			} else {
				names, got, runErr = drain(rows)
				rows.Close()
			}
			st.Close()
		}
	case "multi":
		rows, err := conn.QueryContext(ctx, "select 7; "+q+"; select 8")
		if err != nil {
			runErr = err
		} else {
			_, first, e1 := drain(rows)
			if e1 != nil || len(first) != 1 || first[0] != "7" {
				neighboursOK = false
			}
			if rows.NextResultSet() {
				names, got, runErr = drain(rows)
				if runErr == nil {
					if rows.NextResultSet() {
						_, last, e3 := drain(rows)
						if e3 != nil || len(last) != 1 || last[0] != "8" {
							neighboursOK = false
						}
					} else if k.Fault == "" {
						neighboursOK = false
					}
				}
			} else {
				runErr = rows.Err()
				if runErr == nil && k.Fault == "" {
					neighboursOK = false
				}
			}
			rows.Close()
		}
	}
	if wire.IsTimeout(runErr) {
		// the client gave up waiting (45 s): inconclusive, never a verdict
		r.Count("socket_timeouts", 1)
		r.Outcome("socket/timeout")
		return
	}
	if !neighboursOK {
		j.viol("multi-neighbour-statements", "wrong-neighbour-result", "the result sets around the statement under test are wrong or missing", "[7] … [8]")
	}

	if k.Fault == "" {
		if runErr != nil {
			j.viol("same-error", "error-differs", fmt.Sprintf("client: %v", runErr), "success")
			return
		}
		wantNames := make([]string, len(full.Schema))
		for i, c := range full.Schema {
			wantNames[i] = c.Name
		}
		if !eng.EqualStrings(names, wantNames) {
			j.viol("fields-equal-schema", "wrong-fields", fmt.Sprint(names), fmt.Sprint(wantNames))
		}
		if !eng.EqualStrings(got, want) {
			kind := "wrong-rows"
			switch {
			case len(got) < len(want):
				kind = "rows-lost"
			case len(got) > len(want):
				kind = "rows-duplicated-or-extra"
			}
			j.viol("rows-equal-in-order", kind, brief(got)+" ("+firstDiff(got, want)+")", brief(want))
			return
		}
		nt := true
		if pathOf(k.Kind) == "resultForValueRowIter" {
			nt = se.v.h.valueNext.Load() > 0
		}
		if nt {
			r.NonTrivial(fmt.Sprintf("socket/%s/%s/%d", k.Kind, k.Proto, k.N))
		}
		if r.WantSample() && k.N == 257 && k.Proto == "binary" {
			r.Sample(map[string]any{"case": k, "statement": q, "client": "go-sql-driver prepared statement over unix socket", "rows_received": brief(got), "engine_rows": brief(want)})
		}
		return
	}

	// iterator fault
	if se.v.h.faultFired.Load() == 0 {
		r.Count("fault_not_reached", 1)
		return
	}
	r.NonTrivial(fmt.Sprintf("socket/%s/%s/%d/iter%d", k.Kind, k.Proto, k.N, k.K))
	if runErr == nil {
		j.viol("error-reaches-client", "error-swallowed", "client saw success with "+brief(got), "an error")
		return
	}
	if !isPrefix(got, want) || len(got) > k.K {
		j.viol("delivered-rows-are-a-prefix", "wrong-rows-before-error", brief(got), fmt.Sprintf("a prefix (≤ %d rows) of %s", k.K, brief(want)))
	}
	var me *gomysql.MySQLError
	if errors.As(runErr, &me) {
		r.Outcome("socket-fault/error-packet")
		if !strings.Contains(me.Message, "injected fault: row source failed") {
			j.viol("error-reaches-client", "different-error", me.Error(), errInjected.Error())
		}
		if k.Proto == "multi" {
			// go-sql-driver keeps "more results exist" from the previous result set after an error
			// packet and reports 'busy buffer' on reuse: a client-library limitation. The handler part
			// checks that the server stops after the failing statement; here only the server's health.
			conn.Close()
			c2, err := pool.Conn(ctx)
			if err != nil {
				j.viol("next-statement-works", "server-unusable", err.Error(), "a new connection")
				return
			}
			defer c2.Close()
			conn = c2
		}
		// an error packet leaves the connection in sync: the next statement must work on it
		rows, err := conn.QueryContext(ctx, "select * from hdb.r_3")
		if wire.IsTimeout(err) {
			r.Count("socket_timeouts", 1)
			return
		}
		if err != nil {
			j.viol("next-statement-works", "connection-unusable", err.Error(), "3 rows")
			return
		}
		_, g, err := drain(rows)
		rows.Close()
		if err != nil || !eng.EqualStrings(g, []string{"0|r0", "1|r1", "2|r2"}) {
			j.viol("next-statement-works", "connection-unusable", fmt.Sprintf("err=%v rows=%v", err, g), "3 rows")
		}
		return
	}
	// the error arrived after rows had been streamed: the server can only drop the connection.
	r.Outcome("socket-fault/connection-dropped")
	if k.K < 128 {
		j.viol("error-reaches-client", "connection-dropped-before-first-batch", runErr.Error(), "an error packet carrying the row-source error (nothing had been sent yet)")
	}
	c2, err := pool.Conn(ctx)
	if err != nil {
		j.viol("next-statement-works", "server-unusable", err.Error(), "a new connection")
		return
	}
	defer c2.Close()
	rows, err := c2.QueryContext(ctx, "select * from hdb.r_3")
	if wire.IsTimeout(err) {
		r.Count("socket_timeouts", 1)
		return
	}
	if err != nil {
		j.viol("next-statement-works", "server-unusable", err.Error(), "3 rows")
		return
	}
	_, g, err := drain(rows)
	rows.Close()
	if err != nil || len(g) != 3 {
		j.viol("next-statement-works", "server-unusable", fmt.Sprintf("err=%v rows=%v", err, g), "3 rows")
	}
}
