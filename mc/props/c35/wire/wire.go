// Package wire drives the real MySQL-protocol front end of go-mysql-server (server.Handler and,
// through a unix socket, the vitess listener + go-sql-driver) for the checks C35, C28 and C12.
//
// Two routes are offered:
//
//   - in-process: the *server.Handler built by server.NewServerWithHandler is captured through the
//     HandlerWrapper seam; Conn.Query / MultiQuery / Prepare / Execute call ComQuery /
//     ComMultiQuery / ComPrepare / ComStmtExecute directly with a recording callback (every
//     callback invocation = one batch that the vitess connection would write to the socket).
//   - socket: the same server accepts on a unix socket in VERIF_SCRATCH; DB() returns a
//     database/sql handle of go-sql-driver/mysql on it.
//
// Nothing in here is an oracle; it only records what the front end emits.
package wire

import (
	"context"
	"database/sql"
	"errors"
	"fmt"
	"io"
	"log"
	"net"
	"os"
	"path/filepath"
	"runtime/debug"
	"strings"
	"sync"
	"sync/atomic"
	"time"

	sqle "github.com/dolthub/go-mysql-server"
	"github.com/dolthub/go-mysql-server/memory"
	"github.com/dolthub/go-mysql-server/server"
	gsql "github.com/dolthub/go-mysql-server/sql"
	"github.com/dolthub/vitess/go/mysql"
	"github.com/dolthub/vitess/go/sqltypes"
	querypb "github.com/dolthub/vitess/go/vt/proto/query"
	gomysql "github.com/go-sql-driver/mysql"
)

func init() {
	// the driver logs every broken connection to stderr; the checks judge the returned errors
	gomysql.SetLogger(log.New(io.Discard, "", 0))
}

// Server is one front end on one engine.
type Server struct {
	E    *sqle.Engine
	H    *server.Handler
	Srv  *server.Server
	Sock string // "" when no socket was requested

	nextConn uint32
	started  bool
}

type nullListener struct {
	once sync.Once
	ch   chan struct{}
}

func newNullListener() *nullListener { return &nullListener{ch: make(chan struct{})} }

func (l *nullListener) Accept() (net.Conn, error) { <-l.ch; return nil, net.ErrClosed }
func (l *nullListener) Close() error              { l.once.Do(func() { close(l.ch) }); return nil }
func (l *nullListener) Addr() net.Addr            { return addr("inproc") }

type addr string

func (a addr) Network() string { return "inproc" }
func (a addr) String() string  { return string(a) }

var sockSeq int64

// scratchDir is where socket files go.
func scratchDir() string {
	if d := os.Getenv("VERIF_SCRATCH"); d != "" {
		return d
	}
	d, err := os.MkdirTemp("", "verif-wire-")
	if err != nil {
		panic(err)
	}
	return d
}

var scratchOnce sync.Once
var scratch string

// Options for Start.
type Options struct {
	Socket      bool          // also listen on a unix socket for real clients
	ReadTimeout time.Duration // Config.ConnReadTimeout (0 = none)
}

// Start builds the server for engine e whose sessions are memory sessions on pro.
func Start(e *sqle.Engine, pro *memory.DbProvider, o Options) *Server {
	s := &Server{E: e, nextConn: 1000}
	cfg := server.Config{Protocol: "unix", DisableConnectionWatcher: true, ConnReadTimeout: o.ReadTimeout}
	if o.Socket {
		scratchOnce.Do(func() { scratch = scratchDir() })
		s.Sock = filepath.Join(scratch, fmt.Sprintf("s%d-%d.sock", os.Getpid(), atomic.AddInt64(&sockSeq, 1)))
		os.Remove(s.Sock)
		l, err := net.Listen("unix", s.Sock)
		if err != nil {
			panic(fmt.Sprintf("wire: listen %s: %v", s.Sock, err))
		}
		cfg.Listener = l
	} else {
		cfg.Listener = newNullListener()
	}
	srv, err := server.NewServerWithHandler(cfg, e, gsql.NewContext, memory.NewSessionBuilder(pro), nil, func(h mysql.Handler) (mysql.Handler, error) {
		s.H = h.(*server.Handler)
		return h, nil
	})
	if err != nil {
		panic(fmt.Sprintf("wire: NewServerWithHandler: %v", err))
	}
	s.Srv = srv
	if o.Socket {
		s.started = true
		go srv.Start()
	}
	return s
}

// Close stops the listener.
func (s *Server) Close() {
	s.Srv.Close()
	if s.Sock != "" {
		os.Remove(s.Sock)
	}
}

// DB opens a database/sql pool of go-sql-driver on the unix socket. params is appended to the DSN
// ("parseTime=true&multiStatements=true" …).
func (s *Server) DB(dbname, params string) *sql.DB {
	if s.Sock == "" {
		panic("wire: server started without a socket")
	}
	// I/O timeouts so that a broken stream can never block a worker forever; checks must treat a
	// timeout as inconclusive (IsTimeout), never as a violation
	dsn := fmt.Sprintf("root@unix(%s)/%s?readTimeout=45s&writeTimeout=45s", s.Sock, dbname)
	if params != "" {
		dsn += "&" + params
	}
	db, err := sql.Open("mysql", dsn)
	if err != nil {
		panic(err)
	}
	db.SetMaxIdleConns(8)
	return db
}

// IsTimeout reports whether err is the client-side I/O timeout set by DB.
func IsTimeout(err error) bool {
	if err == nil {
		return false
	}
	var ne net.Error
	if errors.As(err, &ne) && ne.Timeout() {
		return true
	}
	return errors.Is(err, os.ErrDeadlineExceeded) || strings.Contains(err.Error(), "i/o timeout")
}

// ---------------------------------------------------------------------------------------------
// in-process connections

type mockConn struct{ closed atomic.Bool }

func (m *mockConn) Read(b []byte) (int, error)       { return 0, net.ErrClosed }
func (m *mockConn) Write(b []byte) (int, error)      { return len(b), nil }
func (m *mockConn) Close() error                     { m.closed.Store(true); return nil }
func (m *mockConn) LocalAddr() net.Addr              { return addr("localhost") }
func (m *mockConn) RemoteAddr() net.Addr             { return addr("localhost") }
func (m *mockConn) SetDeadline(time.Time) error      { return nil }
func (m *mockConn) SetReadDeadline(time.Time) error  { return nil }
func (m *mockConn) SetWriteDeadline(time.Time) error { return nil }

// Conn is an in-process client connection: the handler sees a *mysql.Conn exactly as the vitess
// listener would hand it over, minus the socket.
type Conn struct {
	S      *Server
	C      *mysql.Conn
	stmtID uint32
	closed bool
}

// NewConn registers a new connection with the handler (NewConnection, ConnectionAuthenticated,
// ComInitDB dbname).
func (s *Server) NewConn(dbname string) *Conn {
	s.nextConn++
	c := &mysql.Conn{ConnectionID: s.nextConn, Conn: &mockConn{}}
	s.H.NewConnection(c)
	if err := s.H.ConnectionAuthenticated(c); err != nil {
		panic(fmt.Sprintf("wire: ConnectionAuthenticated: %v", err))
	}
	if dbname != "" {
		if err := s.H.ComInitDB(c, dbname); err != nil {
			panic(fmt.Sprintf("wire: ComInitDB: %v", err))
		}
	}
	return &Conn{S: s, C: c}
}

func (c *Conn) Close() {
	if !c.closed {
		c.closed = true
		c.S.H.ConnectionClosed(c.C)
	}
}

// Batch is one callback invocation.
type Batch struct {
	Fields       []*querypb.Field
	Rows         [][]sqltypes.Value
	RowsAffected uint64
	InsertID     uint64
	Info         string
	More         bool
}

// Res is everything one statement emitted.
type Res struct {
	Batches  []Batch
	Err      error
	Panic    any
	Stack    string
	Warnings uint16 // handler.WarningCount after the statement (what the EOF/OK packet carries)
	Status   uint16 // connection status flags after the statement
}

// Fields returns the fields of the first batch (the ones a vitess connection writes).
func (r *Res) Fields() []*querypb.Field {
	if len(r.Batches) == 0 {
		return nil
	}
	return r.Batches[0].Fields
}

// Rows concatenates the batches.
func (r *Res) Rows() [][]sqltypes.Value {
	var out [][]sqltypes.Value
	for _, b := range r.Batches {
		out = append(out, b.Rows...)
	}
	return out
}

// IsOK reports whether the statement answered with an OK packet (first batch has no fields).
func (r *Res) IsOK() bool {
	return r.Err == nil && len(r.Batches) >= 1 && len(r.Batches[0].Fields) == 0
}

func copyBatch(qr *sqltypes.Result, more bool) Batch {
	b := Batch{Fields: qr.Fields, RowsAffected: qr.RowsAffected, InsertID: qr.InsertID, Info: qr.Info, More: more}
	b.Rows = make([][]sqltypes.Value, len(qr.Rows))
	for i, row := range qr.Rows {
		cp := make([]sqltypes.Value, len(row))
		for j, v := range row {
			if v.IsNull() {
				cp[j] = sqltypes.NULL
			} else {
				cp[j] = sqltypes.MakeTrusted(v.Type(), append([]byte(nil), v.Raw()...))
			}
		}
		b.Rows[i] = cp
	}
	return b
}

// Hook lets a check interfere with the stream: it is called inside the callback before batch
// number j (0-based, counted over the statement) is recorded; a non-nil error is returned to the
// handler instead (as a failing socket write would).
type Hook func(j int, qr *sqltypes.Result) error

func (c *Conn) finish(res *Res) {
	res.Warnings = c.S.H.WarningCount(c.C)
	res.Status = c.C.StatusFlags
}

func contain(res *Res, f func()) {
	defer func() {
		if x := recover(); x != nil {
			res.Panic = x
			res.Stack = stack()
			res.Err = fmt.Errorf("panic: %v", x)
		}
	}()
	f()
}

// Query runs one statement through ComQuery.
func (c *Conn) Query(q string) *Res { return c.QueryCtx(context.Background(), q, nil) }

func (c *Conn) QueryCtx(ctx context.Context, q string, hook Hook) *Res {
	res := &Res{}
	contain(res, func() {
		j := 0
		res.Err = c.S.H.ComQuery(ctx, c.C, q, func(qr *sqltypes.Result, more bool) error {
			defer func() { j++ }()
			if hook != nil {
				if err := hook(j, qr); err != nil {
					return err
				}
			}
			res.Batches = append(res.Batches, copyBatch(qr, more))
			return nil
		})
	})
	c.finish(res)
	return res
}

// MultiQuery runs a ;-separated statement list the way the vitess connection does with
// CLIENT_MULTI_STATEMENTS: ComMultiQuery on the remainder until it is empty or a statement fails.
// hook (optional) returns the Hook for statement number i (0-based).
func (c *Conn) MultiQuery(ctx context.Context, q string, hook func(stmt int) Hook) []*Res {
	var out []*Res
	for q != "" {
		res := &Res{}
		var rem string
		var hk Hook
		if hook != nil {
			hk = hook(len(out))
		}
		contain(res, func() {
			j := 0
			rem, res.Err = c.S.H.ComMultiQuery(ctx, c.C, q, func(qr *sqltypes.Result, more bool) error {
				defer func() { j++ }()
				if hk != nil {
					if err := hk(j, qr); err != nil {
						return err
					}
				}
				res.Batches = append(res.Batches, copyBatch(qr, more))
				return nil
			})
		})
		c.finish(res)
		out = append(out, res)
		if res.Err != nil {
			break
		}
		q = rem
	}
	return out
}

// Stmt is a statement prepared with ComPrepare.
type Stmt struct {
	C      *Conn
	P      *mysql.PrepareData
	Fields []*querypb.Field
}

// Prepare calls ComPrepare like the vitess connection (new statement id, PrepareData with the
// parameter count).
func (c *Conn) Prepare(q string, nparams int) (st *Stmt, err error) {
	c.stmtID++
	p := &mysql.PrepareData{StatementID: c.stmtID, PrepareStmt: q}
	if nparams > 0 {
		p.ParamsCount = uint16(nparams)
		p.ParamsType = make([]int32, nparams)
		p.BindVars = map[string]*querypb.BindVariable{}
	}
	res := &Res{}
	contain(res, func() {
		var f []*querypb.Field
		f, err = c.S.H.ComPrepare(context.Background(), c.C, q, p)
		st = &Stmt{C: c, P: p, Fields: f}
	})
	if res.Panic != nil {
		return nil, res.Err
	}
	if err != nil {
		return nil, err
	}
	return st, nil
}

// BV builds a bind variable of a protocol type with its text form (the form the vitess connection
// produces when it decodes COM_STMT_EXECUTE parameters).
func BV(t querypb.Type, text string) *querypb.BindVariable {
	return &querypb.BindVariable{Type: t, Value: []byte(text)}
}

// Execute calls ComStmtExecute with the given positional parameters.
func (st *Stmt) Execute(params []*querypb.BindVariable, hook Hook) *Res {
	return st.ExecuteCtx(context.Background(), params, hook)
}

func (st *Stmt) ExecuteCtx(ctx context.Context, params []*querypb.BindVariable, hook Hook) *Res {
	c := st.C
	res := &Res{}
	if len(params) > 0 {
		st.P.BindVars = make(map[string]*querypb.BindVariable, len(params))
		for i, p := range params {
			st.P.BindVars[fmt.Sprintf("v%d", i+1)] = p
		}
	} else {
		st.P.BindVars = nil
	}
	contain(res, func() {
		j := 0
		res.Err = c.S.H.ComStmtExecute(ctx, c.C, st.P, func(qr *sqltypes.Result) error {
			defer func() { j++ }()
			if hook != nil {
				if err := hook(j, qr); err != nil {
					return err
				}
			}
			res.Batches = append(res.Batches, copyBatch(qr, false))
			return nil
		})
	})
	c.finish(res)
	return res
}

func stack() string { return string(debug.Stack()) }
