// Package c36 — concurrent read-only sessions are isolated (race-freedom itself needs the
// separate free-running -race pass; see the level note).
//
// One real engine over a fixed database; 2–3 session threads, each running BeginQuery →
// Engine.Query → drain → EndQuery for 1–2 read-only statements, under the cooperative scheduler
// whose scheduling points are every sync/atomic operation of go-mysql-server. All schedules up to
// a preemption bound are enumerated. Oracle: every statement returns the rows it returns when run
// alone; at quiescence the process list shows every session idle, Threads_running is back to its
// base and Threads_connected counts the sessions; no deadlock, no panic.
package c36

import (
	"encoding/json"
	"fmt"
	"sort"
	"strings"

	"github.com/dolthub/go-mysql-server/sql"
	"github.com/dolthub/go-mysql-server/verifshim/vsched"

	"verif/mc/core"
	"verif/mc/eng"
)

var fixture = []string{
	"create table t (a int primary key, b int, s varchar(10), key kb (b))",
	"insert into t values (1,1,'x'),(2,1,'y'),(3,2,'x'),(4,null,'z')",
	"create table u (a int primary key, b int, key kb (b))",
	"insert into u values (1,2),(2,2),(3,null)",
	"create view vw as select a, b from t where b = 1",
}

// read-only statements (single goroutine per session on their execution path).
var stmts = []string{
	"select * from t where a = 2",
	"select * from t where b >= 1 and b < 3",
	"select t.a, u.b from t join u on t.a = u.a",
	"select a from t where a in (select b from u)",
	"select distinct b from t",
	"select * from vw",
	"select s, a from t order by s, a limit 2",
	"select a from t where s regexp '^x' and s like 'x%'",
	"select (select max(b) from u where u.a = t.a) from t",
	"show processlist",
	"select count(*) from information_schema.processlist",
	"show tables",
	"select @@autocommit, @@session.sql_mode = @@global.sql_mode",
	"select a from t union select a from u",
	"with c as (select a from t where b = 1) select * from c c1 join c c2 on c1.a = c2.a",
}

type scenario struct {
	Threads [][]int `json:"threads"` // statement indices per session thread
}

func (sc scenario) String() string {
	var sb strings.Builder
	for i, t := range sc.Threads {
		fmt.Fprintf(&sb, " S%d:", i+1)
		for j, q := range t {
			if j > 0 {
				sb.WriteString(" ; ")
			}
			sb.WriteString(stmts[q])
		}
		sb.WriteString(" |")
	}
	return sb.String()
}

type sys struct {
	e     *eng.Engine
	sess  []*eng.Session
	base  [4]int64
	alone map[int]string
}

func counter(name string) int64 {
	_, v, ok := sql.StatusVariables.GetGlobal(name)
	if !ok {
		return -1 << 40
	}
	switch x := v.(type) {
	case uint64:
		return int64(x)
	case int64:
		return x
	}
	return -1 << 41
}

func newSys(n int) *sys {
	e := eng.New()
	setup := e.NewSession("root")
	for _, q := range fixture {
		setup.MustExec(q)
	}
	s := &sys{e: e}
	s.base = [4]int64{counter("Threads_connected"), counter("Threads_running"), counter("Questions"), counter("Com_select")}
	for i := 0; i < n; i++ {
		ss := e.NewSession("root")
		e.E.ProcessList.AddConnection(ss.ID, "localhost")
		e.E.ProcessList.ConnectionReady(ss.Sess)
		s.sess = append(s.sess, ss)
	}
	return s
}

// runStmt executes one statement the way the server does: registered with the process list.
func (s *sys) runStmt(ss *eng.Session, q string) (out string) {
	defer func() {
		if x := recover(); x != nil {
			out = fmt.Sprintf("PANIC %v", x)
		}
	}()
	ctx := ss.NewCtx()
	ctx.ProcessList = s.e.E.ProcessList
	ctx, err := s.e.E.ProcessList.BeginQuery(ctx, q)
	if err != nil {
		return "BEGIN-ERR " + err.Error()
	}
	defer s.e.E.ProcessList.EndQuery(ctx)
	_, it, _, err := s.e.E.Query(ctx, q)
	if err != nil {
		return "ERR " + eng.ErrClass(err) + " " + err.Error()
	}
	var rows []string
	for {
		row, err := it.Next(ctx)
		if err != nil {
			if err.Error() != "EOF" {
				it.Close(ctx)
				return "ERR " + eng.ErrClass(err) + " " + err.Error()
			}
			break
		}
		rows = append(rows, eng.FormatRow(row))
	}
	if err := it.Close(ctx); err != nil {
		return "ERR " + err.Error()
	}
	if !strings.Contains(q, "order by") {
		sort.Strings(rows) // row order without ORDER BY is unspecified
	}
	return strings.Join(rows, " ")
}

// normalise removes what legitimately depends on the other sessions (process list contents).
func normalise(q, out string) string {
	if strings.Contains(q, "processlist") {
		if strings.HasPrefix(out, "ERR") || strings.HasPrefix(out, "PANIC") {
			return out
		}
		return "(process list rows)"
	}
	return out
}

type execResult struct {
	tr      *vsched.Trace
	outs    [][]string
	panics  []string
	final   string
	running int64
	conn    int64
	quest   int64
	comsel  int64
}

const horizon = 6000

func runScenario(sc scenario, choose func(i int, cands []int, runningIn bool) int) execResult {
	s := newSys(len(sc.Threads))
	res := execResult{outs: make([][]string, len(sc.Threads))}
	bodies := make([]func(t *vsched.Thread), len(sc.Threads))
	for ti := range sc.Threads {
		ti := ti
		bodies[ti] = func(t *vsched.Thread) {
			for _, qi := range sc.Threads[ti] {
				res.outs[ti] = append(res.outs[ti], normalise(stmts[qi], s.runStmt(s.sess[ti], stmts[qi])))
			}
		}
	}
	tr, threads := vsched.Run(bodies, choose, horizon)
	res.tr = tr
	for _, t := range threads {
		if t.PanicVal != nil {
			res.panics = append(res.panics, fmt.Sprintf("thread %d: %v", t.ID, t.PanicVal))
		}
	}
	if !tr.Deadlock && !tr.Horizon && !tr.Stuck {
		ps := s.e.E.ProcessList.Processes()
		var parts []string
		for _, p := range ps {
			parts = append(parts, fmt.Sprintf("%d:%s:%q", p.Connection, p.Command, p.Query))
		}
		sort.Strings(parts)
		res.final = strings.Join(parts, " ")
		res.running = counter("Threads_running") - s.base[1]
		res.conn = counter("Threads_connected") - s.base[0]
		res.quest = counter("Questions") - s.base[2]
		res.comsel = counter("Com_select") - s.base[3]
	}
	return res
}

var aloneCache = map[int]string{}
var aloneCounts = map[int][2]int64{} // Questions, Com_select increments of the statement run alone

func alone(qi int) string {
	if v, ok := aloneCache[qi]; ok {
		return v
	}
	s := newSys(1)
	v := normalise(stmts[qi], s.runStmt(s.sess[0], stmts[qi]))
	aloneCache[qi] = v
	aloneCounts[qi] = [2]int64{counter("Questions") - s.base[2], counter("Com_select") - s.base[3]}
	return v
}

func stmtKind(q string) string {
	f := strings.Fields(q)
	k := f[0]
	for _, w := range []string{"join", "group by", "union", "regexp", "in (select", "(select", "processlist", "vw", "with"} {
		if strings.Contains(q, w) {
			k += "/" + strings.Fields(w)[0]
			break
		}
	}
	return k
}

func checkExec(sc scenario, x execResult, choices []int) *core.Violation {
	w := core.J(map[string]any{"scenario": sc, "desc": sc.String(), "schedule": choices})
	kinds := map[string]bool{}
	for _, t := range sc.Threads {
		for _, q := range t {
			kinds[stmtKind(stmts[q])] = true
		}
	}
	var ks []string
	for k := range kinds {
		ks = append(ks, k)
	}
	sort.Strings(ks)
	subj := map[string]string{"statements": strings.Join(ks, " | ")}
	mk := func(clause, kind, obs, exp string) *core.Violation {
		sj := subj
		if clause == "registries-consistent" {
			sj = map[string]string{} // a shared-registry defect does not depend on which statements ran
		}
		return &core.Violation{Check: "concurrent", Clause: clause, Kind: kind, Subject: sj, Witness: w, Observed: obs, Expected: exp}
	}
	switch {
	case x.tr.Stuck:
		return mk("progress", "stuck-outside-scheduler", "a session thread blocked on a primitive the scheduler cannot see", "")
	case x.tr.Deadlock:
		return mk("progress", "deadlock", fmt.Sprintf("blocked threads %v", x.tr.Blocked), "")
	case x.tr.Horizon:
		return mk("progress", "livelock-horizon", "execution exceeded its horizon", "")
	case len(x.panics) > 0:
		return mk("no-panic", "panic", strings.Join(x.panics, "; "), "")
	}
	for ti, t := range sc.Threads {
		for j, qi := range t {
			if j < len(x.outs[ti]) && x.outs[ti][j] != alone(qi) {
				return mk("same-result-as-alone", "different-result", fmt.Sprintf("S%d %q -> %s", ti+1, stmts[qi], x.outs[ti][j]), alone(qi))
			}
		}
	}
	for _, part := range strings.Fields(x.final) {
		_ = part
	}
	if strings.Contains(x.final, ":Query:") {
		return mk("registries-consistent", "process-still-running", x.final, "every session idle (Sleep)")
	}
	if n := strings.Count(x.final, ":Sleep:"); n != len(sc.Threads) {
		return mk("registries-consistent", "process-list-wrong", x.final, fmt.Sprintf("%d idle sessions", len(sc.Threads)))
	}
	if x.running != 0 {
		return mk("registries-consistent", "threads-running-mismatch", fmt.Sprint(x.running), "0")
	}
	var wantQ, wantS int64
	for _, t := range sc.Threads {
		for _, qi := range t {
			alone(qi)
			wantQ += aloneCounts[qi][0]
			wantS += aloneCounts[qi][1]
		}
	}
	if x.quest != wantQ {
		return mk("registries-consistent", "questions-counter-mismatch", fmt.Sprint(x.quest), fmt.Sprint(wantQ))
	}
	if x.comsel != wantS {
		return mk("registries-consistent", "com-select-counter-mismatch", fmt.Sprint(x.comsel), fmt.Sprint(wantS))
	}
	if x.conn != int64(len(sc.Threads)) {
		return mk("registries-consistent", "threads-connected-mismatch", fmt.Sprint(x.conn), fmt.Sprint(len(sc.Threads)))
	}
	return nil
}

func scenarios(tier string) []scenario {
	var out []scenario
	n := len(stmts)
	// T=2, one statement each: all unordered pairs (incl. the same statement twice)
	for i := 0; i < n; i++ {
		for j := i; j < n; j++ {
			out = append(out, scenario{Threads: [][]int{{i}, {j}}})
		}
	}
	// T=2, two statements in the first session (plan/cache reuse inside a session while another runs)
	reps := []int{0, 2, 3, 4, 5, 7, 9}
	for _, i := range reps {
		for _, j := range reps {
			out = append(out, scenario{Threads: [][]int{{i, i}, {j}}})
		}
	}
	if tier == "thorough" {
		for _, i := range reps {
			for _, j := range reps {
				for _, k := range reps {
					if i <= j && j <= k {
						out = append(out, scenario{Threads: [][]int{{i}, {j}, {k}}})
					}
				}
			}
		}
	}
	return out
}

func explore(sc scenario, bound int, stop func() bool) (v *core.Violation, ex *vsched.Explorer, points int64, outs int) {
	var last execResult
	seen := map[string]struct{}{}
	ex = &vsched.Explorer{Bound: bound, MaxPoints: horizon}
	ex.Stop = func() bool { return v != nil || (stop != nil && stop()) }
	ex.Exec = func(choose func(i int, cands []int, runningIn bool) int) *vsched.Trace {
		last = runScenario(sc, choose)
		return last.tr
	}
	ex.Check = func(tr *vsched.Trace) {
		points += int64(len(tr.Points))
		seen[fmt.Sprint(last.outs)] = struct{}{}
		if v == nil {
			v = checkExec(sc, last, tr.Choices())
		}
	}
	ex.Explore()
	if ex.Diverged != nil {
		panic("HARNESS: " + ex.Diverged.Error() + " in " + sc.String())
	}
	return v, ex, points, len(seen)
}

func init() {
	core.Register(&core.Prop{
		ID:         "C36",
		Level:      "model_checking",
		GoMaxProcs: 1,
		Rule: "scenarios: every unordered pair of 15 read-only statements (point/range/join/subquery/distinct/view/order-limit/regexp+like/correlated scalar/SHOW PROCESSLIST/information_schema.processlist/SHOW TABLES/system variables/UNION/CTE) in two sessions, 49 scenarios with a repeated statement in one session, and (thorough) triples over 7 statements in three sessions; each session runs BeginQuery -> Engine.Query -> drain -> EndQuery on one real engine; " +
			"ALL schedules up to the preemption bound (quick 1, thorough 2) over the scheduling points = every sync/atomic operation of go-mysql-server; oracle: each statement's rows equal those of the statement run alone, process list back to idle, Threads_running/Threads_connected exact, no deadlock/panic; non-trivial = scenario with >1 schedule explored",
		Assumptions: []string{
			"data-race freedom in the memory-model sense is NOT decided here (a cooperative scheduler's hand-offs are happens-before edges); only atomicity/ordering at sync/atomic granularity is",
			"statements whose execution path spawns goroutines (parallel group-by compute, the server's result pipeline) are outside this harness",
			"process-list statements are only checked for success (their rows legitimately depend on the other sessions)",
		},
		QuickBudget: 80, ThoroughBudget: 1500,
		Run: func(r *core.Run) {
			scs := scenarios(r.Tier)
			bound := 1
			if r.Thorough() {
				bound = 2
			}
			r.Info("scenarios", len(scs))
			r.Info("preemption_bound", bound)
			for i, sc := range scs {
				if !r.Mine(int64(i)) {
					continue
				}
				if r.Expired() {
					r.Capped("time budget reached before all scenarios were explored")
					break
				}
				v, ex, points, outs := explore(sc, bound, r.Expired)
				r.EvalN(ex.Executions)
				r.Count("schedules", ex.Executions)
				r.Count("transitions", points)
				r.Count("states", int64(outs))
				r.Count("scenarios_completed", 1)
				r.Max("max_points_per_execution", int64(ex.MaxPointsSeen))
				if v != nil {
					r.Violate(*v)
				} else if ex.Stopped {
					r.Capped("time budget reached during a scenario")
				}
				if ex.Executions > 1 {
					r.NonTrivial(sc.String())
					for _, t := range sc.Threads {
						for _, q := range t {
							r.Outcome(stmtKind(stmts[q]))
						}
					}
				}
				if r.WantSample() {
					r.Sample(map[string]any{"scenario": sc.String(), "schedules": ex.Executions, "points_per_execution": ex.MaxPointsSeen, "preemption_bound": bound})
				}
			}
		},
		Replay: func(r *core.Run, w json.RawMessage) {
			var c struct {
				Scenario scenario `json:"scenario"`
				Schedule []int    `json:"schedule"`
			}
			if json.Unmarshal(w, &c) != nil {
				return
			}
			x := runScenario(c.Scenario, func(i int, cands []int, runningIn bool) int {
				if i < len(c.Schedule) && c.Schedule[i] < len(cands) {
					return c.Schedule[i]
				}
				return 0
			})
			if v := checkExec(c.Scenario, x, x.tr.Choices()); v != nil {
				r.Violate(*v)
			}
		},
	})
}
