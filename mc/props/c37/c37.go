// Package c37 — process list and KILL track and cancel exactly the targeted work.
//
// Sequential part: BFS (hist) over all protocol-conforming event sequences on the real
// ProcessList (connections × {AddConnection, ConnectionReady, BeginQuery, EndQuery, BeginOperation,
// EndOperation, Kill, RemoveConnection, Add/Update/RemoveTableProgress}) against a model, with
// Processes(), every issued context's cancellation state and the Threads_connected /
// Threads_running counters compared after every step.
//
// Concurrent part: connection-lifecycle threads + a killer/observer thread on the real
// ProcessList under the cooperative scheduler; all schedules up to a preemption bound. Every
// ProcessList method runs under one mutex, so an execution must be equivalent to the sequential
// execution of its operations in completion order: that serialization is replayed on the model and
// every observable (snapshots at their position, context cancellation, counters, final list) is
// compared.
package c37

import (
	"context"
	"encoding/json"
	"fmt"
	"sort"
	"strings"

	sqle "github.com/dolthub/go-mysql-server"
	"github.com/dolthub/go-mysql-server/sql"
	"github.com/dolthub/go-mysql-server/sql/variables"
	"github.com/dolthub/go-mysql-server/verifshim/vsched"

	"verif/mc/core"
	"verif/mc/hist"
)

const maxConns = 3

type evKind int

const (
	evAdd evKind = iota
	evReady
	evBeginQuery
	evEndQuery
	evBeginOp
	evEndOp
	evKill
	evRemove
	evAddProg
	evUpdProg
	evRemProg
	evObserve // concurrent part only: take a Processes() snapshot
	evEndOld  // late EndQuery of a statement that was superseded by a newer BeginQuery on its connection
	evAddPart // AddPartitionProgress(t, p0, 5)
	evUpdPart // UpdatePartitionProgress(t, p0, 1)
	nEvKinds
)

var evNames = [...]string{"AddConnection", "ConnectionReady", "BeginQuery", "EndQuery", "BeginOperation", "EndOperation", "Kill", "RemoveConnection", "AddTableProgress", "UpdateTableProgress", "RemoveTableProgress", "Processes", "EndQuery(superseded)", "AddPartitionProgress", "UpdatePartitionProgress"}

type event struct {
	Kind evKind `json:"kind"`
	Conn int    `json:"conn"` // 1..maxConns
}

func (e event) String() string { return fmt.Sprintf("%s(%d)", evNames[e.Kind], e.Conn) }

// ---------------------------------------------------------------- model

type connSt int

const (
	stAbsent connSt = iota
	stConnecting
	stIdle
	stRunning
	stInOp
	stRemoved
)

type mctx struct {
	conn      int
	isQuery   bool
	pid       uint64
	cancelled bool // expected
	ended     bool
	// superseded: a newer statement began on the same connection before this one ended (its
	// iterator is closed late). The property only says that ending it must not affect the newer
	// statement; whether its own context gets cancelled is not specified and not compared.
	superseded bool
}

type model struct {
	st       [maxConns + 1]connSt
	cur      [maxConns + 1]int // index into ctxs of the current query/op context, -1 if none
	prog     [maxConns + 1]map[string][2]int64
	ctxs     []mctx
	nq       [maxConns + 1]uint64 // queries begun per connection (pids are conn*1000+n on both sides)
	lateEnds int // queries whose connection was removed while running and that have since ended
	lateOpen int // ... and that have not ended yet
	// overlapped: some statement was superseded; Threads_running is then unspecified (the counter
	// has no defined meaning for overlapping statements of one connection) and not compared.
	overlapped bool
}

func newModel() *model {
	m := &model{}
	for i := range m.cur {
		m.cur[i] = -1
	}
	return m
}

func (m *model) connected() int {
	n := 0
	for c := 1; c <= maxConns; c++ {
		if m.st[c] >= stConnecting && m.st[c] <= stInOp {
			n++
		}
	}
	return n
}

func (m *model) running() int {
	n := 0
	for c := 1; c <= maxConns; c++ {
		if m.st[c] == stRunning {
			n++
		}
	}
	return n
}

// outstanding returns the index of conn's un-ended context of the given kind, or -1.
func (m *model) outstanding(conn int, query bool) int {
	for i := len(m.ctxs) - 1; i >= 0; i-- {
		c := m.ctxs[i]
		if c.conn == conn && c.isQuery == query && !c.ended && !c.superseded {
			return i
		}
	}
	return -1
}

// supersededOpen returns the index of conn's superseded, un-ended query context, or -1.
func (m *model) supersededOpen(conn int) int {
	for i, c := range m.ctxs {
		if c.conn == conn && c.superseded && !c.ended {
			return i
		}
	}
	return -1
}

// enabled: what the ProcessList interface permits and the server can produce.
func (m *model) enabled(e event) bool {
	c := e.Conn
	switch e.Kind {
	case evAdd:
		return m.st[c] == stAbsent
	case evReady:
		return m.st[c] == stConnecting
	case evBeginQuery:
		// also while a statement is running (its iterator is closed late), once per connection at a time
		return m.st[c] == stIdle || (m.st[c] == stRunning && m.supersededOpen(c) < 0)
	case evBeginOp:
		return m.st[c] == stIdle
	case evEndOld:
		return m.supersededOpen(c) >= 0
	case evEndQuery:
		return m.outstanding(c, true) >= 0
	case evEndOp:
		return m.outstanding(c, false) >= 0
	case evKill, evObserve:
		return true
	case evRemove:
		return m.st[c] >= stConnecting && m.st[c] <= stInOp
	case evAddProg, evUpdProg, evRemProg, evAddPart, evUpdPart:
		return m.st[c] == stRunning
	}
	return false
}

func (m *model) apply(e event) {
	c := e.Conn
	switch e.Kind {
	case evAdd:
		m.st[c] = stConnecting
	case evReady:
		m.st[c] = stIdle
	case evEndOld:
		m.ctxs[m.supersededOpen(c)].ended = true
	case evBeginQuery:
		if m.st[c] == stRunning {
			m.ctxs[m.cur[c]].superseded = true
			m.overlapped = true
		}
		m.nq[c]++
		m.ctxs = append(m.ctxs, mctx{conn: c, isQuery: true, pid: uint64(c)*1000 + m.nq[c]})
		m.cur[c] = len(m.ctxs) - 1
		m.st[c] = stRunning
		m.prog[c] = map[string][2]int64{}
	case evBeginOp:
		m.ctxs = append(m.ctxs, mctx{conn: c})
		m.cur[c] = len(m.ctxs) - 1
		m.st[c] = stInOp
	case evEndQuery:
		i := m.outstanding(c, true)
		m.ctxs[i].ended = true
		m.ctxs[i].cancelled = true
		if m.st[c] == stRunning && m.cur[c] == i {
			m.st[c] = stIdle
			m.cur[c] = -1
			m.prog[c] = nil
		} else {
			m.lateOpen--
			m.lateEnds++
		}
	case evEndOp:
		i := m.outstanding(c, false)
		m.ctxs[i].ended = true
		m.ctxs[i].cancelled = true
		if m.st[c] == stInOp && m.cur[c] == i {
			m.st[c] = stIdle
			m.cur[c] = -1
		}
	case evKill:
		if (m.st[c] == stRunning || m.st[c] == stInOp) && m.cur[c] >= 0 {
			m.ctxs[m.cur[c]].cancelled = true
		}
	case evRemove:
		if m.cur[c] >= 0 {
			m.ctxs[m.cur[c]].cancelled = true
			if m.st[c] == stRunning {
				m.lateOpen++
			}
		}
		m.st[c] = stRemoved
		m.cur[c] = -1
		m.prog[c] = nil
	case evAddProg:
		p := m.prog[c]["t"]
		p[1] = 10
		m.prog[c]["t"] = p
	case evUpdProg:
		p, ok := m.prog[c]["t"]
		if !ok {
			p = [2]int64{0, -1}
		}
		p[0]++
		m.prog[c]["t"] = p
	case evAddPart: // no-op unless the table progress exists
		if _, ok := m.prog[c]["t"]; ok {
			q := m.prog[c]["t/p0"]
			q[1] = 5
			m.prog[c]["t/p0"] = q
		}
	case evUpdPart:
		if _, ok := m.prog[c]["t"]; ok {
			q, ok := m.prog[c]["t/p0"]
			if !ok {
				q = [2]int64{0, -1}
			}
			q[0]++
			m.prog[c]["t/p0"] = q
		}
	case evRemProg:
		delete(m.prog[c], "t")
		delete(m.prog[c], "t/p0")
	}
}

// snapshot renders what Processes() must show.
func (m *model) snapshot() string {
	var parts []string
	for c := 1; c <= maxConns; c++ {
		switch m.st[c] {
		case stConnecting:
			parts = append(parts, fmt.Sprintf("%d:Connect::0:", c))
		case stIdle, stInOp:
			parts = append(parts, fmt.Sprintf("%d:Sleep::0:", c))
		case stRunning:
			parts = append(parts, fmt.Sprintf("%d:Query:q%d:%d:%s", c, m.ctxs[m.cur[c]].pid, m.ctxs[m.cur[c]].pid, progStr(m.prog[c])))
		}
	}
	return strings.Join(parts, " ")
}

func progStr(p map[string][2]int64) string {
	var ks []string
	for k, v := range p {
		ks = append(ks, fmt.Sprintf("%s=%d/%d", k, v[0], v[1]))
	}
	sort.Strings(ks)
	return strings.Join(ks, ",")
}

func (m *model) key() string {
	var sb strings.Builder
	sb.WriteString(m.snapshot())
	for _, c := range m.ctxs {
		fmt.Fprintf(&sb, "|%d%v%v%v%v", c.conn, c.isQuery, c.cancelled, c.ended, c.superseded)
	}
	fmt.Fprintf(&sb, "|late%d/%d/%v|", m.lateOpen, m.lateEnds, m.overlapped)
	for c := 1; c <= maxConns; c++ {
		fmt.Fprintf(&sb, "%d", m.st[c])
	}
	return sb.String()
}

// ---------------------------------------------------------------- real system

var sessPool [maxConns + 1]*sql.BaseSession

type sys struct {
	pl       *sqle.ProcessList
	ctxs     []*sql.Context // parallel to model.ctxs
	base     [2]int64       // Threads_connected, Threads_running at start
	nq       [maxConns + 1]uint64
	snapshot []string // Processes() snapshots taken by evObserve, in order
	snaps    []snap   // every snapshot object taken, re-rendered at the end
}

func counter(name string) int64 {
	_, v, ok := sql.StatusVariables.GetGlobal(name)
	if !ok {
		return -1 << 40
	}
	switch x := v.(type) {
	case uint64:
		return int64(x)
	case int64:
		return x
	case int:
		return int64(x)
	}
	return -1 << 41
}

func newSys() *sys {
	if sql.StatusVariables == nil {
		variables.InitStatusVariables()
	}
	s := &sys{pl: sqle.NewProcessList()}
	for i := 1; i <= maxConns; i++ {
		if sessPool[i] == nil {
			sessPool[i] = sql.NewBaseSessionWithClientServer("srv", sql.Client{User: "u", Address: "h"}, uint32(i))
		}
	}
	s.base = [2]int64{counter("Threads_connected"), counter("Threads_running")}
	return s
}

func (s *sys) outstanding(conn int, query bool, m *model) int { return m.outstanding(conn, query) }

// apply performs e on the real process list. mi is the model index of the context concerned
// (for End events), computed by the caller from the model BEFORE applying e to the model.
func (s *sys) apply(e event, endIdx int) (newIdx int, err error) {
	newIdx = -1
	defer func() {
		if x := recover(); x != nil {
			err = fmt.Errorf("panic: %v", x)
		}
	}()
	c := uint32(e.Conn)
	switch e.Kind {
	case evAdd:
		s.pl.AddConnection(c, "h")
	case evReady:
		s.pl.ConnectionReady(sessPool[e.Conn])
	case evBeginQuery:
		s.nq[e.Conn]++
		pid := uint64(e.Conn)*1000 + s.nq[e.Conn]
		ctx := sql.NewContext(context.Background(), sql.WithSession(sessPool[e.Conn]), sql.WithPid(pid))
		nctx, err := s.pl.BeginQuery(ctx, fmt.Sprintf("q%d", pid))
		if err != nil {
			return -1, err
		}
		s.ctxs = append(s.ctxs, nctx)
		newIdx = len(s.ctxs) - 1
	case evBeginOp:
		ctx := sql.NewContext(context.Background(), sql.WithSession(sessPool[e.Conn]))
		nctx, err := s.pl.BeginOperation(ctx)
		if err != nil {
			return -1, err
		}
		s.ctxs = append(s.ctxs, nctx)
		newIdx = len(s.ctxs) - 1
	case evEndQuery, evEndOld:
		s.pl.EndQuery(s.ctxs[endIdx])
	case evEndOp:
		s.pl.EndOperation(s.ctxs[endIdx])
	case evKill:
		s.pl.Kill(c)
	case evRemove:
		s.pl.RemoveConnection(c)
	case evAddProg, evUpdProg, evRemProg, evAddPart, evUpdPart:
		pid := s.ctxs[endIdx].Pid()
		switch e.Kind {
		case evAddProg:
			s.pl.AddTableProgress(pid, "t", 10)
		case evUpdProg:
			s.pl.UpdateTableProgress(pid, "t", 1)
		case evAddPart:
			s.pl.AddPartitionProgress(pid, "t", "p0", 5)
		case evUpdPart:
			s.pl.UpdatePartitionProgress(pid, "t", "p0", 1)
		default:
			s.pl.RemoveTableProgress(pid, "t")
		}
	case evObserve:
		s.takeSnap()
		s.snapshot = append(s.snapshot, s.snaps[len(s.snaps)-1].str)
	}
	return newIdx, nil
}

func (s *sys) render() string { return renderProcs(s.pl.Processes()) }

// snap is a Processes() result kept by the harness: it must not change after it was returned.
type snap struct {
	obj []sql.Process
	str string
}

func (s *sys) takeSnap() {
	obj := s.pl.Processes()
	s.snaps = append(s.snaps, snap{obj: obj, str: renderProcs(obj)})
}

func renderProcs(in []sql.Process) string {
	ps := append([]sql.Process{}, in...)
	sort.Slice(ps, func(i, j int) bool { return ps[i].Connection < ps[j].Connection })
	var parts []string
	for _, p := range ps {
		pm := map[string][2]int64{}
		for k, v := range p.Progress {
			pm[k] = [2]int64{v.Done, v.Total}
			for pk, pv := range v.PartitionsProgress {
				pm[k+"/"+pk] = [2]int64{pv.Done, pv.Total}
			}
		}
		parts = append(parts, fmt.Sprintf("%d:%s:%s:%d:%s", p.Connection, p.Command, p.Query, p.QueryPid, progStr(pm)))
	}
	return strings.Join(parts, " ")
}

// compare checks every observable of the real system against the model; returns a violation
// description (clause, kind, subject, observed, expected) or "".
type diff struct {
	clause, kind, observed, expected string
	subject                          map[string]string
}

func (s *sys) compare(m *model, last event) *diff {
	for i, sn := range s.snaps {
		if now := renderProcs(sn.obj); now != sn.str {
			return &diff{"snapshot-isolated", "snapshot-mutated-after-return", fmt.Sprintf("snapshot %d now reads %s", i, now), "unchanged: " + sn.str, map[string]string{}}
		}
	}
	if got, want := s.render(), m.snapshot(); got != want {
		return &diff{"process-list", "wrong-list", got, want, map[string]string{"after": evNames[last.Kind]}}
	}
	for i, mc := range m.ctxs {
		if mc.superseded {
			continue
		}
		got := s.ctxs[i].Err() != nil
		if got != mc.cancelled {
			kind := "not-cancelled"
			if got {
				kind = "cancelled-wrong-context"
			}
			what := "operation"
			if mc.isQuery {
				what = "query"
			}
			return &diff{"cancellation", kind, fmt.Sprintf("context %d (conn %d %s) cancelled=%v", i, mc.conn, what, got), fmt.Sprintf("cancelled=%v", mc.cancelled),
				map[string]string{"after": evNames[last.Kind], "context": what}}
		}
	}
	if got, want := counter("Threads_connected")-s.base[0], int64(m.connected()); got != want {
		return &diff{"threads-connected", "counter-mismatch", fmt.Sprint(got), fmt.Sprint(want), map[string]string{"after": evNames[last.Kind]}}
	}
	if m.overlapped {
		return nil
	}
	got := counter("Threads_running") - s.base[1]
	lo := int64(m.running())
	hi := lo + int64(m.lateOpen) // a query whose connection was closed is still running until its EndQuery
	if got < lo || got > hi {
		situation := "no-removed-running-query"
		if m.lateEnds > 0 {
			situation = "after-late-EndQuery-of-removed-connection"
		} else if m.lateOpen > 0 {
			situation = "removed-connection-query-still-open"
		}
		return &diff{"threads-running", "counter-mismatch", fmt.Sprint(got), fmt.Sprintf("between %d and %d", lo, hi), map[string]string{"situation": situation}}
	}
	return nil
}

// ---------------------------------------------------------------- sequential part

func seqAlphabet(nconn int) []event {
	var a []event
	for c := 1; c <= nconn; c++ {
		for k := evAdd; k <= evRemProg; k++ {
			a = append(a, event{k, c})
		}
		a = append(a, event{evEndOld, c}, event{evAddPart, c}, event{evUpdPart, c})
	}
	return a
}

func labels(alpha []event, h []int) []string {
	out := make([]string, len(h))
	for i, x := range h {
		out[i] = alpha[x].String()
	}
	return out
}

func seqStep(r *core.Run, alpha []event) func(h []int) (string, bool) {
	return func(h []int) (string, bool) {
		m := newModel()
		s := newSys()
		for i, oi := range h {
			e := alpha[oi]
			if !m.enabled(e) {
				return hist.Disabled, false
			}
			endIdx := -1
			switch e.Kind {
			case evEndQuery:
				endIdx = m.outstanding(e.Conn, true)
			case evEndOld:
				endIdx = m.supersededOpen(e.Conn)
			case evEndOp:
				endIdx = m.outstanding(e.Conn, false)
			case evAddProg, evUpdProg, evRemProg, evAddPart, evUpdPart:
				endIdx = m.cur[e.Conn]
			}
			_, err := s.apply(e, endIdx)
			m.apply(e)
			if err == nil {
				s.takeSnap()
			}
			if i < len(h)-1 {
				continue
			}
			r.Outcome(evNames[e.Kind])
			if err != nil {
				r.Violate(core.Violation{Check: "sequential", Clause: "no-error", Kind: "unexpected-error", Subject: map[string]string{"event": evNames[e.Kind]},
					Witness: core.J(map[string]any{"history": h, "labels": labels(alpha, h)}), Observed: err.Error()})
				return "", false
			}
			if d := s.compare(m, e); d != nil {
				r.Violate(core.Violation{Check: "sequential", Clause: d.clause, Kind: d.kind, Subject: d.subject,
					Witness: core.J(map[string]any{"history": h, "labels": labels(alpha, h)}), Observed: d.observed, Expected: d.expected})
				return "", false
			}
			if e.Kind == evKill || e.Kind == evRemove || e.Kind == evEndQuery || e.Kind == evEndOld {
				r.NonTrivial(fmt.Sprint(h))
			}
		}
		// drain: leave the process-global counters as we found them as far as possible
		return m.key(), true
	}
}

// ---------------------------------------------------------------- concurrent part

type scenario struct {
	Threads [][]event `json:"threads"`
}

func (sc scenario) String() string {
	var sb strings.Builder
	for i, t := range sc.Threads {
		fmt.Fprintf(&sb, " T%d:[", i)
		for j, e := range t {
			if j > 0 {
				sb.WriteString(",")
			}
			sb.WriteString(e.String())
		}
		sb.WriteString("]")
	}
	return sb.String()
}

func lifecycles(conn int) [][]event {
	mk := func(ks ...evKind) []event {
		var out []event
		for _, k := range ks {
			out = append(out, event{k, conn})
		}
		return out
	}
	return [][]event{
		mk(evAdd, evReady, evBeginQuery, evEndQuery, evRemove),
		mk(evAdd, evReady, evBeginQuery, evRemove, evEndQuery),
		mk(evAdd, evReady, evBeginOp, evEndOp, evBeginQuery, evEndQuery),
		mk(evAdd, evReady, evBeginQuery, evAddProg, evAddPart, evUpdPart, evEndQuery),
		mk(evAdd, evReady, evBeginQuery, evEndQuery, evBeginQuery, evEndQuery),
		mk(evAdd, evReady, evBeginQuery, evBeginQuery, evEndOld, evEndQuery, evRemove),
	}
}

func scenarios(tier string) []scenario {
	var out []scenario
	killers := [][]event{
		{{evKill, 1}},
		{{evKill, 1}, {evKill, 2}},
		{{evKill, 1}, {evObserve, 0}},
		{{evObserve, 0}, {evKill, 2}},
		{{evKill, 1}, {evKill, 1}},
		{{evObserve, 0}, {evObserve, 0}},
	}
	l1, l2 := lifecycles(1), lifecycles(2)
	for _, a := range l1 {
		for _, k := range killers {
			out = append(out, scenario{Threads: [][]event{a, k}})
		}
	}
	for i, a := range l1 {
		for j, b := range l2 {
			if j < i {
				continue
			}
			out = append(out, scenario{Threads: [][]event{a, b}})
			for _, k := range killers {
				out = append(out, scenario{Threads: [][]event{a, b, k}})
			}
		}
	}
	return out
}

type execResult struct {
	tr     *vsched.Trace
	order  []event // completion order
	s      *sys
	errs   []string
	panics []string
}

const horizon = 600

func runScenario(sc scenario, choose func(i int, cands []int, runningIn bool) int) execResult {
	s := newSys()
	res := execResult{s: s}
	// each thread tracks, for its own connection, the indices of contexts it created: indices into
	// s.ctxs are assigned in completion order of Begin events, which is also the order in which the
	// model (replayed over res.order) assigns them.
	bodies := make([]func(t *vsched.Thread), len(sc.Threads))
	for ti := range sc.Threads {
		prog := sc.Threads[ti]
		bodies[ti] = func(t *vsched.Thread) {
			var myQuery, myOp []int
			for _, e := range prog {
				endIdx := -1
				switch e.Kind {
				case evEndOld:
					endIdx = myQuery[0]
					myQuery = myQuery[1:]
				case evEndQuery:
					endIdx = myQuery[len(myQuery)-1]
					myQuery = myQuery[:len(myQuery)-1]
				case evEndOp:
					endIdx = myOp[0]
					myOp = myOp[1:]
				case evAddProg, evUpdProg, evRemProg, evAddPart, evUpdPart:
					endIdx = myQuery[len(myQuery)-1]
				}
				idx, err := s.apply(e, endIdx)
				if err != nil {
					res.errs = append(res.errs, fmt.Sprintf("%s: %v", e, err))
				}
				if idx >= 0 {
					if e.Kind == evBeginQuery {
						myQuery = append(myQuery, idx)
					} else {
						myOp = append(myOp, idx)
					}
				}
				res.order = append(res.order, e)
			}
		}
	}
	tr, threads := vsched.Run(bodies, choose, horizon)
	res.tr = tr
	for _, t := range threads {
		if t.PanicVal != nil {
			res.panics = append(res.panics, fmt.Sprintf("thread %d: %v", t.ID, t.PanicVal))
		}
	}
	return res
}

func scSubject(sc scenario) map[string]string {
	var parts []string
	for _, t := range sc.Threads {
		var ks []string
		for _, e := range t {
			ks = append(ks, evNames[e.Kind])
		}
		parts = append(parts, strings.Join(ks, "+"))
	}
	sort.Strings(parts)
	return map[string]string{"threads": strings.Join(parts, " | ")}
}

func checkExec(sc scenario, x execResult, choices []int) *core.Violation {
	w := core.J(map[string]any{"scenario": sc, "desc": sc.String(), "schedule": choices})
	mk := func(clause, kind, obs, exp string, subj map[string]string) *core.Violation {
		if subj == nil {
			subj = map[string]string{}
		}
		return &core.Violation{Check: "concurrent", Clause: clause, Kind: kind, Subject: subj, Witness: w, Observed: obs, Expected: exp}
	}
	switch {
	case x.tr.Stuck:
		return mk("progress", "stuck-outside-scheduler", "a thread blocked on a primitive the scheduler cannot see", "", nil)
	case x.tr.Deadlock:
		return mk("progress", "deadlock", fmt.Sprintf("blocked threads %v after %v", x.tr.Blocked, x.order), "", nil)
	case x.tr.Horizon:
		return mk("progress", "livelock-horizon", fmt.Sprintf("horizon exceeded after %v", x.order), "", nil)
	case len(x.panics) > 0:
		return mk("no-panic", "panic", strings.Join(x.panics, "; "), "", nil)
	case len(x.errs) > 0:
		return mk("no-error", "unexpected-error", strings.Join(x.errs, "; "), "", nil)
	}
	// replay the completion order on the model
	m := newModel()
	var snaps []string
	var last event
	for _, e := range x.order {
		if !m.enabled(e) {
			return mk("serializable", "order-not-protocol-conforming", fmt.Sprintf("%v at %s", x.order, e), "", nil)
		}
		if e.Kind == evObserve {
			snaps = append(snaps, m.snapshot())
		}
		m.apply(e)
		last = e
	}
	for i := range snaps {
		if i < len(x.s.snapshot) && snaps[i] != x.s.snapshot[i] {
			return mk("snapshot", "inconsistent-snapshot", x.s.snapshot[i], snaps[i]+"  (order "+fmt.Sprint(x.order)+")", nil)
		}
	}
	if d := x.s.compare(m, last); d != nil {
		return mk(d.clause, d.kind, d.observed+"  (completion order "+fmt.Sprint(x.order)+")", d.expected, d.subject)
	}
	return nil
}

func firstViolation(sc scenario, bound int, stop func() bool) (v *core.Violation, ex *vsched.Explorer, points int64, outs int) {
	var last execResult
	seen := map[string]struct{}{}
	ex = &vsched.Explorer{Bound: bound, MaxPoints: horizon}
	ex.Stop = func() bool { return v != nil || (stop != nil && stop()) }
	ex.Exec = func(choose func(i int, cands []int, runningIn bool) int) *vsched.Trace {
		last = runScenario(sc, choose)
		return last.tr
	}
	ex.Check = func(tr *vsched.Trace) {
		points += int64(len(tr.Points))
		seen[fmt.Sprint(last.order)] = struct{}{}
		if v == nil {
			v = checkExec(sc, last, tr.Choices())
		}
	}
	ex.Explore()
	if ex.Diverged != nil {
		panic("HARNESS: " + ex.Diverged.Error() + " in " + sc.String())
	}
	return v, ex, points, len(seen)
}

func init() {
	core.Register(&core.Prop{
		ID:         "C37",
		Level:      "model_checking",
		GoMaxProcs: 1,
		Rule: "sequential: BFS over all protocol-conforming event sequences (per connection Add -> Ready -> (BeginQuery..EndQuery | BeginOperation..EndOperation)* -> Remove, Kill at any time, RemoveConnection while a query/operation is registered followed by its late End, table-progress updates) " +
			"on the real ProcessList for 2 (quick) / 3 (thorough) connections, every step compared with a model: Processes(), cancellation state of every issued context, Threads_connected, Threads_running; " +
			"concurrent: every scenario of 2 connection-lifecycle threads (5 lifecycle programs each) x optional killer/observer thread (6 programs), ALL schedules up to the preemption bound (quick 2, thorough 3) under the cooperative scheduler; " +
			"oracle: the execution must equal the sequential execution of its operations in completion order (replayed on the model). non-trivial = sequence ending in Kill/Remove/EndQuery (sequential), scenario with >1 distinct completion orders (concurrent)",
		Assumptions: []string{
			"protocol-conforming use only (no BeginQuery on unregistered connections, no pid re-use, no nesting): the property says nothing about API misuse",
			"StartedAt (wall clock) is ignored",
			"scheduling points are sync/atomic operations; data races need the separate -race pass",
			"after RemoveConnection of a connection with a running query, Threads_running may or may not count that query until its EndQuery",
		},
		QuickBudget:    70,
		ThoroughBudget: 900,
		Run:            run,
		Replay:         replay,
	})
}

func run(r *core.Run) {
	nconn, depth, unmerged := 2, 7, 4
	if r.Thorough() {
		nconn, depth, unmerged = 3, 9, 4
	}
	alpha := seqAlphabet(nconn)
	hist.Explore(r, hist.Config{NOps: len(alpha), MaxDepth: depth, UnmergedDepth: unmerged, Step: seqStep(r, alpha),
		Label: func(o int) string { return alpha[o].String() }})

	scs := scenarios(r.Tier)
	bound := 2
	if r.Thorough() {
		bound = 3
	}
	r.Info("concurrent_scenarios", len(scs))
	r.Info("preemption_bound", bound)
	for i, sc := range scs {
		if !r.Mine(int64(i)) {
			continue
		}
		if r.Expired() {
			r.Capped("time budget reached before all concurrent scenarios were explored")
			break
		}
		v, ex, points, outs := firstViolation(sc, bound, r.Expired)
		r.EvalN(ex.Executions)
		r.Count("schedules", ex.Executions)
		r.Count("transitions", points)
		r.Count("states", int64(outs))
		r.Count("scenarios_completed", 1)
		r.Max("max_points_per_execution", int64(ex.MaxPointsSeen))
		if v != nil {
			r.Violate(*v)
		} else if ex.Stopped {
			r.Capped("time budget reached during a scenario")
		}
		if outs > 1 {
			r.NonTrivial(sc.String())
		}
		if r.WantSample() {
			r.Sample(map[string]any{"scenario": sc.String(), "schedules": ex.Executions, "distinct_completion_orders": outs, "preemption_bound": bound})
		}
	}
}

func replay(r *core.Run, w json.RawMessage) {
	var seq struct {
		History []int `json:"history"`
	}
	if json.Unmarshal(w, &seq) == nil && seq.History != nil {
		for _, nconn := range []int{2, 3} {
			alpha := seqAlphabet(nconn)
			ok := true
			for _, x := range seq.History {
				ok = ok && x < len(alpha)
			}
			if !ok {
				continue
			}
			step := seqStep(r, alpha)
			for i := 1; i <= len(seq.History); i++ {
				if _, cont := step(seq.History[:i]); !cont {
					break
				}
			}
			if r.NumViolations() > 0 {
				return
			}
		}
		return
	}
	var c struct {
		Scenario scenario `json:"scenario"`
		Schedule []int    `json:"schedule"`
	}
	if json.Unmarshal(w, &c) != nil {
		return
	}
	x := runScenario(c.Scenario, func(i int, cands []int, runningIn bool) int {
		if i < len(c.Schedule) && c.Schedule[i] < len(cands) {
			return c.Schedule[i]
		}
		return 0
	})
	if v := checkExec(c.Scenario, x, x.tr.Choices()); v != nil {
		r.Violate(*v)
	}
}
