// Package c38 — named locks give mutual exclusion and are linearizable.
//
// Sequential part: BFS (hist) over all operation sequences of 3 sessions × 2 names on the real
// LockSubsystem (and, second route, through the SQL functions GET_LOCK/RELEASE_LOCK/IS_FREE_LOCK/
// IS_USED_LOCK/RELEASE_ALL_LOCKS on an engine) against the sequential model.
//
// Concurrent part: every scenario of 2–3 session threads × 1–2 operations on colliding names is
// run on the real LockSubsystem under the cooperative scheduler (scheduling points: the RWMutex on
// the lock table, every LoadPointer/CompareAndSwapPointer, the polling loop's Sleep on a virtual
// clock); all schedules up to a preemption bound are enumerated (DFS); each complete execution
// yields a call/return history that porcupine checks for linearizability against the model.
package c38

import (
	"context"
	"encoding/json"
	"fmt"
	"strings"
	"time"

	"github.com/anishathalye/porcupine"
	"github.com/dolthub/go-mysql-server/sql"
	"github.com/dolthub/go-mysql-server/verifshim/vsched"

	"verif/mc/core"
	"verif/mc/eng"
	"verif/mc/hist"
)

var names = [nNames]string{"x", "y"}

type sys struct {
	ls   *sql.LockSubsystem
	ctxs [nSessions + 1]*sql.Context
}

// Creating a BaseSession copies every system variable (~0.15 ms); the only per-session state the
// lock subsystem touches is the session's lock set, so the three real BaseSessions are reused
// across executions and their lock sets emptied (DelLock) when a fresh system is built.
var sessPool [nSessions + 1]*sql.BaseSession

func newSys() *sys {
	s := &sys{ls: sql.NewLockSubsystem()}
	for i := 1; i <= nSessions; i++ {
		if sessPool[i] == nil {
			sessPool[i] = sql.NewBaseSessionWithClientServer("srv", sql.Client{User: "u", Address: "localhost"}, uint32(i))
		}
		for _, n := range names {
			sessPool[i].DelLock(n)
		}
		s.ctxs[i] = sql.NewContext(context.Background(), sql.WithSession(sessPool[i]))
	}
	return s
}

// apply runs one operation on the real subsystem and encodes its result like the model does.
func (s *sys) apply(in input) (out output) {
	defer func() {
		if x := recover(); x != nil {
			out = output{Err: fmt.Sprintf("panic: %v", x)}
		}
	}()
	ctx := s.ctxs[in.Sess]
	name := names[in.Op.Name]
	switch in.Op.Kind {
	case opTryLock:
		ok, err := s.ls.TryLock(ctx, name)
		if err != nil {
			return output{Err: err.Error()}
		}
		if ok {
			return output{Res: 1}
		}
		return output{Res: 0}
	case opLock0, opLockT:
		to := time.Duration(0)
		if in.Op.Kind == opLockT {
			to = 250 * time.Microsecond
		}
		err := s.ls.Lock(ctx, name, to)
		switch {
		case err == nil:
			return output{Res: 1}
		case sql.ErrLockTimeout.Is(err):
			return output{Res: 0}
		default:
			return output{Err: err.Error()}
		}
	case opUnlock:
		err := s.ls.Unlock(ctx, name)
		switch {
		case err == nil:
			return output{Res: 1}
		case sql.ErrLockNotOwned.Is(err):
			return output{Res: 0}
		case sql.ErrLockDoesNotExist.Is(err):
			return output{Res: 0}
		default:
			return output{Err: err.Error()}
		}
	case opState:
		st, owner := s.ls.GetLockState(name)
		switch st {
		case sql.LockDoesNotExist:
			return output{Res: 0}
		case sql.LockFree:
			return output{Res: 0}
		default:
			return output{Res: int(owner)}
		}
	case opReleaseAll:
		n, err := s.ls.ReleaseAll(ctx)
		if err != nil {
			return output{Err: err.Error()}
		}
		return output{Res: n}
	}
	return output{Err: "bad op"}
}

// ---------------------------------------------------------------- sequential part

type seqOp struct {
	In input
}

func seqAlphabet() []input {
	var a []input
	for s := int8(1); s <= nSessions; s++ {
		for n := 0; n < nNames; n++ {
			for _, k := range []opKind{opTryLock, opLock0, opUnlock} {
				a = append(a, input{s, op{k, n}})
			}
		}
		a = append(a, input{s, op{opReleaseAll, 0}})
	}
	for n := 0; n < nNames; n++ {
		a = append(a, input{1, op{opState, n}})
	}
	return a
}

func labelIn(in input) string { return fmt.Sprintf("s%d.%s", in.Sess, in.Op) }

// sqlApply runs the operation through the SQL functions on an engine session.
func sqlApply(ss [nSessions + 1]*eng.Session, in input) output {
	s := ss[in.Sess]
	name := names[in.Op.Name]
	var q string
	switch in.Op.Kind {
	case opTryLock, opLock0:
		q = fmt.Sprintf("select get_lock('%s', 0)", name)
	case opUnlock:
		q = fmt.Sprintf("select release_lock('%s')", name)
	case opState:
		q = fmt.Sprintf("select is_free_lock('%s'), is_used_lock('%s')", name, name)
	case opReleaseAll:
		q = "select release_all_locks()"
	}
	r := s.Exec(q)
	if r.Err != nil {
		return output{Err: r.Err.Error()}
	}
	if len(r.Rows) != 1 {
		return output{Err: fmt.Sprintf("%d rows", len(r.Rows))}
	}
	v := eng.FormatValue(r.Rows[0][0])
	switch in.Op.Kind {
	case opTryLock, opLock0:
		// MySQL: 1 acquired, 0 timeout
		switch v {
		case "1":
			return output{Res: 1}
		case "0":
			return output{Res: 0}
		}
	case opUnlock:
		// MySQL: 1 released, 0 not owned by this session, NULL lock does not exist
		switch v {
		case "1":
			return output{Res: 1}
		case "0":
			return output{Res: 0}
		case "NULL":
			return output{Res: 0}
		}
	case opState:
		used := eng.FormatValue(r.Rows[0][1])
		// is_free_lock: 1 free (also for a name never used), 0 in use; is_used_lock: holder id or NULL
		if v == "1" && used == "NULL" {
			return output{Res: 0} // free or nonexistent: SQL cannot tell them apart
		}
		if v == "0" && used != "NULL" {
			var id int
			fmt.Sscanf(used, "%d", &id)
			return output{Res: id}
		}
		return output{Err: "is_free_lock=" + v + " is_used_lock=" + used}
	case opReleaseAll:
		var n int
		if _, err := fmt.Sscanf(v, "%d", &n); err == nil {
			return output{Res: n}
		}
	}
	return output{Err: "unexpected value " + v}
}

func seqStep(r *core.Run, alpha []input, route string) func(h []int) (string, bool) {
	return func(h []int) (string, bool) {
		var st state
		var apply func(in input) output
		if route == "api" {
			s := newSys()
			apply = s.apply
		} else {
			e := eng.New()
			var ss [nSessions + 1]*eng.Session
			for i := 1; i <= nSessions; i++ {
				ss[i] = e.NewSession("root") // session ids are 1..3 in creation order
			}
			apply = func(in input) output { return sqlApply(ss, in) }
		}
		for i, oi := range h {
			in := alpha[oi]
			got := apply(in)
			want, ns := expected(st, in)
			if i == len(h)-1 {
				r.Outcome(fmt.Sprintf("%s:%s=%d", route, opNames[in.Op.Kind], got.Res))
				if got != want {
					hs := make([]string, len(h))
					for j, x := range h {
						hs[j] = labelIn(alpha[x])
					}
					r.Violate(core.Violation{
						Check: "sequential-" + route, Clause: "model-agreement", Kind: "wrong-result",
						Subject:  map[string]string{"op": opNames[in.Op.Kind], "model_state": classify(st, in)},
						Witness:  core.J(map[string]any{"route": route, "history": h, "labels": hs}),
						Observed: fmt.Sprintf("%d %s", got.Res, got.Err), Expected: fmt.Sprint(want.Res),
					})
					return "", false
				}
				if in.Op.Kind != opState {
					r.NonTrivial(fmt.Sprint(route, h))
				}
			}
			st = ns
		}
		return fmt.Sprintf("%s%v", route, st), true
	}
}

// classify describes the model situation of the failing op (for signatures).
func classify(st state, in input) string {
	if in.Op.Kind == opReleaseAll {
		n := 0
		for i := 0; i < nNames; i++ {
			if st.Owner[i] == in.Sess {
				n++
			}
		}
		return fmt.Sprintf("holds-%d", n)
	}
	n := in.Op.Name
	switch {
	case st.Owner[n] == 0:
		return "free"
	case st.Owner[n] == in.Sess:
		return fmt.Sprintf("held-by-self-x%d", min(int(st.Count[n]), 2))
	default:
		return "held-by-other"
	}
}

// ---------------------------------------------------------------- concurrent part

type scenario struct {
	Pre     []input `json:"pre"`     // sequential prefix (run before the threads start)
	Threads [][]op  `json:"threads"` // thread i runs as session i+1
}

func (sc scenario) String() string {
	var sb strings.Builder
	for _, p := range sc.Pre {
		fmt.Fprintf(&sb, "%s; ", labelIn(p))
	}
	sb.WriteString("||")
	for i, t := range sc.Threads {
		fmt.Fprintf(&sb, " s%d:[", i+1)
		for j, o := range t {
			if j > 0 {
				sb.WriteString(",")
			}
			sb.WriteString(o.String())
		}
		sb.WriteString("]")
	}
	return sb.String()
}

type execResult struct {
	tr      *vsched.Trace
	history []porcupine.Operation
	panics  []string
}

// runScenario executes sc once under the scheduler with the given chooser.
func runScenario(sc scenario, choose func(i int, cands []int, runningIn bool) int, maxPoints int) execResult {
	s := newSys()
	var hist []porcupine.Operation
	clock := int64(0)
	for _, in := range sc.Pre {
		out := s.apply(in)
		hist = append(hist, porcupine.Operation{ClientId: int(in.Sess), Input: in, Call: clock, Output: out, Return: clock + 1})
		clock += 2
	}
	bodies := make([]func(t *vsched.Thread), len(sc.Threads))
	for ti := range sc.Threads {
		sess := int8(ti + 1)
		prog := sc.Threads[ti]
		bodies[ti] = func(t *vsched.Thread) {
			for _, o := range prog {
				in := input{sess, o}
				call := clock
				clock++
				out := s.apply(in)
				ret := clock
				clock++
				hist = append(hist, porcupine.Operation{ClientId: int(sess), Input: in, Call: call, Output: out, Return: ret})
			}
		}
	}
	tr, threads := vsched.Run(bodies, choose, maxPoints)
	res := execResult{tr: tr, history: hist}
	for _, t := range threads {
		if t.PanicVal != nil {
			res.panics = append(res.panics, fmt.Sprintf("thread %d: %v", t.ID, t.PanicVal))
		}
	}
	return res
}

func scenarioSubject(sc scenario) map[string]string {
	// operation multiset with names abstracted to same/different
	var parts []string
	for _, t := range sc.Threads {
		var ks []string
		for _, o := range t {
			k := opNames[o.Kind]
			if o.Kind == opTryLock || o.Kind == opLock0 || o.Kind == opLockT {
				k = "Acquire"
			}
			ks = append(ks, k)
		}
		if len(ks) == 0 {
			continue
		}
		parts = append(parts, strings.Join(ks, "+"))
	}
	// sort for multiset semantics
	for i := 1; i < len(parts); i++ {
		for j := i; j > 0 && parts[j] < parts[j-1]; j-- {
			parts[j], parts[j-1] = parts[j-1], parts[j]
		}
	}
	return map[string]string{"ops": strings.Join(parts, " | "), "pre": fmt.Sprint(len(sc.Pre))}
}

func checkExec(sc scenario, x execResult, choices []int) *core.Violation {
	w := func() json.RawMessage {
		return core.J(map[string]any{"scenario": sc, "desc": sc.String(), "schedule": choices})
	}
	descr := func() string {
		var sb strings.Builder
		for _, o := range x.history {
			fmt.Fprintf(&sb, "[%d,%d] %s; ", o.Call, o.Return, lockModel.DescribeOperation(o.Input, o.Output))
		}
		return sb.String()
	}
	if x.tr.Stuck {
		return &(core.Violation{Check: "concurrent", Clause: "progress", Kind: "stuck-outside-scheduler", Subject: scenarioSubject(sc), Witness: w(), Observed: "a thread blocked on a primitive the scheduler cannot see"})
	}
	if x.tr.Deadlock {
		return &(core.Violation{Check: "concurrent", Clause: "progress", Kind: "deadlock", Subject: scenarioSubject(sc), Witness: w(), Observed: fmt.Sprintf("blocked threads %v after %s", x.tr.Blocked, descr())})
	}
	if x.tr.Horizon {
		return &(core.Violation{Check: "concurrent", Clause: "progress", Kind: "livelock-horizon", Subject: scenarioSubject(sc), Witness: w(), Observed: "execution exceeded its horizon: " + descr()})
	}
	if len(x.panics) > 0 {
		return &(core.Violation{Check: "concurrent", Clause: "no-panic", Kind: "panic", Subject: scenarioSubject(sc), Witness: w(), Observed: strings.Join(x.panics, "; ")})
	}
	if !porcupine.CheckOperations(lockModel, x.history) {
		return &(core.Violation{Check: "concurrent", Clause: "linearizable", Kind: "non-linearizable", Subject: scenarioSubject(sc), Witness: w(), Observed: descr(), Expected: "some sequential order of the operations consistent with real-time order explains all results"})
	}
	return nil
}

func outcomeKey(x execResult) string {
	var sb strings.Builder
	// per-client result vector (order of ops per client is fixed)
	byClient := map[int][]int{}
	for _, o := range x.history {
		byClient[o.ClientId] = append(byClient[o.ClientId], o.Output.(output).Res)
	}
	for c := 1; c <= nSessions; c++ {
		fmt.Fprintf(&sb, "%v", byClient[c])
	}
	return sb.String()
}

// firstViolation explores sc up to bound and returns the first violation found (nil if none).
func firstViolation(sc scenario, bound int, stop func() bool) (v *core.Violation, execs int64, outs int, ex *vsched.Explorer, points int64) {
	seenOut := map[string]struct{}{}
	var last execResult
	ex = &vsched.Explorer{Bound: bound, MaxPoints: horizon}
	ex.Stop = func() bool { return v != nil || (stop != nil && stop()) }
	ex.Exec = func(choose func(i int, cands []int, runningIn bool) int) *vsched.Trace {
		last = runScenario(sc, choose, horizon)
		return last.tr
	}
	ex.Check = func(tr *vsched.Trace) {
		points += int64(len(tr.Points))
		seenOut[outcomeKey(last)] = struct{}{}
		if v == nil {
			v = checkExec(sc, last, tr.Choices())
		}
	}
	ex.Explore()
	if ex.Diverged != nil {
		panic("HARNESS: " + ex.Diverged.Error() + " in " + sc.String())
	}
	return v, ex.Executions, len(seenOut), ex, points
}

const horizon = 400

// minimise drops operations (fixed order) while a violation of the same clause/kind remains, so
// that one root cause yields one signature whatever larger scenario exposed it.
func minimise(sc scenario, bound int, v *core.Violation) (scenario, *core.Violation) {
	for changed := true; changed; {
		changed = false
		var cands []scenario
		for i := range sc.Pre {
			c := scenario{Threads: sc.Threads}
			c.Pre = append(append([]input{}, sc.Pre[:i]...), sc.Pre[i+1:]...)
			cands = append(cands, c)
		}
		for ti := range sc.Threads {
			for oi := range sc.Threads[ti] {
				c := scenario{Pre: sc.Pre}
				for tj := range sc.Threads {
					if tj != ti {
						c.Threads = append(c.Threads, sc.Threads[tj])
						continue
					}
					p := append(append([]op{}, sc.Threads[tj][:oi]...), sc.Threads[tj][oi+1:]...)
					c.Threads = append(c.Threads, p) // keep (possibly empty) so session ids stay put
				}
				cands = append(cands, c)
			}
		}
		for _, c := range cands {
			nv, _, _, _, _ := firstViolation(c, bound, nil)
			if nv != nil && nv.Clause == v.Clause && nv.Kind == v.Kind {
				sc, v, changed = c, nv, true
				break
			}
		}
	}
	return sc, v
}

// exploreScenario enumerates all schedules of sc up to the preemption bound.
func exploreScenario(r *core.Run, sc scenario, bound int) (execs int64, outcomes int) {
	v, execs, outs, ex, points := firstViolation(sc, bound, r.Expired)
	r.EvalN(execs)
	r.Count("transitions", points)
	if v != nil {
		_, mv := minimise(sc, bound, v)
		r.Violate(*mv)
	} else if ex.Stopped {
		r.Capped(fmt.Sprintf("time budget reached during scenario exploration (bound %d)", bound))
	}
	r.Max("max_points_per_execution", int64(ex.MaxPointsSeen))
	return execs, outs
}

// programs enumerates thread programs of length 1..maxLen over the concurrent op alphabet.
func programs(maxLen int, kinds []opKind) [][]op {
	var alpha []op
	for _, k := range kinds {
		if k == opReleaseAll {
			alpha = append(alpha, op{k, 0})
			continue
		}
		for n := 0; n < nNames; n++ {
			alpha = append(alpha, op{k, n})
		}
	}
	var out [][]op
	var rec func(p []op)
	rec = func(p []op) {
		if len(p) > 0 {
			out = append(out, append([]op{}, p...))
		}
		if len(p) == maxLen {
			return
		}
		for _, o := range alpha {
			rec(append(p, o))
		}
	}
	rec(nil)
	return out
}

// progOK: a program containing ReleaseAll may acquire at most one name before it (ReleaseAll
// iterates the session's lock set in Go map order and is not atomic across names; multi-lock
// ReleaseAll is covered by the sequential part).
func progOK(p []op, preHeld map[int]bool) bool {
	held := map[int]bool{}
	for k := range preHeld {
		held[k] = true
	}
	for _, o := range p {
		switch o.Kind {
		case opTryLock, opLock0, opLockT:
			held[o.Name] = true
		case opReleaseAll:
			if len(held) > 1 {
				return false
			}
		}
	}
	return true
}

func touches(p []op) (x, y bool) {
	for _, o := range p {
		if o.Kind == opReleaseAll {
			return true, true
		}
		if o.Name == 0 {
			x = true
		} else {
			y = true
		}
	}
	return
}

// scenarios builds the scenario list for a tier.
func scenarios(tier string) []scenario {
	pres := [][]input{
		nil,
		{{1, op{opTryLock, 0}}},
		{{1, op{opTryLock, 0}}, {1, op{opTryLock, 0}}},
		{{2, op{opTryLock, 0}}},
	}
	kinds := []opKind{opTryLock, opLockT, opUnlock, opState, opReleaseAll}
	var out []scenario
	p2 := programs(2, kinds)
	p1 := programs(1, kinds)
	for _, pre := range pres {
		preHeld := map[int]map[int]bool{1: {}, 2: {}, 3: {}}
		for _, in := range pre {
			preHeld[int(in.Sess)][in.Op.Name] = true
		}
		// T=2
		for i, a := range p2 {
			if !progOK(a, preHeld[1]) {
				continue
			}
			for j, b := range p2 {
				if !progOK(b, preHeld[2]) {
					continue
				}
				if pre == nil && j < i {
					continue // symmetric under swapping the sessions
				}
				ax, ay := touches(a)
				bx, by := touches(b)
				if !((ax && bx) || (ay && by)) {
					continue // no common name: nothing collides
				}
				out = append(out, scenario{Pre: pre, Threads: [][]op{a, b}})
			}
		}
		// T=3: one op each (thorough: first thread two ops)
		first := p1
		if tier == "thorough" {
			first = p2
		}
		for _, a := range first {
			if !progOK(a, preHeld[1]) {
				continue
			}
			for _, b := range p1 {
				for _, c := range p1 {
					if !progOK(b, preHeld[2]) || !progOK(c, preHeld[3]) {
						continue
					}
					ax, ay := touches(a)
					bx, by := touches(b)
					cx, cy := touches(c)
					nx, ny := 0, 0
					for _, t := range []bool{ax, bx, cx} {
						if t {
							nx++
						}
					}
					for _, t := range []bool{ay, by, cy} {
						if t {
							ny++
						}
					}
					if nx < 2 && ny < 2 {
						continue
					}
					out = append(out, scenario{Pre: pre, Threads: [][]op{a, b, c}})
				}
			}
		}
	}
	return out
}

func init() {
	core.Register(&core.Prop{
		ID:    "C38",
		Level: "model_checking",
		Rule: "sequential: BFS over all operation sequences (3 sessions x {TryLock,Lock(0),Unlock} x 2 names + ReleaseAll + GetLockState) on the real LockSubsystem and through the SQL lock functions, compared step by step with a sequential model; " +
			"concurrent: every scenario (4 pre-states x all pairs of programs of <=2 ops, and triples of 1-op programs [thorough: first program <=2 ops], over {TryLock,Lock(250us virtual),Unlock,GetLockState}x{x,y}+ReleaseAll, restricted to scenarios where two threads touch a common name) " +
			"run on the real LockSubsystem under the cooperative scheduler; ALL schedules up to the preemption bound (quick: 2 for T=2 and T=3; thorough: 3 for T=2, 2 for T=3) enumerated by DFS; every complete execution's call/return history checked for linearizability with porcupine. " +
			"non-trivial = an execution history (concurrent) / a sequence ending in a mutating op (sequential); states = distinct model states reached (sequential) + distinct per-scenario outcome vectors (concurrent)",
		Assumptions: []string{
			"scheduling points are the sync/atomic operations of go-mysql-server (import-rewritten shims) and the polling loop's Sleep on a virtual clock; plain memory accesses between them are atomic steps (data races are outside this check)",
			"sync.RWMutex writer preference is not modelled",
			"ReleaseAll runs concurrently only in sessions holding at most one lock (it iterates a Go map and is not atomic across names); multi-lock ReleaseAll is covered sequentially",
			"real-time accuracy of timeouts is not checked (virtual clock)",
		},
		GoMaxProcs:     1,
		QuickBudget:    75,
		ThoroughBudget: 900,
		Run:            run,
		Replay:         replay,
	})
}

func run(r *core.Run) {
	// sequential part (sharded by hist)
	alpha := seqAlphabet()
	depth, unmerged := 6, 3
	if r.Thorough() {
		depth, unmerged = 8, 4
	}
	hist.Explore(r, hist.Config{NOps: len(alpha), MaxDepth: depth, UnmergedDepth: unmerged, Step: seqStep(r, alpha, "api"),
		Label: func(o int) string { return labelIn(alpha[o]) }})
	sqlDepth, sqlUnmerged := 4, 2
	if r.Thorough() {
		sqlDepth, sqlUnmerged = 6, 3
	}
	hist.Explore(r, hist.Config{NOps: len(alpha), MaxDepth: sqlDepth, UnmergedDepth: sqlUnmerged, Step: seqStep(r, alpha, "sql"),
		Label: func(o int) string { return labelIn(alpha[o]) }})

	r.Max("sequential_phase_ms", time.Since(r.Start).Milliseconds())
	// concurrent part
	scs := scenarios(r.Tier)
	r.Info("concurrent_scenarios", len(scs))
	bound2, bound3 := 2, 2
	if r.Thorough() {
		bound2, bound3 = 3, 2
	}
	r.Info("preemption_bound_T2", bound2)
	r.Info("preemption_bound_T3", bound3)
	completed := int64(0)
	for i, sc := range scs {
		if !r.Mine(int64(i)) {
			continue
		}
		if r.Expired() {
			r.Capped(fmt.Sprintf("time budget: %d of this worker's scenarios completed", completed))
			break
		}
		if r.NumViolations() >= 4 {
			r.Capped("stopped after 4 distinct violation signatures in this worker")
			break
		}
		b := bound2
		if len(sc.Threads) == 3 {
			b = bound3
		}
		execs, outs := exploreScenario(r, sc, b)
		completed++
		r.Count("scenarios_completed", 1)
		r.Count("schedules", execs)
		r.Count("states", int64(outs))
		r.Max("max_distinct_outcomes_per_scenario", int64(outs))
		if outs > 1 {
			r.NonTrivial(sc.String())
		}
		if r.WantSample() && outs > 1 {
			r.Sample(map[string]any{"scenario": sc.String(), "schedules": execs, "distinct_outcomes": outs, "preemption_bound": b})
		}
	}
}

func replay(r *core.Run, w json.RawMessage) {
	var seq struct {
		Route   string `json:"route"`
		History []int  `json:"history"`
	}
	if json.Unmarshal(w, &seq) == nil && seq.Route != "" {
		alpha := seqAlphabet()
		step := seqStep(r, alpha, seq.Route)
		for i := 1; i <= len(seq.History); i++ {
			if _, ok := step(seq.History[:i]); !ok {
				return
			}
		}
		return
	}
	var c struct {
		Scenario scenario `json:"scenario"`
		Schedule []int    `json:"schedule"`
	}
	if err := json.Unmarshal(w, &c); err != nil {
		return
	}
	x := runScenario(c.Scenario, func(i int, cands []int, runningIn bool) int {
		if i < len(c.Schedule) && c.Schedule[i] < len(cands) {
			return c.Schedule[i]
		}
		return 0
	}, horizon)
	if v := checkExec(c.Scenario, x, x.tr.Choices()); v != nil {
		r.Violate(*v)
	}
}
