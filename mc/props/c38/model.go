package c38

import (
	"fmt"

	"github.com/anishathalye/porcupine"
)

// Sequential reference model of the named-lock subsystem: 2 names, up to 3 sessions (ids 1..3).

const (
	nNames    = 2
	nSessions = 3
)

type opKind int

const (
	opTryLock opKind = iota
	opLock0          // Lock with timeout 0 (one attempt)
	opLockT          // Lock with a 250µs (virtual) timeout: up to 3 attempts
	opUnlock
	opState
	opReleaseAll
	nOpKinds
)

var opNames = [...]string{"TryLock", "Lock0", "Lock250us", "Unlock", "GetLockState", "ReleaseAll"}

type op struct {
	Kind opKind `json:"kind"`
	Name int    `json:"name"` // 0=x 1=y (ignored for ReleaseAll)
}

func (o op) String() string {
	if o.Kind == opReleaseAll {
		return "ReleaseAll"
	}
	return fmt.Sprintf("%s(%c)", opNames[o.Kind], "xy"[o.Name])
}

// state is comparable (porcupine compares states with ==).
type state struct {
	Owner  [nNames]int8 // 0 = free
	Count  [nNames]int8
}

type input struct {
	Sess int8
	Op   op
}

// output: Res encodes the observable result.
//   TryLock/Lock: 1 acquired, 0 not acquired (false / timeout error)
//   Unlock: 1 ok, 0 failed (not owned / does not exist: the property only says "fails without
//           effect"; whether a never-used or released name "exists" is an implementation detail)
//   State: 0 free (or never created), owner id otherwise
//   ReleaseAll: number released
type output struct {
	Res int
	Err string // unexpected error text (never matches the model)
}

func step(st state, in input, out output) (bool, state) {
	if out.Err != "" {
		return false, st
	}
	n := in.Op.Name
	s := in.Sess
	switch in.Op.Kind {
	case opTryLock, opLock0, opLockT:
		switch {
		case st.Owner[n] == 0:
			st.Owner[n], st.Count[n] = s, 1
			return out.Res == 1, st
		case st.Owner[n] == s:
			st.Count[n]++
			return out.Res == 1, st
		default:
			return out.Res == 0, st
		}
	case opUnlock:
		if st.Owner[n] != s {
			return out.Res == 0, st
		}
		st.Count[n]--
		if st.Count[n] == 0 {
			st.Owner[n] = 0
		}
		return out.Res == 1, st
	case opState:
		switch {
		case st.Owner[n] == 0:
			return out.Res == 0, st
		default:
			return out.Res == int(st.Owner[n]), st
		}
	case opReleaseAll:
		rel := 0
		for i := 0; i < nNames; i++ {
			if st.Owner[i] == s {
				st.Owner[i], st.Count[i] = 0, 0
				rel++
			}
		}
		return out.Res == rel, st
	}
	return false, st
}

// expected returns the model's output for in at st (sequential oracle).
func expected(st state, in input) (output, state) {
	for _, r := range []int{1, 0, -1, 2, 3} {
		if ok, ns := step(st, in, output{Res: r}); ok {
			return output{Res: r}, ns
		}
	}
	return output{Res: -99}, st
}

var lockModel = porcupine.Model{
	Init: func() interface{} { return state{} },
	Step: func(st, in, out interface{}) (bool, interface{}) {
		ok, ns := step(st.(state), in.(input), out.(output))
		return ok, ns
	},
	Equal: func(a, b interface{}) bool { return a.(state) == b.(state) },
	DescribeOperation: func(in, out interface{}) string {
		i, o := in.(input), out.(output)
		return fmt.Sprintf("s%d.%s -> %d%s", i.Sess, i.Op, o.Res, o.Err)
	},
}
