// Package c39 — privilege checks allow exactly what the grants permit.
//
// Histories of account-management statements (CREATE USER/ROLE, GRANT/REVOKE at the global,
// database, table and routine level, GRANT/REVOKE role, DROP USER/ROLE) are run as root on a fresh
// engine with the privilege system enabled. After every statement a matrix of probe statements
// (one per privilege class against db.t, db.t2, db2.t, two procedures) is run in two long-lived
// user sessions and every allow/deny outcome is compared with a model (sets of (level, privilege)
// per account + role edges, all granted roles active); denied statements must leave the data
// unchanged.
//
// Two explorations (both model checking of the real code against the model):
//   - phase "seq": EVERY history of the alphabet up to a depth bound (a history stops at a
//     statement that must fail); every step runs and judges the full probe matrix in the
//     long-lived sessions.
//   - phase "closure": the model's reachable state space is computed (BFS, shortest history per
//     state) and EVERY operation is applied in EVERY reachable state: the real engine replays the
//     state's history (user sessions run one statement per step, so their privilege cache follows)
//     and the last step is judged with the full matrix.
//
// The package also exports the pieces C41 (persist/reload) reuses.
package c39

import (
	"encoding/json"
	"fmt"
	"runtime/debug"
	"strings"

	"verif/mc/core"
)

type witness struct {
	Alphabet string   `json:"alphabet"`
	History  []int    `json:"history"`
	Ops      []string `json:"ops"`
	// steps with index >= FullFrom run (and judge) the full probe matrix; earlier steps are
	// replayed with one statement per user session
	FullFrom int    `json:"full_from"`
	Session  string `json:"session,omitempty"`
	Probe    string `json:"probe,omitempty"`
}

type runner struct {
	r      *core.Run
	alpha  alphabet
	probes []probe
	nested int // > 0 while a prefix is re-judged to locate the first occurrence of a violation
}

func newRunner(r *core.Run, a alphabet) *runner {
	return &runner{r: r, alpha: a, probes: buildProbes()}
}

func (rn *runner) opsText(h []int) []string {
	out := make([]string, len(h))
	for i, oi := range h {
		out[i] = rn.alpha.Ops[oi].SQL()
	}
	return out
}

func (rn *runner) wit(h []int, fullFrom int) witness {
	if fullFrom > len(h)-1 {
		fullFrom = len(h) - 1
	}
	if fullFrom < 0 {
		fullFrom = 0
	}
	return witness{Alphabet: rn.alpha.Name, History: append([]int{}, h...), Ops: rn.opsText(h), FullFrom: fullFrom}
}

// runHistory runs h on a fresh system. Steps >= fullFrom run and judge the full probe matrix;
// earlier steps are only replayed. It returns false when the run stopped early (violation or a
// replayed prefix that diverged from the model).
func (rn *runner) runHistory(h []int, fullFrom int, dumpEach bool) bool {
	r := rn.r
	s := NewSys(nil)
	var m state
	anyMixed := false
	defer func() {
		// one non-trivial count per case (cases are partitioned over the workers, steps are not)
		if anyMixed && !dumpEach && rn.nested == 0 {
			rn.r.NonTrivial(fmt.Sprintf("%s%v/%d", rn.alpha.Name, h, fullFrom))
		}
	}()
	for i, oi := range h {
		o := rn.alpha.Ops[oi]
		judged := i >= fullFrom
		before := m
		exp := m.apply(o)
		res := s.Admin(o.SQL())
		failed := res.Err != nil
		subject := map[string]string{"statement": kindName[o.Kind]}
		if o.Kind == OGrant || o.Kind == ORevoke {
			subject["level"] = levelName[o.Level]
		}
		w := rn.wit(h[:i+1], fullFrom)
		if res.Panic != nil {
			if judged {
				subject["frame"] = core.TopFrame(res.Stack)
				r.Violate(core.Violation{Check: "privileges", Clause: "admin-statement-outcome", Kind: "panic", Subject: subject, Witness: core.J(w), Observed: fmt.Sprint(res.Panic), Expected: "no panic"})
			}
			return false
		}
		switch {
		case exp.Outcome == mustFail && !failed:
			if judged {
				subject["reason"] = exp.Reason
				if exp.Reason == "account-missing" {
					subject["same_name_other_host_exists"] = fmt.Sprint(before.sameNameOtherHost(o.Acct))
				}
				r.Violate(core.Violation{Check: "privileges", Clause: "admin-statement-outcome", Kind: "succeeded-but-must-fail", Subject: subject, Witness: core.J(w),
					Observed: o.SQL() + " succeeded in grant state [" + before.describe() + "]", Expected: "error (" + exp.Reason + "), state unchanged"})
			} else {
				r.Count("prefix_diverged", 1)
			}
			return false
		case exp.Outcome == mustOK && failed:
			if judged {
				r.Violate(core.Violation{Check: "privileges", Clause: "admin-statement-outcome", Kind: "failed-but-must-succeed", Subject: subject, Witness: core.J(w),
					Observed: o.SQL() + " failed: " + res.Err.Error() + " in grant state [" + before.describe() + "]", Expected: "success"})
			} else {
				r.Count("prefix_diverged", 1)
			}
			return false
		}
		if exp.Outcome == mustFail {
			m = before
		}
		if !judged {
			s.Touch(0)
			s.Touch(1)
			continue
		}
		r.Outcome(fmt.Sprintf("admin:%s:%s", kindName[o.Kind], map[bool]string{true: "error", false: "ok"}[failed]))

		// A violation found at the only judged step of a replayed history (closure phase) may
		// already be present in the state the history's prefix reaches; then it is (or will be)
		// reported by the transition that introduces it: judge the prefix's last step first and keep
		// only the earliest occurrence, so that one root cause gives one signature.
		report := func(v core.Violation) {
			if i == fullFrom && i > 0 {
				rn.nested++
				ok := rn.runHistory(h[:i], i-1, false)
				rn.nested--
				if !ok {
					r.Count("violations_already_present_before_last_step", 1)
					return
				}
			}
			r.Violate(v)
		}
		// the probe matrix in both long-lived sessions
		after := kindName[o.Kind]
		if o.Kind == OGrant || o.Kind == ORevoke {
			after += ":" + levelName[o.Level]
		}
		mixed := false
		for sess := 0; sess < 2; sess++ {
			nAllow, nDeny := 0, 0
			for pi := range rn.probes {
				p := &rn.probes[pi]
				d := m.decide(sess, p)
				pr := s.RunProbe(sess, p)
				r.Count("probe_comparisons", 1)
				pw := w
				pw.Session, pw.Probe = sessName[sess], p.SQL
				psub := map[string]string{"probe": p.Class, "after": after}
				if pr.Class == "panic" {
					report(core.Violation{Check: "privileges", Clause: "probe-allow-deny", Kind: "panic", Subject: psub, Witness: core.J(pw), Observed: pr.Msg, Expected: "no panic"})
					return false
				}
				if !d.Judged {
					r.Count("skipped_ambiguous_session_account", 1)
					r.Outcome("probe:" + p.Class + ":unjudged")
					continue
				}
				realAllow := pr.Class != "denied"
				switch {
				case d.Allow && !realAllow:
					psub["granted_at"], psub["via"] = d.GrantedAt, d.Via
					report(core.Violation{Check: "privileges", Clause: "probe-allow-deny", Kind: "denied-but-granted", Subject: psub, Witness: core.J(pw),
						Observed: fmt.Sprintf("session %s: %s denied (%s) in grant state [%s]", sessName[sess], p.SQL, pr.Msg, m.describe()),
						Expected: "allowed: " + privName[p.Priv] + " is granted at " + d.GrantedAt + " level (" + d.Via + ")"})
					return false
				case !d.Allow && realAllow:
					psub["object"] = p.Object
					psub["account_exists"] = fmt.Sprint(!d.NoAccount)
					psub["holds_super"] = fmt.Sprint(d.Super)
					report(core.Violation{Check: "privileges", Clause: "probe-allow-deny", Kind: "allowed-but-not-granted", Subject: psub, Witness: core.J(pw),
						Observed: fmt.Sprintf("session %s: %s was not denied (%s %s) in grant state [%s]", sessName[sess], p.SQL, pr.Class, pr.Msg, m.describe()),
						Expected: "denied: " + privName[p.Priv] + " is not granted at any level covering " + p.Object})
					return false
				case d.Allow && pr.Class != p.AllowedClass:
					psub["outcome"] = pr.Class
					report(core.Violation{Check: "privileges", Clause: "probe-allow-deny", Kind: "unexpected-outcome", Subject: psub, Witness: core.J(pw),
						Observed: fmt.Sprintf("session %s: %s -> %s %s", sessName[sess], p.SQL, pr.Class, pr.Msg), Expected: "outcome " + p.AllowedClass})
					return false
				}
				if d.Allow {
					nAllow++
					r.Outcome("probe:" + p.Class + ":allowed")
				} else {
					nDeny++
					r.Outcome("probe:" + p.Class + ":denied")
				}
				if dumpEach {
					if got := s.DataDump(); got != s.Baseline {
						if realAllow {
							panic("c39 harness: fixture not restored after " + p.SQL)
						}
						report(core.Violation{Check: "privileges", Clause: "denied-statement-no-effect", Kind: "data-changed", Subject: psub, Witness: core.J(pw),
							Observed: "after denied " + p.SQL + ": " + got, Expected: s.Baseline})
						return false
					}
				}
			}
			if nAllow > 0 && nDeny > 0 {
				mixed = true
			}
		}
		if !dumpEach {
			if got := s.DataDump(); got != s.Baseline {
				// find the statement: same history again with a dump after every probe
				if rn.runHistory(h[:i+1], fullFrom, true) {
					panic("c39 harness: data changed after step but no probe identified: " + got)
				}
				return false
			}
		}
		// the in-memory grant tables, read directly, equal the model's grant state (this also
		// justifies merging histories by grant state in the closure phase)
		real, extras := s.GrantState()
		if real != m || len(extras) > 0 {
			lost, extra := diffStates(&m, &real)
			subject["lost"], subject["extra"] = lost, extra
			if len(extras) > 0 {
				subject["outside_universe"] = "yes"
			}
			report(core.Violation{Check: "privileges", Clause: "grant-state-matches-model", Kind: "grant-tables-differ", Subject: subject, Witness: core.J(w),
				Observed: "grant tables after " + o.SQL() + ": [" + real.describe() + "] " + strings.Join(extras, "; "), Expected: "[" + m.describe() + "]"})
			return false
		}
		if mixed {
			anyMixed = true
		}
		if i == len(h)-1 && mixed && r.WantSample() {
			r.Sample(map[string]any{"alphabet": rn.alpha.Name, "history": rn.opsText(h), "grant_state": m.describe()})
		}
	}
	return true
}

// diffStates names the levels at which the real grant tables lack (lost) or exceed (extra) the
// model, e.g. "table+routine".
func diffStates(m, real *state) (lost, extra string) {
	var l, e []string
	add := func(xs []string, x string) []string {
		for _, y := range xs {
			if y == x {
				return xs
			}
		}
		return append(xs, x)
	}
	for a := 0; a < nAccts; a++ {
		if m.A[a].Exists != real.A[a].Exists {
			if m.A[a].Exists {
				l = add(l, "account")
			} else {
				e = add(e, "account")
			}
		}
		for lv := 0; lv < nLevels; lv++ {
			if m.A[a].Privs[lv]&^real.A[a].Privs[lv] != 0 {
				l = add(l, levelName[lv])
			}
			if real.A[a].Privs[lv]&^m.A[a].Privs[lv] != 0 {
				e = add(e, levelName[lv])
			}
		}
	}
	for i := 0; i < 2; i++ {
		if m.Edge[i] && !real.Edge[i] {
			l = add(l, "role-edge")
		}
		if !m.Edge[i] && real.Edge[i] {
			e = add(e, "role-edge")
		}
	}
	return strings.Join(l, "+"), strings.Join(e, "+")
}

// ---------------------------------------------------------------------------------------------
// Phase "seq": every history up to depth D (a history ends at a statement that must fail). Only
// maximal histories are run; every step of a run is judged, so every shorter history is judged
// as a prefix.

func (rn *runner) exploreSeq(depth int) {
	r := rn.r
	tag := "seq_" + rn.alpha.Name
	r.Info(tag+"_alphabet", len(rn.alpha.Ops))
	r.Info(tag+"_depth", depth)
	var idx int64
	stopped := false
	var dfs func(h []int, st state)
	dfs = func(h []int, st state) {
		for oi, o := range rn.alpha.Ops {
			if stopped {
				return
			}
			st2 := st
			e := st2.apply(o)
			h2 := append(append(make([]int, 0, len(h)+1), h...), oi)
			if len(h2) == depth || e.Outcome == mustFail {
				mine := r.Mine(idx)
				idx++
				if !mine {
					continue
				}
				if r.Expired() {
					r.Capped(fmt.Sprintf("%s: time budget reached", tag))
					stopped = true
					return
				}
				r.AnnounceCase(fmt.Sprintf("%s %v", tag, h2))
				r.Eval()
				r.Count("transitions", int64(len(h2)))
				r.Count("histories_"+tag, 1)
				r.Max("max_depth", int64(len(h2)))
				rn.runHistory(h2, 0, false)
				continue
			}
			dfs(h2, st2)
		}
	}
	dfs(nil, state{})
	r.Info(tag+"_maximal_histories", idx)
}

// Phase "closure": every operation in every reachable grant state.
func (rn *runner) exploreClosure(maxStates int) {
	r := rn.r
	tag := "closure_" + rn.alpha.Name
	states, closed := reachable(rn.alpha, maxStates)
	r.Info(tag+"_alphabet", len(rn.alpha.Ops))
	r.Info(tag+"_states", len(states))
	r.Info(tag+"_state_space_closed", closed)
	deepest := 0
	for _, s := range states {
		if len(s.Hist) > deepest {
			deepest = len(s.Hist)
		}
	}
	r.Info(tag+"_deepest_state", deepest)
	if r.Shard == 0 {
		r.Count("states", int64(len(states)))
		if !closed {
			r.Capped(fmt.Sprintf("%s: state bound %d reached before the model state space closed", tag, maxStates))
		}
	}
	var idx int64
	for _, st := range states {
		for oi := range rn.alpha.Ops {
			mine := r.Mine(idx)
			idx++
			if !mine {
				continue
			}
			if r.Expired() {
				r.Capped(fmt.Sprintf("%s: time budget reached", tag))
				return
			}
			h := append(append(make([]int, 0, len(st.Hist)+1), st.Hist...), oi)
			r.AnnounceCase(fmt.Sprintf("%s %v", tag, h))
			r.Eval()
			r.Count("transitions", 1)
			r.Count("transitions_"+tag, 1)
			r.Max("max_depth", int64(len(h)))
			rn.runHistory(h, len(h)-1, false)
		}
	}
}

// setRoleUnsupported records that SET ROLE is outside the supported fragment (parse error).
func setRoleUnsupported(r *core.Run) {
	s := NewSys(nil)
	res := s.Root.Exec("set role 'r'")
	if res.Err != nil {
		r.Count("skipped_unsupported", 1)
		r.Info("set_role", "rejected: "+outcomeClass(res)+" (role activation is outside the supported fragment; all granted roles are active)")
	} else {
		r.Info("set_role", "accepted by the parser — the all-roles-active model may no longer be the implemented one")
		r.Note("SET ROLE is accepted now: extend the alphabet with role activation")
	}
	res = s.Root.Exec("grant all on procedure db.p to root@localhost")
	if res.Err != nil {
		r.Count("skipped_unsupported", 1)
		r.Info("grant_all_on_procedure", "rejected ("+res.Err.Error()+"): left out of the alphabet")
	}
}

func init() {
	core.Register(&core.Prop{
		ID:    "C39",
		Level: "model_checking",
		Rule: "Histories of account-management statements run as root on a fresh engine (privilege system enabled, root account; databases db, db2; tables db.t, db.t2, db2.t; procedures db.p, db.p2): " +
			"CREATE USER 'u'@'localhost' | 'u'@'%', CREATE ROLE r, GRANT/REVOKE p ON {*.*, db.*, db.t, PROCEDURE db.p, db2.t} TO/FROM u|r, GRANT/REVOKE r TO/FROM u, DROP USER u, DROP ROLE r. " +
			"After a statement the probe matrix (SELECT, INSERT, UPDATE, DELETE, DROP on db.t, db.t2, db2.t; CREATE TABLE db.t, db.n, db2.n; CALL db.p, db.p2 = 20 statements) is run in two long-lived sessions (authenticated as 'u'@'localhost' and 'u'@'%') " +
			"and each allow/deny outcome is compared with the model (account -> set of (level, privilege), role edge, all granted roles active; account names in admin statements are exact); admin statements must fail exactly when the named account is missing/exists; " +
			"after the matrix the table data must equal the fixture (effects of allowed probes are undone by root, so a difference is a denied statement with an effect); mysql.user/db/tables_priv/procs_priv/role_edges rows and SHOW GRANTS must be a function of the grant state. " +
			"phase seq: EVERY history up to the depth bound, every step judged with the full matrix in the long-lived sessions (quick: 21-operation alphabet, depth 4; thorough: additionally the 29-operation alphabet to depth 4 and the full alphabet (all 7 privileges + ALL at every valid level for user and role, 117 operations) to depth 3). " +
			"phase closure: the model's reachable grant-state space is computed and EVERY operation is applied in EVERY reachable state (the real engine replays the state's shortest history, the user sessions run one statement per replayed step, the last step is judged with the full matrix) (quick: 21-operation alphabet, 586 states; thorough: also the 29-operation alphabet, 8482 states). " +
			"non-trivial = a history with a judged step after which some session has both allowed and denied probes (the hierarchy lookup must discriminate)",
		Assumptions: []string{
			"all granted roles are active (documented implementation behaviour); SET ROLE is a parse error and sits in the unsupported profile",
			"a session is created with the client identity (user, host) of the account it authenticated as, like the server's session builder does; the probes of the 'u'@'localhost' session are not judged while that account does not exist but 'u'@'%' does (MySQL keeps an open session bound to its account, the implementation re-resolves it per statement)",
			"REVOKE of a privilege or role that is not granted may succeed or fail (MySQL fails when no grant row exists); either way nothing changes",
			"GRANT ALL ON PROCEDURE is rejected by the implementation and is not part of the alphabet",
			"closure phase: two histories reaching the same grant state have the same future (the observable access-control state is checked to be a function of the grant state)",
		},
		QuickBudget:    60,
		ThoroughBudget: 850,
		Run: func(r *core.Run) {
			debug.SetGCPercent(400)
			if r.Shard == 0 {
				setRoleUnsupported(r)
			}
			q := newRunner(r, quickAlphabet())
			q.exploreSeq(4)
			q.exploreClosure(0)
			if r.Thorough() {
				m := newRunner(r, mediumAlphabet())
				m.exploreClosure(0)
				f := newRunner(r, fullAlphabet())
				f.exploreSeq(3)
				m.exploreSeq(4)
			}
		},
		Replay: func(r *core.Run, w json.RawMessage) {
			var wt witness
			if json.Unmarshal(w, &wt) != nil {
				return
			}
			a, ok := alphabetByName(wt.Alphabet)
			if !ok {
				return
			}
			for _, i := range wt.History {
				if i < 0 || i >= len(a.Ops) {
					return
				}
			}
			rn := newRunner(r, a)
			rn.runHistory(wt.History, wt.FullFrom, false)
		},
	})
}
