package c39

import (
	"fmt"
	"sort"
	"strings"
)

// ---------------------------------------------------------------------------------------------
// The privilege model: accounts with sets of (level, privilege), role edges, all granted roles
// active. Objects are fixed: global *.*, database db.*, table db.t, procedure db.p.

// Levels a privilege can be granted at.
const (
	LG  = iota // *.*
	LD         // db.*
	LT         // db.t
	LP         // PROCEDURE db.p
	LT2        // db2.t — a table of the other database (cross-database confusion)
	nLevels
)

var levelName = [nLevels]string{"global", "database", "table", "routine", "table-in-other-database"}
var levelSQL = [nLevels]string{"*.*", "db.*", "db.t", "PROCEDURE db.p", "db2.t"}

// Privileges the probes can observe.
const (
	PSelect = iota
	PInsert
	PUpdate
	PDelete
	PCreate
	PDrop
	PExecute
	nPrivs
	PAll = nPrivs // only as a GRANT/REVOKE operand
)

var privName = [nPrivs + 1]string{"SELECT", "INSERT", "UPDATE", "DELETE", "CREATE", "DROP", "EXECUTE", "ALL"}

// superBit: SUPER is not probed, but the model tracks it (GRANT ALL ON *.* includes it) because
// the implementation lets SUPER stand for every privilege.
const superBit = 7

// allMask is what GRANT ALL means at each level, restricted to the observable privileges.
var allMask = [nLevels]uint8{
	LG:  1<<nPrivs - 1 | 1<<superBit,
	LD:  1<<nPrivs - 1,
	LT:  (1<<nPrivs - 1) &^ (1 << PExecute),
	LP:  1 << PExecute,
	LT2: (1<<nPrivs - 1) &^ (1 << PExecute),
}

// validAt says whether privilege p may be granted at level l (MySQL: EXECUTE is not a table
// privilege; only EXECUTE (and ALTER ROUTINE, GRANT OPTION) are routine privileges).
func validAt(l, p int) bool {
	if p == PAll {
		return true
	}
	return allMask[l]&(1<<p) != 0
}

// Accounts.
const (
	AU = iota // 'u'@'localhost'  (user; its session connects from localhost)
	AV        // 'u'@'%'          (user with the same name and a wildcard host)
	AR        // 'r'@'%'          (role)
	nAccts
)

var acctSQL = [nAccts]string{"'u'@'localhost'", "'u'@'%'", "'r'@'%'"}
var acctShort = [nAccts]string{"u@localhost", "u@%", "r"}

type acct struct {
	Exists bool
	Privs  [nLevels]uint8
}

// state of the model. Edge[a] = role r is granted to user a.
type state struct {
	A    [nAccts]acct
	Edge [2]bool
}

func (s *state) key() string {
	var sb strings.Builder
	for i := range s.A {
		if !s.A[i].Exists {
			sb.WriteString("-;")
			continue
		}
		fmt.Fprintf(&sb, "%x;", s.A[i].Privs)
	}
	fmt.Fprintf(&sb, "%v%v", s.Edge[0], s.Edge[1])
	return sb.String()
}

func (s *state) describe() string {
	var parts []string
	for i := range s.A {
		if !s.A[i].Exists {
			continue
		}
		var g []string
		for l := 0; l < nLevels; l++ {
			for p := 0; p < nPrivs; p++ {
				if s.A[i].Privs[l]&(1<<p) != 0 {
					g = append(g, privName[p]+"@"+levelName[l])
				}
			}
			if s.A[i].Privs[l]&(1<<superBit) != 0 {
				g = append(g, "SUPER@"+levelName[l])
			}
		}
		if i < 2 && s.Edge[i] {
			g = append(g, "role r")
		}
		parts = append(parts, acctShort[i]+"{"+strings.Join(g, ",")+"}")
	}
	return strings.Join(parts, " ")
}

// Operation kinds.
const (
	OCreateUser = iota
	OCreateRole
	OGrant
	ORevoke
	OGrantRole
	ORevokeRole
	ODropUser
	ODropRole
)

var kindName = []string{"create-user", "create-role", "grant", "revoke", "grant-role", "revoke-role", "drop-user", "drop-role"}

type op struct {
	Kind  int
	Acct  int // target account (grantee for role ops)
	Level int
	Priv  int
}

func (o op) SQL() string {
	switch o.Kind {
	case OCreateUser:
		return "CREATE USER " + acctSQL[o.Acct]
	case OCreateRole:
		return "CREATE ROLE " + acctSQL[o.Acct]
	case OGrant:
		return fmt.Sprintf("GRANT %s ON %s TO %s", privName[o.Priv], levelSQL[o.Level], acctSQL[o.Acct])
	case ORevoke:
		return fmt.Sprintf("REVOKE %s ON %s FROM %s", privName[o.Priv], levelSQL[o.Level], acctSQL[o.Acct])
	case OGrantRole:
		return "GRANT " + acctSQL[AR] + " TO " + acctSQL[o.Acct]
	case ORevokeRole:
		return "REVOKE " + acctSQL[AR] + " FROM " + acctSQL[o.Acct]
	case ODropUser:
		return "DROP USER " + acctSQL[o.Acct]
	case ODropRole:
		return "DROP ROLE " + acctSQL[o.Acct]
	}
	return "?"
}

// Expectation for the outcome of an admin statement.
const (
	mustOK = iota
	mustFail
	okOrFail // MySQL fails (nothing to revoke) — success without effect is accepted too
)

type expect struct {
	Outcome int
	Reason  string // why it must fail: account-missing / account-exists
	Changed bool   // does the model state change
}

// apply executes o on the model (MySQL 8 semantics: account names in account-management
// statements are exact identifiers; statements are atomic).
func (s *state) apply(o op) expect {
	before := *s
	e := expect{Outcome: mustOK}
	missing := func(a int) bool { return !s.A[a].Exists }
	switch o.Kind {
	case OCreateUser, OCreateRole:
		if s.A[o.Acct].Exists {
			return expect{Outcome: mustFail, Reason: "account-exists"}
		}
		s.A[o.Acct] = acct{Exists: true}
	case OGrant:
		if missing(o.Acct) {
			return expect{Outcome: mustFail, Reason: "account-missing"}
		}
		if o.Priv == PAll {
			s.A[o.Acct].Privs[o.Level] |= allMask[o.Level]
		} else {
			s.A[o.Acct].Privs[o.Level] |= 1 << o.Priv
		}
	case ORevoke:
		if missing(o.Acct) {
			return expect{Outcome: mustFail, Reason: "account-missing"}
		}
		var m uint8 = 1 << o.Priv
		if o.Priv == PAll {
			m = allMask[o.Level]
		}
		if s.A[o.Acct].Privs[o.Level]&m == 0 {
			// nothing of it is granted at this level: MySQL raises "no such grant" for database,
			// table and routine levels when no grant row exists, and succeeds otherwise
			e.Outcome = okOrFail
		}
		s.A[o.Acct].Privs[o.Level] &^= m
	case OGrantRole:
		if missing(AR) || missing(o.Acct) {
			return expect{Outcome: mustFail, Reason: "account-missing"}
		}
		s.Edge[o.Acct] = true
	case ORevokeRole:
		if missing(AR) || missing(o.Acct) {
			return expect{Outcome: mustFail, Reason: "account-missing"}
		}
		if !s.Edge[o.Acct] {
			e.Outcome = okOrFail
		}
		s.Edge[o.Acct] = false
	case ODropUser, ODropRole:
		if missing(o.Acct) {
			return expect{Outcome: mustFail, Reason: "account-missing"}
		}
		s.A[o.Acct] = acct{}
		if o.Acct == AR {
			s.Edge = [2]bool{}
		} else {
			s.Edge[o.Acct] = false
		}
	}
	e.Changed = *s != before
	return e
}

// sameNameOtherHost: the statement names a missing account while an account with the same user
// name and another host exists (classifying coordinate: the implementation resolves account
// names with the login matching rule).
func (s *state) sameNameOtherHost(a int) bool {
	switch a {
	case AU:
		return s.A[AV].Exists
	case AV:
		return s.A[AU].Exists
	}
	return false
}

// ---------------------------------------------------------------------------------------------
// Sessions and probes.

// Sessions: index 0 authenticated as 'u'@'localhost', index 1 as 'u'@'%'.
var sessName = [2]string{"u@localhost", "u@%"}

// sessionAccount returns the account whose privileges apply to a session, or -1 when the
// session has no account (everything denied), or -2 when the model does not decide: the
// session's account 'u'@'localhost' does not exist (never created or dropped while the session
// is open) but 'u'@'%' does — MySQL keeps an open session bound to the account it
// authenticated as, the implementation re-resolves the account per statement.
func (s *state) sessionAccount(sess int) int {
	if s.A[sess].Exists {
		return sess
	}
	if sess == AU && s.A[AV].Exists {
		return -2
	}
	return -1
}

// effective privileges of an account: own plus those of the granted role (all granted roles are
// active, as the implementation documents), with the level each comes from.
func (s *state) effective(a int) (own, viaRole [nLevels]uint8) {
	own = s.A[a].Privs
	if a < 2 && s.Edge[a] && s.A[AR].Exists {
		viaRole = s.A[AR].Privs
	}
	return
}

type probe struct {
	Class   string // select, insert, update, delete, create, drop, call
	Priv    int
	Object  string // db.t, db.t2, db2.t, db.n, db2.n, db.p, db.p2
	SQL     string
	Restore []string // run as root after the probe was not denied
	Levels  []int    // the levels at which a grant in this model's universe covers the object
	// AllowedClass: the outcome class of the statement when the privilege check passes.
	AllowedClass string
}

const tableDDL = " (a int primary key, b int)"

func restoreTable(t string) []string {
	return []string{"drop table if exists " + t, "create table " + t + tableDDL, "insert into " + t + " values (1,1)"}
}

func buildProbes() []probe {
	var ps []probe
	tables := []struct {
		name   string
		levels []int
	}{{"db.t", []int{LG, LD, LT}}, {"db.t2", []int{LG, LD}}, {"db2.t", []int{LG, LT2}}}
	for _, t := range tables {
		ps = append(ps,
			probe{Class: "select", Priv: PSelect, Object: t.name, SQL: "select * from " + t.name, Levels: t.levels, AllowedClass: "ok"},
			probe{Class: "insert", Priv: PInsert, Object: t.name, SQL: "insert into " + t.name + " values (9,9)", Restore: restoreTable(t.name), Levels: t.levels, AllowedClass: "ok"},
			probe{Class: "update", Priv: PUpdate, Object: t.name, SQL: "update " + t.name + " set b = 7", Restore: restoreTable(t.name), Levels: t.levels, AllowedClass: "ok"},
			probe{Class: "delete", Priv: PDelete, Object: t.name, SQL: "delete from " + t.name, Restore: restoreTable(t.name), Levels: t.levels, AllowedClass: "ok"},
			probe{Class: "drop", Priv: PDrop, Object: t.name, SQL: "drop table " + t.name, Restore: restoreTable(t.name), Levels: t.levels, AllowedClass: "ok"},
		)
	}
	ps = append(ps,
		// CREATE TABLE on the existing table db.t: the privilege check comes first; when it
		// passes the statement fails with "table already exists"
		probe{Class: "create", Priv: PCreate, Object: "db.t", SQL: "create table db.t (a int)", Levels: []int{LG, LD, LT}, AllowedClass: "exists"},
		probe{Class: "create", Priv: PCreate, Object: "db.n", SQL: "create table db.n (a int)", Restore: []string{"drop table if exists db.n"}, Levels: []int{LG, LD}, AllowedClass: "ok"},
		probe{Class: "create", Priv: PCreate, Object: "db2.n", SQL: "create table db2.n (a int)", Restore: []string{"drop table if exists db2.n"}, Levels: []int{LG}, AllowedClass: "ok"},
		probe{Class: "call", Priv: PExecute, Object: "db.p", SQL: "call db.p()", Levels: []int{LG, LD, LP}, AllowedClass: "ok"},
		probe{Class: "call", Priv: PExecute, Object: "db.p2", SQL: "call db.p2()", Levels: []int{LG, LD}, AllowedClass: "ok"},
	)
	return ps
}

// decision of the model for one probe in one session.
type decision struct {
	Super     bool // the account holds SUPER (own or via the role)
	Judged    bool
	Allow     bool
	GrantedAt string // levels holding the privilege, e.g. "database+table" ("" = none)
	Via       string // own, role, own+role
	NoAccount bool
}

func (s *state) decide(sess int, p *probe) decision {
	a := s.sessionAccount(sess)
	if a == -2 {
		return decision{}
	}
	if a == -1 {
		return decision{Judged: true, NoAccount: true}
	}
	own, via := s.effective(a)
	var at []string
	o, r := false, false
	for _, l := range p.Levels {
		bit := uint8(1) << p.Priv
		if own[l]&bit != 0 || via[l]&bit != 0 {
			at = append(at, levelName[l])
		}
		if own[l]&bit != 0 {
			o = true
		}
		if via[l]&bit != 0 {
			r = true
		}
	}
	d := decision{Judged: true, Allow: len(at) > 0, GrantedAt: strings.Join(at, "+")}
	d.Super = (own[LG]|via[LG])&(1<<superBit) != 0
	switch {
	case o && r:
		d.Via = "own+role"
	case o:
		d.Via = "own"
	case r:
		d.Via = "role"
	}
	return d
}

// ---------------------------------------------------------------------------------------------
// Alphabets.

type alphabet struct {
	Name string
	Ops  []op
}

func mkAlphabet(name string, userGrants, roleGrants [][2]int, lateUserGrants ...[2]int) alphabet {
	a := alphabet{Name: name}
	a.Ops = append(a.Ops, op{Kind: OCreateUser, Acct: AU}, op{Kind: OCreateUser, Acct: AV}, op{Kind: OCreateRole, Acct: AR})
	for _, g := range userGrants {
		a.Ops = append(a.Ops, op{Kind: OGrant, Acct: AU, Level: g[0], Priv: g[1]})
	}
	for _, g := range roleGrants {
		a.Ops = append(a.Ops, op{Kind: OGrant, Acct: AR, Level: g[0], Priv: g[1]})
	}
	for _, g := range userGrants {
		a.Ops = append(a.Ops, op{Kind: ORevoke, Acct: AU, Level: g[0], Priv: g[1]})
	}
	for _, g := range roleGrants {
		a.Ops = append(a.Ops, op{Kind: ORevoke, Acct: AR, Level: g[0], Priv: g[1]})
	}
	a.Ops = append(a.Ops, op{Kind: OGrantRole, Acct: AU}, op{Kind: ORevokeRole, Acct: AU}, op{Kind: ODropUser, Acct: AU}, op{Kind: ODropRole, Acct: AR})
	// later additions go last so that the operation indices in recorded witnesses stay valid
	for _, g := range lateUserGrants {
		a.Ops = append(a.Ops, op{Kind: OGrant, Acct: AU, Level: g[0], Priv: g[1]})
	}
	for _, g := range lateUserGrants {
		a.Ops = append(a.Ops, op{Kind: ORevoke, Acct: AU, Level: g[0], Priv: g[1]})
	}
	return a
}

// quickAlphabet: one privilege per grant level for the user (SELECT at the three levels covering
// db.t so that the hierarchy is exercised, EXECUTE on the routine, INSERT on a table of the other
// database so that databases can be confused), two for the role.
func quickAlphabet() alphabet {
	return mkAlphabet("quick",
		[][2]int{{LG, PSelect}, {LD, PSelect}, {LT, PSelect}, {LP, PExecute}},
		[][2]int{{LD, PUpdate}, {LP, PExecute}},
		[2]int{LT2, PInsert})
}

// mediumAlphabet: every privilege class appears, at the level where it is most discriminating.
func mediumAlphabet() alphabet {
	return mkAlphabet("medium",
		[][2]int{{LG, PSelect}, {LD, PSelect}, {LT, PSelect}, {LP, PExecute}, {LT, PInsert}, {LD, PCreate}, {LT, PDrop}},
		[][2]int{{LD, PUpdate}, {LP, PExecute}, {LT, PDelete}, {LD, PAll}})
}

// fullAlphabet: every valid (privilege, level) pair incl. ALL, for the user and for the role.
// ALL ON PROCEDURE is rejected by the implementation ("Illegal GRANT/REVOKE command") and is
// left out (unsupported profile).
func fullAlphabet() alphabet {
	var gs, late [][2]int
	for l := 0; l < nLevels; l++ {
		for p := 0; p <= PAll; p++ {
			if !validAt(l, p) || (l == LP && p == PAll) {
				continue
			}
			if l == LT2 {
				late = append(late, [2]int{l, p})
			} else {
				gs = append(gs, [2]int{l, p})
			}
		}
	}
	return mkAlphabet("full", gs, gs, late...)
}

func alphabetByName(n string) (alphabet, bool) {
	switch n {
	case "quick":
		return quickAlphabet(), true
	case "medium":
		return mediumAlphabet(), true
	case "full":
		return fullAlphabet(), true
	}
	return alphabet{}, false
}

// ---------------------------------------------------------------------------------------------
// Model-level reachability: every reachable model state with a shortest history (BFS, operations
// in alphabet order, so the result is deterministic).

type reach struct {
	Key  string
	Hist []int
	St   state
}

func reachable(a alphabet, maxStates int) (out []reach, closed bool) {
	seen := map[string]bool{}
	var s0 state
	out = append(out, reach{Key: s0.key(), St: s0})
	seen[s0.key()] = true
	for i := 0; i < len(out); i++ {
		if maxStates > 0 && len(out) >= maxStates {
			return out, false
		}
		cur := out[i]
		for oi, o := range a.Ops {
			st := cur.St
			e := st.apply(o)
			if e.Outcome == mustFail || !e.Changed {
				continue
			}
			k := st.key()
			if seen[k] {
				continue
			}
			seen[k] = true
			h := append(append(make([]int, 0, len(cur.Hist)+1), cur.Hist...), oi)
			out = append(out, reach{Key: k, Hist: h, St: st})
		}
	}
	return out, true
}

func sortedKeys(m map[string]int64) []string {
	var ks []string
	for k := range m {
		ks = append(ks, k)
	}
	sort.Strings(ks)
	return ks
}
