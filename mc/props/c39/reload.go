package c39

import (
	"encoding/json"
	"fmt"
	"sort"
	"strings"
	"time"

	"github.com/dolthub/go-mysql-server/sql/mysql_db"

	"verif/mc/core"
)

// ---------------------------------------------------------------------------------------------
// C41 — persisted accounts and grants reload identically. The states are the grant states C39
// explores (the model's reachable states, each reached by its shortest history) plus "extra"
// states built from account-management features outside C39's alphabet (passwords, plugins, TLS
// requirements, attributes, WITH GRANT OPTION, WITH ADMIN OPTION, dynamic privileges, other
// objects). Each state is persisted through the capturing MySQLDbPersistence, loaded into a fresh
// engine with LoadData, and compared.

type reloadWitness struct {
	Alphabet string   `json:"alphabet"`
	History  []int    `json:"history"`
	Ops      []string `json:"ops"`
	Extras   []string `json:"extra_statements,omitempty"`
}

// extraStmt is an account-management statement outside C39's alphabet.
type extraStmt struct {
	Tag string
	SQL string
}

var extraStmts = []extraStmt{
	{"password-native", "CREATE USER 'w'@'%' IDENTIFIED WITH mysql_native_password BY 'pw1'"},
	{"password-sha2", "CREATE USER 'x'@'10.%' IDENTIFIED WITH caching_sha2_password BY 'pw2'"},
	{"require-ssl", "CREATE USER 'y'@'h' REQUIRE SSL"},
	{"require-x509-attrs", "CREATE USER 'z'@'h' REQUIRE SUBJECT 'sub' AND ISSUER 'iss' AND CIPHER 'c' ATTRIBUTE '{\"k\": \"v\"}'"},
	{"account-locked", "UPDATE mysql.user SET account_locked='Y' WHERE user='u' AND host='localhost'"},
	{"alter-password", "ALTER USER 'u'@'localhost' IDENTIFIED BY 'pw3'"},
	{"grant-option-global", "GRANT SELECT ON *.* TO 'u'@'localhost' WITH GRANT OPTION"},
	{"grant-option-database", "GRANT INSERT ON db.* TO 'u'@'localhost' WITH GRANT OPTION"},
	{"grant-option-table", "GRANT UPDATE ON db.t TO 'r'@'%' WITH GRANT OPTION"},
	{"role-admin-option", "GRANT 'r'@'%' TO 'u'@'localhost' WITH ADMIN OPTION"},
	{"dynamic-privilege", "GRANT REPLICATION_SLAVE_ADMIN ON *.* TO 'u'@'localhost'"},
	{"dynamic-privilege-grant-option", "GRANT CLONE_ADMIN ON *.* TO 'u'@'localhost' WITH GRANT OPTION"},
	{"other-database", "GRANT DELETE ON db2.* TO 'r'@'%'"},
	{"other-table", "GRANT SELECT, DROP ON db.t2 TO 'u'@'localhost'"},
	{"other-procedure", "GRANT EXECUTE ON PROCEDURE db.p2 TO 'r'@'%'"},
	{"all-on-table", "GRANT ALL ON db2.t TO 'u'@'localhost'"},
	{"upper-case-database-name", "GRANT DROP ON DB.* TO 'u'@'localhost'"},
	{"upper-case-table-name", "GRANT INSERT ON db.T2 TO 'u'@'localhost'"},
	{"upper-case-procedure-name", "GRANT EXECUTE ON PROCEDURE db.P2 TO 'u'@'localhost'"},
	{"second-role", "CREATE ROLE 'r2'@'%'"},
	{"second-role-edge", "GRANT 'r'@'%' TO 'r'@'%'"},
}

func sectionDiff(a, b string) (sections []string, text string) {
	split := func(s string) (names []string, body map[string][]string) {
		body = map[string][]string{}
		cur := ""
		for _, l := range strings.Split(s, "\n") {
			if l == "" {
				continue
			}
			if !strings.HasPrefix(l, " ") {
				cur = strings.TrimSuffix(l, ":")
				if i := strings.Index(cur, ": "); i > 0 {
					cur = cur[:i]
				}
				if strings.HasPrefix(cur, "show grants for") {
					body["show-grants"] = append(body["show-grants"], l)
					cur = "show-grants"
					continue
				}
				names = append(names, cur)
			}
			body[cur] = append(body[cur], l)
		}
		return
	}
	_, ba := split(a)
	_, bb := split(b)
	keys := map[string]bool{}
	for k := range ba {
		keys[k] = true
	}
	for k := range bb {
		keys[k] = true
	}
	var ks []string
	for k := range keys {
		ks = append(ks, k)
	}
	sort.Strings(ks)
	var sb strings.Builder
	for _, k := range ks {
		x, y := strings.Join(ba[k], "\n"), strings.Join(bb[k], "\n")
		if x != y {
			sections = append(sections, k)
			am := map[string]bool{}
			for _, l := range ba[k] {
				am[l] = true
			}
			bm := map[string]bool{}
			for _, l := range bb[k] {
				bm[l] = true
			}
			for _, l := range ba[k] {
				if !bm[l] {
					sb.WriteString("- " + l + "\n")
				}
			}
			for _, l := range bb[k] {
				if !am[l] {
					sb.WriteString("+ " + l + "\n")
				}
			}
		}
	}
	return sections, sb.String()
}

// passwordChanged reads password_last_changed of every account at second granularity (the
// persisted image stores seconds).
func (s *Sys) passwordChanged() string {
	var out []string
	rd := s.My.Reader()
	defer rd.Close()
	rd.VisitUsers(func(u *mysql_db.User) {
		out = append(out, fmt.Sprintf("'%s'@'%s' %d", u.User, u.Host, u.PasswordLastChanged.Truncate(time.Second).Unix()))
	})
	sort.Strings(out)
	return strings.Join(out, "\n")
}

type reloader struct {
	r      *core.Run
	alpha  alphabet
	probes []probe
}

// check runs one case and returns the violation it found (nil = none); built=false when the state
// could not be built (skipped).
func (rl *reloader) check(h []int, extras []int) (viol *core.Violation, built bool) {
	r := rl.r
	w := reloadWitness{Alphabet: rl.alpha.Name, History: append([]int{}, h...)}
	var tags []string
	for _, oi := range h {
		w.Ops = append(w.Ops, rl.alpha.Ops[oi].SQL())
	}
	for _, xi := range extras {
		w.Extras = append(w.Extras, extraStmts[xi].SQL)
		tags = append(tags, extraStmts[xi].Tag)
	}
	subject := map[string]string{"features": strings.Join(tags, "+")}
	s1 := NewSys(nil)
	for _, q := range w.Ops {
		if res := s1.Admin(q); res.Err != nil {
			r.Count("skipped_state_not_built", 1)
			return nil, false
		}
	}
	for _, q := range w.Extras {
		if res := s1.Admin(q); res.Err != nil {
			if res.Panic != nil {
				// not this property's concern, but worth a line in the evidence
				r.Count("skipped_state_build_panicked", 1)
				r.Outcome("extra-panicked:" + subject["features"])
				return nil, false
			}
			r.Count("skipped_unsupported", 1)
			r.Outcome("extra-rejected:" + subject["features"])
			return nil, false
		}
	}
	calls := s1.Cap.Calls
	if res := s1.Admin("FLUSH PRIVILEGES"); res.Err != nil || s1.Cap.Calls != calls+1 {
		panic(fmt.Sprintf("c41 harness: FLUSH PRIVILEGES did not persist: %v", res.Err))
	}
	flushed := s1.Cap.Last
	image := flushed
	r.Max("max_image_bytes", int64(len(image)))
	var s2 *Sys
	if pv, stack := core.Try(func() { s2 = NewSys(image) }); pv != nil {
		subject["frame"] = core.TopFrame(stack)
		return &core.Violation{Check: "reload", Clause: "image-loads", Kind: "load-failed", Subject: subject, Witness: core.J(w), Observed: fmt.Sprint(pv), Expected: "LoadData succeeds"}, true
	}
	// 1. SQL-observable state: mysql.* rows and SHOW GRANTS for every account
	o1, _ := s1.Observable()
	o2, _ := s2.Observable()
	r.Count("state_comparisons", 1)
	if o1 != o2 {
		secs, text := sectionDiff(o1, o2)
		subject["differs"] = strings.Join(secs, "+")
		return &core.Violation{Check: "reload", Clause: "grant-tables-and-show-grants", Kind: "differs-after-reload", Subject: subject, Witness: core.J(w),
			Observed: "after reload (- before, + after):\n" + text, Expected: "identical mysql.user/db/tables_priv/procs_priv/role_edges rows and SHOW GRANTS"}, true
	}
	if p1, p2 := s1.passwordChanged(), s2.passwordChanged(); p1 != p2 {
		return &core.Violation{Check: "reload", Clause: "grant-tables-and-show-grants", Kind: "password-last-changed-differs", Subject: subject, Witness: core.J(w), Observed: p2, Expected: p1}, true
	}
	// 2. the in-memory grant state in the model's terms
	g1, x1 := s1.GrantState()
	g2, x2 := s2.GrantState()
	if g1 != g2 || strings.Join(x1, ";") != strings.Join(x2, ";") {
		return &core.Violation{Check: "reload", Clause: "privilege-sets", Kind: "differs-after-reload", Subject: subject, Witness: core.J(w),
			Observed: "[" + g2.describe() + "] " + strings.Join(x2, "; "), Expected: "[" + g1.describe() + "] " + strings.Join(x1, "; ")}, true
	}
	// 3. the probe matrix in fresh sessions of both engines
	mixed := false
	for sess := 0; sess < 2; sess++ {
		nA, nD := 0, 0
		for pi := range rl.probes {
			p := &rl.probes[pi]
			c1 := s1.RunProbe(sess, p)
			c2 := s2.RunProbe(sess, p)
			r.Count("probe_comparisons", 1)
			if c1.Class != c2.Class {
				ps := map[string]string{"features": subject["features"], "probe": p.Class, "before": c1.Class, "after": c2.Class}
				return &core.Violation{Check: "reload", Clause: "probe-matrix", Kind: "decision-differs-after-reload", Subject: ps, Witness: core.J(w),
					Observed: fmt.Sprintf("session %s: %s -> %s %s", sessName[sess], p.SQL, c2.Class, c2.Msg), Expected: c1.Class + " " + c1.Msg + " (as before the reload)"}, true
			}
			if c1.Class == "denied" {
				nD++
			} else {
				nA++
			}
		}
		if nA > 0 && nD > 0 {
			mixed = true
		}
	}
	if s1.DataDump() != s1.Baseline || s2.DataDump() != s2.Baseline {
		panic("c41 harness: fixture not restored")
	}
	// 4. a second generation: persist the reloaded state and load it again
	if res := s2.Admin("FLUSH PRIVILEGES"); res.Err != nil {
		return &core.Violation{Check: "reload", Clause: "second-generation", Kind: "persist-failed", Subject: subject, Witness: core.J(w), Observed: res.Err.Error(), Expected: "FLUSH PRIVILEGES succeeds on the reloaded engine"}, true
	}
	var s3 *Sys
	if pv, stack := core.Try(func() { s3 = NewSys(s2.Cap.Last) }); pv != nil {
		subject["frame"] = core.TopFrame(stack)
		return &core.Violation{Check: "reload", Clause: "second-generation", Kind: "load-failed", Subject: subject, Witness: core.J(w), Observed: fmt.Sprint(pv), Expected: "LoadData succeeds"}, true
	}
	if o3, _ := s3.Observable(); o3 != o1 {
		secs, text := sectionDiff(o1, o3)
		subject["differs"] = strings.Join(secs, "+")
		return &core.Violation{Check: "reload", Clause: "second-generation", Kind: "differs-after-reload", Subject: subject, Witness: core.J(w),
			Observed: "after the second reload (- original, + after):\n" + text, Expected: "identical state"}, true
	}
	r.Outcome("identical")
	key := fmt.Sprintf("%s%v%v", rl.alpha.Name, h, extras)
	if mixed || len(extras) > 0 {
		r.NonTrivial(key)
	}
	if r.WantSample() && mixed {
		st, _ := s1.GrantState()
		r.Sample(map[string]any{"history": w.Ops, "extras": w.Extras, "grant_state": st.describe(), "image_bytes": len(image)})
	}
	return nil, true
}

// runReload runs one case and records its violation. A violation of a case with two extra
// statements is attributed to a single one of them when that one alone shows the same difference
// (so that one root cause gives one signature).
func (rl *reloader) runReload(h []int, extras []int) {
	v, _ := rl.check(h, extras)
	if v == nil {
		return
	}
	same := func(v1 *core.Violation) bool {
		return v1 != nil && v1.Clause == v.Clause && v1.Kind == v.Kind && strings.Contains(v.Subject["differs"], v1.Subject["differs"])
	}
	if len(extras) > 0 {
		// the base state alone?
		if v0, _ := rl.check(h, nil); same(v0) {
			rl.r.Violate(*v0)
			return
		}
	}
	if len(extras) == 2 {
		for _, e := range extras {
			v1, _ := rl.check(h, []int{e})
			if v1 != nil && v1.Clause == v.Clause && v1.Kind == v.Kind && v1.Subject["differs"] == v.Subject["differs"] {
				rl.r.Violate(*v1)
				return
			}
		}
	}
	rl.r.Violate(*v)
}

// reachableDepth: the model states reachable by histories of at most maxDepth operations.
func reachableDepth(a alphabet, maxDepth int) []reach {
	all, _ := reachable(a, 0)
	var out []reach
	for _, s := range all {
		if len(s.Hist) <= maxDepth {
			out = append(out, s)
		}
	}
	return out
}

func (rl *reloader) exploreStates(states []reach, tag string) {
	r := rl.r
	r.Info(tag+"_states", len(states))
	if r.Shard == 0 {
		r.Count("states", int64(len(states)))
	}
	for i, st := range states {
		if !r.Mine(int64(i)) {
			continue
		}
		if r.Expired() {
			r.Capped(tag + ": time budget reached")
			return
		}
		r.AnnounceCase(fmt.Sprintf("%s %v", tag, st.Hist))
		r.Eval()
		r.Count("transitions", 1)
		r.Max("max_depth", int64(len(st.Hist)))
		rl.runReload(st.Hist, nil)
	}
}

// exploreExtras: on top of three base states, every set of at most two extra statements (in
// list order).
func (rl *reloader) exploreExtras() {
	r := rl.r
	// base histories over the quick alphabet: u, r exist; u, r exist with grants and the edge
	bases := [][]int{{0, 2}, {0, 2, 5, 6, 7, 15}}
	var idx int64
	n := len(extraStmts)
	r.Info("extra_statements", n)
	var sets [][]int
	for i := 0; i < n; i++ {
		sets = append(sets, []int{i})
	}
	for i := 0; i < n; i++ {
		for j := i + 1; j < n; j++ {
			sets = append(sets, []int{i, j})
		}
	}
	for _, b := range bases {
		for _, ex := range sets {
			mine := r.Mine(idx)
			idx++
			if !mine {
				continue
			}
			if r.Expired() {
				r.Capped("extras: time budget reached")
				return
			}
			r.Eval()
			r.Count("extra_cases", 1)
			rl.runReload(b, ex)
		}
	}
}

// RunC41 is the Run function of property C41.
func RunC41(r *core.Run) {
	q := &reloader{r: r, alpha: quickAlphabet(), probes: buildProbes()}
	qs, _ := reachable(q.alpha, 0)
	q.exploreStates(qs, "closure_quick")
	q.exploreExtras()
	m := &reloader{r: r, alpha: mediumAlphabet(), probes: buildProbes()}
	if r.Quick() {
		m.exploreStates(reachableDepth(m.alpha, 5), "medium_depth5")
		return
	}
	ms, _ := reachable(m.alpha, 0)
	m.exploreStates(ms, "closure_medium")
	f := &reloader{r: r, alpha: fullAlphabet(), probes: buildProbes()}
	f.exploreStates(reachableDepthBFS(f.alpha, 3), "full_depth3")
}

// reachableDepthBFS: like reachable but stops expanding at maxDepth (the full alphabet's state
// space is far too large to close).
func reachableDepthBFS(a alphabet, maxDepth int) []reach {
	seen := map[string]bool{}
	var s0 state
	out := []reach{{Key: s0.key(), St: s0}}
	seen[s0.key()] = true
	for i := 0; i < len(out); i++ {
		cur := out[i]
		if len(cur.Hist) >= maxDepth {
			continue
		}
		for oi, o := range a.Ops {
			st := cur.St
			e := st.apply(o)
			if e.Outcome == mustFail || !e.Changed {
				continue
			}
			k := st.key()
			if seen[k] {
				continue
			}
			seen[k] = true
			out = append(out, reach{Key: k, Hist: append(append(make([]int, 0, len(cur.Hist)+1), cur.Hist...), oi), St: st})
		}
	}
	return out
}

// ReplayC41 re-runs one case.
func ReplayC41(r *core.Run, w json.RawMessage) {
	var wt reloadWitness
	if json.Unmarshal(w, &wt) != nil {
		return
	}
	a, ok := alphabetByName(wt.Alphabet)
	if !ok {
		return
	}
	for _, i := range wt.History {
		if i < 0 || i >= len(a.Ops) {
			return
		}
	}
	var ex []int
	for _, q := range wt.Extras {
		for i, e := range extraStmts {
			if e.SQL == q {
				ex = append(ex, i)
			}
		}
	}
	rl := &reloader{r: r, alpha: a, probes: buildProbes()}
	rl.runReload(wt.History, ex)
}
