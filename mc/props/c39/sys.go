package c39

import (
	"fmt"
	"sort"
	"strings"

	"github.com/dolthub/go-mysql-server/sql"
	"github.com/dolthub/go-mysql-server/sql/mysql_db"
	"github.com/dolthub/vitess/go/mysql"

	"verif/mc/eng"
)

// capture is the MySQLDbPersistence the systems run with: it keeps the last persisted image
// (C41 loads it into a fresh engine).
type capture struct {
	Last  []byte
	Calls int
}

func (c *capture) Persist(ctx *sql.Context, data []byte) error {
	c.Last = append([]byte(nil), data...)
	c.Calls++
	return nil
}

// Sys is a fresh engine with the fixture (databases db, db2; tables db.t, db.t2, db2.t with one
// row each; procedures db.p, db.p2), the privilege system enabled (root account), a root session
// and the two long-lived user sessions.
type Sys struct {
	E        *eng.Engine
	My       *mysql_db.MySQLDb
	Root     *eng.Session
	Sess     [2]*eng.Session
	Cap      *capture
	Baseline string
}

var fixture = []string{
	"create table db.t" + tableDDL,
	"create table db.t2" + tableDDL,
	"create table db2.t" + tableDDL,
	"insert into db.t values (1,1)",
	"insert into db.t2 values (1,1)",
	"insert into db2.t values (1,1)",
	"create procedure db.p() select 1",
	"create procedure db.p2() select 2",
}

// NewSys builds the fixture. With image != nil the privilege data is loaded from a persisted
// image (LoadData) instead of starting with only the root account.
func NewSys(image []byte) *Sys {
	s := &Sys{E: eng.New("db", "db2"), Cap: &capture{}}
	s.My = s.E.E.Analyzer.Catalog.MySQLDb
	s.My.SetPersister(s.Cap)
	if image == nil {
		s.My.AddRootAccount()
	} else {
		ctx := sql.NewEmptyContext()
		if err := s.My.LoadData(ctx, image); err != nil {
			panic(fmt.Sprintf("LoadData: %v", err))
		}
	}
	s.Root = s.E.NewSession("root")
	for _, q := range fixture {
		s.Root.MustExec(q)
	}
	s.Sess[0] = s.E.NewSessionAt("u", "localhost")
	s.Sess[1] = s.E.NewSessionAt("u", "%")
	if baseline == "" {
		baseline = s.Root.DumpRows()
	}
	s.Baseline = baseline
	return s
}

// the fixture is the same for every system of a process
var baseline string

var privIndex = map[sql.PrivilegeType]int{
	sql.PrivilegeType_Select: PSelect, sql.PrivilegeType_Insert: PInsert, sql.PrivilegeType_Update: PUpdate,
	sql.PrivilegeType_Delete: PDelete, sql.PrivilegeType_Create: PCreate, sql.PrivilegeType_Drop: PDrop,
	sql.PrivilegeType_Execute: PExecute, sql.PrivilegeType_Super: superBit,
}

func maskOf(ps []sql.PrivilegeType) (m uint8) {
	for _, p := range ps {
		if i, ok := privIndex[p]; ok {
			m |= 1 << i
		}
	}
	return
}

// GrantState reads the in-memory grant tables (users, their privilege sets, role edges) and
// renders them in the model's terms. extras lists everything that has no place in the model:
// unknown accounts, observable privileges on objects outside {*.*, db.*, db.t, PROCEDURE db.p},
// unexpected role edges.
func (s *Sys) GrantState() (st state, extras []string) {
	rd := s.My.Reader()
	defer rd.Close()
	rd.VisitUsers(func(u *mysql_db.User) {
		if u.User == "root" && u.Host == "localhost" {
			return
		}
		a := -1
		switch {
		case u.User == "u" && u.Host == "localhost":
			a = AU
		case u.User == "u" && u.Host == "%":
			a = AV
		case u.User == "r" && u.Host == "%":
			a = AR // (User.IsRole is not persisted and nothing reads it: not part of the state)
		}
		if a < 0 {
			extras = append(extras, fmt.Sprintf("account %s@%s", u.User, u.Host))
			return
		}
		st.A[a].Exists = true
		st.A[a].Privs[LG] = maskOf(u.PrivilegeSet.ToSlice())
		for _, d := range u.PrivilegeSet.GetDatabases() {
			dm := maskOf(d.ToSlice())
			if strings.EqualFold(d.Name(), "db") {
				st.A[a].Privs[LD] = dm
			} else if dm != 0 {
				extras = append(extras, fmt.Sprintf("%s: database %s mask %x", acctShort[a], d.Name(), dm))
			}
			for _, t := range d.GetTables() {
				tm := maskOf(t.ToSlice())
				if strings.EqualFold(d.Name(), "db") && strings.EqualFold(t.Name(), "t") {
					st.A[a].Privs[LT] = tm
				} else if strings.EqualFold(d.Name(), "db2") && strings.EqualFold(t.Name(), "t") {
					st.A[a].Privs[LT2] = tm
				} else if tm != 0 {
					extras = append(extras, fmt.Sprintf("%s: table %s.%s mask %x", acctShort[a], d.Name(), t.Name(), tm))
				}
				for _, c := range t.GetColumns() {
					if cm := maskOf(c.ToSlice()); cm != 0 {
						extras = append(extras, fmt.Sprintf("%s: column %s.%s.%s mask %x", acctShort[a], d.Name(), t.Name(), c.Name(), cm))
					}
				}
			}
			for _, rt := range d.GetRoutines() {
				rm := maskOf(rt.ToSlice())
				if strings.EqualFold(d.Name(), "db") && strings.EqualFold(rt.RoutineName(), "p") && strings.EqualFold(rt.RoutineType(), "PROCEDURE") {
					st.A[a].Privs[LP] = rm
				} else if rm != 0 {
					extras = append(extras, fmt.Sprintf("%s: routine %s %s.%s mask %x", acctShort[a], rt.RoutineType(), d.Name(), rt.RoutineName(), rm))
				}
			}
		}
	})
	rd.VisitRoleEdges(func(e *mysql_db.RoleEdge) {
		switch {
		case e.FromUser == "r" && e.FromHost == "%" && e.ToUser == "u" && e.ToHost == "localhost":
			st.Edge[AU] = true
		case e.FromUser == "r" && e.FromHost == "%" && e.ToUser == "u" && e.ToHost == "%":
			st.Edge[AV] = true
		default:
			extras = append(extras, fmt.Sprintf("role edge %s@%s -> %s@%s", e.FromUser, e.FromHost, e.ToUser, e.ToHost))
		}
	})
	sort.Strings(extras)
	return
}

// outcome classes of a statement run by a user session.
func outcomeClass(r *eng.Result) string {
	if r.Panic != nil {
		return "panic"
	}
	if r.Err == nil {
		return "ok"
	}
	err := r.Err
	switch {
	case sql.ErrPrivilegeCheckFailed.Is(err), sql.ErrDatabaseAccessDeniedForUser.Is(err), sql.ErrTableAccessDeniedForUser.Is(err):
		return "denied"
	case sql.ErrTableAlreadyExists.Is(err):
		return "exists"
	}
	if se, ok := err.(*mysql.SQLError); ok && se.Number() == mysql.ERAccessDeniedError {
		return "denied" // no such account: "Access denied for user"
	}
	if c := sql.CastSQLError(err); c != nil {
		switch c.Number() {
		case 1044, 1045, 1142, 1370, 1227:
			return "denied"
		}
	}
	return "error:" + eng.ErrClass(err)
}

// Admin runs one account-management statement as root.
func (s *Sys) Admin(q string) *eng.Result { return s.Root.Exec(q) }

// probeResult of one probe in one session.
type probeResult struct {
	Class string
	Msg   string
}

// RunProbe runs p in session sess and, when the statement was not denied, restores the fixture.
func (s *Sys) RunProbe(sess int, p *probe) probeResult {
	r := s.Sess[sess].Exec(p.SQL)
	c := outcomeClass(r)
	pr := probeResult{Class: c}
	if r.Err != nil {
		pr.Msg = r.Err.Error()
	}
	if c != "denied" {
		for _, q := range p.Restore {
			s.Root.MustExec(q)
		}
	}
	return pr
}

// Touch runs one statement in a user session so that the session's privilege cache is refreshed
// (used when a history prefix is only replayed, not judged).
func (s *Sys) Touch(sess int) { s.Sess[sess].Exec("select * from db.t") }

// DataDump: the canonical content of the fixture tables.
func (s *Sys) DataDump() string { return s.Root.DumpRows() }

// mysqlTables whose rows make up the persisted access-control state.
var mysqlTables = []string{"user", "db", "tables_priv", "procs_priv", "role_edges"}

// Observable renders everything observable about the access-control state: the rows of the mysql
// grant tables (password_last_changed dropped: wall clock) and SHOW GRANTS for every account.
func (s *Sys) Observable() (string, []string) {
	var sb strings.Builder
	var accounts []string
	for _, t := range mysqlTables {
		r := s.Root.Exec("select * from mysql." + t)
		fmt.Fprintf(&sb, "mysql.%s:", t)
		if r.Err != nil {
			fmt.Fprintf(&sb, " ERR %s\n", eng.ErrClass(r.Err))
			continue
		}
		drop := -1
		ui, hi := -1, -1
		for i, c := range r.Schema {
			switch strings.ToLower(c.Name) {
			case "password_last_changed":
				drop = i
			case "user":
				ui = i
			case "host":
				hi = i
			}
		}
		var rows []string
		for _, row := range r.Rows {
			parts := make([]string, 0, len(row))
			for i, v := range row {
				if i == drop {
					continue
				}
				parts = append(parts, eng.FormatValue(v))
			}
			rows = append(rows, "("+strings.Join(parts, ",")+")")
			if t == "user" && ui >= 0 && hi >= 0 {
				accounts = append(accounts, fmt.Sprintf("'%v'@'%v'", row[ui], row[hi]))
			}
		}
		sort.Strings(rows)
		sb.WriteString("\n")
		for _, x := range rows {
			sb.WriteString("  " + x + "\n")
		}
	}
	sort.Strings(accounts)
	for _, a := range accounts {
		r := s.Root.Exec("show grants for " + a)
		fmt.Fprintf(&sb, "show grants for %s:", a)
		if r.Err != nil {
			fmt.Fprintf(&sb, " ERR %s\n", eng.ErrClass(r.Err))
			continue
		}
		sb.WriteString("\n")
		for _, x := range r.Multiset() {
			sb.WriteString("  " + x + "\n")
		}
	}
	return sb.String(), accounts
}
