// Package c40 — authentication accepts exactly the valid credentials.
//
// Every set of at most two accounts over user ∈ {'a',”} × host ∈ {'localhost','%','127.0.0.1',
// '10.%','h'} × password ∈ {none,'p','q'} × plugin ∈ {mysql_native_password, caching_sha2_password}
// × locked is created on a fresh engine (CREATE USER … IDENTIFIED WITH … BY …; locking through
// mysql.user.account_locked), and every login attempt over user ∈ {'a','b',”} × client address ∈
// {127.0.0.1, ::1, 10.1.1.1, h} × presented password ∈ {none,'p','q'} × requested plugin is made
// through three routes:
//
//   - wire: the real connection phase — vitess listener + go-mysql-server auth server on an
//     in-process listener whose connections report the chosen client address; a minimal client
//     sends the handshake response (and follows an auth switch), then asks CURRENT_USER();
//   - direct-tls: the validation entry points called directly with a connection flagged as TLS
//     (method negotiation through AuthMethods()[i].HandleUser, then the native hash storage or
//     the caching_sha2 cache + plain-text storages);
//   - validate-hash: MySQLDb.ValidateHash (the legacy entry point still used by integrators).
//
// The oracle is a model of MySQL's rule: the matching mysql.user rows sorted most specific host
// first (blank user last) — the first row is THE account; the attempt is accepted iff that account
// is unlocked and the credentials verify against it (reference SHA1 scramble verification written
// in the harness); the session's CURRENT_USER() is that account. Malformed native responses
// (every length 0..21 with a correct prefix, bit flips, a scramble for another salt, responses
// for password-less accounts) must be rejected without a panic.
package c40

import (
	"encoding/json"
	"fmt"
	"net"
	"runtime/debug"
	"strings"

	"github.com/dolthub/go-mysql-server/memory"
	"github.com/dolthub/go-mysql-server/server"
	"github.com/dolthub/go-mysql-server/sql"
	"github.com/dolthub/go-mysql-server/sql/mysql_db"
	"github.com/dolthub/vitess/go/mysql"

	"verif/mc/core"
	"verif/mc/eng"
)

// ---------------------------------------------------------------------------------------------
// The system under test.

type sys struct {
	e    *eng.Engine
	my   *mysql_db.MySQLDb
	root *eng.Session
	srv  *server.Server
	pl   *pipeListener
}

func lockSQL(a account) string {
	return fmt.Sprintf("UPDATE mysql.user SET account_locked='Y' WHERE user='%s' AND host='%s'", a.User, a.Host)
}

// newSys creates the accounts in order. lockByClause: locked accounts are created with CREATE
// USER … ACCOUNT LOCK instead of being locked through mysql.user.
func newSys(accts []account, withServer, lockByClause bool) *sys {
	s := &sys{e: eng.New("db")}
	s.my = s.e.E.Analyzer.Catalog.MySQLDb
	s.my.SetPersister(&mysql_db.NoopPersister{})
	s.my.AddRootAccount()
	s.root = s.e.NewSession("root")
	for _, a := range accts {
		q := a.createSQL()
		if a.Locked && lockByClause {
			q += " ACCOUNT LOCK"
		}
		s.root.MustExec(q)
		if a.Locked && !lockByClause {
			s.root.MustExec(lockSQL(a))
		}
	}
	if withServer {
		s.pl = newPipeListener()
		srv, err := server.NewServer(server.Config{Protocol: "tcp", Address: "127.0.0.1:3306", Listener: s.pl, DisableConnectionWatcher: true}, s.e.E, sql.NewContext, memory.NewSessionBuilder(s.e.Pro), nil)
		if err != nil {
			panic(fmt.Sprintf("c40: NewServer: %v", err))
		}
		s.srv = srv
		go srv.Start()
	}
	return s
}

func (s *sys) close() {
	if s.srv != nil {
		s.srv.Close()
	}
}

// fake server-side connection for the direct routes.
type nullConn struct {
	net.Conn
	remote net.Addr
}

func (c nullConn) RemoteAddr() net.Addr { return c.remote }

// result of one attempt through one route.
type result struct {
	Outcome     string // accepted | rejected | dropped | panic | protocol-error
	CurrentUser string
	Negotiated  string // the auth method the attempt was decided by
	Detail      string
	Frame       string
}

func getterUser(g mysql.Getter) string {
	if u, ok := g.(sql.MysqlConnectionUser); ok {
		return u.User + "@" + u.Host
	}
	return fmt.Sprintf("%T", g)
}

// attempt is one login attempt.
type attempt struct {
	User      string `json:"user"`
	Addr      string `json:"addr"`
	Pw        string `json:"password"`         // the password the client knows ("" = none)
	ReqPlugin string `json:"requested_plugin"` // the auth method the client asks for first
	// malformed native response (applied to the correct scramble for Pw): "" = well-formed
	Mutation string `json:"mutation,omitempty"`
}

func (a attempt) describe() string {
	s := fmt.Sprintf("'%s' from %s", a.User, a.Addr)
	if a.Pw == "" {
		s += " without password"
	} else {
		s += " with password " + a.Pw
	}
	s += " requesting " + a.ReqPlugin
	if a.Mutation != "" {
		s += " [response " + a.Mutation + "]"
	}
	return s
}

// mutate applies a malformation to a native scramble computed by f for salt.
func mutate(mut string, salt []byte, pw string) []byte {
	good := nativeScramble(salt, pw)
	if good == nil {
		good = nativeScramble(salt, "p") // responses presented to a password-less account
	}
	var n, bit int
	switch {
	case mut == "":
		return nativeScramble(salt, pw)
	case strings.HasPrefix(mut, "len="):
		fmt.Sscanf(mut, "len=%d", &n)
		out := make([]byte, n)
		copy(out, good)
		return out
	case strings.HasPrefix(mut, "flip="):
		fmt.Sscanf(mut, "flip=%d.%d", &n, &bit)
		out := append([]byte{}, good...)
		out[n] ^= 1 << bit
		return out
	case mut == "other-salt":
		s2 := append([]byte{}, salt...)
		s2[0] ^= 0x55
		return nativeScramble(s2, pwOr(pw, "p"))
	case mut == "stage1-hash": // SHA1(pw) itself instead of the scramble
		return sha1sum([]byte(pwOr(pw, "p")))
	case mut == "stored-hash": // SHA1(SHA1(pw)): what mysql.user stores
		return sha1sum(sha1sum([]byte(pwOr(pw, "p"))))
	}
	panic("c40: unknown mutation " + mut)
}

func pwOr(pw, d string) string {
	if pw == "" {
		return d
	}
	return pw
}

func mutations(thorough bool) []string {
	var out []string
	for n := 0; n <= 21; n++ {
		if n != 20 {
			out = append(out, fmt.Sprintf("len=%d", n))
		}
	}
	out = append(out, "len=40")
	for i := 0; i < 20; i++ {
		if thorough {
			for b := 0; b < 8; b++ {
				out = append(out, fmt.Sprintf("flip=%d.%d", i, b))
			}
		} else {
			out = append(out, fmt.Sprintf("flip=%d.%d", i, i%8))
		}
	}
	out = append(out, "other-salt", "stage1-hash", "stored-hash")
	return out
}

// clientResp builds the response function of an attempt.
func clientResp(at attempt) respFn {
	return func(plugin string, salt []byte) []byte {
		switch plugin {
		case pluginNative:
			return mutate(at.Mutation, salt, at.Pw)
		case pluginSha2:
			return sha2Scramble(salt, at.Pw)
		}
		// mysql_clear_password and anything else: the password itself
		if at.Pw == "" {
			return nil
		}
		return append([]byte(at.Pw), 0)
	}
}

// wire route.
func (s *sys) wire(at attempt) result {
	wr := attemptWire(s.pl, at.Addr, at.User, at.ReqPlugin, clientResp(at))
	r := result{Outcome: wr.Outcome, CurrentUser: wr.CurrentUser, Detail: wr.Detail, Negotiated: at.ReqPlugin}
	if wr.Switched != "" {
		r.Negotiated = wr.Switched
	}
	if wr.Outcome == "rejected" {
		r.Detail = fmt.Sprintf("error %d %s", wr.ErrCode, wr.ErrMsg)
	}
	if wr.Outcome == "accepted" && wr.Detail != "" {
		r.Outcome = "protocol-error"
	}
	return r
}

// direct route with a connection flagged as TLS: negotiation as the vitess listener does it
// (requested method if it handles the user, else the first method that does), then validation.
func (s *sys) directTLS(at attempt) (res result) {
	addr := fakeAddr{at.Addr}
	conn := &mysql.Conn{Conn: nullConn{remote: addr}, Capabilities: mysql.CapabilityClientSSL}
	pv, stack := core.Try(func() {
		methods := s.my.AuthMethods()
		var chosen mysql.AuthMethod
		for _, m := range methods {
			if string(m.Name()) == at.ReqPlugin && m.HandleUser(conn, at.User) {
				chosen = m
				break
			}
		}
		if chosen == nil {
			for _, m := range methods {
				if m.HandleUser(conn, at.User) {
					chosen = m
					break
				}
			}
		}
		if chosen == nil {
			res = result{Outcome: "rejected", Detail: "no auth method handles the user"}
			return
		}
		resp := clientResp(at)
		var g mysql.Getter
		var err error
		switch string(chosen.Name()) {
		case pluginNative:
			g, err = chosen.HandleAuthPluginData(conn, at.User, append(append([]byte{}, saltA...), 0), resp(pluginNative, saltA), addr)
		case pluginSha2:
			var st mysql.CacheState
			g, st, err = mysql_db.VerifCachingStorage(s.my).UserEntryWithCacheHash(conn, saltA, at.User, resp(pluginSha2, saltA), addr)
			if err == nil && st == mysql.AuthRejected {
				err = fmt.Errorf("cache state: rejected")
			}
			if err == nil && st == mysql.AuthNeedMoreData {
				// full authentication: the client sends the password itself over TLS
				g, err = mysql_db.VerifSha2PlainTextStorage(s.my).UserEntryWithPassword(conn, at.User, at.Pw, addr)
			}
		default:
			res = result{Outcome: "rejected", Detail: "negotiated " + string(chosen.Name()) + " (no plugin registered)"}
			return
		}
		if err != nil {
			res = result{Outcome: "rejected", Detail: string(chosen.Name()) + ": " + err.Error()}
			return
		}
		res = result{Outcome: "accepted", CurrentUser: getterUser(g), Detail: string(chosen.Name()), Negotiated: string(chosen.Name())}
	})
	if pv != nil {
		return result{Outcome: "panic", Detail: fmt.Sprint(pv), Frame: core.TopFrame(stack)}
	}
	return res
}

// resolved: the index of the account MySQLDb.GetUser resolves for the attempt's user and client
// address (-1 = none, -2 = an account outside the set, i.e. root).
func (s *sys) resolved(accts []account, at attempt) int {
	rd := s.my.Reader()
	defer rd.Close()
	u := s.my.GetUser(rd, at.User, at.Addr, false)
	if u == nil {
		return -1
	}
	if i := acctIndexByName(accts, u.User, u.Host); i >= 0 {
		return i
	}
	return -2
}

// validate-hash route.
func (s *sys) validateHash(at attempt) (res result) {
	addr := fakeAddr{at.Addr}
	pv, stack := core.Try(func() {
		g, err := s.my.ValidateHash(saltA, at.User, clientResp(at)(pluginNative, saltA), addr)
		if err != nil {
			res = result{Outcome: "rejected", Detail: err.Error()}
			return
		}
		res = result{Outcome: "accepted", CurrentUser: getterUser(g), Negotiated: pluginNative}
	})
	if pv != nil {
		return result{Outcome: "panic", Detail: fmt.Sprint(pv), Frame: core.TopFrame(stack)}
	}
	return res
}

// ---------------------------------------------------------------------------------------------
// The oracle.

// verdict of the model for an attempt against one candidate account on one route.
//
//	valid: the account is unlocked and the presented credentials verify; unsupported: the route
//	cannot authenticate this account (caching_sha2_password without TLS; ValidateHash only knows
//	native hashes) — a rejection is then outside the property's domain, an acceptance still
//	requires valid credentials.
func verdict(c account, at attempt, route string) (valid, unsupported bool, why string) {
	unsupported = c.Plugin == pluginSha2 && route != "direct-tls"
	if unsupported {
		why = "caching_sha2-needs-tls"
	}
	// what the client ends up sending to this account's plugin
	wellFormed := at.Mutation == "" || c.Plugin != pluginNative
	empty := (wellFormed && at.Pw == "") || (c.Plugin == pluginNative && at.Mutation == "len=0")
	switch {
	case c.Locked:
		return false, unsupported, "locked"
	case c.Pw == "" && empty:
		return true, unsupported, why
	case c.Pw == "":
		return false, unsupported, "password-presented-to-passwordless-account"
	case empty:
		return false, unsupported, "no-password-presented"
	case !wellFormed:
		return false, unsupported, "malformed-response"
	case at.Pw == c.Pw:
		return true, unsupported, why
	}
	return false, unsupported, "wrong-password"
}

type witness struct {
	Accounts     []account `json:"accounts"`
	LockByClause bool      `json:"lock_by_create_user_clause,omitempty"`
	Attempt      attempt   `json:"attempt"`
	Route        string    `json:"route"`
}

func relation(mysqlPick, used account) string {
	switch {
	case mysqlPick.User == used.User:
		return "same-user-less-specific-host"
	case mysqlPick.User == "" && used.User != "":
		return "named-user-before-anonymous-with-more-specific-host"
	case mysqlPick.User != "" && used.User == "":
		return "anonymous-before-named-user-with-more-specific-host"
	}
	return "other"
}

func hostClass(h string) string {
	switch specificity(h) {
	case 0:
		return "literal"
	case 1 << 20:
		return "any"
	}
	return "pattern"
}

// judge compares one route's result with the model.
func judge(r *core.Run, accts []account, lockByClause bool, at attempt, route string, res result, impl int) {
	w := core.J(witness{Accounts: accts, LockByClause: lockByClause, Attempt: at, Route: route})
	sub := map[string]string{}
	if at.Mutation != "" {
		m := at.Mutation
		if i := strings.Index(m, "="); i > 0 {
			m = m[:i]
		}
		if strings.HasPrefix(at.Mutation, "len=") {
			var n int
			fmt.Sscanf(at.Mutation, "len=%d", &n)
			switch {
			case n == 0:
				m = "len=0"
			case n < 20:
				m = "len<20"
			default:
				m = "len>20"
			}
		}
		sub["mutation"] = m
	}
	r.Count("comparisons", 1)
	r.Outcome(route + ":" + res.Outcome)
	if res.Outcome == "panic" {
		sub["frame"] = res.Frame
		r.Violate(core.Violation{Check: "authentication", Clause: "no-panic", Kind: "panic", Subject: sub, Witness: w,
			Observed: "route " + route + ", attempt " + at.describe() + " on [" + describeSet(accts) + "]: panic: " + res.Detail, Expected: "rejected"})
		return
	}
	if res.Outcome == "protocol-error" {
		panic(fmt.Sprintf("c40 harness: protocol error: %s (%s on [%s])", res.Detail, at.describe(), describeSet(accts)))
	}
	cands := choose(accts, at.User, at.Addr)
	accepted := res.Outcome == "accepted"
	// is the observation one of the outcomes the model allows?
	okModel := false
	unsupportedAll := len(cands) > 0
	var why []string
	for _, ci := range cands {
		c := accts[ci]
		acc, unsup, reason := verdict(c, at, route)
		if !unsup {
			unsupportedAll = false
		}
		switch {
		case acc && accepted && res.CurrentUser == c.User+"@"+c.Host:
			okModel = true
		case (!acc || unsup) && !accepted:
			okModel = true
		}
		if reason != "" {
			why = append(why, reason)
		}
	}
	if len(cands) == 0 {
		okModel = !accepted
		why = []string{"no-matching-account"}
	}
	if okModel {
		if unsupportedAll && !accepted {
			r.Count("skipped_unsupported", 1)
		}
		return
	}
	if res.Outcome == "dropped" {
		// the server closed the connection without an ERR packet
		sub["reason"] = strings.Join(why, "|")
		sub["route"] = route
		r.Violate(core.Violation{Check: "authentication", Clause: "rejected-with-error-packet", Kind: "connection-dropped", Subject: sub, Witness: w,
			Observed: "attempt " + at.describe() + " on [" + describeSet(accts) + "]: connection closed without a reply (" + res.Detail + ")", Expected: "ERR packet (access denied)"})
		return
	}
	// Which account did the implementation resolve for (user, address)? MySQLDb.GetUser is what every
	// auth path calls; observing it separates "another account was matched" from "the credentials
	// were checked wrongly" and from "the session got a wrong identity".
	isCand := func(i int) bool {
		for _, ci := range cands {
			if ci == i {
				return true
			}
		}
		return false
	}
	if impl >= 0 && len(cands) > 0 && !isCand(impl) {
		c := accts[impl]
		pick := accts[cands[0]]
		sub = map[string]string{"relation": relation(pick, c)}
		pa, _, _ := verdict(pick, at, route)
		consequence := "session runs as the other account"
		switch {
		case accepted && !pa:
			consequence = "accepted although the matched account rejects"
		case !accepted && pa:
			consequence = "rejected although the matched account accepts"
		}
		r.Count("other_account_used:"+strings.ReplaceAll(consequence, " ", "_"), 1)
		r.Violate(core.Violation{Check: "authentication", Clause: "matched-account-is-most-specific", Kind: "other-matching-account-used", Subject: sub, Witness: w,
			Observed: fmt.Sprintf("route %s, attempt %s on [%s]: %s as %q — the implementation resolves %s for this client (%s)", route, at.describe(), describeSet(accts), res.Outcome, res.CurrentUser, c.name(), consequence),
			Expected: "account " + fmtChosen(accts, cands) + " (most specific host first, blank user last)"})
		return
	}
	if (impl < 0) != (len(cands) == 0) {
		sub["resolved"] = "none"
		if impl >= 0 {
			sub["resolved"] = hostClass(accts[impl].Host)
		}
		r.Violate(core.Violation{Check: "authentication", Clause: "matched-account-is-most-specific", Kind: "match-differs", Subject: sub, Witness: w,
			Observed: fmt.Sprintf("route %s, attempt %s on [%s]: %s; the implementation resolves account index %d", route, at.describe(), describeSet(accts), res.Outcome, impl),
			Expected: "account " + fmtChosen(accts, cands)})
		return
	}
	// the implementation resolved an account MySQL may pick (or both found none): judge the
	// credential check and the identity relative to that account
	var used *account
	if impl >= 0 {
		c := accts[impl]
		used = &c
	}
	valid, _, reason := false, false, "no-matching-account"
	if used != nil {
		valid, _, reason = verdict(*used, at, route)
	}
	if accepted {
		if valid {
			sub["plugin"] = res.Negotiated
			sub["password"] = map[bool]string{true: "none", false: "set"}[used.Pw == ""]
			r.Violate(core.Violation{Check: "authentication", Clause: "session-runs-as-matched-account", Kind: "wrong-current-user", Subject: sub, Witness: w,
				Observed: fmt.Sprintf("route "+route+", attempt %s on [%s]: accepted (negotiated %s), CURRENT_USER() = %q", at.describe(), describeSet(accts), res.Negotiated, res.CurrentUser),
				Expected: "CURRENT_USER() = " + used.name()})
			return
		}
		sub["reason"] = reason
		if strings.Contains(reason, "locked") {
			sub["locked_by"] = map[bool]string{true: "create-user-account-lock-clause", false: "mysql.user.account_locked"}[lockByClause]
		}
		r.Violate(core.Violation{Check: "authentication", Clause: "accept-iff-valid", Kind: "accepted-but-invalid", Subject: sub, Witness: w,
			Observed: fmt.Sprintf("route "+route+", attempt %s on [%s]: accepted as %q (negotiated %s)", at.describe(), describeSet(accts), res.CurrentUser, res.Negotiated),
			Expected: "rejected (" + reason + "; account: " + fmtChosen(accts, cands) + ")"})
		return
	}
	sub["plugin"] = used.Plugin
	sub["account_host"] = hostClass(used.Host)
	sub["password"] = map[bool]string{true: "none", false: "set"}[used.Pw == ""]
	sub["route"] = route
	r.Violate(core.Violation{Check: "authentication", Clause: "accept-iff-valid", Kind: "rejected-but-valid", Subject: sub, Witness: w,
		Observed: fmt.Sprintf("attempt %s on [%s]: %s (%s)", at.describe(), describeSet(accts), res.Outcome, res.Detail),
		Expected: "accepted as " + fmtChosen(accts, cands)})
}

// ---------------------------------------------------------------------------------------------
// One case = one ordered account set; all attempts through all routes.

type caseCfg struct {
	Thorough     bool
	WireMalform  bool // run the malformed responses through the wire route too
	WireBothReq  bool // wire attempts with both requested plugins (else only mysql_native_password)
	LockByClause bool
}

func wellFormedAttempts() []attempt {
	var out []attempt
	for _, u := range clientUsers {
		for _, ad := range clientAddrs {
			for _, pw := range passwords {
				for _, rp := range []string{pluginNative, pluginSha2} {
					out = append(out, attempt{User: u, Addr: ad, Pw: pw, ReqPlugin: rp})
				}
			}
		}
	}
	return out
}

func runRoutes(r *core.Run, s *sys, accts []account, cfg caseCfg, at attempt, wire bool) {
	impl := s.resolved(accts, at)
	if wire {
		judge(r, accts, cfg.LockByClause, at, "wire", s.wire(at), impl)
	}
	judge(r, accts, cfg.LockByClause, at, "direct-tls", s.directTLS(at), impl)
	if at.ReqPlugin == pluginNative {
		judge(r, accts, cfg.LockByClause, at, "validate-hash", s.validateHash(at), impl)
	}
}

func runCase(r *core.Run, accts []account, cfg caseCfg) {
	s := newSys(accts, true, cfg.LockByClause)
	defer s.close()
	interesting := false
	for _, at := range wellFormedAttempts() {
		runRoutes(r, s, accts, cfg, at, cfg.WireBothReq || at.ReqPlugin == pluginNative)
		if len(choose(accts, at.User, at.Addr)) > 0 {
			interesting = true
		}
	}
	// malformed native responses: for every (user, address) whose account is an unlocked native
	// account, mutate the correct scramble (or, for a password-less account, a scramble)
	seen := map[int]bool{}
	for _, u := range clientUsers {
		for _, ad := range clientAddrs {
			c := choose(accts, u, ad)
			if len(c) != 1 || seen[c[0]] {
				continue
			}
			a := accts[c[0]]
			if a.Plugin != pluginNative || a.Locked {
				continue
			}
			seen[c[0]] = true
			for _, mut := range mutations(cfg.Thorough) {
				if a.Pw == "" && (mut == "len=0") {
					continue // the empty response is the valid one
				}
				at := attempt{User: u, Addr: ad, Pw: a.Pw, ReqPlugin: pluginNative, Mutation: mut}
				runRoutes(r, s, accts, cfg, at, cfg.WireMalform)
			}
		}
	}
	if interesting {
		r.NonTrivial(fmt.Sprintf("%v|%v", cfg.LockByClause, describeSet(accts)))
	}
	if r.WantSample() && len(accts) == 2 && interesting {
		r.Sample(map[string]any{"accounts": describeSet(accts), "attempts": len(wellFormedAttempts()), "routes": []string{"wire", "direct-tls", "validate-hash"}})
	}
}

// ---------------------------------------------------------------------------------------------
// Enumeration of account sets.

func enumerate(r *core.Run, univ []account, pairs bool, cfg caseCfg, tag string) {
	singles := !pairs
	var idx int64
	run := func(accts []account) bool {
		mine := r.Mine(idx)
		idx++
		if !mine {
			return true
		}
		if r.Expired() {
			r.Capped(tag + ": time budget reached")
			return false
		}
		r.AnnounceCase(tag + " " + describeSet(accts))
		r.Eval()
		r.Count("account_sets_"+tag, 1)
		runCase(r, accts, cfg)
		return true
	}
	if singles {
		if !cfg.LockByClause {
			if !run(nil) {
				return
			}
		}
		for _, a := range univ {
			if cfg.LockByClause && !a.Locked {
				continue
			}
			if !run([]account{a}) {
				return
			}
		}
		return
	}
	for i, a := range univ {
		for j, b := range univ {
			if i == j || (a.User == b.User && a.Host == b.Host) {
				continue
			}
			// creation order only matters inside one user name (the implementation walks the
			// accounts of a name in creation order): unordered pairs across names
			if a.User != b.User && i > j {
				continue
			}
			if !run([]account{a, b}) {
				return
			}
		}
	}
}

func init() {
	core.Register(&core.Prop{
		ID:    "C40",
		Level: "exploration",
		Rule: "accounts: user {'a',''} x host {'localhost','%','127.0.0.1','10.%','h'} x password {none,'p','q'} x plugin {mysql_native_password, caching_sha2_password} x locked {0,1}; " +
			"every set of <= 2 accounts with distinct (user, host) (pairs of one user name in both creation orders), created with CREATE USER .. IDENTIFIED WITH .. BY .. and locked through mysql.user.account_locked (single locked accounts additionally through CREATE USER .. ACCOUNT LOCK); " +
			"attempts: user {'a','b',''} x client address {127.0.0.1, ::1, 10.1.1.1, h} x presented password {none,'p','q'} x requested plugin {native, caching_sha2}, each through the routes wire (real connection phase on an in-process listener, then CURRENT_USER()), direct-tls (negotiation + validation entry points on a TLS-flagged connection; caching_sha2 fast + full authentication) and validate-hash (MySQLDb.ValidateHash); " +
			"malformed native responses for every unlocked native account that some (user, address) selects: correct scramble cut/padded to every length 0..21 and 40, one bit flipped in every byte (thorough: every bit), scramble for another salt, SHA1(pw), SHA1(SHA1(pw)) (quick: wire route for single-account sets only). " +
			"quick: pairs restricted to native accounts (both plugins for single accounts); thorough: all pairs. " +
			"oracle: accepted iff the first matching mysql.user row in MySQL's order (literal host < pattern < '%', blank user last; two literal hosts of the local host are unordered) is unlocked and the credentials verify (reference SHA1 scramble check in the harness; caching_sha2: the presented password), CURRENT_USER() = that account; caching_sha2 accounts without TLS may only be rejected (unsupported, counted). " +
			"non-trivial = account set in which some attempt matches an account",
		Assumptions: []string{
			"loopback client addresses 127.0.0.1 and ::1 denote the local host and match the account hosts 'localhost', '127.0.0.1' and '::1' (documented implementation behaviour)",
			"client address 'h' stands for a client whose host the server knows as h (no name resolution is done by the implementation)",
			"direct-tls flags the connection as TLS instead of running a TLS handshake; the caching_sha2 full-authentication exchange is reduced to calling the plain-text storage with the presented password",
			"the salt is a harness input (fixed 20 bytes) on the direct routes; on the wire route it is the server's random salt (outcomes do not depend on it)",
		},
		QuickBudget:    60,
		ThoroughBudget: 850,
		Run: func(r *core.Run) {
			debug.SetGCPercent(400)
			both := []string{pluginNative, pluginSha2}
			if r.Quick() {
				enumerate(r, allAccounts(both), false, caseCfg{WireMalform: true, WireBothReq: true}, "single")
				enumerate(r, allAccounts(both), false, caseCfg{LockByClause: true, WireBothReq: true}, "single_lock_clause")
				enumerate(r, allAccounts([]string{pluginNative}), true, caseCfg{}, "pairs_native")
				return
			}
			enumerate(r, allAccounts(both), false, caseCfg{Thorough: true, WireMalform: true, WireBothReq: true}, "single")
			enumerate(r, allAccounts(both), false, caseCfg{LockByClause: true, WireBothReq: true}, "single_lock_clause")
			enumerate(r, allAccounts(both), true, caseCfg{WireBothReq: true}, "pairs")
		},
		Replay: func(r *core.Run, w json.RawMessage) {
			var wt witness
			if json.Unmarshal(w, &wt) != nil {
				return
			}
			s := newSys(wt.Accounts, wt.Route == "wire", wt.LockByClause)
			defer s.close()
			var res result
			switch wt.Route {
			case "wire":
				res = s.wire(wt.Attempt)
			case "direct-tls":
				res = s.directTLS(wt.Attempt)
			case "validate-hash":
				res = s.validateHash(wt.Attempt)
			default:
				return
			}
			judge(r, wt.Accounts, wt.LockByClause, wt.Attempt, wt.Route, res, s.resolved(wt.Accounts, wt.Attempt))
		},
	})
}
