package c40

import (
	"crypto/sha1"
	"crypto/sha256"
	"encoding/hex"
	"fmt"
	"sort"
	"strings"
)

// ---------------------------------------------------------------------------------------------
// Accounts, clients, and the reference model of MySQL's account matching and credential check.

const (
	pluginNative = "mysql_native_password"
	pluginSha2   = "caching_sha2_password"
)

type account struct {
	User   string `json:"user"`
	Host   string `json:"host"`
	Pw     string `json:"password"` // "" = none
	Plugin string `json:"plugin"`
	Locked bool   `json:"locked"`
}

func (a account) name() string { return "'" + a.User + "'@'" + a.Host + "'" }

func (a account) createSQL() string {
	q := "CREATE USER " + a.name()
	if a.Pw != "" {
		q += " IDENTIFIED WITH " + a.Plugin + " BY '" + a.Pw + "'"
	} else {
		q += " IDENTIFIED WITH " + a.Plugin
	}
	return q
}

func (a account) describe() string {
	s := a.name() + " " + strings.TrimSuffix(strings.TrimPrefix(a.Plugin, "mysql_"), "_password")
	if a.Pw == "" {
		s += " no-password"
	} else {
		s += " password=" + a.Pw
	}
	if a.Locked {
		s += " LOCKED"
	}
	return s
}

var acctUsers = []string{"a", ""}
var acctHosts = []string{"localhost", "%", "127.0.0.1", "10.%", "h"}
var passwords = []string{"", "p", "q"}

// client addresses (what the server sees as the peer address of the connection)
var clientAddrs = []string{"127.0.0.1", "::1", "10.1.1.1", "h"}

// user names a client presents: the named user, an unknown name (can only match anonymous
// accounts) and the empty name.
var clientUsers = []string{"a", "b", ""}

// hostAliases: the names under which a client address is matched against account hosts. Loopback
// addresses are the local host: 'localhost', '127.0.0.1' and '::1' all denote it (the
// implementation documents this treatment; MySQL resolves 127.0.0.1/::1 to localhost as well and
// additionally matches the literal address).
func hostAliases(addr string) []string {
	if addr == "127.0.0.1" || addr == "::1" || addr == "localhost" {
		return []string{"localhost", "127.0.0.1", "::1"}
	}
	return []string{addr}
}

// likeMatch: MySQL host patterns use the LIKE wildcards % and _.
func likeMatch(pat, s string) bool {
	if pat == "" {
		return s == ""
	}
	switch pat[0] {
	case '%':
		for i := 0; i <= len(s); i++ {
			if likeMatch(pat[1:], s[i:]) {
				return true
			}
		}
		return false
	case '_':
		return s != "" && likeMatch(pat[1:], s[1:])
	}
	return s != "" && s[0] == pat[0] && likeMatch(pat[1:], s[1:])
}

func hostMatches(pattern, addr string) bool {
	for _, h := range hostAliases(addr) {
		if likeMatch(pattern, h) {
			return true
		}
	}
	return false
}

// specificity class of an account host as MySQL sorts mysql.user: literal host names and
// addresses first, then patterns (the later the first wildcard the more specific), '%' last.
func specificity(host string) int {
	if host == "%" || host == "" {
		return 1 << 20
	}
	i := strings.IndexAny(host, "%_")
	if i < 0 {
		return 0
	}
	return 1<<19 - i
}

func (a account) matches(user, addr string) bool {
	return (a.User == user || a.User == "") && hostMatches(a.Host, addr)
}

// choose returns the accounts MySQL may pick for a connection of user from addr: the matching
// rows of mysql.user sorted by host specificity, then non-blank user before blank user; the first
// row is used. Rows of the same specificity class with different hosts (two literals that both
// denote the local host) are not ordered by the documentation: both are acceptable.
func choose(accts []account, user, addr string) []int {
	var m []int
	for i, a := range accts {
		if a.matches(user, addr) {
			m = append(m, i)
		}
	}
	var out []int
	for _, x := range m {
		dominated := false
		for _, y := range m {
			if x == y {
				continue
			}
			sx, sy := specificity(accts[x].Host), specificity(accts[y].Host)
			if sy < sx || (sy == sx && accts[x].Host == accts[y].Host && accts[y].User != "" && accts[x].User == "") {
				dominated = true
			}
		}
		if !dominated {
			out = append(out, x)
		}
	}
	sort.Ints(out)
	return out
}

// ---------------------------------------------------------------------------------------------
// Reference scrambles.

func sha1sum(parts ...[]byte) []byte {
	h := sha1.New()
	for _, p := range parts {
		h.Write(p)
	}
	return h.Sum(nil)
}

// nativeHash is the stored mysql_native_password hash text: '*' + HEX(SHA1(SHA1(pw))).
func nativeHash(pw string) string {
	if pw == "" {
		return ""
	}
	return "*" + strings.ToUpper(hex.EncodeToString(sha1sum(sha1sum([]byte(pw)))))
}

// nativeScramble is the client's mysql_native_password response:
// SHA1(pw) XOR SHA1(salt + SHA1(SHA1(pw))); empty for an empty password.
func nativeScramble(salt []byte, pw string) []byte {
	if pw == "" {
		return nil
	}
	s1 := sha1sum([]byte(pw))
	s2 := sha1sum(s1)
	x := sha1sum(salt, s2)
	for i := range x {
		x[i] ^= s1[i]
	}
	return x
}

// nativeVerify is the server-side rule, written independently of the implementation: the response
// must be exactly 20 bytes and SHA1(response XOR SHA1(salt + H)) must equal H = SHA1(SHA1(pw)).
func nativeVerify(resp, salt []byte, pw string) bool {
	if pw == "" {
		return len(resp) == 0
	}
	if len(resp) != sha1.Size {
		return false
	}
	h := sha1sum(sha1sum([]byte(pw)))
	x := sha1sum(salt, h)
	for i := range x {
		x[i] ^= resp[i]
	}
	return string(sha1sum(x)) == string(h)
}

// sha2Scramble is the client's caching_sha2_password fast-auth response:
// SHA256(pw) XOR SHA256(SHA256(SHA256(pw)) + salt).
func sha2Scramble(salt []byte, pw string) []byte {
	if pw == "" {
		return nil
	}
	d1 := sha256.Sum256([]byte(pw))
	d2 := sha256.Sum256(d1[:])
	h := sha256.New()
	h.Write(d2[:])
	h.Write(salt)
	d3 := h.Sum(nil)
	for i := range d3 {
		d3[i] ^= d1[i]
	}
	return d3
}

// fixed salts (the salt is a harness input)
var saltA = []byte("abcdefghij0123456789")
var saltB = []byte("ABCDEFGHIJ9876543210")

// ---------------------------------------------------------------------------------------------
// Enumeration of accounts and account sets.

func allAccounts(plugins []string) []account {
	var out []account
	for _, u := range acctUsers {
		for _, h := range acctHosts {
			for _, pw := range passwords {
				for _, pl := range plugins {
					for _, lk := range []bool{false, true} {
						out = append(out, account{User: u, Host: h, Pw: pw, Plugin: pl, Locked: lk})
					}
				}
			}
		}
	}
	return out
}

func describeSet(as []account) string {
	if len(as) == 0 {
		return "(no accounts)"
	}
	var p []string
	for _, a := range as {
		p = append(p, a.describe())
	}
	return strings.Join(p, " ; ")
}

func acctIndexByName(as []account, user, host string) int {
	for i, a := range as {
		if a.User == user && a.Host == host {
			return i
		}
	}
	return -1
}

func fmtChosen(as []account, idx []int) string {
	if len(idx) == 0 {
		return "no matching account"
	}
	var p []string
	for _, i := range idx {
		p = append(p, as[i].name())
	}
	return strings.Join(p, " or ")
}

var _ = fmt.Sprint
