package c40

import (
	"encoding/binary"
	"fmt"
	"io"
	"net"
	"sync"
	"time"
)

// ---------------------------------------------------------------------------------------------
// An in-process listener: connections are net.Pipe pairs whose server end reports a chosen
// remote address, so the real vitess listener + go-mysql-server auth server run the whole
// connection phase for clients "from" any address.

type fakeAddr struct{ host string }

func (a fakeAddr) Network() string { return "tcp" }
func (a fakeAddr) String() string  { return net.JoinHostPort(a.host, "40000") }

type addrConn struct {
	net.Conn
	remote net.Addr
}

func (c *addrConn) RemoteAddr() net.Addr { return c.remote }

type pipeListener struct {
	ch     chan net.Conn
	closed chan struct{}
	once   sync.Once
}

func newPipeListener() *pipeListener {
	return &pipeListener{ch: make(chan net.Conn), closed: make(chan struct{})}
}

func (l *pipeListener) Accept() (net.Conn, error) {
	select {
	case c := <-l.ch:
		return c, nil
	case <-l.closed:
		return nil, net.ErrClosed
	}
}
func (l *pipeListener) Close() error   { l.once.Do(func() { close(l.closed) }); return nil }
func (l *pipeListener) Addr() net.Addr { return &net.TCPAddr{IP: net.IPv4(127, 0, 0, 1), Port: 3306} }

func (l *pipeListener) dial(remoteHost string) net.Conn {
	c1, c2 := net.Pipe()
	l.ch <- &addrConn{Conn: c2, remote: fakeAddr{remoteHost}}
	return c1
}

// ---------------------------------------------------------------------------------------------
// A minimal MySQL client for the connection phase with full control over the auth response.

const (
	capLongPassword     = 1
	capProtocol41       = 1 << 9
	capSecureConnection = 1 << 15
	capPluginAuth       = 1 << 19
)

type packetConn struct {
	c   net.Conn
	seq byte
}

func (p *packetConn) read() ([]byte, error) {
	var hdr [4]byte
	if _, err := io.ReadFull(p.c, hdr[:]); err != nil {
		return nil, err
	}
	n := int(hdr[0]) | int(hdr[1])<<8 | int(hdr[2])<<16
	p.seq = hdr[3] + 1
	buf := make([]byte, n)
	if _, err := io.ReadFull(p.c, buf); err != nil {
		return nil, err
	}
	return buf, nil
}

func (p *packetConn) write(payload []byte) error {
	buf := make([]byte, 4+len(payload))
	buf[0], buf[1], buf[2], buf[3] = byte(len(payload)), byte(len(payload)>>8), byte(len(payload)>>16), p.seq
	copy(buf[4:], payload)
	p.seq++
	_, err := p.c.Write(buf)
	return err
}

// wireResult of one connection attempt.
type wireResult struct {
	Outcome     string // accepted | rejected | dropped (connection closed without a reply) | protocol-error
	ErrCode     int
	ErrMsg      string
	Switched    string // plugin of an AuthSwitchRequest, if any
	CurrentUser string // CURRENT_USER() of the accepted session
	User        string // USER()
	Detail      string
}

// respFn computes the auth response the client sends for a plugin and salt.
type respFn func(plugin string, salt []byte) []byte

func readNul(b []byte, pos int) (string, int, bool) {
	for i := pos; i < len(b); i++ {
		if b[i] == 0 {
			return string(b[pos:i]), i + 1, true
		}
	}
	return "", pos, false
}

// attemptWire runs one connection attempt of `user` from remoteHost, requesting reqPlugin.
func attemptWire(l *pipeListener, remoteHost, user, reqPlugin string, resp respFn) (res wireResult) {
	c := l.dial(remoteHost)
	defer func() {
		// Wait until the server side has closed the connection: the listener closes it after
		// Handler.ConnectionClosed returned, so no goroutine of this connection is still running
		// engine code (which reads process-global variable tables) when the next case re-initialises
		// them.
		if res.Outcome != "protocol-error" {
			io.Copy(io.Discard, c)
		}
		c.Close()
	}()
	// a guard against a hung exchange only (generous: the machine may be heavily oversubscribed)
	c.SetDeadline(time.Now().Add(15 * time.Minute))
	pc := &packetConn{c: c}
	fail := func(format string, a ...any) wireResult {
		res.Outcome = "protocol-error"
		res.Detail = fmt.Sprintf(format, a...)
		return res
	}
	hs, err := pc.read()
	if err != nil {
		return fail("reading handshake: %v", err)
	}
	// HandshakeV10
	if len(hs) < 1 || hs[0] != 10 {
		return fail("not a v10 handshake: % x", hs)
	}
	_, pos, ok := readNul(hs, 1)
	if !ok || pos+4+8+1+2+1+2+2+1+10 > len(hs) {
		return fail("short handshake")
	}
	pos += 4
	salt := append([]byte{}, hs[pos:pos+8]...)
	pos += 8 + 1 + 2 + 1 + 2 + 2
	authLen := int(hs[pos])
	pos += 1 + 10
	n2 := authLen - 8
	if n2 < 13 {
		n2 = 13
	}
	if pos+n2 > len(hs) {
		return fail("short handshake (salt part 2)")
	}
	salt = append(salt, hs[pos:pos+n2-1]...) // drop the trailing NUL
	// HandshakeResponse41
	out := make([]byte, 0, 128)
	var caps uint32 = capLongPassword | capProtocol41 | capSecureConnection | capPluginAuth
	out = binary.LittleEndian.AppendUint32(out, caps)
	out = binary.LittleEndian.AppendUint32(out, 1<<24-1)
	out = append(out, 45) // utf8mb4_general_ci
	out = append(out, make([]byte, 23)...)
	out = append(out, user...)
	out = append(out, 0)
	ar := resp(reqPlugin, salt)
	if len(ar) > 255 {
		return fail("auth response too long for the 1-byte length form")
	}
	out = append(out, byte(len(ar)))
	out = append(out, ar...)
	out = append(out, reqPlugin...)
	out = append(out, 0)
	if err := pc.write(out); err != nil {
		return fail("writing handshake response: %v", err)
	}
	for round := 0; round < 4; round++ {
		pkt, err := pc.read()
		if err != nil {
			res.Outcome = "dropped"
			res.Detail = err.Error()
			return res
		}
		if len(pkt) == 0 {
			return fail("empty packet")
		}
		switch pkt[0] {
		case 0x00:
			res.Outcome = "accepted"
			res.CurrentUser, res.User, res.Detail = queryCurrentUser(pc)
			pc.seq = 0
			pc.write([]byte{0x01}) // COM_QUIT
			return res
		case 0xff:
			res.Outcome = "rejected"
			if len(pkt) >= 3 {
				res.ErrCode = int(pkt[1]) | int(pkt[2])<<8
			}
			if len(pkt) > 9 {
				res.ErrMsg = string(pkt[9:])
			}
			return res
		case 0xfe: // AuthSwitchRequest
			name, p2, ok := readNul(pkt, 1)
			if !ok {
				return fail("bad auth switch request")
			}
			data := pkt[p2:]
			if len(data) > 0 && data[len(data)-1] == 0 {
				data = data[:len(data)-1]
			}
			res.Switched = name
			if err := pc.write(resp(name, append([]byte{}, data...))); err != nil {
				return fail("writing auth switch response: %v", err)
			}
		case 0x01: // AuthMoreData
			if len(pkt) == 2 && pkt[1] == 0x03 {
				continue // fast auth success, OK follows
			}
			return fail("auth more data % x (full authentication needs TLS)", pkt)
		default:
			return fail("unexpected packet % x", pkt)
		}
	}
	return fail("too many auth rounds")
}

func readLenEnc(b []byte, pos int) (uint64, int, bool) {
	if pos >= len(b) {
		return 0, pos, false
	}
	switch b[pos] {
	case 0xfb:
		return 0, pos + 1, true
	case 0xfc:
		if pos+3 > len(b) {
			return 0, pos, false
		}
		return uint64(b[pos+1]) | uint64(b[pos+2])<<8, pos + 3, true
	case 0xfd:
		if pos+4 > len(b) {
			return 0, pos, false
		}
		return uint64(b[pos+1]) | uint64(b[pos+2])<<8 | uint64(b[pos+3])<<16, pos + 4, true
	case 0xfe:
		if pos+9 > len(b) {
			return 0, pos, false
		}
		return binary.LittleEndian.Uint64(b[pos+1:]), pos + 9, true
	}
	return uint64(b[pos]), pos + 1, true
}

// queryCurrentUser runs SELECT CURRENT_USER(), USER() (text protocol, no DEPRECATE_EOF).
func queryCurrentUser(pc *packetConn) (cur, usr, detail string) {
	pc.seq = 0
	if err := pc.write(append([]byte{0x03}, "select current_user(), user()"...)); err != nil {
		return "", "", "query write: " + err.Error()
	}
	pkt, err := pc.read()
	if err != nil {
		return "", "", "query read: " + err.Error()
	}
	if len(pkt) > 0 && pkt[0] == 0xff {
		return "", "", "query error: " + string(pkt[min(9, len(pkt)):])
	}
	ncol, _, ok := readLenEnc(pkt, 0)
	if !ok || ncol != 2 {
		return "", "", fmt.Sprintf("unexpected column count packet % x", pkt)
	}
	for i := 0; i < int(ncol)+1; i++ { // column definitions + EOF
		if _, err := pc.read(); err != nil {
			return "", "", "query read: " + err.Error()
		}
	}
	row, err := pc.read()
	if err != nil {
		return "", "", "query read: " + err.Error()
	}
	var vals []string
	pos := 0
	for i := 0; i < 2; i++ {
		n, p2, ok := readLenEnc(row, pos)
		if !ok || p2+int(n) > len(row) {
			return "", "", fmt.Sprintf("bad row % x", row)
		}
		vals = append(vals, string(row[p2:p2+int(n)]))
		pos = p2 + int(n)
	}
	pc.read() // EOF
	return vals[0], vals[1], ""
}
