// Package c41 — persisted accounts and grants reload identically. The exploration and the oracle
// live next to C39's machinery (props/c39/reload.go): the states are C39's grant states.
package c41

import (
	"runtime/debug"

	"verif/mc/core"
	"verif/mc/props/c39"
)

func init() {
	core.Register(&core.Prop{
		ID:    "C41",
		Level: "model_checking",
		Rule: "states = every grant state of C39's explorations, each reached on a fresh engine by its shortest history of account-management statements (quick: all 586 reachable states of the 21-operation alphabet + the states of the 29-operation alphabet within 5 operations; thorough: all 8482 reachable states of the 29-operation alphabet + every state within 3 operations of the full 117-operation alphabet) " +
			"plus extra states: two base states x every set of <= 2 of 21 statements outside C39's alphabet (passwords for both plugins, REQUIRE SSL / SUBJECT / ISSUER / CIPHER, ATTRIBUTE, account_locked, ALTER USER password, WITH GRANT OPTION at three levels, WITH ADMIN OPTION, dynamic privileges with and without grant option, grants on other databases/tables/procedures, ALL on a table, upper-case database/table/procedure names, a second role, a role granted to a role). " +
			"Each state is persisted (FLUSH PRIVILEGES through a capturing MySQLDbPersistence), the image is loaded into a fresh engine with LoadData, and compared: rows of mysql.user (password_last_changed at the persisted granularity of seconds), mysql.db, tables_priv, procs_priv, role_edges; SHOW GRANTS for every account; the in-memory privilege sets; the full C39 probe matrix (20 statements x 2 sessions, decision by decision); then the reloaded engine is persisted and loaded again (second generation) and compared with the original. " +
			"non-trivial = a state in which some session has both allowed and denied probes, or that uses an extra statement",
		Assumptions: []string{
			"the fixture (databases, tables, procedures) is recreated in the fresh engine; only the privilege data travels through the image",
			"password_last_changed is compared at second granularity (the image stores seconds, like MySQL's TIMESTAMP column)",
			"User.IsRole / IsSuperUser are not part of the access-control state (nothing reads IsRole; super users are persisted in their own vector)",
			"extra statements the engine rejects are outside the domain (counted as skipped_unsupported)",
		},
		QuickBudget:    60,
		ThoroughBudget: 850,
		Run: func(r *core.Run) {
			debug.SetGCPercent(400)
			c39.RunC41(r)
		},
		Replay: c39.ReplayC41,
	})
}
