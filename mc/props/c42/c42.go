// Package c42: read-only modes block every write and nothing else.
//
// Bounded-exhaustive enumeration: statement catalogue (catalogue.go) x read-only mode x start
// state (x statement wrapper in the thorough tier); every case runs the statement on a system in
// the read-only mode and on a writable twin holding the same state.
package c42

import (
	"encoding/json"
	"fmt"
	"os"
	"sort"
	"strings"

	"github.com/dolthub/go-mysql-server/sql"
	"github.com/dolthub/go-mysql-server/sql/analyzer/analyzererrors"

	"verif/mc/core"
	"verif/mc/eng"
)

type caseT struct {
	Stmt  string   `json:"stmt"`
	Class string   `json:"class"`
	Mode  string   `json:"mode"`
	State string   `json:"state"`
	Wrap  string   `json:"wrap"`
	Pre   []string `json:"pre,omitempty"`
	SQL   string   `json:"sql"`
}

// roClass: the read-only error classes, else the framework's coarse error class.
func roClass(err error) string {
	switch {
	case err == nil:
		return "ok"
	case sql.ErrReadOnly.Is(err):
		return modeEngineRO
	case sql.ErrDatabaseWriteLocked.Is(err):
		return modeLocked
	case sql.ErrReadOnlyTransaction.Is(err):
		return modeROTxn
	case analyzererrors.ErrReadOnlyDatabase.Is(err):
		return modeRODB
	}
	return eng.ErrClass(err)
}

func isROClass(c string) bool {
	return c == modeEngineRO || c == modeLocked || c == modeROTxn || c == modeRODB
}

// modeSig: engine IsReadOnly and IsServerLocked share one mechanism (Engine.readOnlyCheck over
// the per-node IsReadOnly flags), so they share a signature coordinate.
func modeSig(mode string) string {
	if mode == modeEngineRO || mode == modeLocked {
		return "engine-flag"
	}
	return mode
}

// wrappers: how the statement is reached. plain = as catalogued; the others hide the statement
// behind a preceding statement that is itself read-only by kind.
var wrappers = []string{"plain", "prepare", "begin", "autocommit-off"}

func wrap(st stmt, w string) (stmt, bool) {
	switch w {
	case "plain":
		return st, true
	case "prepare":
		if strings.HasPrefix(st.ID, "execute-") || strings.HasPrefix(st.ID, "prepare-") || strings.HasPrefix(st.ID, "deallocate-") {
			return st, false
		}
		out := st
		out.Pre = append(append([]string{}, st.Pre...), "prepare c42w from '"+strings.ReplaceAll(st.SQL, "'", "''")+"'")
		out.SQL = "execute c42w"
		return out, true
	case "begin":
		out := st
		out.Pre = append([]string{"begin"}, st.Pre...)
		return out, true
	case "autocommit-off":
		out := st
		out.Pre = append([]string{"set autocommit = 0"}, st.Pre...)
		return out, true
	}
	panic("c42: unknown wrapper " + w)
}

type outcome struct {
	res      *eng.Result
	class    string
	rows     []string
	file     string // content of the OUTFILE, if any
	post     string // dump seen by the statement's own session
	postC    string // dump seen by a fresh session after COMMIT
	preFail  string // a Pre statement that failed, with its class
	preClass string
}

func runOn(sys *system, st stmt) *outcome {
	o := &outcome{}
	for _, p := range st.Pre {
		q, _ := expand(p)
		r := sys.S.Exec(q)
		if r.Err != nil {
			o.preFail = p
			o.preClass = roClass(r.Err)
			if r.Panic != nil {
				o.preClass = "panic"
			}
			break
		}
	}
	q, outFile := expand(st.SQL)
	o.res = sys.S.Exec(q)
	o.class = roClass(o.res.Err)
	if o.res.Panic != nil {
		o.class = "panic"
	}
	if o.res.Err == nil {
		o.rows = o.res.Multiset()
		for i := range o.rows {
			o.rows[i] = maskTS(o.rows[i])
		}
	}
	if outFile != "" {
		if b, err := os.ReadFile(outFile); err == nil {
			o.file = string(b)
		} else {
			o.file = "(no file)"
		}
		os.Remove(outFile)
	}
	o.post = dump(sys.S)
	sys.S.Exec("commit")
	o.postC = dump(sys.E.NewSession("root"))
	return o
}

// rootKind names the root node of the analysed statement (classifying coordinate for signatures).
func rootKind(sys *system, st stmt, mode string) string {
	text := st.SQL
	if strings.HasPrefix(text, "execute ") {
		for _, p := range st.Pre {
			if i := strings.Index(p, " from '"); strings.HasPrefix(p, "prepare ") && i > 0 {
				text = strings.ReplaceAll(strings.TrimSuffix(p[i+7:], "'"), "''", "'")
			}
		}
	}
	q, out := expand(text)
	if out != "" {
		defer os.Remove(out)
	}
	kind := "stmt:" + st.ID
	core.Try(func() {
		n, err := sys.E.E.AnalyzeQuery(sys.S.NewCtx(), q)
		if err != nil || n == nil {
			return
		}
		kind = strings.TrimPrefix(fmt.Sprintf("%T", n), "*")
	})
	return kind
}

// preDump: the dump of a start state (identical for every case: the fixture is deterministic). The
// first time a (mode, state) is used in a process, the read-only system's dump is checked against
// the twin's, through sessions of their own so that the statement's session starts clean.
var preDumps = map[string]string{}

func preDump(state, mode string) string {
	k := state + "/" + mode
	if d, ok := preDumps[k]; ok {
		return d
	}
	twin, ro := newTwin(state, mode), newReadOnly(state, mode)
	d, dr := dump(twin.E.NewSession("root")), dump(ro.E.NewSession("root"))
	if d != dr {
		panic(fmt.Sprintf("c42: harness error: start state differs between twin and read-only system (%s): %s", k, firstDiff(d, dr)))
	}
	if d2 := dump(newTwin(state, mode).E.NewSession("root")); d2 != d {
		panic(fmt.Sprintf("c42: harness error: fixture is not deterministic (%s): %s", k, firstDiff(d, d2)))
	}
	preDumps[k] = d
	return d
}

type verdict struct {
	twinChanged bool
	twinOK      bool
	twinDiff    string
}

func firstDiff(a, b string) string {
	la, lb := strings.Split(a, "\n"), strings.Split(b, "\n")
	for i := 0; i < len(la) || i < len(lb); i++ {
		var x, y string
		if i < len(la) {
			x = la[i]
		}
		if i < len(lb) {
			y = lb[i]
		}
		if x != y {
			return fmt.Sprintf("line %d: %q vs %q", i, x, y)
		}
	}
	return ""
}

func runCase(r *core.Run, st0 stmt, mode, state, w string) (v verdict, ran bool) {
	st, ok := wrap(st0, w)
	if !ok {
		return v, false
	}
	c := caseT{Stmt: st.ID, Class: st.Class, Mode: mode, State: state, Wrap: w, Pre: st.Pre, SQL: st.SQL}
	exp := expect(st, mode)
	if w == "begin" && mode == modeROTxn {
		return v, false // BEGIN would end the READ ONLY transaction
	}
	r.Eval()
	twin := newTwin(state, mode)
	ro := newReadOnly(state, mode)
	preT := preDump(state, mode)
	preR := preT
	ot := runOn(twin, st)
	or := runOn(ro, st)
	v.twinOK = ot.res.Err == nil
	v.twinChanged = ot.post != preT || ot.postC != preT
	if v.twinChanged {
		v.twinDiff = "session: " + firstDiff(preT, ot.post) + " / committed: " + firstDiff(preT, ot.postC)
	}

	subject := func() map[string]string {
		// READ ONLY transactions let every DDL-class statement through whatever its node type
		// (validateReadOnlyTransaction only knows InsertInto/Update/DeleteFrom/LockTables/CREATE
		// TEMPORARY TABLE): the node type is not a coordinate of that root cause
		if mode == modeROTxn && (st.Class == clsDDL || st.Class == clsDBDDL || st.Class == clsOtherDDL) {
			return map[string]string{"mode": modeSig(mode), "class": st.Class}
		}
		// analysed on a fresh writable system so that the name is independent of the mode
		return map[string]string{"mode": modeSig(mode), "class": st.Class, "root": rootKind(newTwin(state, mode), st, mode)}
	}
	viol := func(clause, kind, observed, expected string) {
		var sub map[string]string
		if kind == "panic" {
			// the frame names the root cause; statement class and plan root do not
			sub = map[string]string{"mode": modeSig(mode), "frame": topFrame(or.res.Stack)}
		} else {
			sub = subject()
		}
		r.Violate(core.Violation{Check: "read-only-modes", Clause: clause, Kind: kind, Subject: sub, Witness: core.J(c), Observed: observed, Expected: expected})
	}
	label := fmt.Sprintf("%s/%s", exp, mode)

	// a statement hidden behind a preparatory statement that the mode itself rejects cannot be judged
	if or.preFail != "" || ot.preFail != "" {
		if or.preFail != ot.preFail || or.preClass != ot.preClass {
			if or.preClass == "panic" {
				r.Outcome(label + ":pre-panic")
			} else {
				r.Outcome(label + ":pre-diverged")
			}
			// the preparatory statements are read-only by kind: they must behave as on the twin
			if or.preFail != "" && ot.preFail == "" {
				viol("read-statements-unaffected", "read-blocked-preparatory", fmt.Sprintf("%q -> %s", or.preFail, or.preClass), "as on the writable twin: ok")
				return v, true
			}
		}
	}

	if or.class == "panic" && ot.class != "panic" {
		r.Outcome(label + ":panic")
		viol("no-panic", "panic", fmt.Sprint(or.res.Panic), "an error of class "+mode+" or the twin's result")
		// a panic also has to leave the state alone when the statement had to be blocked
		if exp == expBlock && (or.post != preR || or.postC != preR) {
			viol("state-unchanged", "state-changed", firstDiff(preR, or.postC)+firstDiff(preR, or.post), "dump unchanged")
		}
		return v, true
	}
	if ot.class == "panic" {
		r.Count("twin_panic", 1)
		r.Note(fmt.Sprintf("the writable twin panics on %s (%v): not a read-only matter, not judged", st.ID, ot.res.Panic))
		r.Outcome(label + ":twin-panic")
		return v, true
	}

	sameAsTwin := func() {
		if or.class != ot.class {
			kind := "different-outcome"
			if isROClass(or.class) {
				kind = "read-blocked"
			}
			viol("read-statements-unaffected", kind, or.res.Summary(), "as on the writable twin: "+ot.res.Summary())
			return
		}
		if or.res.Err == nil {
			if !eng.EqualStrings(or.rows, ot.rows) {
				viol("read-statements-unaffected", "different-rows", strings.Join(or.rows, " "), strings.Join(ot.rows, " "))
				return
			}
			if or.file != ot.file {
				viol("read-statements-unaffected", "different-file", or.file, ot.file)
				return
			}
		}
		if or.post != ot.post || or.postC != ot.postC {
			viol("read-statements-unaffected", "different-state", firstDiff(or.post, ot.post)+" / committed: "+firstDiff(or.postC, ot.postC), "same dump as the writable twin")
		}
	}
	unchanged := func() bool {
		if or.post != preR || or.postC != preR {
			viol("state-unchanged", "state-changed", "session: "+firstDiff(preR, or.post)+" / committed: "+firstDiff(preR, or.postC), "dump unchanged after a rejected statement")
			return false
		}
		return true
	}

	switch exp {
	case expBlock:
		if !v.twinOK {
			// not executable in this state even when writable: no write to block here
			if st.Unsup || ot.class == "unsupported" {
				r.Count("skipped_unsupported", 1)
			} else {
				r.Count("twin_rejects", 1)
				r.Note(fmt.Sprintf("the writable twin rejects %s in state %s (%s): no write to block there", st.ID, state, ot.class))
			}
			r.Outcome(label + ":twin-rejects:" + ot.class)
			unchanged()
			return v, true
		}
		r.Outcome(label + ":" + or.class)
		if or.res.Err == nil {
			// (the state change that follows from being accepted is not reported separately)
			viol("write-rejected", "write-accepted", or.res.Summary(), "error of class "+mode)
		} else {
			if or.class != mode {
				viol("write-rejected", "wrong-error-class", or.res.Summary(), "error of class "+mode)
			}
			unchanged()
		}
		if v.twinChanged {
			r.NonTrivial(fmt.Sprintf("%s|%s|%s|%s", st.ID, mode, state, w))
		}
	case expPass:
		r.Outcome(label + ":" + or.class)
		if !v.twinOK && (st.Unsup || ot.class == "unsupported") {
			r.Count("skipped_unsupported", 1)
		}
		sameAsTwin()
		if v.twinOK {
			r.NonTrivial(fmt.Sprintf("%s|%s|%s|%s", st.ID, mode, state, w))
		}
	case expFree:
		r.Outcome(label + ":" + or.class)
		if !v.twinOK && (st.Unsup || ot.class == "unsupported") {
			r.Count("skipped_unsupported", 1)
		}
		if or.res.Err == nil || !isROClass(or.class) {
			sameAsTwin()
		} else {
			unchanged()
		}
	}
	if r.WantSample() && st.ID == sampleIDs[mode] && state == "rows" && w == "plain" {
		r.Sample(map[string]any{"case": c, "expectation": exp, "read_only_system": or.res.Summary(), "writable_twin": ot.res.Summary(),
			"twin_dump_changed": v.twinChanged, "read_only_dump_changed": or.post != preR || or.postC != preR})
	}
	return v, true
}

const modeOwnSession = "ro-database-provider-session"

// ownSessionProbe: the read-only-database mode once more, but with the session created from the
// read-only provider itself (what an integrator would naturally do). Only statements that must
// pass are run, and only their outcome is compared with the twin (no dumps: after a failed
// commit every later statement of that session fails too).
func ownSessionProbe(r *core.Run, st stmt, state string) {
	if expect(st, modeRODB) != expPass {
		return
	}
	r.Eval()
	c := caseT{Stmt: st.ID, Class: st.Class, Mode: modeOwnSession, State: state, Wrap: "plain", Pre: st.Pre, SQL: st.SQL}
	twin, ro := newTwin(state, modeRODB), newReadOnlyOpt(state, modeRODB, true)
	exec := func(sys *system) (classes []string, last *eng.Result) {
		for _, q := range append(append([]string{}, st.Pre...), st.SQL) {
			q, out := expand(q)
			last = sys.S.Exec(q)
			if out != "" {
				os.Remove(out)
			}
			cl := roClass(last.Err)
			if last.Panic != nil {
				cl = "panic"
			}
			classes = append(classes, cl)
		}
		return
	}
	ct, lt := exec(twin)
	cr, lr := exec(ro)
	r.Outcome("pass/" + modeOwnSession + ":" + cr[len(cr)-1])
	sub := map[string]string{"mode": modeOwnSession}
	if strings.Join(ct, ",") != strings.Join(cr, ",") {
		if isROClass(cr[len(cr)-1]) {
			// blocked by the read-only rule itself: that is judged in mode ro-database, not here
			r.Count("probe_blocked_as_in_ro_database_mode", 1)
			return
		}
		if os.Getenv("VERIF_C42_DEBUG") != "" {
			r.Note("provider-session difference: " + st.ID + ": " + strings.Join(cr, ",") + " vs twin " + strings.Join(ct, ",") + ": " + lr.Summary())
		}
		r.Violate(core.Violation{Check: "read-only-modes", Clause: "read-statements-unaffected", Kind: "different-outcome", Subject: sub, Witness: core.J(c),
			Observed: strings.Join(cr, ",") + ": " + lr.Summary(), Expected: "as on the writable twin: " + strings.Join(ct, ",")})
		return
	}
	if lt.Err == nil && !eng.EqualStrings(maskAll(lt.Multiset()), maskAll(lr.Multiset())) {
		r.Violate(core.Violation{Check: "read-only-modes", Clause: "read-statements-unaffected", Kind: "different-rows", Subject: sub, Witness: core.J(c),
			Observed: lr.Summary(), Expected: lt.Summary()})
	}
}

func maskAll(rows []string) []string {
	for i := range rows {
		rows[i] = maskTS(rows[i])
	}
	return rows
}

// one written-out case per mode (and a read-tagged one)
var sampleIDs = map[string]string{modeEngineRO: "update-where", modeLocked: "select-group-by", modeROTxn: "delete-where", modeRODB: "insert-other-db-from-ro"}

func topFrame(stack string) string {
	lines := strings.Split(stack, "\n")
	for i := 0; i+1 < len(lines); i++ {
		l := lines[i]
		if strings.HasPrefix(l, "github.com/dolthub/go-mysql-server/") && !strings.Contains(l, "verifshim") {
			f := strings.TrimPrefix(l, "github.com/dolthub/go-mysql-server/")
			if j := strings.LastIndex(f, "("); j > 0 {
				f = f[:j]
			}
			return f
		}
	}
	return "unknown"
}

func run(r *core.Run) {
	if os.Getenv("VERIF_C42_TABLE") != "" {
		if r.Shard == 0 {
			devTable()
		}
		return
	}
	cat := catalogue()
	seen := map[string]bool{}
	for _, st := range cat {
		if seen[st.ID] {
			panic("c42: duplicate catalogue id " + st.ID)
		}
		seen[st.ID] = true
	}
	ws := []string{"plain"}
	if r.Thorough() {
		ws = wrappers
	}
	r.Info("catalogue_statements", len(cat))
	r.Info("modes", modes)
	r.Info("start_states", states)
	r.Info("wrappers", ws)
	byClass := map[string]int{}
	for _, st := range cat {
		byClass[st.Class]++
	}
	r.Info("catalogue_by_class", byClass)
	only := os.Getenv("VERIF_C42_ONLY")
	defer cleanupTmp()
	for i, st := range cat {
		if !r.Mine(int64(i)) {
			continue
		}
		if only != "" && !strings.Contains(","+only+",", ","+st.ID+",") {
			continue
		}
		if r.Expired() {
			r.Capped(fmt.Sprintf("time budget reached before statement %d of %d", i, len(cat)))
			return
		}
		r.AnnounceCase(st.ID)
		changed, okSomewhere, ranAny := false, false, false
		if os.Getenv("VERIF_C42_DEBUG") == "probe-only" { // development aid
			ownSessionProbe(r, st, "rows")
			continue
		}
		for _, w := range ws {
			for _, mode := range modes {
				for _, state := range states {
					v, ran := runCase(r, st, mode, state, w)
					if !ran {
						continue
					}
					ranAny = true
					if w == "plain" {
						changed = changed || v.twinChanged
						okSomewhere = okSomewhere || v.twinOK
						// tag validation, read side: a read/session/free statement never changes the twin's dump
						if !isWriteClass(st.Class) && st.Class != clsFree && v.twinChanged {
							panic(fmt.Sprintf("c42: catalogue error: %s is tagged %s but changes the writable twin's dump (%s/%s): %s", st.ID, st.Class, mode, state, v.twinDiff))
						}
					}
				}
			}
		}
		if !ranAny {
			continue
		}
		ownSessionProbe(r, st, "rows")
		// tag validation, write side
		if st.Unsup {
			if okSomewhere && isWriteClass(st.Class) {
				panic("c42: catalogue error: " + st.ID + " is marked unsupported but the writable twin accepts it")
			}
			continue
		}
		if isWriteClass(st.Class) && !okSomewhere {
			r.Count("write_statements_rejected_by_twin_in_every_state", 1)
			r.Note("write-tagged statement rejected by the writable twin in every start state (outside the engine's domain): " + st.ID)
		}
		if mustChangeDump(st) && okSomewhere && !changed {
			panic("c42: catalogue error: " + st.ID + " is tagged " + st.Class + " but never changes the writable twin's dump")
		}
		if isWriteClass(st.Class) && okSomewhere {
			if changed {
				r.Count("write_tags_validated_by_dump_change", 1)
			} else {
				r.Count("write_tags_by_kind_only", 1)
			}
		}
	}
}

func init() {
	core.Register(&core.Prop{
		ID:    "C42",
		Level: "exploration",
		Rule: "every (statement, mode, start state[, wrapper]): catalogue of statement kinds (>=1 representative of every kind sql/planbuilder build() accepts: DML forms, DDL per object kind, database DDL, account/role/grant administration, SET variants, CALL of writing/read-only/external procedures, PREPARE/EXECUTE/DEALLOCATE, ANALYZE, LOCK/UNLOCK, transaction control, SHOW/DESCRIBE/EXPLAIN, SELECT forms incl. INTO @v / OUTFILE / DUMPFILE, CTE-DML, LOAD DATA, replication commands), each tagged by construction with the class of thing it writes; " +
			"modes {Engine.ReadOnly, Engine.IsServerLocked, START TRANSACTION READ ONLY, memory ReadOnlyDatabase in a ReadOnlyProvider (mydb, dropdb read-only; wdb writable)}; start states {empty, rows, rich = rows + triggers + cascading FK + CHECK + secondary index on the written table}; " +
			"thorough adds the wrappers {PREPARE+EXECUTE of the statement, BEGIN first, SET autocommit=0 first}. Each case runs on the read-only system and on a writable twin with the same state. " +
			"Oracle: class that writes something the mode protects => error of the mode's class and the full dump (databases, table DDL + rows + auto-increment, views, triggers, routines, events, accounts, grants, role edges; own session and a fresh session after COMMIT) unchanged; " +
			"read/session class (or a write the mode does not protect) => same error class, rows, written file and dump as the twin; statistics/locks/replication/temporary tables are undetermined (no panic; accepted => as twin, rejected => dump unchanged). " +
			"Tags are validated on the twin: a DML-tagged statement must change the twin's dump in at least one start state, a read/session-tagged one never. " +
			"non-trivial = a blocked-class case whose twin execution changes the dump, or a pass-class case the twin executes successfully",
		Assumptions: []string{
			"DDL, database DDL and account administration are writes by kind (also IF [NOT] EXISTS no-ops)",
			"SET GLOBAL/PERSIST, user variables, PREPARE, transaction control, SELECT ... INTO OUTFILE do not modify data or schema: they must behave as on the twin",
			"account administration inside a READ ONLY transaction, ANALYZE, LOCK TABLES, KILL, external procedures without a declaration are not determined by the property (either outcome accepted)",
			"the read-only database mode is built as the repository's TestReadOnlyDatabases does: populated databases re-wrapped as memory.ReadOnlyDatabase",
			"statements the writable twin rejects in a start state (unsupported, or not executable there) are outside the domain in that state and counted",
		},
		Run: run,
		Replay: func(r *core.Run, w json.RawMessage) {
			var c caseT
			if json.Unmarshal(w, &c) != nil {
				return
			}
			defer cleanupTmp()
			for _, st := range catalogue() {
				if st.ID != c.Stmt {
					continue
				}
				if c.Mode == modeOwnSession {
					ownSessionProbe(r, st, c.State)
				} else {
					runCase(r, st, c.Mode, c.State, c.Wrap)
				}
			}
		},
	})
}

// devTable prints statement x mode outcomes (development aid: VERIF_C42_TABLE=1).
func devTable() {
	cat := catalogue()
	sort.SliceStable(cat, func(i, j int) bool { return false })
	f, err := os.Create(os.Getenv("VERIF_C42_TABLE"))
	if err != nil {
		panic(err)
	}
	defer f.Close()
	for _, st := range cat {
		fmt.Fprintf(f, "%-40s %-14s", st.ID, st.Class)
		var errs []string
		for _, mode := range modes {
			twin := newTwin("rows", mode)
			ro := newReadOnly("rows", mode)
			pre := preDump("rows", mode)
			ot := runOn(twin, st)
			or := runOn(ro, st)
			ch := "="
			if ot.post != pre || ot.postC != pre {
				ch = "W"
			}
			fmt.Fprintf(f, " | %s twin=%s%s ro=%s", expect(st, mode)[:1], ot.class, ch, or.class)
			if ot.res.Err != nil {
				errs = append(errs, "twin "+mode+": "+ot.res.Err.Error())
			}
			if or.res.Err != nil && !isROClass(or.class) && or.class != ot.class {
				errs = append(errs, "ro "+mode+": "+or.res.Err.Error())
			}
		}
		fmt.Fprintln(f)
		for _, e := range errs {
			if len(e) > 200 {
				e = e[:200]
			}
			fmt.Fprintln(f, "      "+e)
		}
	}
	cleanupTmp()
}
