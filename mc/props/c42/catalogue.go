package c42

// The statement catalogue: at least one representative of every statement kind the planbuilder
// accepts (sql/planbuilder/builder.go build(): select/set-op, analyze, show, DDL, alter table,
// DBDDL, explain, insert, delete, update, load, set, use, transaction control, replication
// commands, call, kill, signal, lock/unlock, user/role/grant administration, flush,
// prepare/execute/deallocate, binlog). Every statement is tagged by construction with the class
// of thing it writes; the expectation under a read-only mode follows from the class (expect()).

const (
	clsDML      = "dml"            // changes rows of mydb (the read-only database of mode ro-database)
	clsDDL      = "ddl"            // changes schema objects of mydb
	clsDBDDL    = "dbddl"          // creates / drops / alters a database
	clsAdmin    = "admin"          // accounts, roles, grants (server-level, not in any user database)
	clsOtherDML = "other-db-dml"   // changes rows of wdb (writable in mode ro-database)
	clsOtherDDL = "other-db-ddl"   // changes schema of wdb
	clsDeclared = "declared-write" // external procedure the integrator declares not read-only
	clsRead     = "read"           // reads
	clsSession  = "session"        // changes only session / connection / variable state
	clsFree     = "free"           // the property does not determine the outcome (statistics, table locks, replication, IF [NOT] EXISTS no-ops)
)

const (
	expBlock = "block"
	expPass  = "pass"
	expFree  = "free"
)

type stmt struct {
	ID    string
	Class string
	Pre   []string // run first in the same session, under the mode (and on the twin)
	SQL   string
	Unsup bool              // the writable twin is expected to reject it (outside the engine's domain)
	Exp   map[string]string // per-mode override of the expectation
}

// expect: what the property demands of a statement of this class under this mode.
func expect(st stmt, mode string) string {
	if e, ok := st.Exp[mode]; ok {
		return e
	}
	switch st.Class {
	case clsRead, clsSession:
		return expPass
	case clsFree:
		return expFree
	case clsDML, clsDDL:
		return expBlock
	case clsDBDDL:
		if mode == modeRODB {
			return expFree // per-statement overrides below say which databases are read-only
		}
		return expBlock
	case clsAdmin:
		switch mode {
		case modeEngineRO, modeLocked:
			return expBlock
		case modeROTxn:
			return expFree // MySQL rejects; the property speaks of data and schema only
		default:
			return expPass // writes no read-only database
		}
	case clsOtherDML, clsOtherDDL:
		if mode == modeRODB {
			return expPass
		}
		return expBlock
	case clsDeclared:
		if mode == modeEngineRO || mode == modeLocked {
			return expBlock
		}
		return expFree
	}
	panic("c42: unknown class " + st.Class)
}

func isWriteClass(c string) bool {
	switch c {
	case clsDML, clsDDL, clsDBDDL, clsAdmin, clsOtherDML, clsOtherDDL, clsDeclared:
		return true
	}
	return false
}

// mustChangeDump: classes whose tag is validated by the twin's dump changing in at least one
// start state (the others are DDL/administrative by kind: IF [NOT] EXISTS no-ops etc. are still
// writes by kind).
func mustChangeDump(st stmt) bool {
	return (st.Class == clsDML || st.Class == clsOtherDML) && !st.NoChangeOK()
}

func (st stmt) NoChangeOK() bool { return noChange[st.ID] }

// statements that are writes by kind but change nothing in any start state
var noChange = map[string]bool{}

var blockRODB = map[string]string{modeRODB: expBlock}
var passRODB = map[string]string{modeRODB: expPass}
var freeROTxn = map[string]string{modeROTxn: expFree}

func catalogue() []stmt {
	var c []stmt
	add := func(id, class, sql string, pre ...string) {
		c = append(c, stmt{ID: id, Class: class, SQL: sql, Pre: pre})
	}
	addX := func(s stmt) { c = append(c, s) }

	// ---- DML -----------------------------------------------------------------------------
	add("insert-values", clsDML, "insert into t values (7,70,'n')")
	add("insert-columns", clsDML, "insert into t (a,b) values (8,80)")
	add("insert-set", clsDML, "insert into t set a = 9, b = 90")
	add("insert-multi-row", clsDML, "insert into t values (7,70,'n'),(8,80,'m')")
	add("insert-select", clsDML, "insert into t select a + 100, b, 'cp' from u")
	add("insert-select-self", clsDML, "insert into t select a + 200, b, c from t")
	add("insert-ignore", clsDML, "insert ignore into t values (1,11,'dup'),(7,70,'n')")
	add("insert-on-duplicate-key-update", clsDML, "insert into t values (1,11,'d') on duplicate key update b = b + 1")
	add("replace-values", clsDML, "replace into t values (1,99,'r')")
	add("replace-select", clsDML, "replace into t select a, b, 'rs' from u")
	add("insert-auto-increment", clsDML, "insert into ai (v) values (5)")
	add("insert-empty-values", clsDML, "insert into ai values ()")
	add("insert-with-trigger", clsDML, "insert into u values (9,9)")
	add("insert-fk-parent", clsDML, "insert into p values (9)")
	add("insert-fk-child", clsDML, "insert into ch values (9,NULL)")
	add("insert-check-table", clsDML, "insert into chk values (9,9)")
	add("insert-keyless", clsDML, "insert into nopk values (9,9)")
	add("insert-table-stmt", clsDML, "insert into dropme2 table dropme")
	addX(stmt{ID: "insert-into-view", Class: clsDML, SQL: "insert into v1 values (7,70)", Unsup: true})
	add("insert-cte", clsDML, "insert into t with cte as (select 50 as x) select x, x, 'cte' from cte")
	add("update-all", clsDML, "update t set b = b + 1")
	add("update-where", clsDML, "update t set c = 'upd' where a = 1")
	add("update-order-limit", clsDML, "update t set b = 0 order by a desc limit 1")
	add("update-join", clsDML, "update t join u on t.a = u.a set t.b = u.b + 1")
	add("update-join-both", clsDML, "update t join u on t.a = u.a set t.b = 5, u.b = 6")
	add("update-subquery", clsDML, "update t set b = (select count(*) from u) + 1000")
	add("update-ignore", clsDML, "update ignore t set b = 5")
	add("update-pk", clsDML, "update t set a = a + 10")
	add("update-fk-parent", clsDML, "update p set a = a + 10 where a = 2")
	addX(stmt{ID: "update-view", Class: clsDML, SQL: "update v1 set b = 4", Unsup: true})
	add("update-cte", clsDML, "with cte as (select 1 as x) update t set b = 77 where a in (select x from cte)")
	add("delete-all", clsDML, "delete from t")
	add("delete-where", clsDML, "delete from t where a = 1")
	add("delete-order-limit", clsDML, "delete from t order by a limit 1")
	add("delete-join", clsDML, "delete t from t join u on t.a = u.a")
	add("delete-multi-target", clsDML, "delete t, u from t join u on t.a = u.a")
	add("delete-subquery", clsDML, "delete from t where a in (select a from u)")
	add("delete-cte", clsDML, "with cte as (select 1 as x) delete from t where a in (select x from cte)")
	add("delete-fk-parent", clsDML, "delete from p where a = 2")
	add("load-data", clsDML, "load data infile '{IN}' into table t")
	add("load-data-ignore", clsDML, "load data infile '{IN}' ignore into table t")
	add("load-data-replace", clsDML, "load data infile '{IN}' replace into table t")
	add("call-writing-procedure", clsDML, "call pw(7)")
	add("call-writing-procedure-if", clsDML, "call pwif(1)")
	add("call-writing-procedure-loop", clsDML, "call pwloop()")
	add("call-ddl-procedure", clsDDL, "call pddl()")
	add("execute-prepared-insert", clsDML, "execute s1", "prepare s1 from 'insert into t values (7,70,''n'')'")
	add("execute-prepared-insert-using", clsDML, "execute s1 using @x, @x, @c", "set @x = 7", "set @c = 'bound'", "prepare s1 from 'insert into t values (?,?,?)'")
	add("execute-prepared-update", clsDML, "execute s1", "prepare s1 from 'update t set b = b + 1'")
	add("execute-prepared-delete", clsDML, "execute s1 using @x", "set @x = 1", "prepare s1 from 'delete from t where a = ?'")
	add("execute-prepared-call", clsDML, "execute s1", "prepare s1 from 'call pw(7)'")
	add("execute-prepared-ddl", clsDDL, "execute s1", "prepare s1 from 'create table nt (a int)'")
	add("insert-other-db", clsOtherDML, "insert into wdb.w values (7,7)")
	add("insert-other-db-from-ro", clsOtherDML, "insert into wdb.w select a + 10, b from mydb.t")
	add("update-other-db", clsOtherDML, "update wdb.w set b = b + 1")
	add("update-other-db-join-ro", clsOtherDML, "update wdb.w join mydb.t on w.a = t.a set w.b = t.b")
	add("delete-other-db", clsOtherDML, "delete from wdb.w")
	add("insert-from-other-db", clsDML, "insert into t select a + 300, b, 'w' from wdb.w")
	addX(stmt{ID: "delete-after-begin", Class: clsDML, SQL: "delete from u", Pre: []string{"begin"}, Exp: freeROTxn}) // BEGIN ends the READ ONLY transaction
	add("insert-autocommit-off", clsDML, "insert into u values (9,9)", "set autocommit = 0")
	addX(stmt{ID: "insert-temporary-table", Class: clsFree, SQL: "insert into tmp1 values (1)", Pre: []string{"create temporary table tmp1 (a int)"}, Unsup: true})

	// ---- DDL: tables ---------------------------------------------------------------------
	add("create-table", clsDDL, "create table nt (a int primary key, b int)")
	add("create-table-if-not-exists-present", clsFree, "create table if not exists t (a int)")
	add("create-table-like", clsDDL, "create table nt like t")
	add("create-table-as-select", clsDDL, "create table nt as select * from t")
	add("create-table-with-fk", clsDDL, "create table nt (a int primary key, pa int, foreign key (pa) references p(a))")
	addX(stmt{ID: "create-temporary-table", Class: clsFree, SQL: "create temporary table tmp1 (a int)", Unsup: true})
	add("drop-table", clsDDL, "drop table dropme")
	add("drop-table-if-exists-absent", clsFree, "drop table if exists nosuch")
	add("drop-table-multi", clsDDL, "drop table dropme, dropme2")
	add("rename-table", clsDDL, "rename table renme to renamed")
	add("rename-table-multi", clsDDL, "rename table renme to renamed, dropme to dropped")
	add("alter-table-rename", clsDDL, "alter table renme rename to renamed")
	add("truncate-table", clsDDL, "truncate table u")
	add("truncate", clsDDL, "truncate ix")
	add("alter-add-column", clsDDL, "alter table ix add column e int")
	add("alter-add-column-first", clsDDL, "alter table ix add column e int first")
	add("alter-add-column-after", clsDDL, "alter table ix add column e int default 3 after b")
	add("alter-drop-column", clsDDL, "alter table ix drop column d")
	add("alter-modify-column", clsDDL, "alter table ix modify column d bigint")
	add("alter-change-column", clsDDL, "alter table ix change column d dd bigint")
	add("alter-rename-column", clsDDL, "alter table ix rename column d to dd")
	add("alter-column-set-default", clsDDL, "alter table ix alter column d set default 9")
	add("alter-column-drop-default", clsDDL, "alter table ix alter column c drop default")
	add("alter-add-index", clsDDL, "alter table ix add index kc (c)")
	add("alter-add-unique", clsDDL, "alter table ix add unique key uc (c)")
	add("alter-drop-index", clsDDL, "alter table ix drop index kb")
	add("alter-rename-index", clsDDL, "alter table ix rename index kb to kb2")
	add("create-index", clsDDL, "create index kc on ix (c)")
	add("create-unique-index", clsDDL, "create unique index uc on ix (c)")
	add("drop-index", clsDDL, "drop index kb on ix")
	add("alter-add-primary-key", clsDDL, "alter table nopk add primary key (a)")
	add("alter-drop-primary-key", clsDDL, "alter table dropme drop primary key")
	add("alter-add-foreign-key", clsDDL, "alter table ix add constraint fkx foreign key (b) references p(a)")
	add("alter-drop-foreign-key", clsDDL, "alter table ch drop foreign key fk1")
	add("alter-add-check", clsDDL, "alter table ix add constraint ckx check (c > -5)")
	add("alter-drop-check", clsDDL, "alter table chk drop check ck1")
	add("alter-drop-constraint", clsDDL, "alter table chk drop constraint ck1")
	add("alter-auto-increment", clsDDL, "alter table ai auto_increment = 100")
	add("alter-table-collate", clsDDL, "alter table ix collate utf8mb4_general_ci")
	add("alter-table-comment", clsDDL, "alter table ix comment 'note'")
	add("alter-table-multi", clsDDL, "alter table ix add column e int, drop column d")
	add("alter-table-other-db", clsOtherDDL, "alter table wdb.w add column c int")
	add("create-table-other-db", clsOtherDDL, "create table wdb.nt (a int primary key)")
	add("create-table-other-db-like-ro", clsOtherDDL, "create table wdb.nt like mydb.t")
	add("create-table-other-db-as-select-ro", clsOtherDDL, "create table wdb.nt as select * from mydb.t")
	add("drop-table-other-db", clsOtherDDL, "drop table wdb.wdrop")
	add("create-view-other-db-over-ro", clsOtherDDL, "create view wdb.vv as select a from mydb.t")

	// ---- DDL: views, triggers, routines, events --------------------------------------------
	add("create-view", clsDDL, "create view nv as select a from t")
	add("create-or-replace-view", clsDDL, "create or replace view v1 as select a from t")
	add("drop-view", clsDDL, "drop view vdrop")
	add("drop-view-if-exists-absent", clsFree, "drop view if exists nosuchview")
	add("create-trigger-before-insert", clsDDL, "create trigger ntrg before insert on ix for each row set new.b = 1")
	add("create-trigger-after-update", clsDDL, "create trigger ntrg after update on ix for each row insert into audit values (new.a)")
	add("create-trigger-after-delete", clsDDL, "create trigger ntrg after delete on ix for each row insert into audit values (old.a)")
	add("drop-trigger", clsDDL, "drop trigger trgdrop")
	add("drop-trigger-if-exists-absent", clsFree, "drop trigger if exists nosuchtrg")
	add("create-procedure", clsDDL, "create procedure np() select 1")
	add("create-procedure-block", clsDDL, "create procedure np(x int) begin declare y int; set y = x; case when y > 1 then signal sqlstate '45000'; else select y; end case; end")
	add("drop-procedure", clsDDL, "drop procedure pdrop")
	add("drop-procedure-if-exists-absent", clsFree, "drop procedure if exists nosuchproc")
	add("create-event", clsDDL, "create event nev on schedule every 1 day starts '2037-01-01 00:00:00' disable do insert into audit values (3)")
	add("alter-event-disable", clsDDL, "alter event ev1 comment 'changed'")
	add("alter-event-rename", clsDDL, "alter event ev1 rename to ev1b")
	add("alter-event-body", clsDDL, "alter event ev1 do insert into audit values (4)")
	add("drop-event", clsDDL, "drop event evdrop")
	add("drop-event-if-exists-absent", clsFree, "drop event if exists nosuchev")

	// ---- databases -------------------------------------------------------------------------
	addX(stmt{ID: "create-database", Class: clsDBDDL, SQL: "create database newdb"})
	addX(stmt{ID: "create-database-if-not-exists-present", Class: clsFree, SQL: "create database if not exists mydb"})
	addX(stmt{ID: "create-schema", Class: clsDBDDL, SQL: "create schema newdb"})
	addX(stmt{ID: "drop-database", Class: clsDBDDL, SQL: "drop database dropdb", Exp: blockRODB})
	addX(stmt{ID: "drop-schema", Class: clsDBDDL, SQL: "drop schema dropdb", Exp: blockRODB})
	addX(stmt{ID: "drop-database-if-exists-absent", Class: clsFree, SQL: "drop database if exists nosuchdb"})
	addX(stmt{ID: "alter-database-collate", Class: clsDBDDL, SQL: "alter database mydb collate utf8mb4_general_ci", Exp: blockRODB})
	addX(stmt{ID: "create-spatial-reference-system", Class: clsFree, SQL: "create or replace spatial reference system 4120 name 'x' definition 'GEOGCS[\"x\"]'", Unsup: true})

	// ---- accounts, roles, grants -------------------------------------------------------------
	add("create-user", clsAdmin, "create user 'carol'@'localhost'")
	add("create-user-if-not-exists-present", clsFree, "create user if not exists 'alice'@'localhost'")
	add("create-user-identified", clsAdmin, "create user 'carol'@'localhost' identified by 'pw'")
	add("alter-user", clsAdmin, "alter user 'alice'@'localhost' identified by 'pw2'")
	addX(stmt{ID: "rename-user", Class: clsAdmin, SQL: "rename user 'uren'@'localhost' to 'urenamed'@'localhost'", Unsup: true})
	add("drop-user", clsAdmin, "drop user 'udrop'@'localhost'")
	add("drop-user-if-exists-absent", clsFree, "drop user if exists 'nosuch'@'localhost'")
	add("create-role", clsAdmin, "create role r2")
	add("drop-role", clsAdmin, "drop role rdrop")
	add("grant-global", clsAdmin, "grant select on *.* to 'alice'@'localhost'")
	add("grant-database", clsAdmin, "grant insert, update on mydb.* to 'alice'@'localhost'")
	add("grant-table", clsAdmin, "grant delete on mydb.t to 'alice'@'localhost'")
	add("grant-routine", clsAdmin, "grant execute on procedure mydb.pr to 'alice'@'localhost'")
	add("grant-all-with-grant-option", clsAdmin, "grant all on mydb.* to 'alice'@'localhost' with grant option")
	add("grant-role", clsAdmin, "grant r1 to 'alice'@'localhost'")
	addX(stmt{ID: "grant-proxy", Class: clsAdmin, SQL: "grant proxy on 'alice'@'localhost' to 'bob'@'localhost'", Unsup: true})
	add("revoke-privilege", clsAdmin, "revoke select on mydb.* from 'alice'@'localhost'")
	add("revoke-table-privilege", clsAdmin, "revoke insert on mydb.t from 'bob'@'localhost'")
	add("revoke-all", clsAdmin, "revoke all privileges, grant option from 'alice'@'localhost'")
	add("revoke-role", clsAdmin, "revoke r1 from 'bob'@'localhost'")
	addX(stmt{ID: "revoke-proxy", Class: clsAdmin, SQL: "revoke proxy on 'alice'@'localhost' from 'bob'@'localhost'", Unsup: true})
	add("flush-privileges", clsAdmin, "flush privileges")
	add("call-external-declared-readwrite", clsDeclared, "call memory_inout_add_readwrite(@a, 2)", "set @a = 1")

	// ---- statistics, locks, replication: outcome not determined by the property -------------
	add("analyze-table", clsFree, "analyze table t")
	add("analyze-update-histogram", clsFree, "analyze table t update histogram on b using data '{\"row_count\": 3, \"distinct_count\": 3, \"null_count\": 0, \"columns\": [\"b\"], \"buckets\": []}'")
	add("analyze-drop-histogram", clsFree, "analyze table t drop histogram on b")
	add("lock-tables-read", clsFree, "lock tables t read")
	add("lock-tables-write", clsFree, "lock tables t write, u read")
	add("unlock-tables", clsFree, "unlock tables")
	addX(stmt{ID: "change-replication-source", Class: clsFree, SQL: "change replication source to source_host = 'h'", Unsup: true})
	addX(stmt{ID: "change-replication-filter", Class: clsFree, SQL: "change replication filter replicate_do_table = (mydb.t)", Unsup: true})
	addX(stmt{ID: "start-replica", Class: clsFree, SQL: "start replica", Unsup: true})
	addX(stmt{ID: "stop-replica", Class: clsFree, SQL: "stop replica", Unsup: true})
	addX(stmt{ID: "reset-replica", Class: clsFree, SQL: "reset replica", Unsup: true})
	addX(stmt{ID: "binlog", Class: clsFree, SQL: "binlog 'AAAA'", Unsup: true})
	add("kill-query", clsFree, "kill query 99")
	add("kill-connection", clsFree, "kill connection 99")

	// ---- SET, USE, transaction control, PREPARE ---------------------------------------------
	add("set-user-variable", clsSession, "set @v = 1")
	add("set-user-variable-subquery", clsSession, "set @v = (select count(*) from t)")
	add("set-user-variables-two", clsSession, "set @v = 1, @w = 'two'")
	add("set-session-variable", clsSession, "set session sql_mode = ''")
	add("set-session-variable-at", clsSession, "set @@session.sql_select_limit = 5")
	add("set-local-variable", clsSession, "set local sql_select_limit = 6")
	add("set-implicit-session-variable", clsSession, "set sql_select_limit = 7")
	add("set-global-variable", clsSession, "set global max_connections = 77")
	add("set-global-variable-at", clsSession, "set @@global.max_connections = 78")
	add("set-persist-variable", clsSession, "set persist max_connections = 79")
	add("set-persist-only-variable", clsSession, "set persist_only max_connections = 80")
	add("set-names", clsSession, "set names utf8mb4")
	add("set-names-collate", clsSession, "set names utf8mb4 collate utf8mb4_general_ci")
	add("set-character-set", clsSession, "set character set utf8mb4")
	add("set-charset", clsSession, "set charset utf8mb4")
	add("set-autocommit-off", clsSession, "set autocommit = 0")
	add("set-autocommit-on", clsSession, "set autocommit = 1")
	add("set-transaction-read-only", clsSession, "set transaction read only")
	add("set-transaction-read-write", clsSession, "set session transaction read write")
	add("set-transaction-isolation", clsSession, "set transaction isolation level serializable")
	add("set-mixed", clsSession, "set @v = 2, session sql_select_limit = 8")
	add("use-other", clsSession, "use wdb")
	add("use-same", clsSession, "use mydb")
	add("begin", clsSession, "begin")
	add("start-transaction", clsSession, "start transaction")
	add("start-transaction-read-only", clsSession, "start transaction read only")
	add("start-transaction-read-write", clsSession, "start transaction read write")
	add("commit", clsSession, "commit")
	add("rollback", clsSession, "rollback")
	addX(stmt{ID: "savepoint", Class: clsSession, SQL: "savepoint sp1", Unsup: true})
	addX(stmt{ID: "rollback-to-savepoint", Class: clsSession, SQL: "rollback to savepoint sp1", Pre: []string{"savepoint sp1"}, Unsup: true})
	addX(stmt{ID: "release-savepoint", Class: clsSession, SQL: "release savepoint sp1", Pre: []string{"savepoint sp1"}, Unsup: true})
	add("prepare-select", clsSession, "prepare s1 from 'select * from t'")
	add("prepare-insert", clsSession, "prepare s1 from 'insert into t values (7,70,''n'')'")
	add("prepare-ddl", clsSession, "prepare s1 from 'create table nt (a int)'")
	add("deallocate-prepare", clsSession, "deallocate prepare s1", "prepare s1 from 'select 1'")
	add("execute-prepared-select", clsRead, "execute s1", "prepare s1 from 'select * from t order by a'")
	add("execute-prepared-select-using", clsRead, "execute s1 using @x", "set @x = 1", "prepare s1 from 'select * from t where a > ? order by a'")
	add("execute-prepared-show", clsRead, "execute s1", "prepare s1 from 'show tables'")
	add("execute-prepared-call-read", clsRead, "execute s1", "prepare s1 from 'call pr()'")

	// ---- CALL of read-only procedures ---------------------------------------------------------
	add("call-read-procedure", clsRead, "call pr()")
	add("call-read-procedure-if", clsRead, "call pwif(0)")
	add("call-read-procedure-cursor", clsRead, "call prcur()")
	add("call-external-declared-readonly", clsRead, "call memory_inout_add_readonly(@a, 2)", "set @a = 1")
	add("call-external-undeclared", clsFree, "call memory_inout_add(@a, 2)", "set @a = 1")

	// ---- SHOW / DESCRIBE / EXPLAIN --------------------------------------------------------
	for _, q := range []struct{ id, sql string }{
		{"show-tables", "show tables"},
		{"show-full-tables", "show full tables"},
		{"show-tables-from", "show tables from wdb"},
		{"show-tables-like", "show tables like 'd%'"},
		{"show-tables-where", "show full tables where table_type = 'VIEW'"},
		{"show-table-status", "show table status"},
		{"show-table-status-like", "show table status from mydb like 't'"},
		{"show-columns", "show columns from t"},
		{"show-full-columns", "show full columns from ix"},
		{"show-fields", "show fields from u"},
		{"show-columns-view", "show columns from v1"},
		{"show-index", "show index from ix"},
		{"show-indexes", "show indexes from u"},
		{"show-keys", "show keys from t"},
		{"show-create-table", "show create table ch"},
		{"show-create-view", "show create view v1"},
		{"show-create-table-of-view", "show create table v1"},
		{"show-create-database", "show create database mydb"},
		{"show-create-schema", "show create schema wdb"},
		{"show-create-trigger", "show create trigger trg1"},
		{"show-create-procedure", "show create procedure pw"},
		{"show-create-event", "show create event ev1"},
		{"show-triggers", "show triggers"},
		{"show-triggers-from", "show triggers from mydb like 'u'"},
		{"show-events", "show events"},
		{"show-procedure-status", "show procedure status"},
		{"show-procedure-status-like", "show procedure status like 'pw%'"},
		{"show-function-status", "show function status"},
		{"show-databases", "show databases"},
		{"show-schemas", "show schemas"},
		{"show-variables", "show variables like 'max_conn%'"},
		{"show-global-variables", "show global variables like 'sql_mode'"},
		{"show-session-variables", "show session variables like 'autocommit'"},
		{"show-variables-where", "show variables where variable_name = 'version_comment'"},
		{"show-status", "show status like 'Com_select'"},
		{"show-global-status", "show global status like 'Max_used%'"},
		{"show-warnings", "show warnings"},
		{"show-warnings-limit", "show warnings limit 1"},
		{"show-collation", "show collation like 'utf8mb4_0900_b%'"},
		{"show-collation-where", "show collation where charset = 'binary'"},
		{"show-charset", "show charset like 'utf8mb4'"},
		{"show-character-set", "show character set like 'latin1'"},
		{"show-engines", "show engines"},
		{"show-plugins", "show plugins"},
		{"show-processlist", "show processlist"},
		{"show-full-processlist", "show full processlist"},
		{"show-grants", "show grants"},
		{"show-grants-for", "show grants for 'bob'@'localhost'"},
		{"show-grants-for-current-user", "show grants for current_user()"},
		{"show-privileges", "show privileges"},
		{"show-binary-log-status", "show binary log status"},
		{"show-master-status", "show master status"},
		{"show-binary-logs", "show binary logs"},
		{"show-replica-status", "show replica status"},
		{"show-slave-status", "show slave status"},
		{"describe-table", "describe t"},
		{"desc-table", "desc ix"},
		{"explain-table", "explain u"},
		{"describe-view", "describe v1"},
		{"explain-select", "explain select * from t where a = 1"},
		{"explain-format-tree", "explain format=tree select * from t join u on t.a = u.a"},
		{"explain-plan", "explain plan select b from u where b > 1"},
		{"explain-analyze", "explain analyze select * from t"},
		{"describe-select", "describe select * from t"},
		{"explain-insert", "explain insert into t values (7,70,'n')"},
		{"explain-update", "explain update t set b = 1"},
		{"explain-delete", "explain delete from t"},
	} {
		add(q.id, clsRead, q.sql)
	}

	// ---- SELECT forms ----------------------------------------------------------------------
	for _, q := range []struct{ id, sql string }{
		{"select-constant", "select 1"},
		{"select-dual", "select 1 + 1 from dual"},
		{"select-all", "select * from t"},
		{"select-where-pk", "select * from t where a = 2"},
		{"select-where-index", "select * from u where b > 100"},
		{"select-order-limit", "select a, b from t order by b desc limit 2"},
		{"select-distinct", "select distinct b from u"},
		{"select-group-by", "select b, count(*) from t group by b having count(*) > 0"},
		{"select-join", "select t.a, u.b from t join u on t.a = u.a"},
		{"select-left-join", "select t.a, u.b from t left join u on t.a = u.a"},
		{"select-cross-db-join", "select t.a, w.b from t join wdb.w w on t.a = w.a"},
		{"select-subquery", "select a from t where b > (select min(b) from t)"},
		{"select-exists", "select a from t where exists (select 1 from u where u.a = t.a)"},
		{"select-in-subquery", "select a from t where a in (select a from u)"},
		{"select-derived", "select x.a from (select a from t where a > 1) x"},
		{"select-union", "select a from t union select a from u"},
		{"select-union-all", "select a from t union all select a from u"},
		{"select-intersect", "select a from t intersect select a from u"},
		{"select-except", "select a from t except select a from u"},
		{"select-cte", "with cte as (select a from t) select * from cte"},
		{"select-recursive-cte", "with recursive r(n) as (select 1 union all select n + 1 from r where n < 3) select * from r"},
		{"select-window", "select a, row_number() over (order by a) from t"},
		{"select-view", "select * from v1"},
		{"select-json-table", "select * from json_table('[{\"x\":1},{\"x\":2}]', '$[*]' columns (x int path '$.x')) jt"},
		{"select-information-schema", "select table_name from information_schema.tables where table_schema = 'mydb'"},
		{"select-information-schema-columns", "select column_name from information_schema.columns where table_name = 'ix'"},
		{"select-mysql-user", "select user, host from mysql.user"},
		{"select-for-update", "select * from t where a = 1 for update"},
		{"select-lock-in-share-mode", "select * from t lock in share mode"},
		{"select-into-user-variable", "select b from t where a = 1 into @v"},
		{"select-into-user-variables", "select a, b into @v, @w from t order by a limit 1"},
		{"select-into-outfile", "select * from t order by a into outfile '{OUT}'"},
		{"select-into-dumpfile", "select a from t order by a limit 1 into dumpfile '{OUT}'"},
		{"select-system-variable", "select @@session.sql_select_limit, @@global.max_connections"},
		{"select-functions", "select database(), user(), current_user(), connection_id() > 0"},
		{"select-last-insert-id", "select last_insert_id(), row_count(), found_rows()"},
		{"select-get-lock", "select get_lock('c42', 0), release_lock('c42')"},
		{"select-sleep", "select sleep(0)"},
		{"table-statement", "table t"},
		{"values-statement", "values row(1,2), row(3,4)"},
	} {
		add(q.id, clsRead, q.sql)
	}
	addX(stmt{ID: "show-errors", Class: clsRead, SQL: "show errors", Unsup: true})
	addX(stmt{ID: "show-count-warnings", Class: clsRead, SQL: "show count(*) warnings", Unsup: true})
	add("signal", clsRead, "signal sqlstate '45000' set message_text = 'boom'")
	return c
}
