package c42

import (
	"fmt"
	"os"
	"path/filepath"
	"regexp"
	"sort"
	"strings"

	sqle "github.com/dolthub/go-mysql-server"
	"github.com/dolthub/go-mysql-server/memory"
	"github.com/dolthub/go-mysql-server/sql"
	"github.com/dolthub/go-mysql-server/sql/analyzer"

	"verif/mc/eng"
)

// ---- start states -------------------------------------------------------------------------

// skeleton: every object a catalogue statement refers to exists in every start state.
var skeleton = []string{
	"create table t (a int primary key, b int, c varchar(20))",
	"create table u (a int primary key, b int, key ub (b))",
	"create table ai (id int primary key auto_increment, v int)",
	"create table p (a int primary key)",
	"create table ch (a int primary key, pa int, constraint fk1 foreign key (pa) references p(a))",
	"create table chk (a int primary key, b int, constraint ck1 check (b >= 0))",
	"create table audit (n int)",
	"create table ix (a int primary key, b int, c int default 5, d int, key kb (b))",
	"create table nopk (a int not null, b int)",
	"create table dropme (a int primary key)",
	"create table dropme2 (a int primary key)",
	"create table renme (a int primary key)",
	"create view v1 as select a, b from t",
	"create view vdrop as select a from u",
	"create trigger trg1 before insert on u for each row set new.b = new.b + 0",
	"create trigger trgdrop before insert on dropme for each row set new.a = new.a + 0",
	"create procedure pw(x int) insert into t values (x, x, 'pw')",
	"create procedure pr() select count(*) from t",
	"create procedure pwif(x int) begin if x > 0 then update t set b = b + 1; else select 1; end if; end",
	"create procedure pwloop() begin declare i int default 0; while i < 2 do insert into audit values (i); set i = i + 1; end while; end",
	"create procedure prcur() begin declare n int default 0; declare done int default 0; declare cur cursor for select a from t; declare continue handler for not found set done = 1; open cur; fetch cur into n; close cur; select n; end",
	"create procedure pddl() create table made_by_proc (a int)",
	"create procedure pdrop() select 1",
	"create event ev1 on schedule every 1 day starts '2037-01-01 00:00:00' disable do insert into audit values (1)",
	"create event evdrop on schedule every 1 day starts '2037-01-01 00:00:00' disable do insert into audit values (2)",
	"create table wdb.w (a int primary key, b int)",
	"create table wdb.wdrop (a int primary key)",
	"create table dropdb.x (a int primary key)",
}

var rowsFixture = []string{
	"insert into t values (1,10,'x'),(2,20,'y'),(3,30,'z')",
	"insert into u values (1,100),(2,200),(4,400)",
	"insert into ai (v) values (11),(12)",
	"insert into p values (1),(2)",
	"insert into ch values (1,1),(2,NULL)",
	"insert into chk values (1,1)",
	"insert into ix values (1,1,1,1),(2,2,2,2)",
	"insert into nopk values (1,1),(2,2)",
	"insert into dropme values (1)",
	"insert into renme values (1)",
	"insert into wdb.w values (1,1),(2,2)",
	"insert into dropdb.x values (1)",
}

// rich: the written table additionally sits under triggers (one of them with a read-only body), is a foreign-key parent with
// cascading children, has a CHECK constraint and a secondary unique index, so that DML plans
// are wrapped in TriggerExecutor / ForeignKeyHandler nodes and reads use IndexedTableAccess.
var richFixture = []string{
	"create table tch (a int primary key, ta int, constraint fkt foreign key (ta) references t(a) on delete cascade on update cascade)",
	"insert into tch values (1,1),(2,2),(3,NULL)",
	"alter table t add constraint tpos check (a > -1000)",
	"create index tb on t (b)",
	"create trigger t_ai after insert on t for each row insert into audit values (new.a)",
	"create trigger t_au after update on t for each row insert into audit values (new.a + 1000)",
	"create trigger t_ad after delete on t for each row insert into audit values (old.a + 2000)",
	"insert into audit values (0)",
	// an AFTER trigger whose body is read-only by kind (SET @var): the TriggerExecutor root must
	// still count as a write because of the INSERT it wraps
	"create trigger p_ai after insert on p for each row set @c42 = new.a",
}

// server-level (not database-level) fixture: accounts, roles, grants.
var adminFixture = []string{
	"create user 'alice'@'localhost'",
	"create user 'bob'@'localhost'",
	"create user 'udrop'@'localhost'",
	"create user 'uren'@'localhost'",
	"create role r1",
	"create role rdrop",
	"grant select on mydb.* to 'alice'@'localhost'",
	"grant insert on mydb.t to 'bob'@'localhost'",
	"grant r1 to 'bob'@'localhost'",
}

var states = []string{"empty", "rows", "rich"}

func stateFixture(state string) []string {
	out := append([]string{}, skeleton...)
	switch state {
	case "empty":
	case "rows":
		out = append(out, rowsFixture...)
	case "rich":
		out = append(out, rowsFixture...)
		out = append(out, richFixture...)
	default:
		panic("c42: unknown state " + state)
	}
	return out
}

// ---- modes --------------------------------------------------------------------------------

const (
	modeEngineRO = "engine-read-only"
	modeLocked   = "server-locked"
	modeROTxn    = "ro-transaction"
	modeRODB     = "ro-database"
)

var modes = []string{modeEngineRO, modeLocked, modeROTxn, modeRODB}

var dbNames = []string{"mydb", "wdb", "dropdb"}

// system is one engine with the fixture and the session the statements run in.
type system struct {
	E *eng.Engine
	S *eng.Session
}

type noPersist struct{}

func (noPersist) Persist(ctx *sql.Context, data []byte) error { return nil }

func enableGrants(e *eng.Engine) {
	my := e.E.Analyzer.Catalog.MySQLDb
	my.SetPersister(noPersist{})
	my.AddRootAccount()
}

// newWritable builds a writable engine holding the start state (database part only).
func newWritable(state string) *eng.Engine {
	e := eng.New(dbNames...)
	enableGrants(e)
	s := e.NewSession("root")
	for _, q := range stateFixture(state) {
		s.MustExec(q)
	}
	return e
}

func adminSetup(e *eng.Engine) {
	s := e.NewSession("root")
	for _, q := range adminFixture {
		s.MustExec(q)
	}
}

// newTwin: the writable twin of a mode. For the read-only-transaction mode the twin runs the
// statement inside a READ WRITE transaction.
func newTwin(state, mode string) *system {
	e := newWritable(state)
	adminSetup(e)
	sys := &system{E: e, S: e.NewSession("root")}
	sys.S.Sess.SetGlobals(memory.GlobalsMap{})
	if mode == modeROTxn {
		sys.S.MustExec("start transaction read write")
	}
	return sys
}

// newReadOnly builds the system under test in the given read-only mode, holding the same state.
func newReadOnly(state, mode string) *system { return newReadOnlyOpt(state, mode, false) }

func newReadOnlyOpt(state, mode string, ownSession bool) *system {
	e := newWritable(state)
	switch mode {
	case modeEngineRO:
		adminSetup(e)
		e.E.ReadOnly.Store(true)
	case modeLocked:
		adminSetup(e)
		e.E.IsServerLocked = true
	case modeROTxn:
		adminSetup(e)
	case modeRODB:
		// the way the repository's own TestReadOnlyDatabases does it: the populated databases
		// are re-wrapped as ReadOnlyDatabase in a read-only provider of a second engine.
		// mydb and dropdb are read-only, wdb stays writable.
		var dbs []sql.Database
		for _, db := range e.DBs {
			if db.Name() == "wdb" {
				dbs = append(dbs, db)
				continue
			}
			dbs = append(dbs, memory.ReadOnlyDatabase{HistoryDatabase: &memory.HistoryDatabase{Database: db, Revisions: map[string]map[interface{}]sql.Table{}}})
		}
		pro := memory.NewDBProviderWithOpts(memory.ReadOnlyProvider(true), memory.WithDbsOption(dbs)).(*memory.DbProvider)
		// Sessions keep the provider the data was loaded through (exactly what the repository's
		// MemoryHarness ends up doing): memory.Session.CommitTransaction resolves the databases it
		// writes back to through the session's provider and does not know the ReadOnlyDatabase
		// wrapper type. mode ro-database-provider-session (ownSessionProbe) runs the other way.
		sessPro := e.Pro
		if ownSession {
			sessPro = pro
		}
		e2 := &eng.Engine{Pro: sessPro, DBs: e.DBs}
		e2.E = sqle.New(analyzer.NewDefault(pro), nil)
		enableGrants(e2)
		adminSetup(e2)
		e = e2
	default:
		panic("c42: unknown mode " + mode)
	}
	sys := &system{E: e, S: e.NewSession("root")}
	sys.S.Sess.SetGlobals(memory.GlobalsMap{})
	if mode == modeROTxn {
		sys.S.MustExec("start transaction read only")
	}
	return sys
}

// ---- full dump ----------------------------------------------------------------------------

var tsRe = regexp.MustCompile(`\d{4}-\d\d-\d\d \d\d:\d\d:\d\d(\.\d+)?`)

func maskTS(s string) string { return tsRe.ReplaceAllString(s, "<ts>") }

func rowsOf(s *eng.Session, q string) []string {
	r := s.Exec(q)
	if r.Err != nil {
		return []string{"ERR[" + eng.ErrClass(r.Err) + "] " + r.Err.Error()}
	}
	out := r.Multiset()
	for i := range out {
		out[i] = maskTS(out[i])
	}
	return out
}

// dump renders everything a "write" can change: the list of databases; per database every base
// table (DDL text, auto-increment counter, rows), view, trigger, procedure and event definition;
// accounts, role edges and grants. Timestamps are masked.
func dump(s *eng.Session) string {
	var sb strings.Builder
	section := func(title string, lines []string) {
		fmt.Fprintf(&sb, "## %s\n", title)
		for _, l := range lines {
			fmt.Fprintf(&sb, "  %s\n", l)
		}
	}
	var dbs []string
	r := s.Exec("show databases")
	for _, row := range r.Rows {
		n := fmt.Sprint(row[0])
		if n == "information_schema" || n == "mysql" {
			continue
		}
		dbs = append(dbs, n)
	}
	sort.Strings(dbs)
	section("databases", dbs)
	for _, db := range dbs {
		section("create database "+db, rowsOf(s, "show create database `"+db+"`"))
		ft := s.Exec("show full tables from `" + db + "`")
		var tables, views []string
		for _, row := range ft.Rows {
			if fmt.Sprint(row[1]) == "VIEW" {
				views = append(views, fmt.Sprint(row[0]))
			} else {
				tables = append(tables, fmt.Sprint(row[0]))
			}
		}
		sort.Strings(tables)
		sort.Strings(views)
		for _, t := range tables {
			q := "`" + db + "`.`" + t + "`"
			section("table "+q, rowsOf(s, "show create table "+q))
			section("rows "+q, rowsOf(s, "select * from "+q))
		}
		for _, v := range views {
			q := "`" + db + "`.`" + v + "`"
			cv := s.Exec("show create view " + q)
			if cv.Err != nil || len(cv.Rows) != 1 {
				section("view "+q, []string{"ERR " + fmt.Sprint(cv.Err)})
			} else {
				section("view "+q, []string{eng.FormatRow(cv.Rows[0][:2])}) // the other columns echo session charset settings
			}
		}
		section("events "+db, rowsOf(s, "select event_name, status, interval_value, interval_field, event_definition, event_comment from information_schema.events where event_schema = '"+db+"'"))
	}
	section("triggers", rowsOf(s, "select trigger_schema, trigger_name, event_manipulation, event_object_table, action_timing, action_statement from information_schema.triggers"))
	section("routines", rowsOf(s, "select routine_schema, routine_name, routine_type, routine_definition from information_schema.routines"))
	ur := s.Exec("select user, host from mysql.user")
	var users []string
	for _, row := range ur.Rows {
		users = append(users, "'"+fmt.Sprint(row[0])+"'@'"+fmt.Sprint(row[1])+"'")
	}
	sort.Strings(users)
	section("accounts", rowsOf(s, "select user, host, authentication_string, account_locked from mysql.user"))
	for _, u := range users {
		section("grants "+u, rowsOf(s, "show grants for "+u))
	}
	section("role_edges", rowsOf(s, "select * from mysql.role_edges"))
	return sb.String()
}

// ---- files for LOAD DATA / INTO OUTFILE ----------------------------------------------------

var tmpDir string
var fileSeq int

func ensureTmp() {
	if tmpDir != "" {
		return
	}
	d, err := os.MkdirTemp("", "c42-")
	if err != nil {
		panic(err)
	}
	tmpDir = d
	if err := os.WriteFile(filepath.Join(d, "in.tsv"), []byte("7\t70\tn\n8\t80\tm\n"), 0o644); err != nil {
		panic(err)
	}
}

func cleanupTmp() {
	if tmpDir != "" {
		os.RemoveAll(tmpDir)
		tmpDir = ""
	}
}

// expand replaces {IN} by the LOAD DATA input file and {OUT} by a fresh output path; it returns
// the output path (or "") so that the written file can be compared and removed.
func expand(q string) (string, string) {
	out := ""
	if strings.Contains(q, "{IN}") || strings.Contains(q, "{OUT}") {
		ensureTmp()
		q = strings.ReplaceAll(q, "{IN}", filepath.Join(tmpDir, "in.tsv"))
		if strings.Contains(q, "{OUT}") {
			fileSeq++
			out = filepath.Join(tmpDir, fmt.Sprintf("out%d", fileSeq))
			q = strings.ReplaceAll(q, "{OUT}", out)
		}
	}
	return q, out
}
