// Package c43 decides property C43: after any history of DDL, information_schema and the SHOW
// statements list exactly the objects that exist, with their current definitions. Explorer:
// hist (BFS over DDL histories on fresh engines) against a catalog model.
package c43

import (
	"encoding/json"
	"fmt"
	"runtime/debug"
	"sort"
	"strings"

	"github.com/dolthub/go-mysql-server/sql"

	"verif/mc/core"
	"verif/mc/eng"
	"verif/mc/hist"
)

// ---------------------------------------------------------------------------------------------
// alphabet

type op struct {
	Name  string // stable identifier (witnesses refer to operations by name)
	Kind  string // classifying label for signatures
	DB    string // current database of the session when the statement runs
	SQL   string
	Apply func(m *model) bool
	// Thorough: only part of the thorough alphabet
	Thorough bool
}

var tT = &mtable{Cols: []mcol{{Name: "a", Type: "int"}, {Name: "b", Type: "varchar(10)", Nullable: true}, {Name: "c", Type: "int", Nullable: true}}, PK: []string{"a"}}
var tU = &mtable{Cols: []mcol{{Name: "x", Type: "int"}, {Name: "y", Type: "int", Nullable: true}}, Indexes: []mindex{{Name: "iy", Cols: []string{"y"}}}}
var tT2 = &mtable{Cols: []mcol{{Name: "a", Type: "int"}, {Name: "c", Type: "varchar(5)", Default: "x", HasDef: true, Coll: "utf8mb4_general_ci"}}, PK: []string{"a"}}

func alphabet(thorough bool) []op {
	all := []op{
		{Name: "create-t", Kind: "create-table", DB: "db1", SQL: "create table t (a int primary key, b varchar(10), c int)", Apply: func(m *model) bool { return m.createTable("db1", "t", tT) }},
		{Name: "create-u", Kind: "create-table", DB: "db1", SQL: "create table u (x int not null, y int, key iy (y))", Apply: func(m *model) bool { return m.createTable("db1", "u", tU) }},
		{Name: "drop-t", Kind: "drop-table", DB: "db1", SQL: "drop table t", Apply: func(m *model) bool { return m.dropTable("db1", "t") }},
		{Name: "drop-u", Kind: "drop-table", DB: "db1", SQL: "drop table u", Apply: func(m *model) bool { return m.dropTable("db1", "u") }},
		{Name: "rename-t-r", Kind: "rename-table", DB: "db1", SQL: "rename table t to r", Apply: func(m *model) bool { return m.renameTable("db1", "t", "r") }},
		{Name: "rename-r-t", Kind: "rename-table", DB: "db1", SQL: "alter table r rename to t", Apply: func(m *model) bool { return m.renameTable("db1", "r", "t") }},
		{Name: "add-col-d", Kind: "add-column", DB: "db1", SQL: "alter table t add column d int not null default 5", Apply: func(m *model) bool {
			return m.addColumn("db1", "t", mcol{Name: "d", Type: "int", Default: "5", HasDef: true}, "")
		}},
		{Name: "add-col-e-first", Kind: "add-column", DB: "db1", SQL: "alter table t add column e varchar(5) first", Apply: func(m *model) bool {
			return m.addColumn("db1", "t", mcol{Name: "e", Type: "varchar(5)", Nullable: true}, "first")
		}},
		{Name: "add-col-f-after-a", Kind: "add-column", DB: "db1", SQL: "alter table t add column f int after a", Thorough: true, Apply: func(m *model) bool {
			return m.addColumn("db1", "t", mcol{Name: "f", Type: "int", Nullable: true}, "after:a")
		}},
		{Name: "drop-col-b", Kind: "drop-column", DB: "db1", SQL: "alter table t drop column b", Apply: func(m *model) bool { return m.dropColumn("db1", "t", "b") }},
		{Name: "drop-col-c", Kind: "drop-column", DB: "db1", SQL: "alter table t drop column c", Apply: func(m *model) bool { return m.dropColumn("db1", "t", "c") }},
		{Name: "modify-col-b", Kind: "modify-column", DB: "db1", SQL: "alter table t modify column b bigint not null", Apply: func(m *model) bool {
			return m.modifyColumn("db1", "t", mcol{Name: "b", Type: "bigint"})
		}},
		{Name: "rename-col-b-bb", Kind: "rename-column", DB: "db1", SQL: "alter table t rename column b to bb", Apply: func(m *model) bool { return m.renameColumn("db1", "t", "b", "bb") }},
		{Name: "add-index-ib", Kind: "add-index", DB: "db1", SQL: "alter table t add index ib (b)", Apply: func(m *model) bool { return m.addIndex("db1", "t", mindex{"ib", false, []string{"b"}}) }},
		{Name: "add-unique-ucb", Kind: "add-index", DB: "db1", SQL: "alter table t add unique index ucb (c, b)", Apply: func(m *model) bool { return m.addIndex("db1", "t", mindex{"ucb", true, []string{"c", "b"}}) }},
		{Name: "add-unique-ux", Kind: "add-index", DB: "db1", SQL: "create unique index ux on u (x)", Apply: func(m *model) bool { return m.addIndex("db1", "u", mindex{"ux", true, []string{"x"}}) }},
		{Name: "drop-index-ib", Kind: "drop-index", DB: "db1", SQL: "alter table t drop index ib", Apply: func(m *model) bool { return m.dropIndex("db1", "t", "ib") }},
		{Name: "add-pk-u", Kind: "add-primary-key", DB: "db1", SQL: "alter table u add primary key (x)", Apply: func(m *model) bool { return m.addPK("db1", "u", []string{"x"}) }},
		{Name: "drop-pk-t", Kind: "drop-primary-key", DB: "db1", SQL: "alter table t drop primary key", Apply: func(m *model) bool { return m.dropPK("db1", "t") }},
		{Name: "add-fk1", Kind: "add-foreign-key", DB: "db1", SQL: "alter table u add constraint fk1 foreign key (y) references t (a)", Apply: func(m *model) bool {
			return m.addFK("db1", "u", mfk{"fk1", []string{"y"}, "db1", "t", []string{"a"}})
		}},
		{Name: "drop-fk1", Kind: "drop-foreign-key", DB: "db1", SQL: "alter table u drop foreign key fk1", Apply: func(m *model) bool { return m.dropFK("db1", "u", "fk1") }},
		{Name: "add-check-ck1", Kind: "add-check", DB: "db1", SQL: "alter table t add constraint ck1 check (c > 0)", Apply: func(m *model) bool {
			return m.addCheck("db1", "t", mcheck{"ck1", "(`c` > 0)", []string{"c"}})
		}},
		{Name: "drop-check-ck1", Kind: "drop-check", DB: "db1", SQL: "alter table t drop check ck1", Apply: func(m *model) bool { return m.dropCheck("db1", "t", "ck1") }},
		{Name: "create-view-v", Kind: "create-view", DB: "db1", SQL: "create view v as select a, b from t", Apply: func(m *model) bool {
			return m.createView("db1", "v", mview{Def: "select a, b from t", Table: "t", Cols: []string{"a", "b"}})
		}},
		{Name: "drop-view-v", Kind: "drop-view", DB: "db1", SQL: "drop view v", Apply: func(m *model) bool { return m.dropView("db1", "v") }},
		{Name: "create-trigger-tr", Kind: "create-trigger", DB: "db1", SQL: "create trigger tr before insert on t for each row set new.c = 1", Apply: func(m *model) bool {
			return m.createTrigger("db1", "tr", mtrigger{Table: "t", Timing: "BEFORE", Event: "INSERT", Stmt: "set new.c = 1"}, []string{"c"})
		}},
		{Name: "drop-trigger-tr", Kind: "drop-trigger", DB: "db1", SQL: "drop trigger tr", Apply: func(m *model) bool { return m.dropTrigger("db1", "tr") }},
		{Name: "create-proc-p", Kind: "create-procedure", DB: "db1", SQL: "create procedure p() select 1", Apply: func(m *model) bool { return m.createProc("db1", "p", "select 1") }},
		{Name: "drop-proc-p", Kind: "drop-procedure", DB: "db1", SQL: "drop procedure p", Apply: func(m *model) bool { return m.dropProc("db1", "p") }},
		// a second procedure that names every characteristic and sorts before p in the listings
		{Name: "create-proc-a", Kind: "create-procedure-characteristics", DB: "db1", SQL: "create procedure a() modifies sql data deterministic sql security invoker comment 'c' select 3", Apply: func(m *model) bool {
			return m.createProcWith("db1", "a", mproc{Body: "select 3", DataAccess: "MODIFIES SQL DATA", Security: "INVOKER", Deterministic: "YES", Comment: "c"})
		}},
		{Name: "drop-proc-a", Kind: "drop-procedure", DB: "db1", SQL: "drop procedure a", Apply: func(m *model) bool { return m.dropProc("db1", "a") }},

		{Name: "db2:create-t", Kind: "create-table", DB: "db2", SQL: "create table t (a int, c varchar(5) collate utf8mb4_general_ci not null default 'x', primary key (a))", Apply: func(m *model) bool { return m.createTable("db2", "t", tT2) }},
		{Name: "db2:drop-t", Kind: "drop-table", DB: "db2", SQL: "drop table t", Apply: func(m *model) bool { return m.dropTable("db2", "t") }},
		{Name: "db2:add-index-ic", Kind: "add-index", DB: "db2", SQL: "alter table t add index ic (c)", Apply: func(m *model) bool { return m.addIndex("db2", "t", mindex{"ic", false, []string{"c"}}) }},
		{Name: "db2:rename-col-c-cc", Kind: "rename-column", DB: "db2", SQL: "alter table t rename column c to cc", Apply: func(m *model) bool { return m.renameColumn("db2", "t", "c", "cc") }},
		{Name: "db2:create-view-v", Kind: "create-view", DB: "db2", SQL: "create view v as select a from t", Apply: func(m *model) bool {
			return m.createView("db2", "v", mview{Def: "select a from t", Table: "t", Cols: []string{"a"}})
		}},
		{Name: "db2:create-trigger-tr", Kind: "create-trigger", DB: "db2", SQL: "create trigger tr after delete on t for each row set @x = 1", Apply: func(m *model) bool {
			return m.createTrigger("db2", "tr", mtrigger{Table: "t", Timing: "AFTER", Event: "DELETE", Stmt: "set @x = 1"}, nil)
		}},
		{Name: "db2:create-proc-p", Kind: "create-procedure", DB: "db2", SQL: "create procedure p() select 2", Apply: func(m *model) bool { return m.createProc("db2", "p", "select 2") }},
		{Name: "db2:add-fk-cross", Kind: "add-foreign-key-cross-db", DB: "db2", SQL: "alter table t add constraint fkx foreign key (a) references db1.t (a)", Thorough: true, Apply: func(m *model) bool {
			return m.addFK("db2", "t", mfk{"fkx", []string{"a"}, "db1", "t", []string{"a"}})
		}},
		{Name: "drop-db2", Kind: "drop-database", DB: "db1", SQL: "drop database db2", Apply: func(m *model) bool { return m.dropDatabase("db2") }},
		{Name: "create-db2", Kind: "create-database", DB: "db1", SQL: "create database db2", Apply: func(m *model) bool { return m.createDatabase("db2") }},
	}
	var out []op
	for _, o := range all {
		if o.Thorough && !thorough {
			continue
		}
		out = append(out, o)
	}
	return out
}

// start configurations: the catalog the histories start from (built by replaying a prefix of
// alphabet operations, so a witness is always a plain list of statements).
var startConfigs = []struct {
	Name   string
	Prefix []string
	// per tier: all histories up to Unmerged statements are run; up to Max with merging of
	// histories that reach an already seen model state; statements the model forbids are run
	// up to depth Forbidden
	Quick, Thorough struct{ Unmerged, Max, Forbidden int }
}{
	{"empty", nil, struct{ Unmerged, Max, Forbidden int }{3, 3, 2}, struct{ Unmerged, Max, Forbidden int }{4, 4, 2}},
	{"tables", []string{"create-t", "create-u", "db2:create-t"}, struct{ Unmerged, Max, Forbidden int }{2, 2, 2}, struct{ Unmerged, Max, Forbidden int }{3, 3, 2}},
	{"rich", []string{"create-t", "create-u", "db2:create-t", "add-index-ib", "add-unique-ucb", "add-fk1", "add-check-ck1", "create-view-v", "create-trigger-tr", "create-proc-p", "db2:create-view-v", "db2:add-index-ic"},
		struct{ Unmerged, Max, Forbidden int }{2, 2, 2}, struct{ Unmerged, Max, Forbidden int }{3, 3, 1}},
}

// ---------------------------------------------------------------------------------------------
// observation

// cell renders a value through its column type (enum / set values arrive as numbers in-process).
func cell(v any, t sql.Type) string {
	if v == nil {
		return "NULL"
	}
	if et, ok := t.(sql.EnumType); ok {
		switch x := v.(type) {
		case uint16:
			if s, ok := et.At(int(x)); ok {
				return s
			}
		}
	}
	if st, ok := t.(sql.SetType); ok {
		if x, ok := v.(uint64); ok {
			if s, err := st.BitsToString(x); err == nil {
				return s
			}
		}
	}
	s := eng.FormatValue(v)
	if len(s) >= 2 && strings.HasPrefix(s, "'") && strings.HasSuffix(s, "'") {
		s = s[1 : len(s)-1]
	}
	return s
}

// listing is one catalogue query with the model's expectation.
type listing struct {
	Name    string // e.g. information_schema.statistics, SHOW COLUMNS
	Object  string // "" or db.table for per-object statements
	Query   string
	Use     string   // run with this current database
	Cols    []string // projected result columns (by name, case-insensitive)
	Expect  []string // expected rows (multiset)
	WantErr bool     // the statement must fail (object does not exist)
	// Ordered: compare as sequences (ordinal order of columns)
	Ordered bool
	// Filter drops observed rows the model has no opinion about
	Filter func(cells []string) bool
	// Lines: compare the lines of a SHOW CREATE TABLE text: Expect = column lines (ordered),
	// ExpectRest = other clauses (set)
	Lines      bool
	ExpectRest []string
}

func userDB(s string) bool { return s == "db1" || s == "db2" }

func (m *model) listings() []listing {
	var ls []listing
	in := "('db1', 'db2')"
	colRows, broken := m.expectedColumns()
	ls = append(ls,
		listing{Name: "information_schema.tables", Query: "select table_schema, table_name, table_type from information_schema.tables where table_schema in " + in,
			Cols: []string{"table_schema", "table_name", "table_type"}, Expect: m.expectedTables()},
		listing{Name: "information_schema.columns", Query: "select * from information_schema.columns where table_schema in " + in,
			Cols:   []string{"table_schema", "table_name", "column_name", "ordinal_position", "column_default", "is_nullable", "data_type", "column_type", "column_key", "collation_name"},
			Expect: colRows, Filter: func(c []string) bool { return !broken[c[0]+"."+c[1]] }},
		listing{Name: "information_schema.statistics", Query: "select * from information_schema.statistics where table_schema in " + in,
			Cols: []string{"table_schema", "table_name", "index_name", "seq_in_index", "column_name", "non_unique", "nullable"}, Expect: m.expectedStatistics()},
		listing{Name: "information_schema.key_column_usage", Query: "select * from information_schema.key_column_usage where constraint_schema in " + in,
			Cols:   []string{"constraint_schema", "constraint_name", "table_schema", "table_name", "column_name", "ordinal_position", "position_in_unique_constraint", "referenced_table_schema", "referenced_table_name", "referenced_column_name"},
			Expect: m.expectedKeyColumnUsage()},
		listing{Name: "information_schema.table_constraints", Query: "select * from information_schema.table_constraints where constraint_schema in " + in,
			Cols: []string{"constraint_schema", "constraint_name", "table_schema", "table_name", "constraint_type", "enforced"}, Expect: m.expectedTableConstraints()},
		listing{Name: "information_schema.referential_constraints", Query: "select * from information_schema.referential_constraints where constraint_schema in " + in,
			Cols:   []string{"constraint_schema", "constraint_name", "unique_constraint_schema", "unique_constraint_name", "table_name", "referenced_table_name", "update_rule", "delete_rule"},
			Expect: m.expectedReferentialConstraints()},
		listing{Name: "information_schema.check_constraints", Query: "select * from information_schema.check_constraints where constraint_schema in " + in,
			Cols: []string{"constraint_schema", "constraint_name", "check_clause"}, Expect: m.expectedCheckConstraints()},
		listing{Name: "information_schema.views", Query: "select * from information_schema.views where table_schema in " + in,
			Cols: []string{"table_schema", "table_name", "view_definition"}, Expect: m.expectedViews()},
		listing{Name: "information_schema.triggers", Query: "select * from information_schema.triggers where trigger_schema in " + in,
			Cols:   []string{"trigger_schema", "trigger_name", "event_manipulation", "event_object_schema", "event_object_table", "action_timing", "action_statement"},
			Expect: m.expectedTriggers()},
		listing{Name: "information_schema.routines", Query: "select * from information_schema.routines where routine_schema in " + in,
			Cols: []string{"routine_schema", "routine_name", "routine_type", "routine_definition", "sql_data_access", "security_type", "is_deterministic", "routine_comment"}, Expect: m.expectedRoutines()},
		listing{Name: "information_schema.schemata", Query: "select schema_name from information_schema.schemata",
			Cols: []string{"schema_name"}, Expect: m.expectedSchemata(), Filter: func(c []string) bool { return userDB(c[0]) }},
		listing{Name: "SHOW DATABASES", Query: "show databases", Cols: []string{"database"}, Expect: m.expectedSchemata(), Filter: func(c []string) bool { return userDB(c[0]) }},
	)
	var procRows []string
	for _, dn := range sortedKeys(m.DBs) {
		for _, pn := range sortedKeys(m.DBs[dn].Procs) {
			procRows = append(procRows, row(dn, pn, "PROCEDURE"))
		}
	}
	ls = append(ls, listing{Name: "SHOW PROCEDURE STATUS", Query: "show procedure status", Cols: []string{"db", "name", "type"}, Expect: procRows, Filter: func(c []string) bool { return userDB(c[0]) }})

	for _, dn := range []string{"db1", "db2"} {
		d := m.DBs[dn]
		if d == nil {
			ls = append(ls, listing{Name: "SHOW TABLES", Object: dn, Query: "show tables from " + dn, WantErr: true})
			continue
		}
		var names, full, trg []string
		for _, tn := range sortedKeys(d.Tables) {
			names = append(names, tn)
			full = append(full, row(tn, "BASE TABLE"))
		}
		for _, vn := range sortedKeys(d.Views) {
			names = append(names, vn)
			full = append(full, row(vn, "VIEW"))
		}
		for _, tn := range sortedKeys(d.Triggers) {
			tr := d.Triggers[tn]
			trg = append(trg, row(tn, tr.Event, tr.Table, tr.Timing, tr.Stmt))
		}
		ls = append(ls,
			listing{Name: "SHOW TABLES", Object: dn, Query: "show tables from " + dn, Cols: []string{"tables_in_" + dn}, Expect: names},
			listing{Name: "SHOW FULL TABLES", Object: dn, Query: "show full tables from " + dn, Cols: []string{"tables_in_" + dn, "table_type"}, Expect: full},
			listing{Name: "SHOW TRIGGERS FROM", Object: dn, Query: "show triggers from " + dn, Cols: []string{"trigger", "event", "table", "timing", "statement"}, Expect: trg},
			listing{Name: "SHOW TRIGGERS", Object: dn, Use: dn, Query: "show triggers", Cols: []string{"trigger", "event", "table", "timing", "statement"}, Expect: trg},
		)
		// per object statements; universe of table/view names: t u r v
		for _, name := range []string{"t", "u", "r", "v"} {
			q := dn + "." + name
			if t := d.Tables[name]; t != nil {
				keys := t.columnKeys()
				var cols, full, idx []string
				for _, c := range t.Cols {
					cols = append(cols, row(c.Name, c.Type, yesNo(c.Nullable), keys[c.Name], defCell(c)))
					full = append(full, row(c.Name, c.Type, collCell(c), yesNo(c.Nullable), keys[c.Name], defCell(c)))
				}
				for i, c := range t.PK {
					idx = append(idx, row(name, 0, "PRIMARY", i+1, c, ""))
				}
				for _, ix := range t.Indexes {
					nu := 1
					if ix.Unique {
						nu = 0
					}
					for i, c := range ix.Cols {
						n := ""
						if col := t.col(c); col != nil && col.Nullable {
							n = "YES"
						}
						idx = append(idx, row(name, nu, ix.Name, i+1, c, n))
					}
				}
				showCols := "show columns from " + q
				if name == "u" {
					showCols = "describe " + q
				}
				cl, rest := m.expectedCreateLines(dn, name)
				ls = append(ls,
					listing{Name: "SHOW COLUMNS", Object: q, Query: showCols, Cols: []string{"field", "type", "null", "key", "default"}, Expect: cols, Ordered: true},
					listing{Name: "SHOW FULL COLUMNS", Object: q, Query: "show full columns from " + q, Cols: []string{"field", "type", "collation", "null", "key", "default"}, Expect: full, Ordered: true},
					listing{Name: "SHOW INDEXES", Object: q, Query: "show indexes from " + q, Cols: []string{"table", "non_unique", "key_name", "seq_in_index", "column_name", "null"}, Expect: idx},
					listing{Name: "SHOW CREATE TABLE", Object: q, Query: "show create table " + q, Cols: []string{"create table"}, Lines: true, Expect: cl, ExpectRest: rest},
				)
			} else if v := d.Views[name]; v != nil {
				ls = append(ls, listing{Name: "SHOW CREATE VIEW", Object: q, Query: "show create view " + q, Cols: []string{"create view"}, Expect: []string{"CREATE VIEW `" + name + "` AS " + v.Def}})
				if m.viewValid(dn, v) {
					t := d.Tables[v.Table]
					var cols []string
					for _, cn := range v.Cols {
						c := t.col(cn)
						cols = append(cols, row(c.Name, c.Type, yesNo(c.Nullable), "", defCell(*c)))
					}
					ls = append(ls, listing{Name: "SHOW COLUMNS (view)", Object: q, Query: "show columns from " + q, Cols: []string{"field", "type", "null", "key", "default"}, Expect: cols, Ordered: true})
				}
			} else {
				ls = append(ls, listing{Name: "SHOW COLUMNS (absent object)", Object: q, Query: "show columns from " + q, WantErr: true})
			}
		}
	}
	return ls
}

type mismatch struct {
	Listing  string
	Object   string
	Kind     string // missing-row | extra-row | wrong-value:<COLUMN> | order | error | listed-but-absent | missing-clause | extra-clause
	Observed string
	Expected string
}

func project(res *eng.Result, cols []string) ([][]string, error) {
	idx := make([]int, len(cols))
	for i, c := range cols {
		idx[i] = -1
		for j, sc := range res.Schema {
			if strings.EqualFold(sc.Name, c) {
				idx[i] = j
			}
		}
		if idx[i] < 0 {
			return nil, fmt.Errorf("result has no column %q", c)
		}
	}
	var out [][]string
	for _, r := range res.Rows {
		cells := make([]string, len(cols))
		for i, j := range idx {
			cells[i] = cell(r[j], res.Schema[j].Type)
		}
		out = append(out, cells)
	}
	return out, nil
}

// rowMatches compares an observed row with an expected one ("*" cells are not compared).
func splitRow(s string) []string { return strings.Split(s, " | ") }

func rowEq(obs, exp []string) bool {
	if len(obs) != len(exp) {
		return false
	}
	for i := range obs {
		if exp[i] != "*" && obs[i] != exp[i] {
			return false
		}
	}
	return true
}

func compare(l listing, s *eng.Session) []*mismatch {
	one := func(m *mismatch) []*mismatch {
		if m == nil {
			return nil
		}
		return []*mismatch{m}
	}
	if l.Use != "" {
		s.Exec("use " + l.Use)
		defer s.Exec("use db1")
	}
	res := s.Exec(l.Query)
	mm := func(kind, obs, exp string) *mismatch {
		return &mismatch{Listing: l.Name, Object: l.Object, Kind: kind, Observed: obs, Expected: exp}
	}
	if l.WantErr {
		if res.Err == nil {
			return one(mm("listed-but-absent", fmt.Sprintf("%d rows", len(res.Rows)), "an error: the object does not exist"))
		}
		return nil
	}
	if res.Panic != nil {
		return one(mm("panic", fmt.Sprintf("panic: %v", res.Panic), strings.Join(l.Expect, " ; ")))
	}
	if res.Err != nil {
		return one(mm("error", res.Err.Error(), strings.Join(l.Expect, " ; ")))
	}
	obs, err := project(res, l.Cols)
	if err != nil {
		return one(mm("error", err.Error(), ""))
	}
	if l.Lines {
		return one(compareLines(l, obs, mm))
	}
	// one mismatch per differing projected column of a row pair
	rowDiffs := func(o, e []string) []*mismatch {
		var out []*mismatch
		for i := range e {
			if i < len(o) && e[i] != "*" && o[i] != e[i] {
				out = append(out, mm("wrong-value:"+strings.ToUpper(l.Cols[i]), strings.Join(o, " | "), strings.Join(e, " | ")))
			}
		}
		return out
	}
	if l.Filter != nil {
		var f [][]string
		for _, r := range obs {
			if l.Filter(r) {
				f = append(f, r)
			}
		}
		obs = f
	}
	var exp [][]string
	for _, e := range l.Expect {
		exp = append(exp, splitRow(e))
	}
	if l.Ordered {
		for i := 0; i < len(obs) && i < len(exp); i++ {
			if !rowEq(obs[i], exp[i]) {
				return rowDiffs(obs[i], exp[i])
			}
		}
		if len(obs) < len(exp) {
			return one(mm("missing-row", "(none)", strings.Join(exp[len(obs)], " | ")))
		}
		if len(obs) > len(exp) {
			return one(mm("extra-row", strings.Join(obs[len(exp)], " | "), "(none)"))
		}
		return nil
	}
	// multiset comparison
	sortRows(obs)
	sortRows(exp)
	usedO := make([]bool, len(obs))
	var missing [][]string
	for _, e := range exp {
		found := false
		for i, o := range obs {
			if !usedO[i] && rowEq(o, e) {
				usedO[i], found = true, true
				break
			}
		}
		if !found {
			missing = append(missing, e)
		}
	}
	var extra [][]string
	for i, o := range obs {
		if !usedO[i] {
			extra = append(extra, o)
		}
	}
	switch {
	case len(missing) == 0 && len(extra) == 0:
		return nil
	case len(missing) > 0 && len(extra) > 0:
		// pair every missing row with the most similar unused extra row to name the differing
		// columns (all pairs are reported: a row with a known difference must not hide another row)
		var out []*mismatch
		usedX := make([]bool, len(extra))
		for _, ms := range missing {
			best, bestN := -1, -1
			for xi, x := range extra {
				if usedX[xi] {
					continue
				}
				n := 0
				for i := range x {
					if i < len(ms) && x[i] == ms[i] {
						n++
					}
				}
				if n > bestN {
					best, bestN = xi, n
				}
			}
			if best < 0 {
				out = append(out, mm("missing-row", "(none)", strings.Join(ms, " | ")))
				continue
			}
			usedX[best] = true
			out = append(out, rowDiffs(extra[best], ms)...)
		}
		for xi, x := range extra {
			if !usedX[xi] {
				out = append(out, mm("extra-row", strings.Join(x, " | "), "(none)"))
			}
		}
		return out
	case len(missing) > 0:
		return one(mm("missing-row", "(none)", strings.Join(missing[0], " | ")))
	default:
		return one(mm("extra-row", strings.Join(extra[0], " | "), "(none)"))
	}
}

func sortRows(r [][]string) {
	sort.Slice(r, func(i, j int) bool { return strings.Join(r[i], "\x00") < strings.Join(r[j], "\x00") })
}

func compareLines(l listing, obs [][]string, mm func(kind, obs, exp string) *mismatch) *mismatch {
	if len(obs) != 1 {
		return mm("error", fmt.Sprintf("%d rows", len(obs)), "one row")
	}
	var cols, rest []string
	for _, line := range strings.Split(obs[0][0], "\n") {
		t := strings.TrimSuffix(strings.TrimSpace(line), ",")
		switch {
		case strings.HasPrefix(t, "CREATE TABLE"), strings.HasPrefix(t, ")"):
		case strings.HasPrefix(t, "`"):
			cols = append(cols, t)
		default:
			rest = append(rest, t)
		}
	}
	for i := 0; i < len(cols) && i < len(l.Expect); i++ {
		if cols[i] != l.Expect[i] {
			return mm("wrong-column-clause", cols[i], l.Expect[i])
		}
	}
	if len(cols) < len(l.Expect) {
		return mm("missing-clause:column", "(none)", l.Expect[len(cols)])
	}
	if len(cols) > len(l.Expect) {
		return mm("extra-clause:column", cols[len(l.Expect)], "(none)")
	}
	sort.Strings(rest)
	have := map[string]int{}
	for _, r := range rest {
		have[r]++
	}
	for _, e := range l.ExpectRest {
		if have[e] == 0 {
			return mm("missing-clause:"+clauseKind(e), strings.Join(rest, " ; "), e)
		}
		have[e]--
	}
	for _, r := range rest {
		if have[r] > 0 {
			return mm("extra-clause:"+clauseKind(r), r, strings.Join(l.ExpectRest, " ; "))
		}
	}
	return nil
}

func clauseKind(l string) string {
	switch {
	case strings.HasPrefix(l, "PRIMARY KEY"):
		return "primary-key"
	case strings.HasPrefix(l, "UNIQUE KEY"), strings.HasPrefix(l, "KEY"):
		return "key"
	case strings.Contains(l, "FOREIGN KEY"):
		return "foreign-key"
	case strings.Contains(l, "CHECK"):
		return "check"
	}
	return "other"
}

// ---------------------------------------------------------------------------------------------
// stepping

type stepper struct {
	r   *core.Run
	ops []op
	// prefix: operations that build the start configuration (replayed before every history)
	prefix []op
	start  string
	// minimal failing histories found so far, per listing/kind (a later history that contains
	// one of them as a subsequence is attributed to it without being minimised again)
	minimal map[string][][]op
	// run operations the model forbids only up to this depth (they cannot change the state)
	forbiddenDepth int
}

type stepResult struct {
	Model     *model // model after the history (nil if the history is invalid)
	Outcome   string // applied | rejected-by-engine | forbidden-and-rejected | forbidden-but-accepted | panic
	Mismatch  []*mismatch
	LastKind  string
	Statement string
}

func newEngine() *eng.Session {
	e := eng.New("db1", "db2")
	e.E.Analyzer.Catalog.MySQLDb.AddRootAccount()
	return e.NewSession("root")
}

// runHistory replays ops on a fresh engine and a fresh model; the oracle is applied after the
// last operation only.
func runHistory(ops []op) stepResult {
	s := newEngine()
	m := newModel()
	var out stepResult
	cur := ""
	for i, o := range ops {
		var res *eng.Result
		if o.DB != cur {
			if ru := s.Exec("use " + o.DB); ru.Err != nil {
				// the database does not exist: the statement cannot run there
				res = ru
			} else {
				cur = o.DB
			}
		}
		next := m.clone()
		allowed := o.Apply(next)
		if res == nil {
			res = s.Exec(o.SQL)
		}
		last := i == len(ops)-1
		switch {
		case res.Err == nil && allowed:
			m = next
			if last {
				out.Outcome = "applied"
			}
		case res.Err != nil && allowed:
			if last {
				out.Outcome = "rejected-by-engine:" + eng.ErrClass(res.Err)
			}
		case res.Err != nil && !allowed:
			if last {
				out.Outcome = "forbidden-and-rejected"
			}
		default:
			if last {
				out.Outcome = "forbidden-but-accepted"
			}
			// the model cannot say what the state is now
			out.Model = nil
			out.Statement = o.SQL
			out.LastKind = o.Kind
			return out
		}
		if last {
			out.LastKind = o.Kind
			out.Statement = o.SQL
		}
	}
	out.Model = m
	s.Exec("use db1")
	for _, l := range m.listings() {
		out.Mismatch = append(out.Mismatch, compare(l, s)...)
	}
	return out
}

type witness struct {
	History []string `json:"history"` // operation names
	SQL     []string `json:"sql"`     // "db: statement"
}

func (st *stepper) byName(names []string) []op {
	var out []op
	for _, n := range names {
		for _, o := range st.ops {
			if o.Name == n {
				out = append(out, o)
			}
		}
	}
	return out
}

func mkWitness(ops []op) witness {
	var w witness
	for _, o := range ops {
		w.History = append(w.History, o.Name)
		w.SQL = append(w.SQL, o.DB+": "+o.SQL)
	}
	return w
}

func sameMismatch(a, b *mismatch) bool {
	return a.Listing == b.Listing && a.Kind == b.Kind
}

// minimiseHistory drops earlier operations while the last step still shows the same mismatch.
func minimiseHistory(ops []op, mm *mismatch) []op {
	for changed := true; changed; {
		changed = false
		for i := len(ops) - 2; i >= 0; i-- {
			cand := append(append([]op{}, ops[:i]...), ops[i+1:]...)
			res := runHistory(cand)
			if res.Model == nil || !strings.HasPrefix(res.Outcome, "applied") && !strings.HasPrefix(res.Outcome, "rejected") && !strings.HasPrefix(res.Outcome, "forbidden-and-rejected") {
				continue
			}
			ok := false
			for _, x := range res.Mismatch {
				if sameMismatch(x, mm) {
					ok = true
				}
			}
			if ok {
				ops, changed = cand, true
				break
			}
		}
	}
	return ops
}

// report turns the mismatches of a history into violations (one per listing x kind).
func (st *stepper) report(ops []op, res stepResult, minimise bool) {
	seen := map[string]bool{}
	for _, mm := range res.Mismatch {
		k := mm.Listing + "/" + mm.Kind
		if seen[k] {
			continue
		}
		seen[k] = true
		hops, m2 := ops, mm
		if cached := st.cachedMinimal(k, ops); cached != nil && minimise {
			hops = cached
			m2 = &mismatch{Listing: mm.Listing, Kind: mm.Kind, Observed: "(same as the minimal history)", Expected: ""}
		} else if minimise {
			hops = minimiseHistory(ops, mm)
			if st.minimal == nil {
				st.minimal = map[string][][]op{}
			}
			st.minimal[k] = append(st.minimal[k], hops)
			if len(hops) != len(ops) {
				for _, x := range runHistory(hops).Mismatch {
					if sameMismatch(x, mm) {
						m2 = x
						break
					}
				}
			}
		}
		var kinds []string
		for _, o := range hops {
			kinds = append(kinds, o.Kind)
		}
		st.r.Violate(core.Violation{
			Check: m2.Listing, Clause: "equals-catalog-model", Kind: m2.Kind,
			Subject:  map[string]string{"history": strings.Join(kinds, ",")},
			Witness:  core.J(mkWitness(hops)),
			Observed: m2.Observed + "   [" + m2.Listing + " " + m2.Object + "]", Expected: m2.Expected,
		})
	}
}

func (st *stepper) cachedMinimal(k string, ops []op) []op {
	for _, mh := range st.minimal[k] {
		i := 0
		for _, o := range ops {
			if i < len(mh) && o.Name == mh[i].Name {
				i++
			}
		}
		if i == len(mh) {
			return mh
		}
	}
	return nil
}

func (st *stepper) Step(h []int) (string, bool) {
	ops := append([]op{}, st.prefix...)
	for _, x := range h {
		ops = append(ops, st.ops[x])
	}
	// cheap pre-pass on the model alone: is the last operation allowed?
	m := newModel()
	for i, o := range ops {
		n := m.clone()
		if o.Apply(n) {
			m = n
		} else if i < len(st.prefix) {
			panic("start configuration " + st.start + ": operation " + o.Name + " is not allowed")
		} else if i < len(ops)-1 {
			// an earlier forbidden operation: this history was not expanded
			return hist.Disabled, false
		} else if len(h) > st.forbiddenDepth {
			return hist.Disabled, false
		}
	}
	res := runHistory(ops)
	// a history shorter than the shard prefix (2) is run by several workers: count it only in
	// the worker for which the explorer counts it (owner of the prefix [h0, 0])
	counted := len(h) >= 2 || st.r.Mine(int64(h[0]*len(st.ops)))
	if counted {
		st.r.Outcome(res.LastKind + ":" + res.Outcome)
		st.r.Count("steps_executed_"+st.start, 1)
	}
	if res.Model == nil {
		st.r.Violate(core.Violation{Check: "DDL outcome", Clause: "model-can-follow", Kind: "statement-accepted-on-missing-or-duplicate-object",
			Subject: map[string]string{"history": res.LastKind}, Witness: core.J(mkWitness(ops)), Observed: "accepted: " + res.Statement, Expected: "an error (the object it names does not exist / already exists)"})
		return "", false
	}
	if res.Outcome == "applied" && counted {
		st.r.NonTrivial(st.start + fmt.Sprint(h))
		if st.r.WantSample() && len(h) >= 2 && len(res.Mismatch) == 0 {
			st.r.Sample(map[string]any{"history": mkWitness(ops).SQL, "model_after": strings.Split(strings.TrimSpace(res.Model.canonical()), "\n"), "listings_compared": len(res.Model.listings()), "mismatches": len(res.Mismatch)})
		}
	}
	if counted {
		st.r.Count("listings_compared", int64(len(res.Model.listings())))
	}
	if len(res.Mismatch) > 0 {
		st.report(ops, res, true)
	}
	if res.Outcome != "applied" {
		// state unchanged: nothing new below
		return res.Model.canonical(), false
	}
	return res.Model.canonical(), true
}

func init() {
	core.Register(&core.Prop{
		ID:    "C43",
		Level: "model_checking",
		Rule: "BFS over DDL histories on a fresh two-database engine (hist explorer), each history replayed and, after its LAST statement, every catalogue listing compared with a catalog model (nested maps with MySQL's DDL semantics): " +
			"information_schema.tables, columns, statistics, key_column_usage, table_constraints, referential_constraints, check_constraints, views, triggers, routines, schemata; SHOW DATABASES, SHOW [FULL] TABLES, SHOW [FULL] COLUMNS / DESCRIBE (tables and valid views), SHOW INDEXES, SHOW CREATE TABLE (column clauses in order, key/constraint clauses as a set), SHOW CREATE VIEW, SHOW TRIGGERS, SHOW PROCEDURE STATUS, and SHOW COLUMNS must fail for every name of the universe that does not exist; " +
			"projected to names, ordinal positions, types, collations, nullability, defaults, key membership (COLUMN_KEY rule), index columns and uniqueness, constraint membership and referenced objects, definitions. " +
			"Alphabet (39 statements quick / 41 thorough): create/drop/rename table, add (last/first/after)/drop/modify/rename column, add/drop index and unique index, add/drop primary key, add/drop foreign key (incl. cross-database), add/drop check, create/drop view/trigger/procedure in db1 and db2 (a second procedure in db1 names every characteristic: data access, determinism, security, comment), drop/create database. " +
			"A statement the engine rejects leaves the model unchanged (the listings must then still equal it); a statement the model forbids (names a missing or duplicate object) is run as the last statement of histories up to length 2 and must leave the listings unchanged. " +
			"Three start catalogs, each built by replaying alphabet statements: empty; tables (db1.t, db1.u, db2.t); rich (the tables plus index, unique index, foreign key, check, view, trigger, procedure, db2 view and index). " +
			"Quick: every history of <= 3 statements from empty and <= 2 from tables and rich. Thorough: every history of <= 4 / 3 / 3 statements. No merging inside these bounds (state key = canonical model, used for the state count). " +
			"The exploration continues below a mismatching state (the model still defines the state); failing histories are minimised by dropping earlier statements, later histories containing a minimal failing one are attributed to it. non-trivial = the last statement was applied (engine and model both changed)",
		Assumptions: []string{
			"the engine runs with the root account enabled (without any account the privilege set is nil and information_schema.views/triggers/routines list nothing)",
			"columns of a view whose table or columns no longer exist are not compared (MySQL keeps the creation-time columns, the engine re-derives them)",
			"a statement rejected by the engine is outside the domain: the model is left unchanged",
		},
		Run: func(r *core.Run) {
			debug.SetGCPercent(400)
			ops := alphabet(r.Thorough())
			r.Info("alphabet", len(ops))
			minimal := map[string][][]op{}
			for _, sc := range startConfigs {
				b := sc.Quick
				if r.Thorough() {
					b = sc.Thorough
				}
				st := &stepper{r: r, ops: ops, start: sc.Name, forbiddenDepth: b.Forbidden, minimal: minimal}
				st.prefix = st.byName(sc.Prefix)
				r.Info("depth_unmerged_"+sc.Name, b.Unmerged)
				r.Info("depth_merged_"+sc.Name, b.Max)
				r.Info("start_"+sc.Name, sc.Prefix)
				hist.Explore(r, hist.Config{NOps: len(ops), MaxDepth: b.Max, UnmergedDepth: b.Unmerged, Step: st.Step, Label: func(i int) string { return sc.Name + "+" + ops[i].Name }})
			}
		},
		Replay: func(r *core.Run, w json.RawMessage) {
			var wt witness
			if json.Unmarshal(w, &wt) != nil {
				return
			}
			st := &stepper{r: r, ops: alphabet(true)}
			ops := st.byName(wt.History)
			res := runHistory(ops)
			if res.Model == nil {
				st.r.Violate(core.Violation{Check: "DDL outcome", Clause: "model-can-follow", Kind: "statement-accepted-on-missing-or-duplicate-object",
					Subject: map[string]string{"history": res.LastKind}, Witness: core.J(mkWitness(ops)), Observed: "accepted: " + res.Statement})
				return
			}
			st.report(ops, res, false)
		},
	})
}
