package c43

import (
	"fmt"
	"sort"
	"strings"
)

// ---------------------------------------------------------------------------------------------
// The catalog model: nested maps database -> tables / views / triggers / procedures, with MySQL's
// DDL semantics for the operations of the alphabet.

type mcol struct {
	Name     string
	Type     string // column type text as MySQL prints it: int, bigint, varchar(10)
	Nullable bool
	Default  string // "" = none, else the default's text (5, x)
	HasDef   bool
	Coll     string // explicit collation of a text column ("" = the table default)
}

type mindex struct {
	Name   string
	Unique bool
	Cols   []string
}

type mfk struct {
	Name     string
	Cols     []string
	RefDB    string
	RefTable string
	RefCols  []string
}

type mcheck struct {
	Name   string
	Clause string // as information_schema prints it
	Cols   []string
}

type mtable struct {
	Cols    []mcol
	PK      []string
	Indexes []mindex
	FKs     []mfk
	Checks  []mcheck
}

type mview struct {
	Def   string // text after AS
	Table string // referenced table (same database)
	Cols  []string
}

type mtrigger struct {
	Table, Timing, Event, Stmt string
}

type mproc struct {
	Body string
	// characteristics as information_schema.routines reports them
	DataAccess, Security, Deterministic, Comment string
}

type mdb struct {
	Tables   map[string]*mtable
	Views    map[string]*mview
	Triggers map[string]*mtrigger
	Procs    map[string]*mproc
}

type model struct {
	DBs map[string]*mdb
}

func newDB() *mdb {
	return &mdb{Tables: map[string]*mtable{}, Views: map[string]*mview{}, Triggers: map[string]*mtrigger{}, Procs: map[string]*mproc{}}
}

func newModel() *model {
	return &model{DBs: map[string]*mdb{"db1": newDB(), "db2": newDB()}}
}

func (t *mtable) clone() *mtable {
	n := &mtable{Cols: append([]mcol{}, t.Cols...), PK: append([]string{}, t.PK...)}
	for _, i := range t.Indexes {
		n.Indexes = append(n.Indexes, mindex{i.Name, i.Unique, append([]string{}, i.Cols...)})
	}
	for _, f := range t.FKs {
		n.FKs = append(n.FKs, mfk{f.Name, append([]string{}, f.Cols...), f.RefDB, f.RefTable, append([]string{}, f.RefCols...)})
	}
	for _, c := range t.Checks {
		n.Checks = append(n.Checks, mcheck{c.Name, c.Clause, append([]string{}, c.Cols...)})
	}
	return n
}

func (m *model) clone() *model {
	n := &model{DBs: map[string]*mdb{}}
	for dn, d := range m.DBs {
		nd := newDB()
		for k, t := range d.Tables {
			nd.Tables[k] = t.clone()
		}
		for k, v := range d.Views {
			c := *v
			c.Cols = append([]string{}, v.Cols...)
			nd.Views[k] = &c
		}
		for k, v := range d.Triggers {
			c := *v
			nd.Triggers[k] = &c
		}
		for k, v := range d.Procs {
			c := *v
			nd.Procs[k] = &c
		}
		n.DBs[dn] = nd
	}
	return n
}

func (t *mtable) col(name string) *mcol {
	for i := range t.Cols {
		if t.Cols[i].Name == name {
			return &t.Cols[i]
		}
	}
	return nil
}

func (t *mtable) index(name string) int {
	for i := range t.Indexes {
		if t.Indexes[i].Name == name {
			return i
		}
	}
	return -1
}

func contains(l []string, s string) bool {
	for _, x := range l {
		if x == s {
			return true
		}
	}
	return false
}

func remove(l []string, s string) []string {
	var out []string
	for _, x := range l {
		if x != s {
			out = append(out, x)
		}
	}
	return out
}

func replaceIn(l []string, from, to string) {
	for i := range l {
		if l[i] == from {
			l[i] = to
		}
	}
}

func hasPrefix(l, p []string) bool {
	if len(p) > len(l) {
		return false
	}
	for i := range p {
		if l[i] != p[i] {
			return false
		}
	}
	return true
}

// nameTaken: tables and views share a namespace.
func (d *mdb) nameTaken(n string) bool {
	_, t := d.Tables[n]
	_, v := d.Views[n]
	return t || v
}

// ---- operations on the model. Each returns false when the statement must fail (precondition on
// the existence of the objects it names); the model is then unchanged.

func (m *model) createTable(db, name string, t *mtable) bool {
	d := m.DBs[db]
	if d == nil || d.nameTaken(name) {
		return false
	}
	d.Tables[name] = t.clone()
	return true
}

func (m *model) dropTable(db, name string) bool {
	d := m.DBs[db]
	if d == nil || d.Tables[name] == nil {
		return false
	}
	delete(d.Tables, name)
	for tn, tr := range d.Triggers {
		if tr.Table == name {
			delete(d.Triggers, tn)
		}
	}
	return true
}

func (m *model) renameTable(db, from, to string) bool {
	d := m.DBs[db]
	if d == nil || d.Tables[from] == nil || d.nameTaken(to) {
		return false
	}
	d.Tables[to] = d.Tables[from]
	delete(d.Tables, from)
	for _, tr := range d.Triggers {
		if tr.Table == from {
			tr.Table = to
		}
	}
	for dn, od := range m.DBs {
		_ = dn
		for _, t := range od.Tables {
			for i := range t.FKs {
				if t.FKs[i].RefDB == db && t.FKs[i].RefTable == from {
					t.FKs[i].RefTable = to
				}
			}
		}
	}
	return true
}

func (m *model) table(db, name string) *mtable {
	if d := m.DBs[db]; d != nil {
		return d.Tables[name]
	}
	return nil
}

// position: "" = last, "first", or "after:<col>"
func (m *model) addColumn(db, tn string, c mcol, position string) bool {
	t := m.table(db, tn)
	if t == nil || t.col(c.Name) != nil {
		return false
	}
	switch {
	case position == "first":
		t.Cols = append([]mcol{c}, t.Cols...)
	case strings.HasPrefix(position, "after:"):
		after := strings.TrimPrefix(position, "after:")
		idx := -1
		for i := range t.Cols {
			if t.Cols[i].Name == after {
				idx = i
			}
		}
		if idx < 0 {
			return false
		}
		nc := append([]mcol{}, t.Cols[:idx+1]...)
		nc = append(nc, c)
		t.Cols = append(nc, t.Cols[idx+1:]...)
	default:
		t.Cols = append(t.Cols, c)
	}
	return true
}

func (m *model) dropColumn(db, tn, cn string) bool {
	t := m.table(db, tn)
	if t == nil || t.col(cn) == nil || len(t.Cols) == 1 {
		return false
	}
	var nc []mcol
	for _, c := range t.Cols {
		if c.Name != cn {
			nc = append(nc, c)
		}
	}
	t.Cols = nc
	t.PK = remove(t.PK, cn)
	var ni []mindex
	for _, ix := range t.Indexes {
		ix.Cols = remove(ix.Cols, cn)
		if len(ix.Cols) > 0 {
			ni = append(ni, ix)
		}
	}
	t.Indexes = ni
	// a CHECK constraint that refers only to the dropped column is dropped with it (MySQL
	// rejects the statement when the constraint also refers to other columns)
	var nch []mcheck
	for _, c := range t.Checks {
		if !(len(c.Cols) == 1 && c.Cols[0] == cn) {
			nch = append(nch, c)
		}
	}
	t.Checks = nch
	return true
}

func (m *model) modifyColumn(db, tn string, c mcol) bool {
	t := m.table(db, tn)
	if t == nil || t.col(c.Name) == nil {
		return false
	}
	*t.col(c.Name) = c
	return true
}

func (m *model) renameColumn(db, tn, from, to string) bool {
	t := m.table(db, tn)
	if t == nil || t.col(from) == nil || t.col(to) != nil {
		return false
	}
	t.col(from).Name = to
	replaceIn(t.PK, from, to)
	for i := range t.Indexes {
		replaceIn(t.Indexes[i].Cols, from, to)
	}
	for i := range t.FKs {
		replaceIn(t.FKs[i].Cols, from, to)
	}
	for _, od := range m.DBs {
		for _, ot := range od.Tables {
			for i := range ot.FKs {
				if ot.FKs[i].RefDB == db && ot.FKs[i].RefTable == tn {
					replaceIn(ot.FKs[i].RefCols, from, to)
				}
			}
		}
	}
	return true
}

func (m *model) addIndex(db, tn string, ix mindex) bool {
	t := m.table(db, tn)
	if t == nil || t.index(ix.Name) >= 0 {
		return false
	}
	for _, c := range ix.Cols {
		if t.col(c) == nil {
			return false
		}
	}
	t.Indexes = append(t.Indexes, mindex{ix.Name, ix.Unique, append([]string{}, ix.Cols...)})
	return true
}

func (m *model) dropIndex(db, tn, name string) bool {
	t := m.table(db, tn)
	if t == nil || t.index(name) < 0 {
		return false
	}
	i := t.index(name)
	t.Indexes = append(t.Indexes[:i], t.Indexes[i+1:]...)
	return true
}

func (m *model) addPK(db, tn string, cols []string) bool {
	t := m.table(db, tn)
	if t == nil || len(t.PK) > 0 {
		return false
	}
	for _, c := range cols {
		if t.col(c) == nil {
			return false
		}
	}
	t.PK = append([]string{}, cols...)
	for _, c := range cols {
		t.col(c).Nullable = false
	}
	return true
}

func (m *model) dropPK(db, tn string) bool {
	t := m.table(db, tn)
	if t == nil || len(t.PK) == 0 {
		return false
	}
	t.PK = nil
	return true
}

func (m *model) addFK(db, tn string, fk mfk) bool {
	t := m.table(db, tn)
	p := m.table(fk.RefDB, fk.RefTable)
	if t == nil || p == nil {
		return false
	}
	for _, f := range t.FKs {
		if f.Name == fk.Name {
			return false
		}
	}
	for _, c := range fk.Cols {
		if t.col(c) == nil {
			return false
		}
	}
	for _, c := range fk.RefCols {
		if p.col(c) == nil {
			return false
		}
	}
	t.FKs = append(t.FKs, fk)
	// MySQL creates an index named after the constraint when no usable index exists
	usable := hasPrefix(t.PK, fk.Cols)
	for _, ix := range t.Indexes {
		usable = usable || hasPrefix(ix.Cols, fk.Cols)
	}
	if !usable {
		t.Indexes = append(t.Indexes, mindex{fk.Name, false, append([]string{}, fk.Cols...)})
	}
	return true
}

func (m *model) dropFK(db, tn, name string) bool {
	t := m.table(db, tn)
	if t == nil {
		return false
	}
	for i, f := range t.FKs {
		if f.Name == name {
			t.FKs = append(t.FKs[:i], t.FKs[i+1:]...)
			return true
		}
	}
	return false
}

func (m *model) addCheck(db, tn string, c mcheck) bool {
	t := m.table(db, tn)
	if t == nil {
		return false
	}
	for _, col := range c.Cols {
		if t.col(col) == nil {
			return false
		}
	}
	for _, od := range m.DBs[db].Tables { // check names are per schema
		for _, oc := range od.Checks {
			if oc.Name == c.Name {
				return false
			}
		}
	}
	t.Checks = append(t.Checks, c)
	return true
}

func (m *model) dropCheck(db, tn, name string) bool {
	t := m.table(db, tn)
	if t == nil {
		return false
	}
	for i, c := range t.Checks {
		if c.Name == name {
			t.Checks = append(t.Checks[:i], t.Checks[i+1:]...)
			return true
		}
	}
	return false
}

func (m *model) createView(db, name string, v mview) bool {
	d := m.DBs[db]
	if d == nil || d.nameTaken(name) {
		return false
	}
	t := d.Tables[v.Table]
	if t == nil {
		return false
	}
	for _, c := range v.Cols {
		if t.col(c) == nil {
			return false
		}
	}
	d.Views[name] = &v
	return true
}

func (m *model) dropView(db, name string) bool {
	d := m.DBs[db]
	if d == nil || d.Views[name] == nil {
		return false
	}
	delete(d.Views, name)
	return true
}

func (m *model) createTrigger(db, name string, tr mtrigger, cols []string) bool {
	d := m.DBs[db]
	if d == nil || d.Triggers[name] != nil || d.Tables[tr.Table] == nil {
		return false
	}
	for _, c := range cols {
		if d.Tables[tr.Table].col(c) == nil {
			return false
		}
	}
	d.Triggers[name] = &tr
	return true
}

func (m *model) dropTrigger(db, name string) bool {
	d := m.DBs[db]
	if d == nil || d.Triggers[name] == nil {
		return false
	}
	delete(d.Triggers, name)
	return true
}

func (m *model) createProc(db, name, body string) bool {
	return m.createProcWith(db, name, mproc{Body: body, DataAccess: "CONTAINS SQL", Security: "DEFINER", Deterministic: "NO"})
}

func (m *model) createProcWith(db, name string, p mproc) bool {
	d := m.DBs[db]
	if d == nil || d.Procs[name] != nil {
		return false
	}
	d.Procs[name] = &p
	return true
}

func (m *model) dropProc(db, name string) bool {
	d := m.DBs[db]
	if d == nil || d.Procs[name] == nil {
		return false
	}
	delete(d.Procs, name)
	return true
}

func (m *model) dropDatabase(db string) bool {
	if m.DBs[db] == nil {
		return false
	}
	delete(m.DBs, db)
	return true
}

func (m *model) createDatabase(db string) bool {
	if m.DBs[db] != nil {
		return false
	}
	m.DBs[db] = newDB()
	return true
}

// viewValid: the view's table and columns still exist.
func (m *model) viewValid(db string, v *mview) bool {
	t := m.table(db, v.Table)
	if t == nil {
		return false
	}
	for _, c := range v.Cols {
		if t.col(c) == nil {
			return false
		}
	}
	return true
}

// ---------------------------------------------------------------------------------------------
// expected listings

func sortedKeys[V any](m map[string]V) []string {
	var ks []string
	for k := range m {
		ks = append(ks, k)
	}
	sort.Strings(ks)
	return ks
}

func row(cells ...any) string {
	parts := make([]string, len(cells))
	for i, c := range cells {
		switch x := c.(type) {
		case nil:
			parts[i] = "NULL"
		case string:
			parts[i] = x
		default:
			parts[i] = fmt.Sprint(x)
		}
	}
	return strings.Join(parts, " | ")
}

func yesNo(b bool) string {
	if b {
		return "YES"
	}
	return "NO"
}

func dataType(colType string) string {
	if i := strings.Index(colType, "("); i >= 0 {
		return colType[:i]
	}
	return colType
}

// columnKey implements MySQL's rule for COLUMN_KEY / SHOW COLUMNS Key.
func (t *mtable) columnKeys() map[string]string {
	keys := map[string]string{}
	for _, c := range t.PK {
		keys[c] = "PRI"
	}
	hasPK := len(t.PK) > 0
	for _, c := range t.Cols {
		if keys[c.Name] != "" {
			continue
		}
		k := ""
		for _, ix := range t.Indexes {
			if len(ix.Cols) == 0 || ix.Cols[0] != c.Name {
				continue
			}
			if ix.Unique && len(ix.Cols) == 1 {
				k = "UNI"
			} else if k == "" {
				k = "MUL"
			}
		}
		if k == "UNI" && !c.Nullable && !hasPK {
			k = "PRI"
			hasPK = true
		}
		keys[c.Name] = k
	}
	return keys
}

const defaultCollation = "utf8mb4_0900_bin"

// collCell: the collation a listing must show for the column (NULL for non-text types).
func collCell(c mcol) any {
	if !strings.HasPrefix(c.Type, "varchar") && !strings.HasPrefix(c.Type, "char") && !strings.Contains(c.Type, "text") {
		return nil
	}
	if c.Coll != "" {
		return c.Coll
	}
	return defaultCollation
}

func defCell(c mcol) any {
	if !c.HasDef {
		return nil
	}
	return c.Default
}

// columnsRows: information_schema.columns projection for a table or valid view.
func (m *model) expectedColumns() (rows []string, brokenViews map[string]bool) {
	brokenViews = map[string]bool{}
	for _, dn := range sortedKeys(m.DBs) {
		d := m.DBs[dn]
		for _, tn := range sortedKeys(d.Tables) {
			t := d.Tables[tn]
			keys := t.columnKeys()
			for i, c := range t.Cols {
				rows = append(rows, row(dn, tn, c.Name, i+1, defCell(c), yesNo(c.Nullable), dataType(c.Type), c.Type, keys[c.Name], collCell(c)))
			}
		}
		for _, vn := range sortedKeys(d.Views) {
			v := d.Views[vn]
			if !m.viewValid(dn, v) {
				brokenViews[dn+"."+vn] = true
				continue
			}
			t := d.Tables[v.Table]
			for i, cn := range v.Cols {
				c := t.col(cn)
				rows = append(rows, row(dn, vn, c.Name, i+1, defCell(*c), yesNo(c.Nullable), dataType(c.Type), c.Type, "", collCell(*c)))
			}
		}
	}
	return
}

func (m *model) expectedTables() (rows []string) {
	for _, dn := range sortedKeys(m.DBs) {
		d := m.DBs[dn]
		for _, tn := range sortedKeys(d.Tables) {
			rows = append(rows, row(dn, tn, "BASE TABLE"))
		}
		for _, vn := range sortedKeys(d.Views) {
			rows = append(rows, row(dn, vn, "VIEW"))
		}
	}
	return
}

func (m *model) expectedStatistics() (rows []string) {
	for _, dn := range sortedKeys(m.DBs) {
		d := m.DBs[dn]
		for _, tn := range sortedKeys(d.Tables) {
			t := d.Tables[tn]
			for i, c := range t.PK {
				rows = append(rows, row(dn, tn, "PRIMARY", i+1, c, 0, ""))
			}
			for _, ix := range t.Indexes {
				nu := 1
				if ix.Unique {
					nu = 0
				}
				for i, c := range ix.Cols {
					n := ""
					if col := t.col(c); col != nil && col.Nullable {
						n = "YES"
					}
					rows = append(rows, row(dn, tn, ix.Name, i+1, c, nu, n))
				}
			}
		}
	}
	return
}

func (m *model) expectedKeyColumnUsage() (rows []string) {
	for _, dn := range sortedKeys(m.DBs) {
		d := m.DBs[dn]
		for _, tn := range sortedKeys(d.Tables) {
			t := d.Tables[tn]
			for i, c := range t.PK {
				rows = append(rows, row(dn, "PRIMARY", dn, tn, c, i+1, nil, nil, nil, nil))
			}
			for _, ix := range t.Indexes {
				if !ix.Unique {
					continue
				}
				for i, c := range ix.Cols {
					rows = append(rows, row(dn, ix.Name, dn, tn, c, i+1, nil, nil, nil, nil))
				}
			}
			for _, fk := range t.FKs {
				for i, c := range fk.Cols {
					rows = append(rows, row(dn, fk.Name, dn, tn, c, i+1, i+1, fk.RefDB, fk.RefTable, fk.RefCols[i]))
				}
			}
		}
	}
	return
}

func (m *model) expectedTableConstraints() (rows []string) {
	for _, dn := range sortedKeys(m.DBs) {
		d := m.DBs[dn]
		for _, tn := range sortedKeys(d.Tables) {
			t := d.Tables[tn]
			if len(t.PK) > 0 {
				rows = append(rows, row(dn, "PRIMARY", dn, tn, "PRIMARY KEY", "YES"))
			}
			for _, ix := range t.Indexes {
				if ix.Unique {
					rows = append(rows, row(dn, ix.Name, dn, tn, "UNIQUE", "YES"))
				}
			}
			for _, fk := range t.FKs {
				rows = append(rows, row(dn, fk.Name, dn, tn, "FOREIGN KEY", "YES"))
			}
			for _, c := range t.Checks {
				rows = append(rows, row(dn, c.Name, dn, tn, "CHECK", "YES"))
			}
		}
	}
	return
}

// the unique constraint a foreign key refers to: PRIMARY / a unique index on exactly the
// referenced columns; "*" (not compared) when the parent has none.
func (m *model) uniqueConstraintName(fk mfk) string {
	p := m.table(fk.RefDB, fk.RefTable)
	if p == nil {
		return "*"
	}
	if len(p.PK) > 0 && hasPrefix(p.PK, fk.RefCols) && len(p.PK) == len(fk.RefCols) {
		return "PRIMARY"
	}
	for _, ix := range p.Indexes {
		if ix.Unique && len(ix.Cols) == len(fk.RefCols) && hasPrefix(ix.Cols, fk.RefCols) {
			return ix.Name
		}
	}
	return "*"
}

func (m *model) expectedReferentialConstraints() (rows []string) {
	for _, dn := range sortedKeys(m.DBs) {
		d := m.DBs[dn]
		for _, tn := range sortedKeys(d.Tables) {
			for _, fk := range d.Tables[tn].FKs {
				rows = append(rows, row(dn, fk.Name, fk.RefDB, m.uniqueConstraintName(fk), tn, fk.RefTable, "NO ACTION", "NO ACTION"))
			}
		}
	}
	return
}

func (m *model) expectedCheckConstraints() (rows []string) {
	for _, dn := range sortedKeys(m.DBs) {
		d := m.DBs[dn]
		for _, tn := range sortedKeys(d.Tables) {
			for _, c := range d.Tables[tn].Checks {
				rows = append(rows, row(dn, c.Name, c.Clause))
			}
		}
	}
	return
}

func (m *model) expectedViews() (rows []string) {
	for _, dn := range sortedKeys(m.DBs) {
		for _, vn := range sortedKeys(m.DBs[dn].Views) {
			rows = append(rows, row(dn, vn, m.DBs[dn].Views[vn].Def))
		}
	}
	return
}

func (m *model) expectedTriggers() (rows []string) {
	for _, dn := range sortedKeys(m.DBs) {
		for _, tn := range sortedKeys(m.DBs[dn].Triggers) {
			tr := m.DBs[dn].Triggers[tn]
			rows = append(rows, row(dn, tn, tr.Event, dn, tr.Table, tr.Timing, tr.Stmt))
		}
	}
	return
}

func (m *model) expectedRoutines() (rows []string) {
	for _, dn := range sortedKeys(m.DBs) {
		for _, pn := range sortedKeys(m.DBs[dn].Procs) {
			p := m.DBs[dn].Procs[pn]
			rows = append(rows, row(dn, pn, "PROCEDURE", p.Body, p.DataAccess, p.Security, p.Deterministic, p.Comment))
		}
	}
	return
}

func (m *model) expectedSchemata() (rows []string) {
	for _, dn := range sortedKeys(m.DBs) {
		rows = append(rows, row(dn))
	}
	return
}

func quoteList(cols []string) string {
	q := make([]string, len(cols))
	for i, c := range cols {
		q[i] = "`" + c + "`"
	}
	return strings.Join(q, ",")
}

// expectedCreateLines: the clauses SHOW CREATE TABLE must print (without trailing commas): the
// column lines in order, then the key / constraint lines (compared as a set).
func (m *model) expectedCreateLines(db, tn string) (cols []string, rest []string) {
	t := m.table(db, tn)
	for _, c := range t.Cols {
		l := "`" + c.Name + "` " + c.Type
		if c.Coll != "" {
			l += " COLLATE " + c.Coll
		}
		if !c.Nullable {
			l += " NOT NULL"
		}
		if c.HasDef {
			l += " DEFAULT '" + c.Default + "'"
		}
		cols = append(cols, l)
	}
	if len(t.PK) > 0 {
		rest = append(rest, "PRIMARY KEY ("+quoteList(t.PK)+")")
	}
	for _, ix := range t.Indexes {
		u := ""
		if ix.Unique {
			u = "UNIQUE "
		}
		rest = append(rest, u+"KEY `"+ix.Name+"` ("+quoteList(ix.Cols)+")")
	}
	for _, fk := range t.FKs {
		ref := "`" + fk.RefTable + "`"
		if fk.RefDB != db {
			ref = "`" + fk.RefDB + "`." + ref
		}
		rest = append(rest, "CONSTRAINT `"+fk.Name+"` FOREIGN KEY ("+quoteList(fk.Cols)+") REFERENCES "+ref+" ("+quoteList(fk.RefCols)+")")
	}
	for _, c := range t.Checks {
		rest = append(rest, "CONSTRAINT `"+c.Name+"` CHECK ("+c.Clause+")")
	}
	sort.Strings(rest)
	return
}

// canonical renders the whole model (the state key of the exploration).
func (m *model) canonical() string {
	var sb strings.Builder
	for _, dn := range sortedKeys(m.DBs) {
		d := m.DBs[dn]
		fmt.Fprintf(&sb, "DB %s\n", dn)
		for _, tn := range sortedKeys(d.Tables) {
			c, r := m.expectedCreateLines(dn, tn)
			fmt.Fprintf(&sb, " T %s: %s ; %s\n", tn, strings.Join(c, ", "), strings.Join(r, ", "))
			// index order matters for later operations only through names: already in r
		}
		for _, vn := range sortedKeys(d.Views) {
			fmt.Fprintf(&sb, " V %s: %s\n", vn, d.Views[vn].Def)
		}
		for _, tn := range sortedKeys(d.Triggers) {
			fmt.Fprintf(&sb, " R %s: %+v\n", tn, *d.Triggers[tn])
		}
		for _, pn := range sortedKeys(d.Procs) {
			fmt.Fprintf(&sb, " P %s\n", pn)
		}
	}
	return sb.String()
}
