package c43

import "testing"

func BenchmarkStep(b *testing.B) {
	ops := alphabet(false)
	st := &stepper{ops: ops}
	h := st.byName(startConfigs[2].Prefix)
	for i := 0; i < b.N; i++ {
		runHistory(h)
	}
}
