package c43

import (
	"fmt"
	"os"
	"strings"
	"testing"

	"verif/mc/eng"
)

// dev aid: C43_SQL="stmt1;;stmt2" go test -run TestScratch -v
func TestScratch(t *testing.T) {
	src := os.Getenv("C43_SQL")
	if src == "" {
		t.Skip()
	}
	e := eng.New("db1", "db2")
	e.E.Analyzer.Catalog.MySQLDb.AddRootAccount()
	s := e.NewSession("root")
	for _, q := range strings.Split(src, ";;") {
		q = strings.TrimSpace(q)
		if q == "" {
			continue
		}
		r := s.Exec(q)
		fmt.Println(">>", q)
		if r.Err != nil {
			fmt.Println("   ERR", eng.ErrClass(r.Err), r.Err)
			continue
		}
		var names []string
		for _, c := range r.Schema {
			names = append(names, c.Name)
		}
		fmt.Println("   ", strings.Join(names, " | "))
		for _, row := range r.RowStrings() {
			fmt.Println("   ", row)
		}
	}
}
