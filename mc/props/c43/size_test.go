package c43

import (
	"fmt"
	"testing"
)

// model-only upper bound of the number of histories the explorer executes
func TestSizes(t *testing.T) {
	for _, thorough := range []bool{false, true} {
		ops := alphabet(thorough)
		st := &stepper{ops: ops}
		total := 0
		for _, sc := range startConfigs {
			b := sc.Quick
			if thorough {
				b = sc.Thorough
			}
			m := newModel()
			for _, o := range st.byName(sc.Prefix) {
				o.Apply(m)
			}
			frontier := []*model{m}
			seen := map[string]bool{}
			n := 0
			for d := 1; d <= b.Max; d++ {
				var next []*model
				for _, fm := range frontier {
					for _, o := range ops {
						c := fm.clone()
						if o.Apply(c) {
							n++
							k := c.canonical()
							if d > b.Unmerged && seen[k] {
								continue
							}
							seen[k] = true
							next = append(next, c)
						} else if d <= b.Forbidden {
							n++
						}
					}
				}
				frontier = next
				fmt.Printf("thorough=%v %s depth %d: cumulative %d frontier %d\n", thorough, sc.Name, d, n, len(frontier))
			}
			total += n
		}
		fmt.Println("thorough", thorough, "total", total)
	}
}
