// Package c44: system and user variables store and scope values correctly.
//
// Part A (bounded-exhaustive enumeration): every variable of the system variable table x
// {SET SESSION, SET GLOBAL, SET PERSIST} x a per-kind value alphabet built from the variable's
// declared bounds / member list; user variables x typed literals.
// Part B (model checking, hist explorer): histories of SET SESSION / SET GLOBAL / DEFAULT /
// invalid SET / new session over two sessions and a third one created late, compared step by step
// with a reference model of scoping.
package c44

import (
	"encoding/json"
	"fmt"
	"os"
	"strings"

	"github.com/dolthub/go-mysql-server/memory"
	"github.com/dolthub/go-mysql-server/sql"

	"verif/mc/core"
	"verif/mc/eng"
)

type setCase struct {
	Var   string `json:"var"`
	Scope string `json:"scope"`
	Form  string `json:"form,omitempty"`
	Lit   string `json:"value"`
	Class string `json:"value_class"`
}

// setForm: one spelling of the assignment target and the scope it means.
type setForm struct {
	Name  string // "" = the scope keyword itself
	Scope string // SESSION | GLOBAL | PERSIST | PERSIST_ONLY
	Tmpl  string // statement with %s = variable name, %s = value
}

var keywordForms = []setForm{
	{"", "SESSION", "set SESSION %s = %s"},
	{"", "GLOBAL", "set GLOBAL %s = %s"},
	{"", "PERSIST", "set PERSIST %s = %s"},
}

// thorough: the other spellings MySQL documents for the same three scopes, and PERSIST_ONLY
var spelledForms = []setForm{
	{"implicit", "SESSION", "set %s = %s"},
	{"local-keyword", "SESSION", "set LOCAL %s = %s"},
	{"@@session.", "SESSION", "set @@session.%s = %s"},
	{"@@local.", "SESSION", "set @@local.%s = %s"},
	{"@@", "SESSION", "set @@%s = %s"},
	{"@@global.", "GLOBAL", "set @@global.%s = %s"},
	{"@@persist.", "PERSIST", "set @@persist.%s = %s"},
	{"persist_only-keyword", "PERSIST_ONLY", "set PERSIST_ONLY %s = %s"},
}

func newSession(e *eng.Engine) *eng.Session {
	s := e.NewSession("root")
	s.Sess.SetGlobals(memory.GlobalsMap{}) // persisted-globals store (nil by default: see persistProbe)
	return s
}

// reading: what one session sees of one variable.
type reading struct {
	Global, Session       string // canonical value, or "ERR:<msg class>"
	GlobalGo, SessionGo   string // Go type of the returned value
	GlobalErr, SessionErr bool
}

func read1(s *eng.Session, expr string) (val, gotype string, isErr bool) {
	r := s.Exec("select " + expr)
	if r.Err != nil || len(r.Rows) != 1 || len(r.Rows[0]) != 1 {
		cl := "no-row"
		if r.Err != nil {
			cl = errKind(r.Err)
		}
		if r.Panic != nil {
			cl = "panic"
		}
		return "ERR:" + cl, "", true
	}
	return eng.FormatValue(r.Rows[0][0]), fmt.Sprintf("%T", r.Rows[0][0]), false
}

func errKind(err error) string {
	switch {
	case err == nil:
		return "ok"
	case sql.ErrInvalidSystemVariableValue.Is(err):
		return "invalid-value"
	case sql.ErrSystemVariableReadOnly.Is(err):
		return "read-only"
	case sql.ErrSystemVariableGlobalOnly.Is(err):
		return "global-only"
	case sql.ErrSystemVariableSessionOnly.Is(err):
		return "session-only"
	case sql.ErrUnknownSystemVariable.Is(err):
		return "unknown-variable"
	}
	return eng.ErrClass(err)
}

func readVar(s *eng.Session, v sysVar) (rd reading) {
	name := "`" + v.Name + "`"
	if strings.Contains(v.Name, ".") {
		name = v.Name
	}
	rd.Global, rd.GlobalGo, rd.GlobalErr = read1(s, "@@global."+name)
	rd.Session, rd.SessionGo, rd.SessionErr = read1(s, "@@session."+name)
	return
}

// persisted renders the persisted value of a variable; SET-typed variables are persisted as their
// bit field, which is rendered as the member list like the global value is.
func persisted(s *eng.Session, name string) string {
	v, _ := s.Sess.GetPersistedValue(name)
	if v == nil {
		return "(none)"
	}
	if bits, ok := v.(uint64); ok {
		if sv, _, ok := sql.SystemVariables.GetGlobal(name); ok && sv != nil {
			if st, ok := sv.GetType().(sql.SetType); ok {
				if str, err := st.BitsToString(bits); err == nil {
					return eng.FormatValue(str)
				}
			}
		}
	}
	return eng.FormatValue(v)
}

// checkSet runs one (variable, scope, value) case on a fresh engine.
func checkSet(r *core.Run, v sysVar, form setForm, vc valCase) {
	scope := form.Scope
	c := setCase{Var: v.Name, Scope: scope, Form: form.Name, Lit: vc.Lit, Class: vc.Class}
	e := eng.New()
	a, b := newSession(e), newSession(e)
	volatile := v.ValueFunc
	beforeA, beforeB := readVar(a, v), readVar(b, v)
	persBefore := persisted(a, v.Name)

	stmt := fmt.Sprintf(form.Tmpl, v.Name, vc.Lit)
	res := a.Exec(stmt)
	afterA, afterB := readVar(a, v), readVar(b, v)
	cSess := newSession(e)
	afterC := readVar(cSess, v)
	persAfter := persisted(a, v.Name)

	scopeExp := scopeAllows(v, scope)
	exp := combine(scopeExp, vc.Expect)
	// subject: only the coordinates of the root cause a clause can have. Value validation does not
	// depend on the scope keyword, scoping does not depend on the kind or the value.
	viol := func(clause, kind, observed, expected string, coords ...string) {
		m := map[string]string{}
		if special[v.Name] {
			m["variable"] = v.Name
		}
		for i := 0; i+1 < len(coords); i += 2 {
			m[coords[i]] = coords[i+1]
		}
		if form.Name != "" {
			m["form"] = form.Name
		}
		if m["changed"] == "persisted-value" {
			delete(m, "variable") // PERSIST stores before anything is validated, whatever the variable
		}
		if kind == "valid-value-rejected" && strings.Contains(v.Name, ".") && errKind(res.Err) == "unknown-variable" {
			m = map[string]string{"name": "contains-a-dot"} // the name is not even resolved: kind and value play no role
		}
		r.Violate(core.Violation{Check: "set-system-variable", Clause: clause, Kind: kind, Subject: m, Witness: core.J(c), Observed: observed, Expected: expected})
	}
	valueCoords := []string{"vartype", v.Info.Kind, "value", vc.Class}
	scopeCoords := []string{"set_scope", scope, "var_scope", scopeClass(v)}
	outcome := "rejected:" + errKind(res.Err)
	if res.Err == nil {
		outcome = "accepted"
	}
	r.Outcome(fmt.Sprintf("%s/%s/%s/%s", v.Info.Kind, scope, []string{"either", "must-reject", "must-accept"}[exp+1], outcome))
	if exp == mustAccept || (exp == either && res.Err == nil) {
		r.NonTrivial(v.Name + "|" + scope + form.Name + "|" + vc.Lit)
	}

	if res.Panic != nil {
		viol("no-panic", "panic", fmt.Sprint(res.Panic), "a result or an error", "frame", topFrame(res.Stack))
		return
	}
	if res.Err != nil && eng.ErrClass(res.Err) == "unsupported" {
		// e.g. SET PERSIST v = DEFAULT: outside the engine's domain; it must still have no effect
		r.Count("skipped_unsupported", 1)
		exp = either
	}
	if volatile {
		// the value is computed on every read: only the outcome can be judged
		if res.Err == nil && exp == mustReject {
			viol("restrictions-honoured", "computed-variable-assigned", "accepted", "error (the variable has a value function and is read-only)", scopeCoords...)
		}
		return
	}
	switch {
	case exp == mustAccept && res.Err != nil:
		viol("valid-accepted", "valid-value-rejected", "ERR["+errKind(res.Err)+"] "+res.Err.Error(), "accepted, value "+vc.Conv, append(valueCoords, "error", errKind(res.Err))...)
	case exp == mustReject && res.Err == nil:
		if scopeExp == mustReject {
			viol("invalid-rejected", "restriction-ignored", "accepted; now global="+afterA.Global+" session="+afterA.Session, "error", scopeCoords...)
		} else {
			viol("invalid-rejected", "invalid-value-accepted", "accepted; now global="+afterA.Global+" session="+afterA.Session, "error", valueCoords...)
		}
	}

	if res.Err != nil {
		// rejected => no effect anywhere
		if afterA != beforeA || afterB != beforeB || persAfter != persBefore {
			changed := "other-session"
			switch {
			case persAfter != persBefore:
				changed = "persisted-value"
			case afterA.Global != beforeA.Global:
				changed = "global-value"
			case afterA.Session != beforeA.Session:
				changed = "session-value"
			}
			viol("rejected-without-effect", "value-changed-by-rejected-set",
				fmt.Sprintf("setting session: global=%s session=%s persisted=%s; other session: global=%s session=%s", afterA.Global, afterA.Session, persAfter, afterB.Global, afterB.Session),
				fmt.Sprintf("unchanged: global=%s session=%s persisted=%s", beforeA.Global, beforeA.Session, persBefore), "set_scope", scope, "changed", changed)
		}
		return
	}

	if scope == "PERSIST_ONLY" {
		// only the persisted store changes
		if afterA != beforeA || afterB != beforeB {
			viol("persist-only-leaves-runtime-values", "runtime-value-changed", fmt.Sprintf("global=%s session=%s", afterA.Global, afterA.Session), fmt.Sprintf("global=%s session=%s", beforeA.Global, beforeA.Session), "set_scope", scope)
		}
		if vc.Conv != "" && persAfter != vc.Conv {
			viol("persist-stores", "persisted-value-differs", persAfter, vc.Conv, "set_scope", scope)
		}
		return
	}
	// accepted: the target scope holds the converted value with the declared type
	want := vc.Conv
	targetGlobal := scope != "SESSION"
	if vc.Deflt {
		want = beforeA.Global // SESSION: the current global value; GLOBAL: the compiled default (= initial global value)
		if !targetGlobal && v.Scope != sql.SystemVariableScope_Both {
			want = beforeA.Session // session-only variable: its compiled default
		}
	}
	got, gotGo := afterA.Session, afterA.SessionGo
	if targetGlobal {
		got, gotGo = afterA.Global, afterA.GlobalGo
	}
	if want != "" && got != want {
		viol("stores-converted-value", "wrong-value", got, want, valueCoords...)
	} else if gk := goKind(v.Info.Kind); gk != "" && gotGo != gk && !strings.HasPrefix(got, "ERR:") {
		viol("stores-converted-value", "wrong-type", gotGo+" "+got, gk, append(valueCoords, "gotype", gotGo)...)
	}
	// scoping
	if !targetGlobal {
		if afterA.Global != beforeA.Global {
			viol("session-change-is-local", "global-changed-by-session-set", afterA.Global, beforeA.Global, "set_scope", scope)
		}
		if afterB != beforeB {
			viol("session-change-is-local", "other-session-changed", fmt.Sprintf("%+v", afterB), fmt.Sprintf("%+v", beforeB), "set_scope", scope)
		}
		if afterC.Session != beforeA.Global && v.Scope == sql.SystemVariableScope_Both {
			viol("new-session-takes-global", "new-session-differs-from-global", afterC.Session, beforeA.Global, "set_scope", scope)
		}
		if persAfter != persBefore {
			viol("session-change-is-local", "persisted-by-session-set", persAfter, persBefore, "set_scope", scope)
		}
	} else {
		if afterA.Session != beforeA.Session {
			viol("global-change-not-in-existing-sessions", "own-session-value-changed", afterA.Session, beforeA.Session, "set_scope", scope)
		}
		if afterB.Session != beforeB.Session {
			viol("global-change-not-in-existing-sessions", "other-session-value-changed", afterB.Session, beforeB.Session, "set_scope", scope)
		}
		if afterB.Global != afterA.Global {
			viol("global-change-visible", "other-session-sees-different-global", afterB.Global, afterA.Global, "set_scope", scope)
		}
		if v.Scope == sql.SystemVariableScope_Both && afterC.Session != afterA.Global {
			viol("new-session-takes-global", "new-session-differs-from-global", afterC.Session, afterA.Global, "set_scope", scope)
		}
		if scope == "PERSIST" {
			if persAfter != afterA.Global {
				viol("persist-stores", "persisted-value-differs", persAfter, afterA.Global, "set_scope", scope)
			}
		} else if persAfter != persBefore {
			viol("persist-stores", "persisted-by-global-set", persAfter, persBefore, "set_scope", scope)
		}
	}
	if r.WantSample() && sampleVars[v.Name] && scope == "SESSION" && (vc.Class == "max" || vc.Class == "member-last" || vc.Class == "two-members-reversed") {
		r.Sample(map[string]any{"statement": stmt, "expectation": []string{"either", "must-reject", "must-accept"}[exp+1], "outcome": outcome,
			"before": beforeA, "after_setting_session": afterA, "after_other_session": afterB, "after_new_session": afterC, "expected_value": want})
	}
}

var sampleVars = map[string]bool{"default_week_format": true, "transaction_isolation": true, "sql_mode": true}

// variables the SET code path treats by name (planbuilder/set.go, rowexec setSystemVar): a
// violation on them is classified with the variable's name
var special = map[string]bool{
	"sql_mode": true, "character_set_client": true, "character_set_connection": true, "character_set_results": true,
	"character_set_server": true, "character_set_database": true, "collation_connection": true, "collation_server": true,
	"collation_database": true, "time_zone": true, "transaction_isolation": true, "transaction_read_only": true,
	"tx_isolation": true, "tx_read_only": true, "autocommit": true, "uptime": true, "server_id": true, "server_uuid": true,
}

// the session values of these two are not stored: they are computed from the current database
// (sql.MysqlScope.GetValue), MySQL itself plans to make them read-only: outside the domain
var derived = map[string]bool{"character_set_database": true, "collation_database": true}

// checkReadScope: reading a variable through the scope it does not have must fail.
func checkReadScope(r *core.Run, v sysVar) {
	if v.Scope == sql.SystemVariableScope_Persist || v.ValueFunc {
		return
	}
	e := eng.New()
	s := newSession(e)
	rd := readVar(s, v)
	c := map[string]string{"var": v.Name, "read": "select @@global." + v.Name + ", @@session." + v.Name}
	sub := map[string]string{"var_scope": strings.TrimSuffix(scopeClass(v), "-readonly")}
	r.Outcome(fmt.Sprintf("read/%s/global-err=%v/session-err=%v", scopeClass(v), rd.GlobalErr, rd.SessionErr))
	switch v.Scope {
	case sql.SystemVariableScope_Global:
		if rd.GlobalErr {
			r.Violate(core.Violation{Check: "read-system-variable", Clause: "readable-in-own-scope", Kind: "global-read-fails", Subject: sub, Witness: core.J(c), Observed: rd.Global, Expected: "a value"})
		}
		if !rd.SessionErr {
			r.Violate(core.Violation{Check: "read-system-variable", Clause: "restrictions-honoured", Kind: "session-read-of-global-only-variable", Subject: sub, Witness: core.J(c), Observed: rd.Session, Expected: "error: the variable is a GLOBAL variable"})
		}
	case sql.SystemVariableScope_Session:
		if rd.SessionErr {
			r.Violate(core.Violation{Check: "read-system-variable", Clause: "readable-in-own-scope", Kind: "session-read-fails", Subject: sub, Witness: core.J(c), Observed: rd.Session, Expected: "a value"})
		}
		if !rd.GlobalErr {
			r.Violate(core.Violation{Check: "read-system-variable", Clause: "restrictions-honoured", Kind: "global-read-of-session-only-variable", Subject: sub, Witness: core.J(c), Observed: rd.Global, Expected: "error: the variable is a SESSION variable"})
		}
	case sql.SystemVariableScope_Both:
		if rd.GlobalErr || rd.SessionErr {
			r.Violate(core.Violation{Check: "read-system-variable", Clause: "readable-in-own-scope", Kind: "read-fails", Subject: sub, Witness: core.J(c), Observed: rd.Global + " / " + rd.Session, Expected: "values"})
		} else if rd.Global != rd.Session {
			r.Violate(core.Violation{Check: "read-system-variable", Clause: "new-session-takes-global", Kind: "new-session-differs-from-global", Subject: sub, Witness: core.J(c), Observed: rd.Session, Expected: rd.Global})
		}
	}
	if gk := goKind(v.Info.Kind); gk != "" {
		for _, x := range [][2]string{{rd.Global, rd.GlobalGo}, {rd.Session, rd.SessionGo}} {
			if !strings.HasPrefix(x[0], "ERR:") && x[1] != gk {
				sub2 := map[string]string{"vartype": v.Info.Kind, "gotype": x[1]}
				r.Violate(core.Violation{Check: "read-system-variable", Clause: "declared-type", Kind: "wrong-type", Subject: sub2, Witness: core.J(c), Observed: x[1] + " " + x[0], Expected: gk})
				break
			}
		}
	}
}

// persistProbe: SET PERSIST on a session as memory.NewSession builds it.
func persistProbe(r *core.Run) {
	e := eng.New()
	s := e.NewSession("root")
	res := s.Exec("set persist max_connections = 200")
	r.Eval()
	r.Outcome("persist-default-session/" + errKind(res.Err))
	if res.Panic != nil {
		r.Violate(core.Violation{Check: "set-system-variable", Clause: "no-panic", Kind: "panic", Subject: map[string]string{"set_scope": "PERSIST", "session": "memory.NewSession", "frame": topFrame(res.Stack)},
			Witness: core.J(map[string]string{"probe": "persist-default-session", "sql": "set persist max_connections = 200"}), Observed: fmt.Sprint(res.Panic), Expected: "a result or an error"})
	}
}

func topFrame(stack string) string {
	lines := strings.Split(stack, "\n")
	for i := 0; i+1 < len(lines); i++ {
		l := lines[i]
		if strings.HasPrefix(l, "github.com/dolthub/go-mysql-server/") && !strings.Contains(l, "verifshim") {
			f := strings.TrimPrefix(l, "github.com/dolthub/go-mysql-server/")
			if j := strings.LastIndex(f, "("); j > 0 {
				f = f[:j]
			}
			return f
		}
	}
	return "unknown"
}

func runEnum(r *core.Run) {
	eng.New()
	vars := registry()
	r.Info("system_variables", len(vars))
	byKind := map[string]int{}
	for _, v := range vars {
		k := v.Info.Kind
		if !v.Typed {
			k = "other-type"
		}
		byKind[k]++
	}
	r.Info("variables_by_kind", byKind)
	only := os.Getenv("VERIF_C44_ONLY")
	idx := int64(0)
	for _, v := range vars {
		mine := r.Mine(idx)
		idx++
		if !mine || (only != "" && !strings.Contains(","+only+",", ","+v.Name+",")) {
			continue
		}
		if r.Expired() {
			r.Capped("time budget reached in the system variable enumeration at " + v.Name)
			return
		}
		r.AnnounceCase("var " + v.Name)
		if derived[v.Name] {
			r.Count("skipped_derived_from_current_database", 1)
			continue
		}
		r.Eval()
		checkReadScope(r, v)
		forms := keywordForms
		if r.Thorough() {
			forms = append(append([]setForm{}, keywordForms...), spelledForms...)
		}
		for _, form := range forms {
			if form.Name == "@@" && strings.Contains(v.Name, ".") {
				// @@a.b is ambiguous by construction (scope.variable or a dotted name)
				r.Count("skipped_ambiguous_spelling", 1)
				continue
			}
			for _, vc := range alphabet(v) {
				r.Eval()
				checkSet(r, v, form, vc)
			}
		}
	}
}

func init() {
	core.Register(&core.Prop{
		ID:    "C44",
		Level: "model_checking",
		Rule: "Part A (enumeration): every variable of the system variable table (sql.SystemVariables, 349) x {SET SESSION, SET GLOBAL, SET PERSIST} (thorough also the spellings SET v, SET LOCAL v, SET @@session.v, @@local.v, @@v, @@global.v, @@persist.v and SET PERSIST_ONLY v) x a value alphabet by declared kind " +
			"(bool: 0/1/ON/OFF/TRUE/FALSE keywords and strings, 2, -1, '', NULL, 1.5; int/uint: declared min, max, min-1, max+1, middle, -1, 2^63, 2^64-1 (2^64), fraction, non-numeric string, NULL; double: bounds +-1; " +
			"enum: first/last member by name (other letter case) and index, index n, -1, unknown name, '', NULL; set: '', one/two members, reversed, duplicate, unknown member, bitmasks 0, 1, all, 2^n, NULL; string: own default, 'abc', '', NULL, 123; DEFAULT for all), each on a fresh engine with two sessions and a third created afterwards; " +
			"plus one read of @@global.v / @@session.v per variable (scope restriction on reads, declared Go type); user variables x 22 typed literals x {read back, other session, name case, reassignment}. " +
			"Oracle (reference written from the MySQL manual over the declared kind/bounds/scope/dynamic flag): valid => accepted and SELECT @@scope.v returns the converted value with the kind's Go type; invalid value, wrong scope or read-only variable => error and global, session, other session and persisted values unchanged; " +
			"SESSION changes invisible to the other session and the global value; GLOBAL changes leave existing sessions' values alone and are what a session created afterwards starts with; PERSIST additionally stores the value. Shapes MySQL itself treats specially (numeric strings, integral decimals, arbitrary strings for string variables) may go either way but must be consistent. " +
			"Part B (model checking, hist BFS): histories over sessions A, B and a late third session C with the operations {SET SESSION v = x, SET GLOBAL v = y, SET SESSION/GLOBAL v = DEFAULT, out-of-range SET, SET GLOBAL of a global-only variable, SET SESSION of it (scope error), SET of a session-only variable, SET GLOBAL of it (scope error), SET @u, open session C}, " +
			"quick: 18 operations (8 each for sessions A and B, C: open + SET SESSION), every history to depth 2 and per-worker merged BFS to depth 4; thorough: 27 operations (adds the scope-error and out-of-range GLOBAL operations for A and B and C's SET GLOBAL / DEFAULT / @u) to depth 4 (unmerged 3); after every step every live session's @@session / @@global values of the tracked variables and @u are compared with a reference model (global map, per-session maps copied from the global map at session creation). " +
			"non-trivial = (A) a case the reference says must be accepted, or an undetermined one that is accepted; (B) every history step",
		Assumptions: []string{
			"system variables are process-global: every case starts with eng.New(), workers are processes",
			"sessions get an empty persisted-globals store (memory.Session.SetGlobals) so that SET PERSIST can be exercised; the default nil store is probed once",
			"the declaration of a variable (kind, bounds, members, scope, dynamic, value function) is read from the registry and trusted; MySQL's own list of variables/bounds is not compared",
			"variables declared with the PERSIST pseudo scope (log_bin, log_replica_updates, log_slave_updates, server_id, server_uuid) have no defined scoping: only consistency is checked",
		},
		Run: func(r *core.Run) {
			part := os.Getenv("VERIF_C44_PART") // development filter
			if part != "" {
				r.Capped("development filter VERIF_C44_PART=" + part)
			}
			if part == "" || part == "enum" {
				runEnum(r)
				runUserVars(r)
				if r.Mine(0) {
					persistProbe(r)
				}
			}
			if part == "" || part == "hist" {
				runHist(r)
			}
		},
		Replay: func(r *core.Run, w json.RawMessage) {
			var probe struct {
				Probe string `json:"probe"`
				Var   string `json:"var"`
				Scope string `json:"scope"`
				Read  string `json:"read"`
				User  string `json:"user_literal"`
				Hist  []int  `json:"ops"`
				Alpha string `json:"alphabet"`
			}
			if json.Unmarshal(w, &probe) != nil {
				return
			}
			switch {
			case probe.Probe == "persist-default-session":
				persistProbe(r)
			case probe.Hist != nil:
				replayHist(r, probe.Alpha, probe.Hist)
			case probe.User != "":
				replayUser(r, w)
			case probe.Read != "":
				eng.New()
				for _, v := range registry() {
					if v.Name == probe.Var {
						checkReadScope(r, v)
					}
				}
			default:
				var c setCase
				if json.Unmarshal(w, &c) != nil {
					return
				}
				eng.New()
				for _, v := range registry() {
					if v.Name != c.Var {
						continue
					}
					for _, form := range append(append([]setForm{}, keywordForms...), spelledForms...) {
						if form.Scope != c.Scope || form.Name != c.Form {
							continue
						}
						for _, vc := range alphabet(v) {
							if vc.Lit == c.Lit && vc.Class == c.Class {
								checkSet(r, v, form, vc)
							}
						}
					}
				}
			}
		},
	})
}
