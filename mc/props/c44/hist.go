package c44

import (
	"fmt"
	"strings"

	"verif/mc/core"
	"verif/mc/eng"
	"verif/mc/hist"
)

// Part B: histories. Tracked variables (their declared scope is asserted at start):
const (
	vBoth    = "default_week_format" // GLOBAL+SESSION, int 0..7
	vGlobal  = "max_connections"     // GLOBAL only, int 1..100000
	vSession = "insert_id"           // SESSION only, int 0..2^63-1
)

type hop struct {
	Sess int    // 0 = A, 1 = B, 2 = C (created by opOpen)
	Kind string // classifying name
	SQL  string
}

const opOpen = "open-session-C"

func histAlphabet(thorough bool) []hop {
	var ops []hop
	for s := 0; s < 2; s++ {
		ops = append(ops,
			hop{s, "set-session", fmt.Sprintf("set session %s = %d", vBoth, 1+s)},
			hop{s, "set-global", fmt.Sprintf("set global %s = %d", vBoth, 3+s)},
			hop{s, "set-session-default", fmt.Sprintf("set session %s = default", vBoth)},
			hop{s, "set-global-of-global-only", fmt.Sprintf("set global %s = %d", vGlobal, 10*(1+s))},
		)
		{
			ops = append(ops,
				hop{s, "set-global-default", fmt.Sprintf("set global %s = default", vBoth)},
				hop{s, "set-session-out-of-range", fmt.Sprintf("set session %s = 9", vBoth)},
				hop{s, "set-session-of-session-only", fmt.Sprintf("set session %s = %d", vSession, 5+s)},
				hop{s, "set-user-variable", fmt.Sprintf("set @u = %s", []string{"'a'", "7"}[s])},
			)
		}
		if thorough {
			ops = append(ops,
				hop{s, "set-session-of-global-only", fmt.Sprintf("set session %s = 30", vGlobal)},
				hop{s, "set-global-of-session-only", fmt.Sprintf("set global %s = 8", vSession)},
				hop{s, "set-global-out-of-range", fmt.Sprintf("set global %s = -1", vBoth)},
			)
		}
	}
	ops = append(ops, hop{2, opOpen, "(open session C)"}, hop{2, "set-session", fmt.Sprintf("set session %s = 5", vBoth)})
	if thorough {
		ops = append(ops,
			hop{2, "set-global", fmt.Sprintf("set global %s = 6", vBoth)},
			hop{2, "set-session-default", fmt.Sprintf("set session %s = default", vBoth)},
			hop{2, "set-user-variable", "set @u = 2.5"},
		)
	}
	return ops
}

type msess struct{ both, sessOnly, user string }

type model struct {
	gBoth, gGlobal string
	s              [3]*msess
}

func newModel() *model {
	m := &model{gBoth: "0", gGlobal: "151"}
	m.s[0], m.s[1] = &msess{"0", "0", "NULL"}, &msess{"0", "0", "NULL"}
	return m
}

// apply updates the model with op and says whether the statement must fail.
func (m *model) apply(op hop) (mustFail bool) {
	x := m.s[op.Sess]
	val := op.SQL[strings.LastIndex(op.SQL, "= ")+2:]
	switch op.Kind {
	case opOpen:
		m.s[2] = &msess{m.gBoth, "0", "NULL"} // a new session starts from the current global values
	case "set-session":
		x.both = val
	case "set-global":
		m.gBoth = val
	case "set-session-default":
		x.both = m.gBoth // DEFAULT for a session variable = the current global value
	case "set-global-default":
		m.gBoth = "0" // DEFAULT for a global variable = the compiled default
	case "set-global-of-global-only":
		m.gGlobal = val
	case "set-session-of-session-only":
		x.sessOnly = val
	case "set-user-variable":
		x.user = val
	case "set-session-out-of-range", "set-global-out-of-range", "set-session-of-global-only", "set-global-of-session-only":
		return true
	}
	return false
}

func (m *model) expect(i int) string {
	x := m.s[i]
	return fmt.Sprintf("(%s,%s,%s,%s,%s)", x.both, m.gBoth, m.gGlobal, x.sessOnly, x.user)
}

func (m *model) key() string {
	var sb strings.Builder
	for i := 0; i < 3; i++ {
		if m.s[i] == nil {
			sb.WriteString("-;")
			continue
		}
		sb.WriteString(m.expect(i) + ";")
	}
	return sb.String()
}

var observables = []string{"@@session." + vBoth, "@@global." + vBoth, "@@global." + vGlobal, "@@session." + vSession, "@u"}

type histWitness struct {
	Alpha  string   `json:"alphabet"`
	Ops    []int    `json:"ops"`
	Labels []string `json:"labels"`
}

func histStep(r *core.Run, alphaName string, alpha []hop) func(h []int) (string, bool) {
	names := []string{"A", "B", "C"}
	return func(h []int) (string, bool) {
		// enabledness on the model first
		m := newModel()
		for _, oi := range h {
			op := alpha[oi]
			if op.Kind == opOpen {
				if m.s[2] != nil {
					return hist.Disabled, false
				}
			} else if m.s[op.Sess] == nil {
				return hist.Disabled, false
			}
			m.apply(op)
		}
		// real system
		e := eng.New()
		var ss [3]*eng.Session
		ss[0], ss[1] = newSession(e), newSession(e)
		m = newModel()
		wit := func() histWitness {
			w := histWitness{Alpha: alphaName, Ops: h}
			for _, oi := range h {
				w.Labels = append(w.Labels, names[alpha[oi].Sess]+": "+alpha[oi].SQL)
			}
			return w
		}
		var last *eng.Result
		var lastMustFail bool
		var lastOp hop
		for _, oi := range h {
			op := alpha[oi]
			lastOp = op
			lastMustFail = m.apply(op)
			if op.Kind == opOpen {
				ss[2] = newSession(e)
				last = &eng.Result{}
				continue
			}
			last = ss[op.Sess].Exec(op.SQL)
		}
		viol := func(clause, kind, observed, expected string, extra ...string) {
			sub := map[string]string{"op": lastOp.Kind}
			for i := 0; i+1 < len(extra); i += 2 {
				sub[extra[i]] = extra[i+1]
			}
			r.Violate(core.Violation{Check: "history", Clause: clause, Kind: kind, Subject: sub, Witness: core.J(wit()), Observed: observed, Expected: expected})
		}
		bad := false
		if last.Panic != nil {
			viol("no-panic", "panic", fmt.Sprint(last.Panic), "a result or an error", "frame", topFrame(last.Stack))
			bad = true
		} else if lastMustFail && last.Err == nil {
			viol("invalid-rejected", "invalid-set-accepted", "accepted", "error")
			bad = true
		} else if !lastMustFail && last.Err != nil {
			viol("valid-accepted", "valid-set-rejected", last.Err.Error(), "accepted")
			bad = true
		}
		for i := 0; i < 3; i++ {
			if ss[i] == nil {
				continue
			}
			res := ss[i].Exec("select " + strings.Join(observables, ", "))
			got := res.Summary()
			if want := m.expect(i); got != want {
				role := "other-session"
				if i == lastOp.Sess {
					role = "acting-session"
				} else if i == 2 {
					role = "late-session"
				}
				which := "result"
				if res.Err == nil && len(res.Rows) == 1 {
					ws := strings.Split(strings.Trim(want, "()"), ",")
					for k, v := range res.Rows[0] {
						if k < len(ws) && eng.FormatValue(v) != ws[k] {
							which = observables[k]
							break
						}
					}
				}
				viol("matches-scoping-model", "wrong-value", names[i]+" sees "+got, want+" = ("+strings.Join(observables, ", ")+")", "observer", role, "observable", which)
				bad = true
			}
		}
		r.NonTrivial(alphaName + fmt.Sprint(h))
		cls := "ok"
		if last.Err != nil {
			cls = "err"
		}
		r.Outcome("history/" + lastOp.Kind + "/" + cls)
		if bad {
			return m.key() + "|violation" + fmt.Sprint(h), false
		}
		return m.key(), true
	}
}

func assertDecl() {
	eng.New()
	want := map[string]string{vBoth: "both", vGlobal: "global", vSession: "session"}
	for _, v := range registry() {
		if w, ok := want[v.Name]; ok {
			if scopeClass(v) != w || v.Info.Kind != "int" {
				panic(fmt.Sprintf("c44: tracked variable %s is declared %s/%s, expected %s/int", v.Name, scopeClass(v), v.Info.Kind, w))
			}
			delete(want, v.Name)
		}
	}
	if len(want) != 0 {
		panic(fmt.Sprintf("c44: tracked variables missing from the registry: %v", want))
	}
}

func runHist(r *core.Run) {
	assertDecl()
	name, depth, unmerged := "quick", 4, 2
	if r.Thorough() {
		name, depth, unmerged = "thorough", 4, 3
	}
	alpha := histAlphabet(r.Thorough())
	r.Info("history_operations", len(alpha))
	r.Info("history_depth", depth)
	r.Info("history_unmerged_depth", unmerged)
	hist.Explore(r, hist.Config{NOps: len(alpha), MaxDepth: depth, UnmergedDepth: unmerged, Step: histStep(r, name, alpha),
		Label: func(i int) string { return []string{"A", "B", "C"}[alpha[i].Sess] + ": " + alpha[i].SQL }})
}

func replayHist(r *core.Run, alphaName string, ops []int) {
	alpha := histAlphabet(alphaName == "thorough")
	for _, i := range ops {
		if i < 0 || i >= len(alpha) {
			return
		}
	}
	histStep(r, alphaName, alpha)(ops)
}
