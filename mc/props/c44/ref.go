package c44

import (
	"fmt"
	"math"
	"sort"
	"strconv"
	"strings"

	"github.com/dolthub/go-mysql-server/sql"
)

// The reference side: what MySQL's SET semantics say for a value of a given shape assigned to a
// variable of a declared kind and declared bounds. Written from the MySQL manual ("SET Syntax for
// Variable Assignment", "Using System Variables") and the property statement, independently of
// the engine's Convert functions; the only thing taken from the engine is the *declaration*
// (kind, bounds, member list, scope, dynamic flag).

const (
	mustAccept = 1
	mustReject = 0
	either     = -1 // MySQL itself rejects or special-cases it, or the manual leaves it open: both accepted, consistency still checked
)

type valCase struct {
	Lit    string // SQL text of the right-hand side
	Class  string // classifying name of the value shape (signature coordinate)
	Expect int
	Conv   string // canonical rendering (eng.FormatValue) of the stored value when accepted; "" = not determined
	Deflt  bool   // the DEFAULT keyword: stored value = the value the fallback scope had before
}

func goKind(kind string) string {
	switch kind {
	case "bool":
		return "int8"
	case "int":
		return "int64"
	case "uint":
		return "uint64"
	case "double":
		return "float64"
	case "enum", "set", "string":
		return "string"
	}
	return ""
}

func fmtF(f float64) string {
	if f == float64(int64(f)) && f > -1e15 && f < 1e15 {
		return fmt.Sprintf("%d", int64(f))
	}
	return fmt.Sprintf("%g", f)
}

func q(s string) string { return "'" + strings.ReplaceAll(s, "'", "''") + "'" }

// alphabet: the value alphabet of a variable, by declared kind.
func alphabet(v sysVar) []valCase {
	var out []valCase
	add := func(lit, class string, expect int, conv string) {
		out = append(out, valCase{Lit: lit, Class: class, Expect: expect, Conv: conv})
	}
	out = append(out, valCase{Lit: "DEFAULT", Class: "default", Expect: mustAccept, Deflt: true})
	in := v.Info
	switch in.Kind {
	case "bool":
		add("1", "int-1", mustAccept, "1")
		add("0", "int-0", mustAccept, "0")
		add("ON", "keyword-on", mustAccept, "1")
		add("OFF", "keyword-off", mustAccept, "0")
		add("TRUE", "keyword-true", mustAccept, "1")
		add("FALSE", "keyword-false", mustAccept, "0")
		add("'on'", "string-on", mustAccept, "1")
		add("'OFF'", "string-off", mustAccept, "0")
		add("'true'", "string-true", either, "1") // MySQL looks strings up among the names OFF/ON only
		add("'False'", "string-false", either, "0")
		add("2", "int-2", mustReject, "")
		add("-1", "int-neg", mustReject, "")
		add("'maybe'", "string-other", mustReject, "")
		add("''", "string-empty", mustReject, "")
		add("NULL", "null", mustReject, "")
		add("1.5", "fraction", mustReject, "")
		add("'1'", "string-digit", either, "1") // MySQL: only ON/OFF names are looked up for strings
		add("1.0", "decimal-integral", either, "1")
	case "int":
		lo, hi := in.IntLo, in.IntHi
		inRange := func(x int64) bool { return (x >= lo && x <= hi) || (in.NegOne && x == -1) }
		addInt := func(x int64, class string) {
			if inRange(x) {
				add(strconv.FormatInt(x, 10), class, mustAccept, strconv.FormatInt(x, 10))
			} else {
				add(strconv.FormatInt(x, 10), class, mustReject, "")
			}
		}
		addInt(lo, "min")
		addInt(hi, "max")
		if lo > math.MinInt64 {
			addInt(lo-1, "min-1")
		}
		if hi < math.MaxInt64 {
			addInt(hi+1, "max+1")
		}
		if lo < hi {
			addInt(lo+(hi-lo)/2, "middle")
		}
		addInt(-1, "minus-one")
		// beyond int64: never inside a signed range
		add("9223372036854775808", "2^63", mustReject, "")
		add("18446744073709551615", "2^64-1", mustReject, "")
		add("'abc'", "string-other", mustReject, "")
		add("NULL", "null", mustReject, "")
		mid := lo + (hi-lo)/2
		if mid > -1e15 && mid < 1e15 {
			add(fmt.Sprintf("%d.5", mid), "fraction", mustReject, "")
		}
		if inRange(lo) {
			add(q(strconv.FormatInt(lo, 10)), "numeric-string", either, strconv.FormatInt(lo, 10)) // MySQL: incorrect argument type
			if lo > -1e15 && lo < 1e15 {
				add(strconv.FormatInt(lo, 10)+".0", "decimal-integral", either, strconv.FormatInt(lo, 10))
			}
		}
	case "uint":
		lo, hi := in.UintLo, in.UintHi
		addU := func(x uint64, class string) {
			if x >= lo && x <= hi {
				add(strconv.FormatUint(x, 10), class, mustAccept, strconv.FormatUint(x, 10))
			} else {
				add(strconv.FormatUint(x, 10), class, mustReject, "")
			}
		}
		addU(lo, "min")
		addU(hi, "max")
		if lo > 0 {
			addU(lo-1, "min-1")
		}
		if hi < math.MaxUint64 {
			addU(hi+1, "max+1")
		} else {
			add("18446744073709551616", "2^64", mustReject, "")
		}
		if lo < hi {
			addU(lo+(hi-lo)/2, "middle")
		}
		add("-1", "minus-one", mustReject, "")
		add("-9223372036854775808", "min-int64", mustReject, "")
		add("'abc'", "string-other", mustReject, "")
		add("NULL", "null", mustReject, "")
		if lo < 1e15 {
			add(fmt.Sprintf("%d.5", lo), "fraction", mustReject, "")
			add(q(strconv.FormatUint(lo, 10)), "numeric-string", either, strconv.FormatUint(lo, 10))
		}
	case "double":
		lo, hi := in.DblLo, in.DblHi
		addF := func(x float64, lit, class string) {
			if x >= lo && x <= hi {
				add(lit, class, mustAccept, fmtF(x))
			} else {
				add(lit, class, mustReject, "")
			}
		}
		addF(lo, strconv.FormatFloat(lo, 'g', -1, 64), "min")
		if hi < 1e300 {
			addF(hi, strconv.FormatFloat(hi, 'g', -1, 64), "max")
			addF(hi+1, strconv.FormatFloat(hi+1, 'g', -1, 64), "max+1")
		}
		addF(lo-1, strconv.FormatFloat(lo-1, 'g', -1, 64), "min-1")
		addF(lo+1.5, strconv.FormatFloat(lo+1.5, 'g', -1, 64), "fraction")
		addF(lo+2, strconv.FormatFloat(lo+2, 'f', 0, 64), "integer")
		add("'abc'", "string-other", mustReject, "")
		add("NULL", "null", mustReject, "")
		add(q(strconv.FormatFloat(lo+2, 'f', 0, 64)), "numeric-string", either, fmtF(lo+2))
	case "enum":
		n := len(in.Members)
		seen := map[string]bool{}
		for _, i := range []int{0, n - 1} {
			if i < 0 || seen[in.Members[i]] {
				continue
			}
			seen[in.Members[i]] = true
			m := in.Members[i]
			pos := "first"
			if i > 0 {
				pos = "last"
			}
			add(q(m), "member-"+pos, mustAccept, "'"+m+"'")
			if up := strings.ToUpper(m); up != m {
				add(q(up), "member-uppercase", mustAccept, "'"+m+"'")
			} else if low := strings.ToLower(m); low != m {
				add(q(low), "member-lowercase", mustAccept, "'"+m+"'")
			}
			add(strconv.Itoa(i), "index-"+pos, mustAccept, "'"+m+"'")
		}
		add(strconv.Itoa(n), "index-out-of-list", mustReject, "")
		add("-1", "index-negative", mustReject, "")
		add("'no_such_member'", "name-out-of-list", mustReject, "")
		add("''", "string-empty", mustReject, "")
		add("NULL", "null", mustReject, "")
		add("0.5", "fraction", mustReject, "")
	case "set":
		n := len(in.Members)
		canon := func(idx ...int) string {
			sort.Ints(idx)
			var parts []string
			last := -1
			for _, i := range idx {
				if i != last {
					parts = append(parts, in.Members[i])
				}
				last = i
			}
			return "'" + strings.Join(parts, ",") + "'"
		}
		add("''", "empty-list", mustAccept, "''")
		add(q(in.Members[0]), "one-member", mustAccept, canon(0))
		add(q(strings.ToLower(in.Members[0])), "one-member-lowercase", mustAccept, canon(0))
		if n > 1 {
			add(q(in.Members[0]+","+in.Members[n-1]), "two-members", mustAccept, canon(0, n-1))
			add(q(in.Members[n-1]+","+in.Members[0]), "two-members-reversed", mustAccept, canon(0, n-1))
		}
		add(q(in.Members[0]+","+in.Members[0]), "duplicate-member", mustAccept, canon(0))
		add("'no_such_member'", "name-out-of-list", mustReject, "")
		add(q(in.Members[0]+",no_such_member"), "list-with-unknown-member", mustReject, "")
		add("NULL", "null", mustReject, "")
		if v.Name == "sql_mode" {
			// numeric sql_mode values use MySQL's own bit numbering, not the declaration order
			add("0", "bitmask-zero", mustAccept, "''")
			add("1", "bitmask-one", either, "")
		} else {
			add("0", "bitmask-zero", mustAccept, "''")
			add("1", "bitmask-one", mustAccept, canon(0))
			if n < 63 {
				all := make([]int, n)
				for i := range all {
					all[i] = i
				}
				add(strconv.FormatUint(1<<uint(n)-1, 10), "bitmask-all", mustAccept, canon(all...))
				add(strconv.FormatUint(1<<uint(n), 10), "bitmask-out-of-list", mustReject, "")
			}
		}
	case "string":
		// MySQL validates many string variables semantically (character set names, time zones,
		// paths ...): an arbitrary string may legitimately be refused. The variable's own current
		// value is always a valid value.
		if d, ok := v.Default.(string); ok {
			add(q(d), "own-default", mustAccept, "'"+d+"'")
		}
		add("'abc'", "arbitrary-string", either, "'abc'")
		add("''", "string-empty", either, "''")
		add("NULL", "null", either, "")
		add("123", "integer", either, "")
	}
	if v.Name == "event_scheduler" {
		// MySQL: DISABLED can only be chosen at server start, not assigned at runtime
		for i := range out {
			if out[i].Conv == "'DISABLED'" {
				out[i].Expect = either
			}
		}
	}
	return out
}

// scopeAllows: may SET <setScope> be applied to this variable at all?
func scopeAllows(v sysVar, setScope string) int {
	if v.Scope == sql.SystemVariableScope_Persist {
		return either // declared with the PERSIST pseudo scope: meaning not defined
	}
	if setScope == "PERSIST_ONLY" {
		// meant for variables that cannot be changed at runtime; not applicable to SESSION-only ones
		if v.Scope == sql.SystemVariableScope_Session {
			return mustReject
		}
		if v.readOnly() {
			return either
		}
		return mustAccept
	}
	if v.readOnly() {
		return mustReject
	}
	switch setScope {
	case "SESSION":
		if v.Scope == sql.SystemVariableScope_Session || v.Scope == sql.SystemVariableScope_Both {
			return mustAccept
		}
	case "GLOBAL", "PERSIST":
		if v.Scope == sql.SystemVariableScope_Global || v.Scope == sql.SystemVariableScope_Both {
			return mustAccept
		}
	}
	return mustReject
}

func combine(scope, value int) int {
	if scope == mustReject || value == mustReject {
		return mustReject
	}
	if scope == either || value == either {
		return either
	}
	return mustAccept
}

func scopeClass(v sysVar) string {
	s := ""
	switch v.Scope {
	case sql.SystemVariableScope_Global:
		s = "global"
	case sql.SystemVariableScope_Session:
		s = "session"
	case sql.SystemVariableScope_Both:
		s = "both"
	default:
		s = "persist-pseudo-scope"
	}
	if v.readOnly() {
		s += "-readonly"
	}
	return s
}
