package c44

import (
	"encoding/json"
	"fmt"
	"strings"

	"verif/mc/core"
	"verif/mc/eng"
)

// user variables x typed literals. The reference is the literal itself: SELECT @v after
// SET @v = <literal> must return the value SELECT <literal> returns, in the same value class.

type userLit struct {
	Lit   string
	Class string
}

var userLits = []userLit{
	{"0", "int"}, {"1", "int"}, {"-1", "int"}, {"127", "int"}, {"128", "int"}, {"2147483648", "int"},
	{"9223372036854775807", "int"}, {"-9223372036854775808", "int"}, {"18446744073709551615", "uint64-max"},
	{"1.5", "decimal"}, {"-0.25", "decimal"}, {"12345678901234567890.123456789", "decimal-wide"},
	{"1e0", "double"}, {"1.5e300", "double"},
	{"'abc'", "string"}, {"''", "string-empty"}, {"'it''s'", "string-quote"}, {"'ÿé'", "string-non-ascii"},
	{"x'4142'", "binary"}, {"NULL", "null"}, {"TRUE", "bool"}, {"FALSE", "bool"},
}

func valueClass(v any) string {
	switch v.(type) {
	case nil:
		return "null"
	case bool, int, int8, int16, int32, int64, uint, uint8, uint16, uint32, uint64:
		return "integer"
	case float32, float64:
		return "float"
	case string, []byte:
		return "string"
	}
	s := fmt.Sprintf("%T", v)
	if strings.Contains(s, "Decimal") {
		return "decimal"
	}
	return s
}

type userCase struct {
	User  string `json:"user_literal"`
	Class string `json:"literal_class"`
}

func checkUser(r *core.Run, ul userLit) {
	c := userCase{User: ul.Lit, Class: ul.Class}
	e := eng.New()
	a, b := newSession(e), newSession(e)
	viol := func(clause, kind, observed, expected string) {
		r.Violate(core.Violation{Check: "user-variable", Clause: clause, Kind: kind, Subject: map[string]string{"literal": ul.Class}, Witness: core.J(c), Observed: observed, Expected: expected})
	}
	direct := a.Exec("select " + ul.Lit)
	if direct.Err != nil || len(direct.Rows) != 1 {
		r.Count("skipped_unsupported", 1)
		return
	}
	want, wantClass := eng.FormatValue(direct.Rows[0][0]), valueClass(direct.Rows[0][0])
	before := a.Exec("select @v, @V")
	if before.Err != nil || len(before.Rows) != 1 || before.Rows[0][0] != nil {
		viol("unset-is-null", "unset-not-null", before.Summary(), "(NULL,NULL)")
	}
	set := a.Exec("set @v = " + ul.Lit)
	if set.Panic != nil || set.Err != nil {
		viol("assignable", "set-fails", set.Summary(), "ok")
		return
	}
	r.NonTrivial("user|" + ul.Lit)
	got := a.Exec("select @v, @V")
	if got.Err != nil || len(got.Rows) != 1 {
		viol("returns-assigned-value", "read-fails", got.Summary(), want)
		return
	}
	r.Outcome("user/" + ul.Class + "/" + valueClass(got.Rows[0][0]))
	if g := eng.FormatValue(got.Rows[0][0]); g != want {
		viol("returns-assigned-value", "wrong-value", g, want)
	} else if gc := valueClass(got.Rows[0][0]); gc != wantClass {
		viol("returns-assigned-value", "wrong-type", gc+" "+g, wantClass+" "+want)
	}
	if g := eng.FormatValue(got.Rows[0][1]); g != eng.FormatValue(got.Rows[0][0]) {
		viol("names-case-insensitive", "case-variant-differs", g, eng.FormatValue(got.Rows[0][0]))
	}
	// names are case-insensitive in both directions: assigned in mixed case, read in lower/upper case
	mc := a.Exec("set @MixedCase = " + ul.Lit)
	gm := a.Exec("select @mixedcase, @MIXEDCASE")
	if mc.Err != nil || gm.Err != nil || len(gm.Rows) != 1 || eng.FormatValue(gm.Rows[0][0]) != want || eng.FormatValue(gm.Rows[0][1]) != want {
		viol("names-case-insensitive", "mixed-case-assignment-not-found", mc.Summary()+" / "+gm.Summary(), "("+want+","+want+")")
	}
	// usable in an expression: @v = literal (NULL-safe)
	eq := a.Exec("select @v <=> " + ul.Lit)
	if eq.Err != nil || len(eq.Rows) != 1 || eng.FormatValue(eq.Rows[0][0]) != "1" {
		viol("returns-assigned-value", "not-equal-to-literal", eq.Summary(), "1")
	}
	other := b.Exec("select @v")
	if other.Err != nil || len(other.Rows) != 1 || other.Rows[0][0] != nil {
		viol("session-local", "visible-in-other-session", other.Summary(), "(NULL)")
	}
	// reassignment replaces value and type; chained assignment sees the new value
	re := a.Exec("set @v = 'second', @w = @v")
	got2 := a.Exec("select @v, @w")
	if re.Err != nil || got2.Err != nil || len(got2.Rows) != 1 || eng.FormatValue(got2.Rows[0][0]) != "'second'" || eng.FormatValue(got2.Rows[0][1]) != "'second'" {
		viol("reassignment", "wrong-value-after-reassignment", re.Summary()+" / "+got2.Summary(), "('second','second')")
	}
	if r.WantSample() && (ul.Class == "uint64-max" || ul.Class == "decimal") {
		r.Sample(map[string]any{"statement": "set @v = " + ul.Lit, "select @v, @V": got.Summary(), "select <literal>": want, "class": wantClass, "other session select @v": other.Summary()})
	}
}

func runUserVars(r *core.Run) {
	r.Info("user_variable_literals", len(userLits))
	for i, ul := range userLits {
		if !r.Mine(int64(1000 + i)) {
			continue
		}
		r.Eval()
		checkUser(r, ul)
	}
}

func replayUser(r *core.Run, w json.RawMessage) {
	var c userCase
	if json.Unmarshal(w, &c) != nil {
		return
	}
	for _, ul := range userLits {
		if ul.Lit == c.User {
			checkUser(r, ul)
		}
	}
}
