package c44

import (
	"sort"

	"github.com/dolthub/go-mysql-server/sql"
	"github.com/dolthub/go-mysql-server/sql/types"
)

// sysVar is the declaration of one system variable, read from the registry.
type sysVar struct {
	Name      string
	Info      types.VerifSysTypeInfo
	Typed     bool // Info is valid
	Scope     sql.MysqlSVScopeType
	Dynamic   bool
	ValueFunc bool
	Default   any
}

func (v sysVar) readOnly() bool { return !v.Dynamic || v.ValueFunc }

// registry lists every variable of the process-global system variable table, sorted by name.
func registry() []sysVar {
	var out []sysVar
	for name := range sql.SystemVariables.GetAllGlobalVariables() {
		sv, _, ok := sql.SystemVariables.GetGlobal(name)
		if !ok || sv == nil {
			continue
		}
		m, ok := sv.(*sql.MysqlSystemVariable)
		if !ok {
			continue
		}
		v := sysVar{Name: m.Name, Scope: m.Scope.Type, Dynamic: m.Dynamic, ValueFunc: m.ValueFunction != nil, Default: m.Default}
		v.Info, v.Typed = types.VerifSystemTypeInfo(m.Type)
		out = append(out, v)
	}
	sort.Slice(out, func(i, j int) bool { return out[i].Name < out[j].Name })
	return out
}
