// Package c45 — trace redaction (sql/sqlredact) never leaks identifiers or literals.
//
// Part 1 (inputs, bounded-exhaustive): statement templates covering the identifier positions of
// the vitess grammar × identifier lexemes (unique sentinels plain / back-quoted / non-ASCII /
// digit-leading, EVERY word of the vitess keyword table in three spellings and back-quoted, all
// slots equal, mixed-case repeats) × every literal kind × every comment style at every position ×
// executable-comment wraps × truncations. Every case runs the real RedactSQLForTrace; the oracle
// is the redacted form the property prescribes, computed from the template (not from the code).
//
// Part 2 (schedules): 2–3 threads calling RedactIdent / RedactValue / Idents / Values /
// RedactSQLForTraceInto on one shared Mapping over colliding lexemes under the cooperative
// scheduler (scheduling points: the Mapping's RWMutex), ALL schedules up to a preemption bound.
package c45

import (
	"encoding/json"
	"fmt"
	"strings"

	"github.com/dolthub/vitess/go/vt/sqlparser"

	"verif/mc/core"
)

func init() {
	core.Register(&core.Prop{
		ID:    "C45",
		Level: "model_checking",
		Rule: "inputs: every case of {" + fmt.Sprint(len(templates)) + " statement templates (identifier slots labelled with their grammar position class)} x " +
			"{identifier modes: unique plain / back-quoted-with-blank / back-quoted-with-backtick / non-ASCII / digit-leading / mixed-case sentinels, all slots one lexeme, mixed-case repeats; " +
			"focus mode: one slot = EVERY word of the vitess keyword table (enumerated by sqlparser.KeywordString over the token-id range) lower/UPPER[/Capitalised: thorough] and back-quoted, others plain; all slots = one keyword} x " +
			"{literal kind: " + fmt.Sprint(len(litKinds)) + " kinds, all slots one kind and rotated; keyword cases: the template's default kinds and one rotation per case; thorough: additionally x a set of 8 kinds} x {rendering: spaced, tight, tabs/newlines} + " +
			"every comment style at every token gap + executable-comment wraps of every token / every suffix + every truncation of every template + a list of malformed inputs. " +
			"Oracle per case: parse fails <=> output is the unparseable marker (and error, empty mapping); else output == the prescribed redaction computed from the template " +
			"(structural tokens verbatim, identifiers `nK`, literals by kind, comments dropped, equal lexemes <=> equal tokens), no sentinel substring, Mapping == prescribed mapping. " +
			"An unquoted keyword counts as an identifier only if the parser's own printed AST equals that of the same case with a plain sentinel. " +
			"non-trivial = the statement parses and contains at least one identifier or literal to redact. " +
			"schedules: every scenario (2 threads x programs of <=2 ops, 3 threads x 1 op [thorough: first thread <=2 ops], ops RedactIdent/RedactValue over {a,b}, Idents, Values, RedactSQLForTraceInto over 2 statements; optional pre-populated lexeme) " +
			"run on the real shared Mapping under the cooperative scheduler, ALL schedules up to preemption bound 2 (quick) / 3 (thorough; 2 for three threads) by DFS; per execution: tokens stable per lexeme across callers, injective, dense n1..nk / v1..vk, " +
			"counters == number of distinct lexemes, snapshots are dense prefixes consistent with the final mapping, immutable and monotone in program order, redacted SQL consistent with the final mapping, " +
			"and (scenarios without SQL ops) the call/return history is linearizable w.r.t. the sequential mint-on-miss model (porcupine). non-trivial = scenario with >1 distinct outcome over its schedules",
		Assumptions: []string{
			"the vitess parser is the authority on which inputs parse and (through its printed AST) on whether an unquoted keyword was taken as a name",
			"bind placeholders (:name, ::name, ?) pass through verbatim by specification; their names are not treated as leaks",
			"scheduling points are the sync operations of go-mysql-server (import-rewritten shims: the Mapping's RWMutex); plain memory accesses between them are atomic steps (data races are outside this check); RWMutex writer preference is not modelled",
			"the parser's internal sync.Pool is not a scheduling point (vitess is not shimmed)",
		},
		GoMaxProcs:     1,
		QuickBudget:    90,
		ThoroughBudget: 900,
		Run:            run,
		Replay:         replay,
	})
}

// thoroughKinds: literal kinds crossed with every keyword case in the thorough tier.
var thoroughKinds = []string{"string-single", "string-double", "int", "float-exp", "hex-quoted", "hex-0x", "bit-quoted", "bind-positional"}

type enumerator struct {
	r    *core.Run
	n    int64
	stop bool
}

// each numbers the case and, if it belongs to this worker, builds and runs it.
func (e *enumerator) each(phase string, mk func() *CaseSpec) {
	i := e.n
	e.n++
	if e.stop || !e.r.Mine(i) {
		return
	}
	if i%256 == 0 && e.r.Expired() {
		e.r.Capped("time budget reached in phase " + phase)
		e.stop = true
		return
	}
	c := mk()
	res := runCase(e.r, c)
	e.r.Eval()
	e.r.Count("cases_"+phase, 1)
	if res.parsed {
		e.r.Count("parsed_"+phase, 1)
	}
	if res.nontrivial {
		e.r.NonTrivial(fmt.Sprintf("%s#%d", phase, i))
	}
	e.r.Outcome(firstWord(c.Tpl) + ":" + res.outcome)
	if res.nontrivial && i%50021 == 0 && e.r.WantSample() {
		e.r.Sample(map[string]any{"phase": phase, "sql": c.SQL, "expected": strings.Join(expect(c.build(tplFor(c.Tpl)), nil).toks, " ")})
	}
}

func firstWord(s string) string {
	if i := strings.IndexByte(s, ' '); i > 0 {
		return s[:i]
	}
	return s
}

func identsBy(t *template, f func(i int) IdentChoice) []IdentChoice {
	out := make([]IdentChoice, len(t.islots))
	for i := range out {
		out[i] = f(i)
	}
	return out
}

func litsSame(t *template, kind string) []string {
	out := make([]string, len(t.lslots))
	for i := range out {
		out[i] = kind
	}
	return out
}

func litsRot(t *template, r int) []string {
	out := make([]string, len(t.lslots))
	for i := range out {
		out[i] = litKinds[(r+i)%len(litKinds)].name
	}
	return out
}

// slotOccurrences counts how often each identifier slot occurs.
func slotOccurrences(t *template) []int {
	occ := make([]int, len(t.islots))
	for _, tk := range t.toks {
		if tk.kind == tkIdent {
			occ[tk.slot]++
		}
	}
	return occ
}

var malformed = []string{
	"", " ", "\n", ";", "/* xqc1 */", "-- xqc10", "select", "select 'xqv0", "select \"xqv0", "select `xq s0", "select /* xqc1 ", "select X'9A8", "select X'9A8B0",
	"select b'1012'", "select 90817a", "select 1 $ 2", "select {d 'xqv0'}", "select xqi0 from xqi1; select xqi2 from xqi3", "select xqi0 from xqi1 ; status",
	"xqi0", "status", "select * from", "select 'xqv0' from xqi0 where", "select \\", "select xqi0 from xqi1 where xqi2 = 'xqv0' and", "selec xqi0", "select ? ?",
	"select xqi0 from xqi1 where xqi0 = 90817 status status", "insert into xqi0 values ('xqv0'", "select @", "select @@", "select :", "select 1e", "select 0x", "select .", "select `` from xqi0",
	"create table xqi0 (xqi1 int, constraint status foreign key (xqi1) references", "\x00", "select '\x00xqv0'", "select xqi0\x00 from xqi1", "sélect 1", "select xqü from t",
}

func run(r *core.Run) {
	validateTemplates()
	kws := allKeywords()
	r.Info("keywords", len(kws))
	r.Info("templates", len(templates))
	r.Info("literal_kinds", len(litKinds))
	r.Info("comment_styles", len(commentStyles))
	classes := map[string]struct{}{}
	for _, t := range templates {
		for _, s := range t.islots {
			classes[s.class] = struct{}{}
		}
	}
	r.Info("identifier_position_classes", len(classes))

	e := &enumerator{r: r}

	// ---- phase A: sentinel identifier modes x literal kinds x renderings
	type imode struct {
		name    string
		f       func(i int) IdentChoice
		alt     bool
		renders []string
	}
	imodes := []imode{
		{"plain", plainIdent, false, []string{"", "tight", "ws"}},
		{"quoted", quotedIdent, false, []string{"", "tight", "ws"}},
		{"quoted-tick", quotedTickIdent, false, []string{""}},
		{"non-ascii", unicodeIdent, false, []string{""}},
		{"digit-leading", digitIdent, false, []string{"", "tight"}},
		{"mixed-case", mixedPlainIdent, false, []string{""}},
		{"all-same-plain", func(int) IdentChoice { return plainIdent(0) }, false, []string{""}},
		{"all-same-quoted", func(int) IdentChoice { return quotedIdent(0) }, false, []string{""}},
		{"alt-case-plain", plainIdent, true, []string{""}},
		{"alt-case-quoted", quotedIdent, true, []string{""}},
	}
	for _, t := range templates {
		t := t
		var litModes [][]string
		if len(t.lslots) == 0 {
			litModes = [][]string{nil}
		} else {
			for _, k := range litKinds {
				litModes = append(litModes, litsSame(t, k.name))
			}
			if len(t.lslots) > 1 {
				for rr := range litKinds {
					litModes = append(litModes, litsRot(t, rr))
				}
			}
		}
		for _, im := range imodes {
			im := im
			for _, lits := range litModes {
				lits := lits
				for _, rm := range im.renders {
					rm := rm
					e.each("sentinels", func() *CaseSpec {
						return &CaseSpec{Tpl: t.src, Idents: identsBy(t, im.f), Lits: lits, AltCase: im.alt, Render: rm, Focus: -1}
					})
				}
			}
		}
	}

	// ---- phase B: every keyword in every identifier slot
	rot := 0
	for _, t := range templates {
		t := t
		occ := slotOccurrences(t)
		for s := range t.islots {
			s := s
			for _, kw := range kws {
				kw := kw
				for variant := 0; variant < 4; variant++ {
					variant := variant
					if variant == 2 && !r.Thorough() {
						continue // Capitalised spelling: thorough tier only
					}
					mkIdents := func() []IdentChoice {
						ids := identsBy(t, plainIdent)
						if variant == 3 {
							ids[s] = quotedKeywordIdent(kw)
						} else {
							ids[s] = keywordIdent(kw, variant)
						}
						return ids
					}
					if r.Thorough() && len(t.lslots) > 0 {
						for _, k := range thoroughKinds {
							k := k
							e.each("keyword-focus", func() *CaseSpec {
								return &CaseSpec{Tpl: t.src, Idents: mkIdents(), Lits: litsSame(t, k), Focus: s}
							})
						}
					}
					e.each("keyword-focus", func() *CaseSpec {
						return &CaseSpec{Tpl: t.src, Idents: mkIdents(), Lits: litsDefault(t), Focus: s}
					})
					if len(t.lslots) > 0 {
						rot++
						rr := rot
						e.each("keyword-focus", func() *CaseSpec {
							return &CaseSpec{Tpl: t.src, Idents: mkIdents(), Lits: litsRot(t, rr), Focus: s}
						})
					}
				}
				if occ[s] > 1 {
					e.each("keyword-alt-case", func() *CaseSpec {
						ids := identsBy(t, plainIdent)
						ids[s] = keywordIdent(kw, 0)
						return &CaseSpec{Tpl: t.src, Idents: ids, Lits: litsDefault(t), AltCase: true, Focus: s}
					})
				}
			}
			// the one digit-leading lexeme the lexer reports with a keyword token type
			e.each("keyword-focus", func() *CaseSpec {
				ids := identsBy(t, plainIdent)
				ids[s] = IdentChoice{"1sl", "1sl", "keyword"} // lexed as the keyword token SSL with value "1sl"
				return &CaseSpec{Tpl: t.src, Idents: ids, Lits: litsDefault(t), Focus: s}
			})
		}
		if len(t.islots) > 1 {
			for _, kw := range kws {
				kw := kw
				e.each("keyword-all-slots", func() *CaseSpec {
					return &CaseSpec{Tpl: t.src, Idents: identsBy(t, func(int) IdentChoice { return keywordIdent(kw, 0) }), Lits: litsDefault(t), Focus: 0}
				})
			}
		}
	}

	// ---- phase C: comments of every style at every gap; phase D: executable-comment wraps; phase E: truncations
	for _, t := range templates {
		t := t
		base := CaseSpec{Tpl: t.src, Idents: identsBy(t, plainIdent), Lits: litsDefault(t), Focus: -1}
		n := len(base.build(t))
		for pos := 0; pos <= n; pos++ {
			pos := pos
			for _, cs := range commentStyles {
				cs := cs
				e.each("comments", func() *CaseSpec {
					c := base
					c.CPos, c.CStyle = pos, cs.name
					return &c
				})
			}
		}
		for from := 0; from < n; from++ {
			from := from
			for _, to := range []int{from + 1, n} {
				to := to
				for _, w := range execWraps {
					w := w
					e.each("exec-comment-wraps", func() *CaseSpec {
						c := base
						c.WFrom, c.WTo, c.WStyle = from, to, w.name
						return &c
					})
				}
			}
		}
		for p := 1; p < len(t.toks); p++ {
			p := p
			e.each("truncations", func() *CaseSpec {
				c := base
				c.Prefix = p
				return &c
			})
		}
	}
	for _, s := range malformed {
		s := s
		e.each("malformed", func() *CaseSpec {
			return &CaseSpec{Tpl: "[raw]", Raw: s, Focus: -1}
		})
	}
	r.Info("input_cases_enumerated", e.n)

	// ---- part 2
	runSchedules(r)
}

// validateTemplates: a template that does not parse with plain sentinels is a harness bug.
func validateTemplates() {
	var bad []string
	for _, t := range templates {
		c := CaseSpec{Tpl: t.src, Idents: identsBy(t, plainIdent), Lits: litsDefault(t), Focus: -1}
		sql := render(c.build(t), "")
		if _, err := sqlparser.Parse(sql); err != nil {
			bad = append(bad, fmt.Sprintf("%q -> %q: %v", t.src, sql, err))
		}
	}
	if len(bad) > 0 {
		panic("HARNESS: templates that do not parse:\n" + strings.Join(bad, "\n"))
	}
}

// litsDefault: the literal kinds of the base case of a template: int for the slots named
// n, m, p, s (positions where the grammar wants a number), a single-quoted string elsewhere.
func litsDefault(t *template) []string {
	out := make([]string, len(t.lslots))
	for i, s := range t.lslots {
		switch s.name {
		case "n", "m", "p", "s":
			out[i] = "int"
		default:
			out[i] = "string-single"
		}
	}
	return out
}

func replay(r *core.Run, w json.RawMessage) {
	var probe struct {
		Scenario *scenario `json:"scenario"`
	}
	if json.Unmarshal(w, &probe) == nil && probe.Scenario != nil {
		replaySchedule(r, w)
		return
	}
	var c CaseSpec
	if err := json.Unmarshal(w, &c); err != nil {
		return
	}
	runCase(r, &c)
}
