package c45

import (
	"fmt"
	"sort"
	"strings"
	"unicode"

	"github.com/dolthub/vitess/go/vt/sqlparser"
)

// ---------------------------------------------------------------- keywords

// keywordAliases: words of the vitess keyword table that share a token id with another word
// (KeywordString(id) returns only one of them, chosen by Go map order at init time). Listing the
// whole alias group here makes the enumerated keyword set independent of that order.
var keywordAliases = []string{"regexp", "rlike"}

// allKeywords enumerates the vitess keyword table through the exported KeywordString over the
// yacc token-id range, plus the alias group above; every word is verified to lex as ONE keyword
// token (not ID).
func allKeywords() []string {
	set := map[string]struct{}{}
	for id := 57344; id < 57344+4096; id++ {
		if s := sqlparser.KeywordString(id); s != "" {
			set[s] = struct{}{}
		}
	}
	for _, a := range keywordAliases {
		set[a] = struct{}{}
	}
	var out []string
	for s := range set {
		tk := sqlparser.NewStringTokenizer(s + " ")
		typ, val := tk.Scan()
		if typ == sqlparser.ID || typ == 0 || typ == sqlparser.LEX_ERROR || sqlparser.KeywordString(typ) == "" || !strings.EqualFold(strings.Fields(string(val) + " x")[0], s) {
			panic(fmt.Sprintf("HARNESS: keyword table entry %q does not lex as a keyword (typ %d val %q)", s, typ, val))
		}
		out = append(out, s)
	}
	sort.Strings(out)
	return out
}

// ---------------------------------------------------------------- identifier choices

// IdentChoice is the lexeme put into one identifier slot.
type IdentChoice struct {
	Text   string `json:"text"`   // source text
	Lexeme string `json:"lexeme"` // what the lexer reports as the token value
	Class  string `json:"class"`  // token class (for signatures)
}

func plainIdent(i int) IdentChoice {
	s := fmt.Sprintf("xqi%d", i)
	return IdentChoice{s, s, "plain"}
}
func quotedIdent(i int) IdentChoice {
	s := fmt.Sprintf("xq s%d", i)
	return IdentChoice{"`" + s + "`", s, "quoted"}
}
func quotedTickIdent(i int) IdentChoice {
	return IdentChoice{fmt.Sprintf("`xq``b%d`", i), fmt.Sprintf("xq`b%d", i), "quoted-embedded-backtick"}
}
func unicodeIdent(i int) IdentChoice {
	s := fmt.Sprintf("xqü%d", i)
	return IdentChoice{"`" + s + "`", s, "quoted-non-ascii"}
}
func digitIdent(i int) IdentChoice {
	s := fmt.Sprintf("%dxqd", i+1)
	return IdentChoice{s, s, "digit-leading"}
}
func mixedPlainIdent(i int) IdentChoice {
	s := fmt.Sprintf("XqI%d", i)
	return IdentChoice{s, s, "plain-mixed-case"}
}
func keywordIdent(kw string, variant int) IdentChoice {
	switch variant {
	case 1:
		kw = strings.ToUpper(kw)
	case 2:
		kw = capitalize(kw)
	}
	return IdentChoice{kw, kw, "keyword"}
}
func quotedKeywordIdent(kw string) IdentChoice {
	return IdentChoice{"`" + kw + "`", kw, "quoted-keyword"}
}

func capitalize(s string) string {
	b := []rune(s)
	for i, c := range b {
		if unicode.IsLetter(c) {
			b[i] = unicode.ToUpper(c)
			break
		}
	}
	return string(b)
}

// toggleCase is used for the "mixed-case repeat" mode: odd occurrences of a slot are written in
// the opposite case (a different lexeme for the redactor, the same name for MySQL).
func toggleCase(c IdentChoice) IdentChoice {
	up := strings.ToUpper(c.Text)
	if up == c.Text {
		up = strings.ToLower(c.Text)
	}
	lex := c.Lexeme
	if strings.ToUpper(lex) == lex {
		lex = strings.ToLower(lex)
	} else {
		lex = strings.ToUpper(lex)
	}
	return IdentChoice{up, lex, c.Class}
}

// ---------------------------------------------------------------- atoms

type atomCat uint8

const (
	aStruct atomCat = iota
	aIdent
	aVal
	aBind
	aComment
)

const (
	vStr = iota // 'vK'
	vNum        // :vK
	vHex        // X'vK'
	vBit        // B'vK'
)

type atom struct {
	cat   atomCat
	text  string // source text
	key   string // identifier lexeme / value key
	vk    int
	islot int // identifier slot index or -1
	lslot int // literal slot index or -1
	class string
	glue  bool // no blank before this atom
	fn    bool // structural token that is a built-in function name (may be redacted as an identifier)
}

// ---------------------------------------------------------------- literal kinds

type litKind struct {
	name  string
	atoms func(i int) []atom
}

func sval(text, key string) atom { return atom{cat: aVal, text: text, key: key, vk: vStr, islot: -1} }
func nval(text string) atom      { return atom{cat: aVal, text: text, key: text, vk: vNum, islot: -1} }
func stru(text string) atom      { return atom{cat: aStruct, text: text, islot: -1} }
func iden(text string) atom      { return atom{cat: aIdent, text: text, key: text, islot: -1, class: "literal-lexed-as-identifier"} }

var litKinds = []litKind{
	{"string-single", func(i int) []atom { p := fmt.Sprintf("xqv%d", i); return []atom{sval("'"+p+"'", p)} }},
	{"string-double", func(i int) []atom { p := fmt.Sprintf("xqv%d", i); return []atom{sval(`"`+p+`"`, p)} }},
	{"string-escapes", func(i int) []atom {
		return []atom{sval(fmt.Sprintf(`'xq''v\'%d\\z'`, i), fmt.Sprintf(`xq'v'%d\z`, i))}
	}},
	{"string-with-comment-text", func(i int) []atom {
		p := fmt.Sprintf("xqv%d /* xqnc */ -- xqnd # `xqne`", i)
		return []atom{sval("'"+p+"'", p)}
	}},
	{"string-adjacent", func(i int) []atom {
		return []atom{sval(fmt.Sprintf("'xqv%d' 'xqw%d'", i, i), fmt.Sprintf("xqv%dxqw%d", i, i))}
	}},
	{"string-non-ascii", func(i int) []atom { p := fmt.Sprintf("xqvé%d", i); return []atom{sval("'"+p+"'", p)} }},
	{"string-empty", func(i int) []atom { return []atom{sval("''", "")} }},
	{"int", func(i int) []atom { return []atom{nval(fmt.Sprintf("90817%d", i))} }},
	{"int-negative", func(i int) []atom { return []atom{stru("-"), nval(fmt.Sprintf("90817%d", i))} }},
	{"float", func(i int) []atom { return []atom{nval(fmt.Sprintf("908.17%d", i))} }},
	{"float-exp", func(i int) []atom { return []atom{nval(fmt.Sprintf("9.0817%de3", i))} }},
	{"float-leading-dot", func(i int) []atom { return []atom{nval(fmt.Sprintf(".90817%d", i))} }},
	{"hex-quoted", func(i int) []atom {
		p := fmt.Sprintf("9A8B%02d", i)
		return []atom{{cat: aVal, text: "X'" + p + "'", key: p, vk: vHex, islot: -1}}
	}},
	{"hex-quoted-lower", func(i int) []atom {
		p := fmt.Sprintf("9a8b%02d", i)
		return []atom{{cat: aVal, text: "x'" + p + "'", key: p, vk: vHex, islot: -1}}
	}},
	{"hex-0x", func(i int) []atom { return []atom{nval(fmt.Sprintf("0x9A8B%02d", i))} }},
	{"bit-quoted", func(i int) []atom {
		p := fmt.Sprintf("1011%04b", i)
		return []atom{{cat: aVal, text: "b'" + p + "'", key: p, vk: vBit, islot: -1}}
	}},
	{"bit-quoted-upper", func(i int) []atom {
		p := fmt.Sprintf("1101%04b", i)
		return []atom{{cat: aVal, text: "B'" + p + "'", key: p, vk: vBit, islot: -1}}
	}},
	// 0b1011 is not a literal for the vitess lexer: it is scanned as the identifier "0b1011"
	{"bit-0b", func(i int) []atom { return []atom{iden(fmt.Sprintf("0b1011%04b", i))} }},
	{"charset-introducer", func(i int) []atom {
		p := fmt.Sprintf("xqv%d", i)
		return []atom{stru("_utf8mb4"), sval("'"+p+"'", p)}
	}},
	{"binary-introducer-hex", func(i int) []atom {
		p := fmt.Sprintf("9C8D%02d", i)
		return []atom{stru("_binary"), {cat: aVal, text: "X'" + p + "'", key: p, vk: vHex, islot: -1}}
	}},
	// N'..' is lexed as the identifier N followed by a string
	{"national-string", func(i int) []atom {
		p := fmt.Sprintf("xqv%d", i)
		a := sval("'"+p+"'", p)
		a.glue = true
		return []atom{iden("N"), a}
	}},
	{"date-literal", func(i int) []atom {
		p := fmt.Sprintf("2031-01-%02d", i+1)
		return []atom{stru("DATE"), sval("'"+p+"'", p)}
	}},
	{"timestamp-literal", func(i int) []atom {
		p := fmt.Sprintf("2031-01-%02d 01:02:03", i+1)
		return []atom{stru("timestamp"), sval("'"+p+"'", p)}
	}},
	{"time-literal", func(i int) []atom {
		p := fmt.Sprintf("11:12:%02d", i+1)
		return []atom{stru("time"), sval("'"+p+"'", p)}
	}},
	{"user-variable", func(i int) []atom {
		a := iden(fmt.Sprintf("@xqu%d", i))
		a.class = "uservar"
		return []atom{a}
	}},
	{"user-variable-quoted", func(i int) []atom {
		a := iden(fmt.Sprintf("@`xq u%d`", i))
		a.class = "uservar"
		return []atom{a}
	}},
	{"system-variable", func(i int) []atom {
		a := iden(fmt.Sprintf("@@xqs%d", i))
		a.class = "sysvar"
		return []atom{a}
	}},
	{"bind-named", func(i int) []atom {
		return []atom{{cat: aBind, text: fmt.Sprintf(":xqb%d", i), islot: -1}}
	}},
	{"bind-list", func(i int) []atom {
		return []atom{{cat: aBind, text: fmt.Sprintf("::xqb%d", i), islot: -1}}
	}},
	{"bind-positional", func(i int) []atom { return []atom{{cat: aBind, text: "?", islot: -1}} }},
	{"null", func(i int) []atom { return []atom{stru("null")} }},
	{"true", func(i int) []atom { return []atom{stru("TRUE")} }},
}

func litKindIndex(name string) int {
	for i, k := range litKinds {
		if k.name == name {
			return i
		}
	}
	return -1
}

// ---------------------------------------------------------------- comment styles

type commentStyle struct {
	name string
	text string
	eol  bool // needs a line end after it
}

var commentStyles = []commentStyle{
	{"block", "/* xqc1 */", false},
	{"block-with-quotes", "/* xqc2 'xqc3' `xqc4` \"xqc5\" -- # */", false},
	{"block-empty", "/**/", false},
	{"block-multiline", "/* xqc6\n xqc7 */", false},
	{"hint", "/*+ xqc8(xqc9) */", false},
	{"dash-dash", "-- xqc10", true},
	{"dash-dash-nospace", "--xqc11", true},
	{"hash", "# xqc12", true},
	{"slash-slash", "// xqc13", true},
	{"versioned-short", "/*!123 xqc14 */", false},
	{"executable-empty", "/*! */", false},
	{"mariadb-short", "/*M!123 xqc15 */", false},
}

// executable comment wrappers: the wrapped tokens are part of the statement
var execWraps = []struct{ name, open string }{
	{"mysql", "/*!"},
	{"mysql-versioned", "/*!50000"},
	{"mariadb-versioned", "/*M!100100"},
}

// ---------------------------------------------------------------- cases

// CaseSpec identifies one case completely (it is the replay witness).
type CaseSpec struct {
	Tpl     string        `json:"tpl"`
	Raw     string        `json:"raw,omitempty"` // Tpl "[raw]": the input itself (malformed-input list)
	Idents  []IdentChoice `json:"idents"`            // per identifier slot
	Lits    []string      `json:"lits"`              // literal kind per literal slot
	AltCase bool          `json:"alt_case,omitempty"` // odd occurrences of a slot in the opposite case
	Render  string        `json:"render,omitempty"`   // "" spaced | tight | ws
	Prefix  int           `json:"prefix,omitempty"`   // >0: only the first Prefix template tokens
	CPos    int           `json:"cpos,omitempty"`     // comment before atom CPos (len = after the last)
	CStyle  string        `json:"cstyle,omitempty"`
	WFrom   int           `json:"wfrom,omitempty"` // executable-comment wrap around atoms [WFrom,WTo)
	WTo     int           `json:"wto,omitempty"`
	WStyle  string        `json:"wstyle,omitempty"`
	Focus   int           `json:"focus"` // identifier slot carrying the examined choice (-1: none)
	SQL     string        `json:"sql"`   // informational
}

// build expands the case into atoms.
func (c *CaseSpec) build(t *template) []atom {
	var out []atom
	glue := false
	occ := make([]int, len(t.islots))
	toks := t.toks
	if c.Prefix > 0 && c.Prefix < len(toks) {
		toks = toks[:c.Prefix]
	}
	for _, tk := range toks {
		n0 := len(out)
		switch tk.kind {
		case tkGlue:
			glue = true
			continue
		case tkStruct:
			out = append(out, atom{cat: aStruct, text: tk.text, islot: -1, lslot: -1})
		case tkFunc:
			out = append(out, atom{cat: aStruct, text: tk.text, islot: -1, lslot: -1, fn: true})
		case tkBind:
			out = append(out, atom{cat: aBind, text: tk.text, islot: -1, lslot: -1})
		case tkFixedStr:
			out = append(out, atom{cat: aVal, text: tk.text, key: tk.text[1 : len(tk.text)-1], vk: vStr, islot: -1, lslot: -1})
		case tkFixedIdent:
			out = append(out, atom{cat: aIdent, text: tk.text, key: tk.text, islot: -1, lslot: -1, class: "plain"})
		case tkIdent:
			ch := c.Idents[tk.slot]
			if c.AltCase && occ[tk.slot]%2 == 1 {
				ch = toggleCase(ch)
			}
			occ[tk.slot]++
			if tk.text != "" {
				// variable slot (@x, @@x): ONE lexer token whose value is the raw text including
				// the quotes; a doubled back-quote would end it, so that choice is written without
				ch.Text = strings.ReplaceAll(ch.Text, "``", "")
				ch.Lexeme = ch.Text
			}
			out = append(out, atom{cat: aIdent, text: tk.text + ch.Text, key: tk.text + ch.Lexeme, islot: tk.slot, lslot: -1, class: ch.Class})
		case tkLit:
			k := litKindIndex(c.Lits[tk.slot])
			for _, a := range litKinds[k].atoms(tk.slot) {
				a.lslot = tk.slot
				out = append(out, a)
			}
		}
		if glue && len(out) > n0 {
			out[n0].glue = true
		}
		glue = false
	}
	if c.WStyle != "" && c.WFrom < c.WTo && c.WTo <= len(out) {
		open := ""
		for _, w := range execWraps {
			if w.name == c.WStyle {
				open = w.open
			}
		}
		var o2 []atom
		o2 = append(o2, out[:c.WFrom]...)
		o2 = append(o2, atom{cat: aComment, text: open, islot: -1, lslot: -1, class: "exec-open", glue: out[c.WFrom].glue})
		first := out[c.WFrom]
		first.glue = false
		o2 = append(o2, first)
		o2 = append(o2, out[c.WFrom+1:c.WTo]...)
		o2 = append(o2, atom{cat: aComment, text: "*/", islot: -1, lslot: -1, class: "exec-close"})
		o2 = append(o2, out[c.WTo:]...)
		out = o2
	}
	if c.CStyle != "" {
		var cs commentStyle
		for _, s := range commentStyles {
			if s.name == c.CStyle {
				cs = s
			}
		}
		pos := c.CPos
		if pos > len(out) {
			pos = len(out)
		}
		txt := cs.text
		if cs.eol && pos < len(out) {
			txt += "\n"
		}
		ca := atom{cat: aComment, text: txt, islot: -1, lslot: -1, class: cs.name}
		var o2 []atom
		o2 = append(o2, out[:pos]...)
		o2 = append(o2, ca)
		if pos < len(out) {
			nx := out[pos]
			nx.glue = false
			o2 = append(o2, nx)
			o2 = append(o2, out[pos+1:]...)
		}
		out = o2
	}
	return out
}

func isPunct(s string) bool {
	switch s {
	case "(", ")", ",", ".", "=", ";":
		return true
	}
	return false
}

func render(atoms []atom, mode string) string {
	var sb strings.Builder
	for i, a := range atoms {
		if i > 0 && !a.glue {
			sep := " "
			prev := atoms[i-1]
			switch mode {
			case "tight":
				if prev.cat != aComment && a.cat != aComment && (isPunct(prev.text) || isPunct(a.text)) {
					// keep a blank where gluing would change the lexing: '.' before a digit,
					// and between a value/identifier and '.' when either side starts with a digit
					d := func(s string) bool { return s != "" && s[0] >= '0' && s[0] <= '9' }
					if !((prev.text == "." && a.cat == aVal && (d(a.text) || a.text[0] == '.')) || (a.text == "." && prev.cat == aVal && d(prev.text))) {
						sep = ""
					}
				}
			case "ws":
				sep = []string{"\t", "\n", "  ", "\r\n"}[i%4]
				if strings.HasSuffix(prev.text, "\n") {
					sep = " "
				}
			}
			sb.WriteString(sep)
		}
		sb.WriteString(a.text)
	}
	return sb.String()
}

// expected computes the redacted form the property prescribes, token by token, plus the mapping.
type expectation struct {
	toks   []string // one per non-comment atom
	atoms  []int    // index into the atom list
	idents map[string]string
	values map[string]string
}

var opCanon = map[string]string{"<>": "!="}

// fnAsIdent: indices of function-name atoms to be taken as identifiers.
func expect(atoms []atom, fnAsIdent map[int]bool) expectation {
	e := expectation{idents: map[string]string{}, values: map[string]string{}}
	q := 0
	for i, a := range atoms {
		var s string
		if fnAsIdent[i] {
			a.cat, a.key = aIdent, a.text
		}
		switch a.cat {
		case aComment:
			continue
		case aStruct:
			s = a.text
			if c, ok := opCanon[s]; ok {
				s = c
			}
		case aBind:
			s = a.text
			if s == "?" {
				q++
				s = fmt.Sprintf(":v%d", q)
			}
		case aIdent:
			t, ok := e.idents[a.key]
			if !ok {
				t = fmt.Sprintf("n%d", len(e.idents)+1)
				e.idents[a.key] = t
			}
			s = "`" + t + "`"
		case aVal:
			t, ok := e.values[a.key]
			if !ok {
				t = fmt.Sprintf("v%d", len(e.values)+1)
				e.values[a.key] = t
			}
			switch a.vk {
			case vStr:
				s = "'" + t + "'"
			case vNum:
				s = ":" + t
			case vHex:
				s = "X'" + t + "'"
			case vBit:
				s = "B'" + t + "'"
			}
		}
		e.toks = append(e.toks, s)
		e.atoms = append(e.atoms, i)
	}
	return e
}

// forbidden substrings: every sentinel identifier, literal payload and comment payload of the
// alphabets contains one of these (lower-cased); redaction tokens, keywords and operators never do.
var forbidden = []string{"xq", "90817", "908.17", "9.0817", "9a8b", "9c8d", "1011", "1101", "2031-", "11:12:"}

// sentinelScan reports a forbidden substring of the output (bind placeholders, which the property
// lets through, are removed first).
func sentinelScan(out string, atoms []atom) (string, bool) {
	low := strings.ToLower(out)
	for _, a := range atoms {
		if a.cat == aBind && a.text != "?" {
			low = strings.ReplaceAll(low, strings.ToLower(a.text), "")
		}
	}
	for _, f := range forbidden {
		if strings.Contains(low, f) {
			return f, true
		}
	}
	return "", false
}
