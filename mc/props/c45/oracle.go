package c45

import (
	"errors"
	"fmt"
	"reflect"
	"regexp"
	"sort"
	"strings"

	"github.com/dolthub/go-mysql-server/sql/sqlredact"
	"github.com/dolthub/vitess/go/vt/sqlparser"

	"verif/mc/core"
)

var (
	reIdentTok = regexp.MustCompile("^`n[0-9]+`$")
	reValTok   = regexp.MustCompile(`^('v[0-9]+'|:v[0-9]+|X'v[0-9]+'|B'v[0-9]+')$`)
)

var tplIndex = func() map[string]*template {
	m := map[string]*template{}
	for _, t := range templates {
		m[t.src] = t
	}
	return m
}()

func tplFor(src string) *template {
	if t, ok := tplIndex[src]; ok {
		return t
	}
	t, err := parseTemplate(src)
	if err != nil {
		panic("HARNESS: " + err.Error())
	}
	return t
}


// identUsage decides, for a case whose slots carry unquoted keywords, whether the parser really
// took those keywords as *names*: the same case is rendered with plain sentinels OF THE SAME LENGTH
// in their place, both statements are parsed, and the two ASTs — dumped completely by reflection,
// every field, strings lower-cased — must be equal up to the substitution. `select current_date
// from t`, `select null from t`, `truncate partition all` parse, but with the keyword's own
// meaning (other node types / flags) — such a case says nothing about identifiers and is skipped.
func identUsage(c *CaseSpec, t *template, stmt sqlparser.Statement) (asIdent, conclusive bool) {
	c2 := *c
	c2.Idents = append([]IdentChoice(nil), c.Idents...)
	type rep struct{ from, to string }
	var reps []rep
	for i, ch := range c.Idents {
		if ch.Class == "keyword" {
			s := "xq" + strings.Repeat("g", max(len(ch.Text)-2, 0))
			if len(ch.Text) < 2 {
				return false, false
			}
			c2.Idents[i] = IdentChoice{s, s, "plain"}
			reps = append(reps, rep{s, strings.ToLower(ch.Lexeme)})
		}
	}
	if len(reps) == 0 {
		return true, true
	}
	sql2 := render(c2.build(t), c.Render)
	var f1, f2 string
	var err2 error
	pv, _ := core.Try(func() {
		var s2 sqlparser.Statement
		s2, err2 = sqlparser.Parse(sql2)
		if err2 == nil {
			f1 = dumpAST(stmt)
			f2 = dumpAST(s2)
		}
	})
	if pv != nil || err2 != nil {
		return false, false
	}
	for _, r := range reps {
		f2 = strings.ReplaceAll(f2, r.from, r.to)
	}
	return f1 == f2, true
}

// dumpAST writes every field of the AST (exported or not), strings lower-cased.
func dumpAST(n sqlparser.SQLNode) string {
	var sb strings.Builder
	dumpValue(reflect.ValueOf(n), &sb, map[uintptr]struct{}{})
	return sb.String()
}

func dumpValue(v reflect.Value, sb *strings.Builder, seen map[uintptr]struct{}) {
	switch v.Kind() {
	case reflect.Invalid:
		sb.WriteString("nil")
	case reflect.Interface:
		if v.IsNil() {
			sb.WriteString("nil")
			return
		}
		dumpValue(v.Elem(), sb, seen)
	case reflect.Pointer:
		if v.IsNil() {
			sb.WriteString("nil")
			return
		}
		if _, ok := seen[v.Pointer()]; ok {
			sb.WriteString("<cycle>")
			return
		}
		seen[v.Pointer()] = struct{}{}
		sb.WriteByte('&')
		dumpValue(v.Elem(), sb, seen)
	case reflect.Struct:
		sb.WriteString(v.Type().Name())
		sb.WriteByte('{')
		for i := 0; i < v.NumField(); i++ {
			sb.WriteString(v.Type().Field(i).Name)
			sb.WriteByte(':')
			dumpValue(v.Field(i), sb, seen)
			sb.WriteByte(' ')
		}
		sb.WriteByte('}')
	case reflect.Slice, reflect.Array:
		if v.Kind() == reflect.Slice && v.Type().Elem().Kind() == reflect.Uint8 {
			fmt.Fprintf(sb, "%q", strings.ToLower(string(v.Bytes())))
			return
		}
		sb.WriteByte('[')
		for i := 0; i < v.Len(); i++ {
			dumpValue(v.Index(i), sb, seen)
			sb.WriteByte(' ')
		}
		sb.WriteByte(']')
	case reflect.Map:
		var parts []string
		for it := v.MapRange(); it.Next(); {
			var e strings.Builder
			dumpValue(it.Key(), &e, seen)
			e.WriteByte('=')
			dumpValue(it.Value(), &e, seen)
			parts = append(parts, e.String())
		}
		sort.Strings(parts)
		sb.WriteString("map" + strings.Join(parts, ","))
	case reflect.String:
		fmt.Fprintf(sb, "%q", strings.ToLower(v.String()))
	case reflect.Bool:
		fmt.Fprint(sb, v.Bool())
	case reflect.Int, reflect.Int8, reflect.Int16, reflect.Int32, reflect.Int64:
		fmt.Fprint(sb, v.Int())
	case reflect.Uint, reflect.Uint8, reflect.Uint16, reflect.Uint32, reflect.Uint64, reflect.Uintptr:
		fmt.Fprint(sb, v.Uint())
	case reflect.Float32, reflect.Float64:
		fmt.Fprint(sb, v.Float())
	default:
		sb.WriteString(v.Kind().String())
	}
}

// witnessFor marshals the case only when it can become the kept (smallest) witness of its
// signature; otherwise a large constant stands in (core keeps the smallest witness per signature).
var (
	bestWitness = map[string]int{}
	bigWitness  = core.J(strings.Repeat(" ", 1<<16))
)

func witnessFor(sig string, c *CaseSpec) []byte {
	if best, ok := bestWitness[sig]; ok && len(c.SQL) > best {
		return bigWitness
	}
	bestWitness[sig] = len(c.SQL)
	return core.J(c)
}

type caseResult struct {
	parsed     bool
	nontrivial bool
	outcome    string
}

// runCase executes one case against the real redactor and applies the oracle.
func runCase(r *core.Run, c *CaseSpec) caseResult {
	if c.Tpl == "[raw]" {
		return runRaw(r, c)
	}
	t := tplFor(c.Tpl)
	atoms := c.build(t)
	sql := render(atoms, c.Render)
	c.SQL = sql

	focusClass := ""
	if c.Focus >= 0 && c.Focus < len(c.Idents) {
		focusClass = c.Idents[c.Focus].Class
	} else if len(c.Idents) > 0 {
		focusClass = c.Idents[0].Class
	}
	viol := func(clause, kind string, subj map[string]string, obs, exp string) {
		v := core.Violation{Check: "inputs", Clause: clause, Kind: kind, Subject: subj, Observed: obs, Expected: exp}
		v.Property = r.Prop.ID
		v.Witness = witnessFor(v.Signature(), c)
		r.Violate(v)
	}

	var stmt sqlparser.Statement
	var perr error
	if pv, _ := core.Try(func() { stmt, perr = sqlparser.Parse(sql) }); pv != nil {
		perr = fmt.Errorf("parser panic: %v", pv)
	}
	var out string
	var m *sqlredact.Mapping
	var err error
	if pv, stack := core.Try(func() { out, m, err = sqlredact.RedactSQLForTrace(sql) }); pv != nil {
		viol("no-panic", "panic", map[string]string{"frame": core.TopFrame(stack)}, fmt.Sprint(pv), "no panic")
		return caseResult{outcome: "panic"}
	}

	if perr != nil {
		if out != sqlredact.UnparseableMarker || err == nil {
			viol("unparseable-marker", "no-marker-on-parse-failure", map[string]string{"input": "template"}, fmt.Sprintf("out=%q err=%v", out, err), "the unparseable marker and a non-nil error")
		} else if m != nil && len(m.Idents())+len(m.Values()) != 0 {
			viol("unparseable-marker", "mapping-not-empty-on-parse-failure", map[string]string{"input": "template"}, fmt.Sprintf("idents=%v values=%v", m.Idents(), m.Values()), "empty mapping")
		}
		return caseResult{outcome: "parse-fail"}
	}

	if out == sqlredact.UnparseableMarker || err != nil {
		cause := "other"
		if errors.Is(err, sqlredact.ErrLexFailed) {
			cause = "lex-pass-fails-after-parse-succeeded"
		}
		viol("unparseable-marker", "marker-on-parseable-input", map[string]string{"cause": cause, "token_class": focusClass},
			fmt.Sprintf("out=%q err=%v mapping=%v%v", out, err, m.Idents(), m.Values()), "a redacted statement (the parser accepts the input)")
		return caseResult{parsed: true, outcome: "marker-on-parseable"}
	}

	e := expect(atoms, nil)
	want := strings.Join(e.toks, " ")
	if out != want {
		// built-in function names written as keywords may legitimately come out as identifiers
		if got := strings.Split(out, " "); len(got) == len(e.toks) {
			fnAsIdent := map[int]bool{}
			for i := range got {
				if ai := e.atoms[i]; atoms[ai].fn && reIdentTok.MatchString(got[i]) {
					fnAsIdent[ai] = true
				}
			}
			if len(fnAsIdent) > 0 {
				e = expect(atoms, fnAsIdent)
				want = strings.Join(e.toks, " ")
			}
		}
	}
	lenient := c.Prefix > 0 // truncated statements: a trailing keyword may have become a name
	res := caseResult{parsed: true, nontrivial: len(e.idents)+len(e.values) > 0, outcome: "redacted"}
	slotClass := func(a atom) string {
		if a.islot >= 0 {
			return t.islots[a.islot].class
		}
		if a.lslot >= 0 {
			return "literal:" + c.Lits[a.lslot]
		}
		return "fixed"
	}

	if out != want {
		got := strings.Split(out, " ")
		if len(got) != len(e.toks) {
			what := "other"
			for _, a := range atoms {
				if a.cat == aComment && a.class != "exec-open" && a.class != "exec-close" {
					for _, w := range strings.Fields(a.text) {
						if strings.HasPrefix(w, "xqc") && strings.Contains(out, w) {
							what = "comment-text-emitted"
						}
					}
				}
			}
			viol("skeleton", "token-count", map[string]string{"what": what}, out, want)
			return caseResult{parsed: true, outcome: "violation"}
		}
		guardDone, asIdent := false, true
		catChange := false
		wrongNS := ""
		for i := range got {
			if got[i] == e.toks[i] {
				continue
			}
			a := atoms[e.atoms[i]]
			isI, isV := reIdentTok.MatchString(got[i]), reValTok.MatchString(got[i])
			switch a.cat {
			case aIdent:
				if isI {
					if wrongNS == "" {
						wrongNS = "identifier"
					}
					continue // wrong index: judged below (may be the consequence of a leak)
				}
				catChange = true
				if a.class == "keyword" {
					if !guardDone {
						var conclusive bool
						asIdent, conclusive = identUsage(c, t, stmt)
						guardDone = true
						if !conclusive {
							r.Count("keyword_usage_inconclusive", 1)
							return caseResult{parsed: true, outcome: "keyword-usage-inconclusive"}
						}
					}
					if !asIdent {
						r.Count("keyword_parsed_with_its_keyword_meaning", 1)
						return caseResult{parsed: true, outcome: "keyword-meaning"}
					}
				}
				k := "identifier-verbatim"
				if isV {
					k = "identifier-redacted-as-value"
				}
				viol("no-identifier-leak", k, map[string]string{"position": slotClass(a), "token_class": a.class, "statement": firstWord(c.Tpl)}, out, want)
			case aVal:
				if isV {
					if got[i][0] != e.toks[i][0] {
						catChange = true
						viol("skeleton", "literal-kind-changed", map[string]string{"literal": slotClass(a)}, out, want)
					} else if wrongNS == "" {
						wrongNS = "value"
					}
					continue
				}
				catChange = true
				k := "literal-verbatim"
				if isI {
					k = "literal-redacted-as-identifier"
				}
				viol("no-literal-leak", k, map[string]string{"literal": slotClass(a)}, out, want)
			case aBind:
				catChange = true
				viol("skeleton", "bind-placeholder-changed", map[string]string{"bind": a.text[:1]}, out, want)
			case aStruct:
				catChange = true
				if lenient && isI {
					r.Count("truncation_keyword_became_a_name", 1)
					return caseResult{parsed: true, outcome: "truncation-changed-meaning"}
				}
				if isI || isV {
					cls := "none"
					for _, b := range atoms {
						if b.cat == aIdent && b.key == a.text {
							cls = b.class
						}
					}
					as := "identifier"
					if isV {
						as = "value"
					}
					viol("skeleton", "structural-token-redacted", map[string]string{"as": as, "same_lexeme_identifier_class": cls}, out, want)
				} else {
					viol("skeleton", "structural-token-changed", map[string]string{"token": strings.ToLower(a.text)}, out, want)
				}
			}
		}
		if !catChange {
			viol("token-mapping", "wrong-token-index", map[string]string{"namespace": wrongNS}, out, want)
		}
		return caseResult{parsed: true, outcome: "violation"}
	}

	// equal to the prescribed form: independent sentinel scan, mapping, injectivity
	if f, bad := sentinelScan(out, atoms); bad {
		viol("no-sentinel", "sentinel-in-output", map[string]string{"sentinel": f}, out, want)
		res.outcome = "violation"
	}
	if mi, mv := m.Idents(), m.Values(); !eqMap(mi, e.idents) || !eqMap(mv, e.values) {
		viol("token-mapping", "mapping-differs", map[string]string{}, fmt.Sprintf("idents=%s values=%s", fmtMap(mi), fmtMap(mv)), fmt.Sprintf("idents=%s values=%s", fmtMap(e.idents), fmtMap(e.values)))
		res.outcome = "violation"
	}
	// different lexemes -> different tokens (over identifier, value and bind atoms)
	seen := map[string]string{}
	seenCat := map[string]string{}
	for i, tok := range e.toks {
		a := atoms[e.atoms[i]]
		if a.cat == aStruct {
			continue
		}
		id := fmt.Sprintf("%d:%s", a.cat, a.key)
		cat := map[atomCat]string{aIdent: "identifier", aVal: "value", aBind: "bind"}[a.cat]
		if a.cat == aBind {
			id = fmt.Sprintf("%d:%s#%d", a.cat, a.text, i)
			if a.text != "?" {
				id = fmt.Sprintf("%d:%s", a.cat, a.text)
			}
			if a.text == "?" {
				cat = "bind-positional"
			} else {
				cat = "bind-named"
			}
		}
		if prev, ok := seen[tok]; ok && prev != id && !(strings.HasPrefix(cat, "bind") && strings.HasPrefix(seenCat[tok], "bind")) {
			pair := []string{seenCat[tok], cat}
			sort.Strings(pair)
			viol("injective", "distinct-lexemes-same-token", map[string]string{"between": strings.Join(pair, "+")}, out, "token "+tok+" stands for two different input lexemes")
			res.outcome = "violation"
		}
		seen[tok] = id
		seenCat[tok] = cat
	}
	return res
}

// runRaw: inputs of the malformed list. Unparseable => marker; parseable => no sentinel survives.
func runRaw(r *core.Run, c *CaseSpec) caseResult {
	c.SQL = c.Raw
	viol := func(clause, kind string, subj map[string]string, obs, exp string) {
		r.Violate(core.Violation{Check: "inputs", Clause: clause, Kind: kind, Subject: subj, Witness: core.J(c), Observed: obs, Expected: exp})
	}
	var perr error
	if pv, _ := core.Try(func() { _, perr = sqlparser.Parse(c.Raw) }); pv != nil {
		perr = fmt.Errorf("parser panic: %v", pv)
	}
	var out string
	var m *sqlredact.Mapping
	var err error
	if pv, stack := core.Try(func() { out, m, err = sqlredact.RedactSQLForTrace(c.Raw) }); pv != nil {
		viol("no-panic", "panic", map[string]string{"frame": core.TopFrame(stack)}, fmt.Sprint(pv), "no panic")
		return caseResult{outcome: "panic"}
	}
	if perr != nil {
		if out != sqlredact.UnparseableMarker || err == nil {
			viol("unparseable-marker", "no-marker-on-parse-failure", map[string]string{"input": "raw"}, fmt.Sprintf("out=%q err=%v", out, err), "the unparseable marker and a non-nil error")
		} else if m != nil && len(m.Idents())+len(m.Values()) != 0 {
			viol("unparseable-marker", "mapping-not-empty-on-parse-failure", map[string]string{"input": "raw"}, fmt.Sprintf("idents=%v values=%v", m.Idents(), m.Values()), "empty mapping")
		}
		return caseResult{outcome: "parse-fail"}
	}
	if out == sqlredact.UnparseableMarker {
		return caseResult{parsed: true, outcome: "marker-on-parseable-raw"}
	}
	if f, bad := sentinelScan(out, nil); bad {
		viol("no-sentinel", "sentinel-in-output", map[string]string{"sentinel": f}, out, "no sentinel")
		return caseResult{parsed: true, outcome: "violation"}
	}
	return caseResult{parsed: true, nontrivial: true, outcome: "redacted"}
}

func eqMap(a, b map[string]string) bool {
	if len(a) != len(b) {
		return false
	}
	for k, v := range a {
		if w, ok := b[k]; !ok || w != v {
			return false
		}
	}
	return true
}

func fmtMap(m map[string]string) string {
	ks := make([]string, 0, len(m))
	for k := range m {
		ks = append(ks, k)
	}
	sort.Strings(ks)
	var sb strings.Builder
	sb.WriteString("{")
	for i, k := range ks {
		if i > 0 {
			sb.WriteString(",")
		}
		fmt.Fprintf(&sb, "%q:%s", k, m[k])
	}
	sb.WriteString("}")
	return sb.String()
}
