package c45

import (
	"encoding/json"
	"fmt"
	"sort"
	"strings"

	"github.com/anishathalye/porcupine"
	"github.com/dolthub/go-mysql-server/sql/sqlredact"
	"github.com/dolthub/go-mysql-server/verifshim/vsched"

	"verif/mc/core"
)

// ---------------------------------------------------------------- scenario alphabet

var lexemes = []string{"a", "b"}

// statements for RedactSQLForTraceInto: identifiers/values collide with the direct calls
var schedSQL = []struct {
	sql    string
	idents []string // in lexer order (with repeats)
	values []string
	render func(id, val map[string]string) string
}{
	{"select a from b", []string{"a", "b"}, nil, func(id, val map[string]string) string {
		return "select `" + id["a"] + "` from `" + id["b"] + "`"
	}},
	{"select b from a where a = 'a'", []string{"b", "a", "a"}, []string{"a"}, func(id, val map[string]string) string {
		return "select `" + id["b"] + "` from `" + id["a"] + "` where `" + id["a"] + "` = '" + val["a"] + "'"
	}},
}

type sop struct {
	K string `json:"k"` // RI RV SI SV SQL
	X int    `json:"x"` // lexeme index / statement index
}

func (o sop) String() string {
	switch o.K {
	case "RI":
		return "RedactIdent(" + lexemes[o.X] + ")"
	case "RV":
		return "RedactValue(" + lexemes[o.X] + ")"
	case "SI":
		return "Idents()"
	case "SV":
		return "Values()"
	case "SQL":
		return fmt.Sprintf("RedactSQLForTraceInto(%q)", schedSQL[o.X].sql)
	}
	return "?"
}

func (o sop) kindName() string {
	return map[string]string{"RI": "RedactIdent", "RV": "RedactValue", "SI": "Idents", "SV": "Values", "SQL": "RedactSQLForTraceInto"}[o.K]
}

type scenario struct {
	Pre     []sop   `json:"pre"`
	Threads [][]sop `json:"threads"`
}

func (sc scenario) String() string {
	var sb strings.Builder
	for _, p := range sc.Pre {
		sb.WriteString(p.String() + "; ")
	}
	sb.WriteString("||")
	for i, t := range sc.Threads {
		fmt.Fprintf(&sb, " t%d:[", i+1)
		for j, o := range t {
			if j > 0 {
				sb.WriteString(",")
			}
			sb.WriteString(o.String())
		}
		sb.WriteString("]")
	}
	return sb.String()
}

func (sc scenario) hasSQL() bool {
	for _, t := range sc.Threads {
		for _, o := range t {
			if o.K == "SQL" {
				return true
			}
		}
	}
	return false
}

// ---------------------------------------------------------------- execution

type opResult struct {
	thread  int
	op      sop
	tok     string
	snap    map[string]string // the object the call returned (kept to detect later mutation)
	snapStr string            // its canonical form at return time
	out     string
	err     string
	call    int64
	ret     int64
}

type execResult struct {
	tr      *vsched.Trace
	results []opResult // in return order
	panics  []string
	idents  map[string]string
	values  map[string]string
	nCount  int
	vCount  int
}

func canon(m map[string]string) string {
	ks := make([]string, 0, len(m))
	for k := range m {
		ks = append(ks, k)
	}
	sort.Strings(ks)
	var sb strings.Builder
	for i, k := range ks {
		if i > 0 {
			sb.WriteByte(',')
		}
		sb.WriteString(k + "=" + m[k])
	}
	return sb.String()
}

func applyOp(m *sqlredact.Mapping, o sop) (res opResult) {
	res.op = o
	switch o.K {
	case "RI":
		res.tok = m.RedactIdent(lexemes[o.X])
	case "RV":
		res.tok = m.RedactValue(lexemes[o.X])
	case "SI":
		res.snap = m.Idents()
		res.snapStr = canon(res.snap)
	case "SV":
		res.snap = m.Values()
		res.snapStr = canon(res.snap)
	case "SQL":
		out, err := sqlredact.RedactSQLForTraceInto(schedSQL[o.X].sql, m)
		res.out = out
		if err != nil {
			res.err = err.Error()
		}
	}
	return res
}

func runScenario(sc scenario, choose func(i int, cands []int, runningIn bool) int, maxPoints int) execResult {
	m := sqlredact.NewMapping()
	var x execResult
	clock := int64(0)
	for _, o := range sc.Pre {
		res := applyOp(m, o)
		res.thread, res.call, res.ret = 0, clock, clock+1
		clock += 2
		x.results = append(x.results, res)
	}
	bodies := make([]func(t *vsched.Thread), len(sc.Threads))
	for ti := range sc.Threads {
		ti := ti
		prog := sc.Threads[ti]
		bodies[ti] = func(t *vsched.Thread) {
			for _, o := range prog {
				call := clock
				clock++
				res := applyOp(m, o)
				res.thread, res.call, res.ret = ti+1, call, clock
				clock++
				x.results = append(x.results, res)
			}
		}
	}
	tr, threads := vsched.Run(bodies, choose, maxPoints)
	x.tr = tr
	for _, t := range threads {
		if t.PanicVal != nil {
			x.panics = append(x.panics, fmt.Sprintf("thread %d: %v", t.ID, t.PanicVal))
		}
	}
	if !tr.Deadlock && !tr.Stuck && !tr.Horizon {
		// final observation (unmanaged: the shims pass through)
		x.idents, x.values = m.Idents(), m.Values()
		fmt.Sscanf(m.String(), "sqlredact.Mapping{idents:%d values:%d}", &x.nCount, &x.vCount)
	}
	return x
}

// ---------------------------------------------------------------- sequential model (porcupine)

type mstate struct{ idents, values string } // comma-joined lexemes in minting order

func mintIn(list, x string) (string, int) {
	if list == "" {
		return x, 1
	}
	parts := strings.Split(list, ",")
	for i, p := range parts {
		if p == x {
			return list, i + 1
		}
	}
	return list + "," + x, len(parts) + 1
}

func snapOf(list, pfx string) string {
	if list == "" {
		return ""
	}
	m := map[string]string{}
	for i, p := range strings.Split(list, ",") {
		m[p] = fmt.Sprintf("%s%d", pfx, i+1)
	}
	return canon(m)
}

var mappingModel = porcupine.Model{
	Init: func() interface{} { return mstate{} },
	Step: func(st, in, out interface{}) (bool, interface{}) {
		s, o, res := st.(mstate), in.(sop), out.(opResult)
		switch o.K {
		case "RI":
			l, k := mintIn(s.idents, lexemes[o.X])
			s.idents = l
			return res.tok == fmt.Sprintf("n%d", k), s
		case "RV":
			l, k := mintIn(s.values, lexemes[o.X])
			s.values = l
			return res.tok == fmt.Sprintf("v%d", k), s
		case "SI":
			return res.snapStr == snapOf(s.idents, "n"), s
		case "SV":
			return res.snapStr == snapOf(s.values, "v"), s
		}
		return false, s
	},
	Equal: func(a, b interface{}) bool { return a.(mstate) == b.(mstate) },
	DescribeOperation: func(in, out interface{}) string {
		o, res := in.(sop), out.(opResult)
		return fmt.Sprintf("%s -> %s%s", o, res.tok, res.snapStr)
	},
}

// ---------------------------------------------------------------- oracle

func scenarioSubject(sc scenario) map[string]string {
	var parts []string
	for _, t := range sc.Threads {
		var ks []string
		for _, o := range t {
			ks = append(ks, o.kindName())
		}
		if len(ks) > 0 {
			parts = append(parts, strings.Join(ks, "+"))
		}
	}
	sort.Strings(parts)
	return map[string]string{"ops": strings.Join(parts, " | "), "pre": fmt.Sprint(len(sc.Pre))}
}

func dense(m map[string]string, pfx string) bool {
	seen := map[string]bool{}
	for _, t := range m {
		seen[t] = true
	}
	if len(seen) != len(m) {
		return false
	}
	for i := 1; i <= len(m); i++ {
		if !seen[fmt.Sprintf("%s%d", pfx, i)] {
			return false
		}
	}
	return true
}

func describe(x execResult) string {
	var sb strings.Builder
	for _, res := range x.results {
		fmt.Fprintf(&sb, "[%d,%d] t%d %s -> %s%s%s %s; ", res.call, res.ret, res.thread, res.op, res.tok, res.snapStr, res.out, res.err)
	}
	fmt.Fprintf(&sb, "final idents={%s} values={%s} nCount=%d vCount=%d", canon(x.idents), canon(x.values), x.nCount, x.vCount)
	return sb.String()
}

func checkExec(sc scenario, x execResult, choices []int) *core.Violation {
	mk := func(clause, kind, obs, exp string) *core.Violation {
		return &core.Violation{Check: "schedules", Clause: clause, Kind: kind, Subject: scenarioSubject(sc),
			Witness:  core.J(map[string]any{"scenario": sc, "desc": sc.String(), "schedule": choices}),
			Observed: obs, Expected: exp}
	}
	if x.tr.Stuck {
		return mk("progress", "stuck-outside-scheduler", "a thread blocked on a primitive the scheduler cannot see", "")
	}
	if x.tr.Deadlock {
		return mk("progress", "deadlock", fmt.Sprintf("blocked threads %v", x.tr.Blocked), "")
	}
	if x.tr.Horizon {
		return mk("progress", "livelock-horizon", "execution exceeded its horizon", "")
	}
	if len(x.panics) > 0 {
		return mk("no-panic", "panic", strings.Join(x.panics, "; "), "")
	}
	d := describe(x)
	// requested lexemes
	wantI, wantV := map[string]bool{}, map[string]bool{}
	all := append([]sop{}, sc.Pre...)
	for _, t := range sc.Threads {
		all = append(all, t...)
	}
	for _, o := range all {
		switch o.K {
		case "RI":
			wantI[lexemes[o.X]] = true
		case "RV":
			wantV[lexemes[o.X]] = true
		case "SQL":
			for _, s := range schedSQL[o.X].idents {
				wantI[s] = true
			}
			for _, s := range schedSQL[o.X].values {
				wantV[s] = true
			}
		}
	}
	sameKeys := func(m map[string]string, w map[string]bool) bool {
		if len(m) != len(w) {
			return false
		}
		for k := range w {
			if _, ok := m[k]; !ok {
				return false
			}
		}
		return true
	}
	if !sameKeys(x.idents, wantI) || !sameKeys(x.values, wantV) {
		return mk("mapping-domain", "final-mapping-has-wrong-lexemes", d, "exactly the redacted lexemes")
	}
	if !dense(x.idents, "n") || !dense(x.values, "v") {
		return mk("injective", "tokens-not-distinct-and-dense", d, "tokens n1..nk / v1..vk, one per distinct lexeme")
	}
	if x.nCount != len(x.idents) || x.vCount != len(x.values) {
		return mk("counters", "counter-differs-from-distinct-lexemes", d, fmt.Sprintf("idents:%d values:%d", len(x.idents), len(x.values)))
	}
	// per-thread program order facts
	known := map[int]map[string]bool{}   // thread -> "i:a" lexemes it has seen redacted
	lastSnap := map[string]map[string]string{} // thread+kind -> previous snapshot
	for _, res := range x.results {
		th := res.thread
		if known[th] == nil {
			known[th] = map[string]bool{}
			for k := range known[0] { // pre-populated lexemes are known to everybody
				known[th][k] = true
			}
		}
		switch res.op.K {
		case "RI":
			if res.tok != x.idents[lexemes[res.op.X]] {
				return mk("stable", "same-lexeme-different-tokens", d, "every caller gets the token of the final mapping")
			}
			known[th]["i:"+lexemes[res.op.X]] = true
		case "RV":
			if res.tok != x.values[lexemes[res.op.X]] {
				return mk("stable", "same-lexeme-different-tokens", d, "every caller gets the token of the final mapping")
			}
			known[th]["v:"+lexemes[res.op.X]] = true
		case "SI", "SV":
			final, pfx, ns := x.idents, "n", "i:"
			if res.op.K == "SV" {
				final, pfx, ns = x.values, "v", "v:"
			}
			if canon(res.snap) != res.snapStr {
				return mk("snapshot", "snapshot-mutated-after-return", d+" ; snapshot now {"+canon(res.snap)+"}", "a snapshot is a copy")
			}
			for k, v := range res.snap {
				if final[k] != v {
					return mk("snapshot", "snapshot-disagrees-with-final-mapping", d, "")
				}
			}
			if !dense(res.snap, pfx) {
				return mk("snapshot", "snapshot-not-a-dense-prefix", d, "a snapshot with k entries holds tokens 1..k")
			}
			for k := range known[th] {
				if strings.HasPrefix(k, ns) {
					if _, ok := res.snap[k[2:]]; !ok {
						return mk("snapshot", "snapshot-misses-lexeme-redacted-earlier-in-program-order", d, "")
					}
				}
			}
			key := fmt.Sprintf("%d%s", th, res.op.K)
			for k := range lastSnap[key] {
				if _, ok := res.snap[k]; !ok {
					return mk("snapshot", "snapshots-not-monotone", d, "")
				}
			}
			lastSnap[key] = res.snap
		case "SQL":
			if res.err != "" {
				return mk("sql", "redaction-error", d, "no error")
			}
			if want := schedSQL[res.op.X].render(x.idents, x.values); res.out != want {
				return mk("sql", "redacted-sql-inconsistent-with-mapping", d, want)
			}
			for _, s := range schedSQL[res.op.X].idents {
				known[th]["i:"+s] = true
			}
			for _, s := range schedSQL[res.op.X].values {
				known[th]["v:"+s] = true
			}
		}
	}
	if !sc.hasSQL() {
		ops := make([]porcupine.Operation, 0, len(x.results))
		for _, res := range x.results {
			if res.op.K == "SQL" {
				continue
			}
			ops = append(ops, porcupine.Operation{ClientId: res.thread, Input: res.op, Call: res.call, Output: res, Return: res.ret})
		}
		if !porcupine.CheckOperations(mappingModel, ops) {
			return mk("linearizable", "non-linearizable", d, "some sequential order consistent with real time explains all results")
		}
	}
	return nil
}

func outcomeKey(x execResult) string {
	var sb strings.Builder
	rs := append([]opResult(nil), x.results...)
	sort.SliceStable(rs, func(i, j int) bool { return rs[i].thread < rs[j].thread })
	for _, res := range rs {
		fmt.Fprintf(&sb, "%d:%s%s%s|", res.thread, res.tok, res.snapStr, res.out)
	}
	sb.WriteString(canon(x.idents) + "/" + canon(x.values))
	return sb.String()
}

const horizon = 300

func firstViolation(sc scenario, bound int, stop func() bool) (v *core.Violation, outs int, ex *vsched.Explorer, points int64) {
	seenOut := map[string]struct{}{}
	var last execResult
	ex = &vsched.Explorer{Bound: bound, MaxPoints: horizon}
	ex.Stop = func() bool { return v != nil || (stop != nil && stop()) }
	ex.Exec = func(choose func(i int, cands []int, runningIn bool) int) *vsched.Trace {
		last = runScenario(sc, choose, horizon)
		return last.tr
	}
	ex.Check = func(tr *vsched.Trace) {
		points += int64(len(tr.Points))
		seenOut[outcomeKey(last)] = struct{}{}
		if v == nil {
			v = checkExec(sc, last, tr.Choices())
		}
	}
	ex.Explore()
	if ex.Diverged != nil {
		panic("HARNESS: " + ex.Diverged.Error() + " in " + sc.String())
	}
	return v, len(seenOut), ex, points
}

// minimise drops operations while a violation of the same clause/kind remains.
func minimise(sc scenario, bound int, v *core.Violation) (scenario, *core.Violation) {
	for changed := true; changed; {
		changed = false
		var cands []scenario
		for i := range sc.Pre {
			c := scenario{Threads: sc.Threads}
			c.Pre = append(append([]sop{}, sc.Pre[:i]...), sc.Pre[i+1:]...)
			cands = append(cands, c)
		}
		for ti := range sc.Threads {
			for oi := range sc.Threads[ti] {
				c := scenario{Pre: sc.Pre}
				for tj := range sc.Threads {
					if tj != ti {
						c.Threads = append(c.Threads, sc.Threads[tj])
						continue
					}
					p := append(append([]sop{}, sc.Threads[tj][:oi]...), sc.Threads[tj][oi+1:]...)
					if len(p) > 0 {
						c.Threads = append(c.Threads, p)
					}
				}
				if len(c.Threads) >= 2 {
					cands = append(cands, c)
				}
			}
		}
		for _, c := range cands {
			nv, _, _, _ := firstViolation(c, bound, nil)
			if nv != nil && nv.Clause == v.Clause && nv.Kind == v.Kind {
				sc, v, changed = c, nv, true
				break
			}
		}
	}
	return sc, v
}

// ---------------------------------------------------------------- scenario enumeration

func opAlphabet() []sop {
	return []sop{{"RI", 0}, {"RI", 1}, {"RV", 0}, {"RV", 1}, {"SI", 0}, {"SV", 0}, {"SQL", 0}, {"SQL", 1}}
}

func programs(maxLen int) [][]sop {
	alpha := opAlphabet()
	var out [][]sop
	var rec func(p []sop)
	rec = func(p []sop) {
		if len(p) > 0 {
			out = append(out, append([]sop{}, p...))
		}
		if len(p) == maxLen {
			return
		}
		for _, o := range alpha {
			rec(append(p, o))
		}
	}
	rec(nil)
	return out
}

// mutates: the program can mint (only-snapshot scenarios are trivial)
func mutates(p []sop) bool {
	for _, o := range p {
		if o.K != "SI" && o.K != "SV" {
			return true
		}
	}
	return false
}

func scenarios(thorough bool) []scenario {
	pres := [][]sop{nil, {{"RI", 0}}, {{"RV", 1}, {"RI", 1}}}
	p2, p1 := programs(2), programs(1)
	var out []scenario
	for _, pre := range pres {
		for i, a := range p2 {
			for j, b := range p2 {
				if j < i {
					continue // symmetric
				}
				if !mutates(a) && !mutates(b) {
					continue
				}
				out = append(out, scenario{Pre: pre, Threads: [][]sop{a, b}})
			}
		}
		first := p1
		if thorough {
			first = p2
		}
		for _, a := range first {
			for j, b := range p1 {
				for k, c := range p1 {
					if k < j {
						continue
					}
					if !mutates(a) && !mutates(b) && !mutates(c) {
						continue
					}
					out = append(out, scenario{Pre: pre, Threads: [][]sop{a, b, c}})
				}
			}
		}
	}
	return out
}

func runSchedules(r *core.Run) {
	scs := scenarios(r.Thorough())
	r.Info("schedule_scenarios", len(scs))
	bound2, bound3 := 2, 2
	if r.Thorough() {
		bound2, bound3 = 3, 2
	}
	r.Info("preemption_bound_2_threads", bound2)
	r.Info("preemption_bound_3_threads", bound3)
	completed := 0
	nviol := 0
	for i, sc := range scs {
		if !r.Mine(int64(i)) {
			continue
		}
		if r.Expired() {
			r.Capped(fmt.Sprintf("time budget: %d of this worker's schedule scenarios completed", completed))
			break
		}
		if nviol >= 12 {
			r.Capped("stopped schedule exploration after 12 violating scenarios in this worker")
			break
		}
		b := bound2
		if len(sc.Threads) == 3 {
			b = bound3
		}
		v, outs, ex, points := firstViolation(sc, b, r.Expired)
		r.EvalN(ex.Executions)
		r.Count("schedules", ex.Executions)
		r.Count("schedule_transitions", points)
		r.Count("schedule_scenarios_completed", 1)
		r.Count("schedule_states", int64(outs))
		r.Max("max_points_per_execution", int64(ex.MaxPointsSeen))
		r.Max("max_distinct_outcomes_per_scenario", int64(outs))
		completed++
		if v != nil {
			nviol++
			_, mv := minimise(sc, b, v)
			r.Violate(*mv)
			r.Outcome("schedules:violation")
		} else if ex.Stopped {
			r.Capped(fmt.Sprintf("time budget reached during schedule exploration (bound %d)", b))
		} else {
			r.Outcome(fmt.Sprintf("schedules:ok:%d-outcomes", min(outs, 9)))
		}
		if outs > 1 {
			r.NonTrivial("sched:" + sc.String())
			if r.WantSample() && i%97 == 0 {
				r.Sample(map[string]any{"scenario": sc.String(), "schedules": ex.Executions, "distinct_outcomes": outs, "preemption_bound": b})
			}
		}
	}
}

func replaySchedule(r *core.Run, w json.RawMessage) {
	var c struct {
		Scenario scenario `json:"scenario"`
		Schedule []int    `json:"schedule"`
	}
	if err := json.Unmarshal(w, &c); err != nil {
		return
	}
	x := runScenario(c.Scenario, func(i int, cands []int, runningIn bool) int {
		if i < len(c.Schedule) && c.Schedule[i] < len(cands) {
			return c.Schedule[i]
		}
		return 0
	}, horizon)
	if v := checkExec(c.Scenario, x, x.tr.Choices()); v != nil {
		r.Violate(*v)
	}
}
