package c45

import (
	"fmt"
	"regexp"
	"strings"
)

// Statement templates. One template per line; tokens are separated by blanks. Token forms:
//
//	<x:class>   identifier slot, variable x, identifier *position class* `class` (first occurrence
//	            names the class; later occurrences are written <x>); the lexeme is chosen per case
//	@<x:class>  user-variable slot: ONE lexer token "@"+identifier   (also @@<x:class>, @@global.<x:class>, @@session.<x:class>)
//	$v          literal slot, variable v; the literal *kind* is chosen per case
//	?  :name    bind placeholders (pass through the redactor by specification)
//	'txt' "txt" fixed string literal;  [name] fixed identifier
//	{name}      built-in function name written as a keyword: the redactor may keep it or redact it as
//	            an identifier (it cannot tell built-in from user-defined function names); both accepted
//	<~>         glue: no blank between the neighbours in any rendering (account names u@h)
//	other       structural token (keyword / operator / punctuation), expected verbatim in the output
//
// Every template must parse with plain sentinel identifiers and string literals (checked at start).
const templateText = `
select <c:column> from <t:table>
select <c:column> , <t:table> . <c> , <d:schema> . <t> . <c> from <d> . <t>
select <c:column> as <a:column-alias> from <t:table> as <b:table-alias> where <b> . <c> = $v order by <a>
select <c:column> <a:column-alias> from <t:table> <b:table-alias>
select * from <t:table> where <c:column> = $v and <c2:column> in ( $w , $x ) or <c> between $v and $w
select <f:function> ( <c:column> , $v ) from <t:table>
select <d:schema> . <f:function> ( $v )
select {count} ( * ) , {max} ( <c:column> ) from <t:table> group by <c2:column> having <c2> > $v order by <c2> desc limit $n offset $m
select * from <t:table> join <u:table> on <t> . <c:column> = <u> . <c2:column>
select * from <t:table> left join <u:table> using ( <c:using-column> )
select * from <t:table> natural join <u:table>
select * from <t:table> cross join <u:table> , <w:table>
select * from ( select <c:column> from <t:table> ) as <s:derived-alias> where <s> . <c> > $v
select * from <t:table> where <c:column> in ( select <c2:column> from <u:table> where <u> . <c2> = <t> . <c> )
select * from <t:table> where exists ( select $v from <u:table> )
with <w:cte> as ( select <c:column> from <t:table> ) select * from <w>
with recursive <w:cte> ( <k:cte-column> ) as ( select $v union all select <k> + $w from <w> where <k> < $x ) select <k> from <w>
select <c:column> from <t:table> union select <c2:column> from <u:table>
select <c:column> from <t:table> intersect select <c2:column> from <u:table> except select $v
select * from <t:table> use index ( <i:index-hint> )
select * from <t:table> force index ( <i:index-hint> , <i2:index-hint> )
select * from <t:table> ignore index ( <i:index-hint> ) where <c:column> = $v
select * from <t:table> partition ( <p:partition> )
select * from <t:table> as of $v
select * from <t:table> for system_time as of $v
select <c:column> , {row_number} ( ) over ( partition by <c2:column> order by <c> ) from <t:table>
select {sum} ( <c:column> ) over <w:window> from <t:table> window <w> as ( order by <c> )
select case when <c:column> = $v then $w else $x end from <t:table>
select case <c:column> when $v then $w end from <t:table>
select {cast} ( <c:column> as char ) , {convert} ( <c> , signed ) from <t:table>
select {convert} ( <c:column> using <cs:charset> ) from <t:table>
select <c:column> collate <co:collation> from <t:table> order by <c> collate <co>
select * from <t:table> where <c:column> like $v escape $w
select * from <t:table> where <c:column> regexp $v or <c> is null or not <c> is not null
select <c:column> -> $v , <c> ->> $w from <t:table>
select * from {json_table} ( <c:column> , $v columns ( <j:json-table-column> int path $w ) ) as <a:table-alias>
select @<v:uservar> , @@<s:sysvar> , @<v>
set @<v:uservar> := $v
select @@global.<s:sysvar> , @@session.<s2:sysvar>
select * from <t:table> for update
select * from <t:table> lock in share mode
select <c:column> into @<v:uservar> from <t:table>
select <c:column> from <t:table> into outfile $v
select <c:column> from <t:table> into dumpfile $v
select * from <tf:table-function> ( $v )
select * from <tf:table-function> ( $v ) as <a:table-alias>
select interval $v day + <c:column> from <t:table>
select {date_add} ( <c:column> , interval $v day ) from <t:table>
select <c:column> from <t:table> where match ( <c> ) against ( $v )
select distinct <c:column> from <t:table> , <u:table> where <t> . <c> = <u> . <c>
select * from <t:table> straight_join <u:table> on <t> . <c:column> = <u> . <c>
select * from <t:table> , lateral ( select <c:column> from <u:table> ) as <a:derived-alias>
table <t:table>
values row ( $v , $w )
select * from <t:table> where ( <c:column> , <c2:column> ) = ( $v , $w )
select - $v , + $w , ~ $x , ! <c:column> from <t:table>
select $v << $w , $v >> $w , $v <=> $w , $v <> $w , $v != $w , $v <= $w , $v >= $w , $v < $w , $v > $w
select $v && $w , $v || $w , $v % $w , $v div $w , $v ^ $w , $v & $w , $v | $w , $v * $w , $v / $w , $v mod $w , $v xor $w
select {group_concat} ( distinct <c:column> order by <c> separator $v ) from <t:table>
select {substring} ( <c:column> from $n for $m ) , {trim} ( leading $v from <c> ) , {extract} ( year from <c> ) , {position} ( $w in <c> ) from <t:table>
select {char} ( $n using <cs:charset> ) , {timestampadd} ( day , $m , <c:column> ) , {if} ( <c> , $v , $w ) , {default} ( <c> ) from <t:table>
select {first_value} ( <c:column> ) over ( order by <c2:column> rows between $n preceding and current row ) , {lag} ( <c> , $m ) over ( ) from <t:table>
select <c:column> from <t:table> where <c> = ? and <c2:column> = $v
select <c:column> from <t:table> where <c> = :v1 and <c2:column> = $v limit ?
select <c:column> from <t:table> where <c> = :xqbind and <c2:column> in ::xqlist
select <c:column> from <t:table> where <c> = $v ;
select {current_timestamp} , {now} ( ) , {current_user} ( ) , <c:column> from <t:table>
select <c:column> from <t:table> order by <c> asc , $n desc
select sql_calc_found_rows <c:column> from <t:table>
select <c:column> from <t:table> where <c> = 'xqsame' and <c2:column> = "xqsame"
select [xqsame] from <t:table> where [xqsame] = 'xqsame' and [XQSAME] = [@xqsame]
insert into <t:table> ( <c:insert-column> , <c2:insert-column> ) values ( $v , $w ) , ( $x , $y )
insert into <d:schema> . <t:table> values ( $v )
insert into <t:table> ( <c:insert-column> ) values ( $v ) on duplicate key update <c> = {values} ( <c> ) + $w
insert into <t:table> set <c:column> = $v
insert into <t:table> select <c:column> from <u:table>
insert ignore into <t:table> values ( $v , default , null , true , false )
replace into <t:table> values ( $v )
insert into <t:table> ( <c:insert-column> ) values ( $v ) as <n:row-alias> on duplicate key update <c> = <n> . <c>
insert into <t:table> partition ( <p:partition> ) values ( $v )
insert into <t:table> values ( $v ) returning <c:column>
update <t:table> set <c:update-column> = $v , <c2:update-column> = <c2> + $w where <c> = $x order by <c> limit $n
update <t:table> as <a:table-alias> join <u:table> on <a> . <c:column> = <u> . <c> set <a> . <c2:column> = $v
update <d:schema> . <t:table> set <t> . <c:update-column> = $v
delete from <t:table> where <c:column> = $v limit $n
delete <a:table> from <a> join <u:table> on <a> . <c:column> = <u> . <c>
delete from <t:table> partition ( <p:partition> ) where <c:column> = $v
create table <t:table> ( <c:column-def> int primary key , <c2:column-def> varchar ( $n ) not null default $v comment $w )
create table <t:table> ( <c:column-def> int , index <i:index> ( <c> ) , unique key <i2:index> ( <c> ) )
create table <t:table> ( <c:column-def> int , key <i:index> ( <c> ( $n ) desc ) , fulltext <i2:index> ( <c> ) )
create table <t:table> ( <c:column-def> int , constraint <k:constraint> foreign key ( <c> ) references <r:fk-ref-table> ( <rc:fk-ref-column> ) on delete cascade on update set null )
create table <t:table> ( <c:column-def> int , foreign key <i:fk-index> ( <c> ) references <d:fk-ref-schema> . <r:fk-ref-table> ( <rc:fk-ref-column> ) )
create table <t:table> ( <c:column-def> int , constraint <k:constraint> check ( <c> > $v ) )
create table <t:table> ( <c:column-def> int , constraint <k:constraint> primary key ( <c> ) , constraint <k2:constraint> unique ( <c> ) )
create table <t:table> ( <c:column-def> int check ( <c> > $v ) , <c2:column-def> int references <r:fk-ref-table> ( <rc:fk-ref-column> ) )
create table <t:table> ( <c:column-def> int ) engine = <e:engine> default charset = <cs:charset> collate = <co:collation> comment = $v auto_increment = $n
create table <t:table> ( <c:column-def> varchar ( $n ) character set <cs:charset> collate <co:collation> )
create table <t:table> like <u:table>
create table <t:table> as select <c:column> from <u:table>
create temporary table if not exists <d:schema> . <t:table> ( <c:column-def> int )
create table <t:table> ( <c:column-def> int , <c2:column-def> int generated always as ( <c> + $v ) stored )
create table <t:table> ( <c:column-def> enum ( $v , $w ) , <c2:column-def> set ( $x ) )
create table <t:table> ( <c:column-def> int ) partition by hash ( <c> ) partitions $n
create table <t:table> ( <c:column-def> int ) partition by range ( <c> ) ( partition <p:partition> values less than ( $v ) )
create table <t:table> ( <c:column-def> geometry srid $n , <c2:column-def> int auto_increment , <c3:column-def> timestamp default current_timestamp on update current_timestamp , <c4:column-def> decimal ( $p , $s ) unsigned zerofill )
create index <i:index> on <t:table> ( <c:column> )
create unique index <i:index> using btree on <t:table> ( <c:column> ( $n ) desc )
create fulltext index <i:index> on <d:schema> . <t:table> ( <c:column> )
alter table <t:table> add column <c:column-def> int after <c2:column>
alter table <t:table> add <c:column-def> int first
alter table <t:table> drop column <c:column>
alter table <t:table> drop index <i:index>
alter table <t:table> drop foreign key <k:constraint>
alter table <t:table> drop constraint <k:constraint>
alter table <t:table> drop check <k:constraint>
alter table <t:table> add index <i:index> ( <c:column> )
alter table <t:table> add constraint <k:constraint> foreign key ( <c:column> ) references <r:fk-ref-table> ( <rc:fk-ref-column> )
alter table <t:table> add constraint <k:constraint> check ( <c:column> > $v )
alter table <t:table> add constraint <k:constraint> unique ( <c:column> )
alter table <t:table> rename to <u:table>
alter table <t:table> rename column <c:column> to <c2:column>
alter table <t:table> rename index <i:index> to <i2:index>
alter table <t:table> change column <c:column> <c2:column-def> int
alter table <t:table> modify column <c:column-def> int
alter table <t:table> alter column <c:column> set default $v
alter table <t:table> alter index <i:index> invisible
alter table <t:table> convert to character set <cs:charset> collate <co:collation>
alter table <t:table> default character set <cs:charset>
alter table <t:table> auto_increment = $n
alter table <t:table> comment = $v
alter table <t:table> add partition ( partition <p:partition> values less than ( $v ) )
alter table <t:table> drop partition <p:partition>
alter table <t:table> truncate partition <p:partition> tablespace
alter table <t:table> discard partition <p:partition> , <p2:partition> tablespace
alter table <t:table> add column <c:column-def> int , drop column <c2:column>
rename table <t:table> to <u:table> , <t2:table> to <u2:table>
drop table if exists <t:table> , <d:schema> . <u:table>
drop view <v:view>
drop view if exists <d:schema> . <v:view>
drop index <i:index> on <t:table>
drop database <d:database>
drop schema if exists <d:database>
drop procedure <p:procedure>
drop procedure if exists <d:schema> . <p:procedure>
drop trigger <d:schema> . <g:trigger>
drop trigger if exists <g:trigger>
drop event <e:event>
drop user <u:user> <~> @ <~> <h:host>
drop role <r:role>
truncate table <t:table>
truncate <d:schema> . <t:table>
create database <d:database> character set <cs:charset> collate <co:collation>
create schema if not exists <d:database>
alter database <d:database> collate <co:collation>
create view <v:view> as select <c:column> from <t:table>
create or replace view <d:schema> . <v:view> ( <vc:view-column> ) as select <c:column> from <t:table> with check option
create algorithm = merge definer = <u:user> <~> @ <~> <h:host> sql security invoker view <v:view> as select $v
create trigger <g:trigger> before insert on <t:table> for each row set [new] . <c:column> = $v
create trigger <d:schema> . <g:trigger> after update on <t:table> for each row follows <g2:trigger> update <u:table> set <c:column> = [old] . <c2:column>
create procedure <p:procedure> ( in <a:proc-param> int , out <b:proc-param> varchar ( $n ) ) select <a>
create procedure <d:schema> . <p:procedure> ( ) begin declare <x:local-var> int default $v ; set <x> = $w ; select <x> ; end
create procedure <p:procedure> ( ) begin declare <cur:cursor> cursor for select <c:column> from <t:table> ; open <cur> ; fetch <cur> into <x:local-var> ; close <cur> ; end
create procedure <p:procedure> ( ) begin declare <cn:condition> condition for sqlstate $v ; declare exit handler for <cn> select $w ; signal <cn> ; end
create procedure <p:procedure> ( ) <l:label> : loop leave <l> ; end loop <l>
create procedure <p:procedure> ( ) begin if <c:column> > $v then select $w ; elseif <c> < $x then select $y ; else select $z ; end if ; end
create procedure <p:procedure> ( ) begin while <c:column> > $v do set <c> = <c> - $w ; end while ; end
create definer = <u:user> <~> @ <~> <h:host> procedure <p:procedure> ( ) comment $v sql security definer select $w
create event <e:event> on schedule every $n day do delete from <t:table>
create event if not exists <e:event> on schedule at $v on completion preserve enable comment $w do select $x
alter event <e:event> rename to <e2:event>
alter event <e:event> disable
call <p:procedure> ( $v , @<v:uservar> )
call <d:schema> . <p:procedure> ( )
create user <u:user> <~> @ <~> <h:host> identified by $v
create user if not exists <u:user> identified with <pl:auth-plugin> by $v
create user <u:user> <~> @ <~> <h:host> default role <r:role>
create user $u <~> @ <~> $h identified by $v
create role <r:role>
grant select , insert ( <c:grant-column> ) on <d:grant-schema> . <t:grant-table> to <u:user> <~> @ <~> <h:host> with grant option
grant all on * . * to <u:user> <~> @ <~> <h:host>
grant select on <t:grant-table> to <u:user>
grant select on <d:grant-schema> . * to <u:user>
grant <r:role> to <u:user> <~> @ <~> <h:host>
grant execute on procedure <d:grant-schema> . <p:grant-routine> to <u:user>
grant backup_admin on * . * to <u:user>
revoke select on <d:grant-schema> . <t:grant-table> from <u:user> <~> @ <~> <h:host>
revoke <r:role> from <u:user>
alter user <u:user> <~> @ <~> <h:host> identified by $v
rename user <u:user> <~> @ <~> <h:host> to <u2:user> <~> @ <~> <h2:host>
show grants for <u:user> <~> @ <~> <h:host>
set @<v:uservar> = $v , @<v2:uservar> = <f:function> ( $w )
set <s:sysvar-bare> = $v
set session <s:sysvar-bare> = $v , global <s2:sysvar-bare> = $w
set @@<s:sysvar> = $v , @@session.<s2:sysvar> = $w
set persist <s:sysvar-bare> = $v
set <s:sysvar-bare> = <x:set-value-bare>
set names <cs:charset> collate <co:collation>
set names $v
set character set <cs:charset>
set charset <cs:charset>
set transaction isolation level read committed
use <d:database>
show tables from <d:database> like $v
show full tables in <d:database> where <c:column> = $v
show columns from <t:table> from <d:database>
show full columns from <d:schema> . <t:table> like $v
show create table <d:schema> . <t:table>
show create view <v:view>
show create procedure <p:procedure>
show create trigger <g:trigger>
show create event <e:event>
show create database <d:database>
show index from <t:table> from <d:database>
show keys in <t:table> where <c:column> = $v
show table status from <d:database> like $v
show variables like $v
show global status where <c:column> like $v
show triggers from <d:database> like $v
show events from <d:database>
show procedure status like $v
show function status where <c:column> = $v
show processlist
show warnings limit $n
show charset like $v
show collation where <c:column> = $v
show engines
show plugins
show databases like $v
show binary logs
show replica status
describe <t:table>
desc <d:schema> . <t:table>
explain select <c:column> from <t:table>
explain format = <fmt:explain-format> select <c:column> from <t:table>
analyze table <t:table>
analyze table <t:table> update histogram on <c:column> using data $v
analyze table <t:table> drop histogram on <c:column>
begin
start transaction read only
commit
rollback
savepoint <s:savepoint>
rollback to savepoint <s:savepoint>
rollback to <s:savepoint>
release savepoint <s:savepoint>
lock tables <t:table> read , <u:table> as <a:lock-alias> write
unlock tables
prepare <p:prepared> from $v
prepare <p:prepared> from @<v:uservar>
execute <p:prepared> using @<v:uservar> , @<v2:uservar>
deallocate prepare <p:prepared>
drop prepare <p:prepared>
kill query $n
kill connection $n
flush privileges
flush tables <t:table> , <u:table> with read lock
purge binary logs to $v
load data infile $v into table <t:table> fields terminated by $w enclosed by $x lines terminated by $y ignore $n lines ( <c:column> , @<v:uservar> )
load data local infile $v into table <d:schema> . <t:table> character set <cs:charset> ( <c:column> ) set <c2:column> = $w
change replication source to source_host = $v , source_user = $w , source_port = $n
change replication filter replicate_do_table = ( <d:schema> . <t:table> )
start replica
signal sqlstate $v set message_text = $w , mysql_errno = $n
stream <c:column> from <t:table>
binlog $v
create spatial reference system $n name $v definition $w organization $x identified by $m
`

var reSlot = regexp.MustCompile(`^(@|@@|@@global\.|@@session\.)?<[a-z][a-z0-9]*(:[a-z-]+)?>$`)

type tokKind uint8

const (
	tkStruct tokKind = iota
	tkIdent
	tkLit
	tkBind
	tkGlue
	tkFixedStr
	tkFixedIdent
	tkFunc
)

type tTok struct {
	kind tokKind
	text string // structural / bind text; ident prefix ("@", "@@", "@@global.") for variable slots
	slot int    // index into template.islots / lslots
}

type tSlot struct {
	name  string
	class string
}

type template struct {
	src    string
	toks   []tTok
	islots []tSlot
	lslots []tSlot
}

func parseTemplate(src string) (*template, error) {
	t := &template{src: src}
	iidx := map[string]int{}
	lidx := map[string]int{}
	for _, f := range strings.Fields(src) {
		switch {
		case f == "<~>":
			t.toks = append(t.toks, tTok{kind: tkGlue})
		case reSlot.MatchString(f):
			i := strings.IndexByte(f, '<')
			pfx := f[:i]
			body := f[i+1 : len(f)-1]
			name, class := body, ""
			if j := strings.IndexByte(body, ':'); j >= 0 {
				name, class = body[:j], body[j+1:]
			}
			k, ok := iidx[name]
			if !ok {
				if class == "" {
					return nil, fmt.Errorf("slot <%s> used before its class is given in %q", name, src)
				}
				k = len(t.islots)
				iidx[name] = k
				t.islots = append(t.islots, tSlot{name, class})
			} else if class != "" && class != t.islots[k].class {
				return nil, fmt.Errorf("slot <%s> has two classes in %q", name, src)
			}
			t.toks = append(t.toks, tTok{kind: tkIdent, text: pfx, slot: k})
		case len(f) > 1 && f[0] == '$':
			name := f[1:]
			k, ok := lidx[name]
			if !ok {
				k = len(t.lslots)
				lidx[name] = k
				t.lslots = append(t.lslots, tSlot{name, "literal"})
			}
			t.toks = append(t.toks, tTok{kind: tkLit, slot: k})
		case len(f) > 2 && (f[0] == '\'' || f[0] == '"') && f[len(f)-1] == f[0]:
			t.toks = append(t.toks, tTok{kind: tkFixedStr, text: f})
		case len(f) > 2 && f[0] == '[' && f[len(f)-1] == ']':
			t.toks = append(t.toks, tTok{kind: tkFixedIdent, text: f[1 : len(f)-1]})
		case len(f) > 2 && f[0] == '{' && f[len(f)-1] == '}':
			t.toks = append(t.toks, tTok{kind: tkFunc, text: f[1 : len(f)-1]})
		case f == "?" || (len(f) > 1 && f[0] == ':' && f[1] != '='):
			t.toks = append(t.toks, tTok{kind: tkBind, text: f})
		default:
			t.toks = append(t.toks, tTok{kind: tkStruct, text: f})
		}
	}
	if len(t.toks) == 0 {
		return nil, fmt.Errorf("empty template")
	}
	return t, nil
}

var templates = func() []*template {
	var out []*template
	for _, line := range strings.Split(templateText, "\n") {
		line = strings.TrimSpace(line)
		if line == "" {
			continue
		}
		t, err := parseTemplate(line)
		if err != nil {
			panic("HARNESS: " + err.Error())
		}
		out = append(out, t)
	}
	return out
}()
