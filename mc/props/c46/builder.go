package c46

import (
	"fmt"
	"strconv"
	"strings"

	"github.com/dolthub/go-mysql-server/sql"
	"github.com/dolthub/go-mysql-server/sql/types"
)

// MySQLIndexBuilder: a conjunction of leaf predicates on the columns of an integer index must
// come out as ranges denoting exactly the key tuples that satisfy it (SQL three-valued logic:
// every comparison with NULL is not true).

type fakeIndex struct{ cols []string }

var _ sql.Index = fakeIndex{}

func (i fakeIndex) ID() string            { return "idx" }
func (i fakeIndex) Database() string      { return "db" }
func (i fakeIndex) Table() string         { return "t" }
func (i fakeIndex) Expressions() []string { return i.cols }
func (i fakeIndex) IsUnique() bool        { return false }
func (i fakeIndex) IsSpatial() bool       { return false }
func (i fakeIndex) IsFullText() bool      { return false }
func (i fakeIndex) IsVector() bool        { return false }
func (i fakeIndex) Comment() string       { return "" }
func (i fakeIndex) IndexType() string     { return "BTREE" }
func (i fakeIndex) IsGenerated() bool     { return false }
func (i fakeIndex) ColumnExpressionTypes(*sql.Context) []sql.ColumnExpressionType {
	out := make([]sql.ColumnExpressionType, len(i.cols))
	for j, c := range i.cols {
		out[j] = sql.ColumnExpressionType{Expression: c, Type: colType}
	}
	return out
}
func (i fakeIndex) CanSupport(*sql.Context, ...sql.Range) bool { return true }
func (i fakeIndex) CanSupportOrderBy(sql.Expression) bool      { return false }
func (i fakeIndex) CoversColumns([]string) bool                { return false }
func (i fakeIndex) PrefixLengths() []uint16                    { return nil }

var idxCols = []string{"t.a", "t.b"}

// key: "1" "2" "3" (integers), "1.5" "2.5" (float64 literals), "NULL".
type bpred struct {
	Col  int
	Op   string // eq ne gt ge lt le in notin isnull notnull
	Keys []string
}

func (p bpred) String() string {
	return strconv.Itoa(p.Col) + " " + p.Op + " " + strings.Join(p.Keys, ",")
}

func parsePred(s string) (bpred, error) {
	f := strings.SplitN(s, " ", 3)
	if len(f) != 3 {
		return bpred{}, fmt.Errorf("bad predicate %q", s)
	}
	c, err := strconv.Atoi(f[0])
	if err != nil || c < 0 || c > 1 {
		return bpred{}, fmt.Errorf("bad predicate column %q", s)
	}
	p := bpred{Col: c, Op: f[1]}
	if f[2] != "" {
		p.Keys = strings.Split(f[2], ",")
	}
	return p, nil
}

func keyValue(k string) (val interface{}, typ sql.Type, num float64, isNull bool) {
	switch k {
	case "NULL":
		return nil, types.Null, 0, true
	case "1", "2", "3":
		n, _ := strconv.Atoi(k)
		return int64(n), types.Int64, float64(n), false
	}
	f, _ := strconv.ParseFloat(k, 64)
	return f, types.Float64, f, false
}

// holds: SQL truth of the predicate for column value x (isNull: x is NULL).
func (p bpred) holds(x float64, xNull bool) bool {
	cmp := func(k string, f func(a, b float64) bool) bool {
		_, _, kv, kNull := keyValue(k)
		return !xNull && !kNull && f(x, kv)
	}
	switch p.Op {
	case "eq":
		return cmp(p.Keys[0], func(a, b float64) bool { return a == b })
	case "ne":
		return cmp(p.Keys[0], func(a, b float64) bool { return a != b })
	case "gt":
		return cmp(p.Keys[0], func(a, b float64) bool { return a > b })
	case "ge":
		return cmp(p.Keys[0], func(a, b float64) bool { return a >= b })
	case "lt":
		return cmp(p.Keys[0], func(a, b float64) bool { return a < b })
	case "le":
		return cmp(p.Keys[0], func(a, b float64) bool { return a <= b })
	case "in":
		for _, k := range p.Keys {
			if cmp(k, func(a, b float64) bool { return a == b }) {
				return true
			}
		}
		return false
	case "notin":
		for _, k := range p.Keys {
			if !cmp(k, func(a, b float64) bool { return a != b }) {
				return false
			}
		}
		return true
	case "isnull":
		return xNull
	case "notnull":
		return !xNull
	}
	panic("c46: unknown predicate " + p.Op)
}

func (p bpred) apply(ctx *sql.Context, b *sql.MySQLIndexBuilder) {
	col := idxCols[p.Col]
	one := func() (interface{}, sql.Type) {
		v, t, _, _ := keyValue(p.Keys[0])
		return v, t
	}
	many := func() ([]interface{}, []sql.Type) {
		var vs []interface{}
		var ts []sql.Type
		for _, k := range p.Keys {
			v, t, _, _ := keyValue(k)
			vs, ts = append(vs, v), append(ts, t)
		}
		return vs, ts
	}
	switch p.Op {
	case "eq":
		v, t := one()
		b.Equals(ctx, col, t, v)
	case "ne":
		v, t := one()
		b.NotEquals(ctx, col, t, v)
	case "gt":
		v, t := one()
		b.GreaterThan(ctx, col, t, v)
	case "ge":
		v, t := one()
		b.GreaterOrEqual(ctx, col, t, v)
	case "lt":
		v, t := one()
		b.LessThan(ctx, col, t, v)
	case "le":
		v, t := one()
		b.LessOrEqual(ctx, col, t, v)
	case "in":
		vs, ts := many()
		b.In(ctx, col, ts, vs)
	case "notin":
		vs, ts := many()
		b.NotIn(ctx, col, ts, vs)
	case "isnull":
		b.IsNull(ctx, col)
	case "notnull":
		b.IsNotNull(ctx, col)
	}
}

// builderPreds: the predicate alphabet for one column. withFloats adds the non-integral and
// NULL literals (rounding paths of the builder).
func builderPreds(col int, withFloats bool) []bpred {
	keys := []string{"1", "2", "3"}
	if withFloats {
		keys = append(keys, "1.5", "2.5", "NULL")
	}
	var out []bpred
	for _, op := range []string{"eq", "ne", "gt", "ge", "lt", "le"} {
		for _, k := range keys {
			out = append(out, bpred{col, op, []string{k}})
		}
	}
	ik := []string{"1", "2", "3"}
	if withFloats {
		ik = append(ik, "2.5")
	}
	for _, op := range []string{"in", "notin"} {
		for i, k1 := range ik {
			for _, k2 := range ik[i:] {
				out = append(out, bpred{col, op, []string{k1, k2}})
			}
		}
	}
	out = append(out, bpred{col, "isnull", nil}, bpred{col, "notnull", nil})
	return out
}

// integer points of the test line: NULL, "0" (below 1), 1, 2, 3, "4" (above 3).
var intPoints = []struct {
	point int
	val   float64
	null  bool
}{{0, 0, true}, {1, 0, false}, {2, 1, false}, {4, 2, false}, {6, 3, false}, {7, 4, false}}

var intMasks [3]pset

func init() {
	for n := 1; n <= 2; n++ {
		var s pset
		for _, p0 := range intPoints {
			if n == 1 {
				s[0] |= 1 << uint(p0.point)
				continue
			}
			for _, p1 := range intPoints {
				s[0] |= 1 << uint(p0.point+8*p1.point)
			}
		}
		intMasks[n] = s
	}
}

func intMask(n int) pset { return intMasks[n] }

func (e *env) checkBuilder(ncols int, preds []bpred) {
	k := kase{Check: "index-builder", Cols: ncols}
	for _, p := range preds {
		k.Preds = append(k.Preds, p.String())
	}
	e.r.Eval()
	// expected: tuples of integer points satisfying every predicate
	var want pset
	for _, p0 := range intPoints {
		for _, p1 := range intPoints {
			if ncols == 1 && p1.point != 0 {
				continue
			}
			ok := true
			for _, p := range preds {
				if p.Col == 0 {
					ok = ok && p.holds(p0.val, p0.null)
				} else {
					ok = ok && p.holds(p1.val, p1.null)
				}
			}
			if ok {
				bit := p0.point
				if ncols == 2 {
					bit += 8 * p1.point
				}
				want[0] |= 1 << uint(bit)
			}
		}
	}
	idx := fakeIndex{cols: idxCols[:ncols]}
	var out sql.MySQLRangeCollection
	if !e.try(k, "IndexBuilder.Ranges", ncols, func() error {
		b := sql.NewMySQLIndexBuilder(e.ctx, idx)
		for _, p := range preds {
			p.apply(e.ctx, b)
		}
		if _, err := b.Build(e.ctx); err != nil {
			return err
		}
		out = b.Ranges(e.ctx)
		return nil
	}) {
		return
	}
	ds, err := decodeRngs(out)
	if err != nil {
		e.viol(k, "IndexBuilder.Ranges", ncols, "output-well-formed", "malformed-output", err.Error(), "cuts over the literal keys (after integer rounding)")
		return
	}
	for _, d := range ds {
		if len(d) != ncols {
			e.viol(k, "IndexBuilder.Ranges", ncols, "output-well-formed", "malformed-output", fmt.Sprintf("range with %d columns", len(d)), fmt.Sprintf("%d columns", ncols))
			return
		}
	}
	got := unionOf(ds)
	e.r.Outcome(fmt.Sprintf("builder:cols=%d,preds=%d,ranges=%d,empty=%v", ncols, len(preds), len(ds), want.isEmpty()))
	if len(preds) >= 2 && !want.isEmpty() {
		e.r.NonTrivial("b|" + strings.Join(k.Preds, "|") + "|" + strconv.Itoa(ncols))
	}
	if !e.sameSet(k, "IndexBuilder.Ranges", ncols, "denotes-satisfying-keys", got.and(intMask(ncols)), want, rngsDesc(ds)) {
		return
	}
	// the planner's next step: RemoveOverlappingRanges over what the builder produced
	var ror sql.MySQLRangeCollection
	k2 := k
	if !e.try(k2, "IndexBuilder.Ranges+RemoveOverlappingRanges", ncols, func() (err error) {
		ror, err = sql.RemoveOverlappingRanges(e.ctx, out...)
		return
	}) {
		return
	}
	e.checkCollection(k2, "IndexBuilder.Ranges+RemoveOverlappingRanges", ncols, ror, got)
}
