package c46

import (
	"encoding/json"
	"fmt"
	"time"

	"verif/mc/core"
)

// sharder numbers the cases of the whole space; a worker runs those it owns.
type sharder struct {
	r   *core.Run
	idx int64
}

func (s *sharder) mine() bool {
	b := s.r.Mine(s.idx)
	s.idx++
	return b
}

// lists calls f for every list of exactly n elements of xs (with repetition, ordered); the first
// two positions are the sharding unit.
func lists[T any](s *sharder, xs []T, n int, stop func() bool, f func([]T)) {
	cur := make([]T, 0, n)
	var rec func()
	rec = func() {
		if len(cur) == n {
			f(cur)
			return
		}
		for _, x := range xs {
			cur = append(cur, x)
			if len(cur) == 2 || (n == 1 && len(cur) == 1) {
				if !s.mine() || stop() {
					cur = cur[:len(cur)-1]
					continue
				}
			}
			rec()
			cur = cur[:len(cur)-1]
		}
	}
	rec()
}

// The stages are layered: the composite operations (RemoveOverlap, RemoveOverlappingRanges, the
// tree, collections, the builder) are built from the column-expression primitives, and several of
// them iterate until a fixpoint — with a broken primitive they may not terminate, and a case
// cannot be interrupted. So every worker first runs the cheap primitive stages completely on a
// scratch run (gate); if they violate the oracle, only the primitive stages are reported and the
// composite ones are skipped (recorded as a cap, never as a pass).
func run(r *core.Run) {
	e := newEnv(r)
	s := &sharder{r: r}
	stop := func() bool {
		if r.Expired() {
			r.Capped("time budget reached; the stages run in the order listed in the rule, the current one was cut short")
			return true
		}
		return false
	}
	never := func() bool { return false }
	E := allExprs()
	// ranges handed to the multi-column operations are built from the 36 non-empty expressions
	// and the canonical empty one; the other spellings of the empty set only appear in the
	// single-expression stages (1, 2).
	EC := E[:37]
	R := reducedExprs()
	S := smallExprs()
	T := []cexpr{{0, 8}, {2, 5}, {3, 7}} // tiny: all, [1,2], (1,3]
	r.Info("exprs_all", len(E))
	r.Info("exprs_reduced", len(R))
	thorough := r.Thorough()

	stage1 := func(e *env, s *sharder, stop func() bool) {
		for _, a := range E {
			if s.mine() {
				e.checkExpr(a)
			}
		}
		lists(s, E, 2, stop, func(l []cexpr) { e.checkExprPair(l[0], l[1]) })
	}
	pairOps := func(e *env, s *sharder, stop func() bool, sets [][]rng) {
		for _, set := range sets {
			lists(s, set, 2, stop, func(l []rng) { e.checkRangePair(l[0], l[1]) })
		}
	}

	// gates (unsharded, on a scratch run that is thrown away)
	scratch := core.NewRun(r.Prop, r.Tier, 0, 0, 1, time.Hour)
	ge, gs := newEnv(scratch), &sharder{r: scratch}
	stage1(ge, gs, never)
	gate1 := scratch.NumViolations() > 0
	gate2 := false
	if !gate1 {
		pairOps(ge, gs, never, [][]rng{product(EC), product(T, T), product(T[1:], T[1:], T[1:])})
		gate2 = scratch.NumViolations() > 0
	}

	// 1. single column expressions: every expression, every ordered pair
	stage1(e, s, stop)

	// 2. SimplifyRangeColumn: every list of 1..3 expressions (thorough: 4 over the reduced set)
	for n := 1; n <= 3; n++ {
		lists(s, E, n, stop, func(l []cexpr) { e.checkSimplify(l) })
	}
	if thorough {
		lists(s, R, 4, stop, func(l []cexpr) { e.checkSimplify(l) })
	}
	if gate1 {
		r.Capped("column-expression primitives (stage 1) violate the oracle: the later stages (3-8) not run")
		return
	}

	// 3. binary range operations
	pairSets := [][]rng{product(EC), product(R, R), product(EC, T), product(S, S, S)}
	if thorough {
		pairSets = [][]rng{product(EC), product(EC, EC), product(R, R, R)}
	}
	pairOps(e, s, stop, pairSets)
	if gate2 {
		r.Capped("binary range operations (stage 3) violate the oracle: the later stages (4-8) not run")
		return
	}

	// the composite stages below iterate to fixpoints; do not enter them on broken ground
	if r.NumViolations() > 0 {
		r.Capped("stages 1-3 (primitives, SimplifyRangeColumn, binary range operations) violate the oracle in this worker's share: stages 4-8 not run by this worker")
		return
	}

	// 4. the range tree against a list
	anyInsert := func(treeModel, rng) bool { return true }
	noOverlap := func(m treeModel, x rng) bool {
		for _, y := range m {
			if !y.points().and(x.points()).isEmpty() {
				return false
			}
		}
		return true
	}
	U1 := product([]cexpr{{2, 5}, {3, 7}, {4, 5}, {0, 4}, {5, 8}, {1, 4}, {0, 1}, {6, 7}})
	var nonEmpty1 []rng
	for _, c := range EC {
		if !c.empty() {
			nonEmpty1 = append(nonEmpty1, rng{c})
		}
	}
	q1 := product(EC)
	q2 := product(S, S)
	genLen1, disLen1, genLen2, disLen2 := 5, 4, 4, 4
	if thorough {
		genLen1, disLen1, genLen2, disLen2 = 6, 6, 5, 5
	}
	r.Info("tree_max_len", map[string]int{"general_1col": genLen1, "nonoverlapping_1col": disLen1, "general_2col": genLen2, "nonoverlapping_2col": disLen2})
	e.enumTree(nonEmpty1, q1, disLen1, noOverlap, &s.idx, "1 column, non-overlapping stored ranges")
	e.enumTree(product(S, S), q2, disLen2, noOverlap, &s.idx, "2 columns, non-overlapping stored ranges")
	e.enumTree(U1, q1, genLen1, anyInsert, &s.idx, "1 column, arbitrary stored ranges")
	e.enumTree(product(T, T), q2, genLen2, anyInsert, &s.idx, "2 columns, arbitrary stored ranges")
	// 5. RemoveOverlappingRanges: pairs (same sets as stage 3), then longer lists
	for _, set := range pairSets {
		lists(s, set, 2, stop, func(l []rng) { e.checkRemoveOverlapping(l) })
	}
	for n := 1; n <= 3; n++ {
		if n == 2 {
			continue
		}
		lists(s, product(EC), n, stop, func(l []rng) { e.checkRemoveOverlapping(l) })
	}
	tripleSets := [][]rng{product(S, S), product(T, T, T)}
	if thorough {
		tripleSets = [][]rng{product(R, R), product(S, S, S)}
	}
	for _, set := range tripleSets {
		lists(s, set, 3, stop, func(l []rng) { e.checkRemoveOverlapping(l) })
	}
	lists(s, product(R), 4, stop, func(l []rng) { e.checkRemoveOverlapping(l) })
	if thorough {
		lists(s, product(S, S), 4, stop, func(l []rng) { e.checkRemoveOverlapping(l) })
		lists(s, product(R), 5, stop, func(l []rng) { e.checkRemoveOverlapping(l) })
	} else {
		lists(s, product(T, T), 4, stop, func(l []rng) { e.checkRemoveOverlapping(l) })
	}

	// 5b. RemoveOverlappingRanges on 7 two-column ranges whose first columns nest and overlap
	// ((1,3], (2,inf), (NULL,2), [2,2], [3,3], (NULL,2) again, [3,3] again: the outer tree then has
	// to rotate, remove and still find enclosing intervals), every assignment of second columns
	// from 4 [t: 7] expressions
	skel0 := []cexpr{{3, 7}, {5, 8}, {1, 4}, {4, 5}, {6, 7}, {1, 4}, {6, 7}}
	skel1 := []cexpr{{2, 3}, {0, 1}, {4, 5}, {6, 7}}
	if thorough {
		skel1 = append(skel1, cexpr{7, 8}, cexpr{2, 5}, cexpr{0, 8})
	}
	r.Info("nested_first_column_skeleton", map[string]any{"first_columns": rng(skel0).String(), "second_column_choices": len(skel1)})
	lists(s, skel1, len(skel0), stop, func(l []cexpr) {
		in := make([]rng, len(skel0))
		for i := range in {
			in[i] = rng{skel0[i], l[i]}
		}
		e.checkRemoveOverlapping(in)
	})

	// 6. MySQLRangeCollection.Intersect: collections of 1..2 ranges
	collsOf := func(set []rng) [][]rng {
		var out [][]rng
		for _, a := range set {
			out = append(out, []rng{a})
		}
		for _, a := range set {
			for _, b := range set {
				out = append(out, []rng{a, b})
			}
		}
		return out
	}
	collSets := [][][]rng{collsOf(product(R)), collsOf(product(T, T))}
	if thorough {
		collSets = [][][]rng{collsOf(product(EC)), collsOf(product(S, S))}
	}
	for _, cs := range collSets {
		lists(s, cs, 2, stop, func(l [][]rng) { e.checkCollectionIntersect(l[0], l[1]) })
	}

	// 7. MySQLIndexBuilder: conjunctions of leaf predicates
	p1 := builderPreds(0, true)
	p2 := append(append([]bpred{}, p1...), builderPreds(1, true)...)
	r.Info("builder_predicates_per_column", len(p1))
	max1, max2 := 2, 2
	if thorough {
		max1, max2 = 3, 3
	}
	for n := 1; n <= max1; n++ {
		lists(s, p1, n, stop, func(l []bpred) { e.checkBuilder(1, l) })
	}
	for n := 1; n <= max2; n++ {
		lists(s, p2, n, stop, func(l []bpred) { e.checkBuilder(2, l) })
	}

	// 8. IntersectRanges (exported, unused inside go-mysql-server): pairs and triples
	for _, set := range [][]rng{product(EC), product(R, R), product(S, S, S)} {
		lists(s, set, 2, stop, func(l []rng) { e.checkIntersectRanges(l) })
	}
	lists(s, product(R), 3, stop, func(l []rng) { e.checkIntersectRanges(l) })
}

func replay(r *core.Run, w json.RawMessage) {
	var k kase
	if json.Unmarshal(w, &k) != nil {
		return
	}
	e := newEnv(r)
	rs, err := parseRngs(k.Ranges)
	if err != nil {
		return
	}
	cols := func() []cexpr {
		var out []cexpr
		for _, x := range rs {
			if len(x) != 1 {
				return nil
			}
			out = append(out, x[0])
		}
		return out
	}
	switch k.Check {
	case "column-expr":
		c := cols()
		if len(c) == 1 {
			e.checkExpr(c[0])
		} else if len(c) == 2 {
			e.checkExprPair(c[0], c[1])
		}
	case "simplify-column":
		if c := cols(); len(c) > 0 {
			e.checkSimplify(c)
		}
	case "range-pair":
		if len(rs) == 2 && len(rs[0]) == len(rs[1]) {
			e.checkRangePair(rs[0], rs[1])
		}
	case "remove-overlapping":
		if len(rs) > 0 {
			e.checkRemoveOverlapping(rs)
		}
	case "intersect-ranges":
		if len(rs) > 0 {
			e.checkIntersectRanges(rs)
		}
	case "collection-intersect":
		if k.Split > 0 && k.Split < len(rs) {
			e.checkCollectionIntersect(rs[:k.Split], rs[k.Split:])
		}
	case "range-tree":
		var ops []treeOp
		for _, s := range k.Tree {
			o, err := parseTreeOp(s)
			if err != nil {
				return
			}
			ops = append(ops, o)
		}
		if len(ops) == 0 || !ops[0].ins {
			return
		}
		q := product(allExprs()[:37])
		if k.Cols == 2 {
			q = product(smallExprs(), smallExprs())
		}
		e.checkTree(ops, q)
	case "index-builder":
		var ps []bpred
		for _, s := range k.Preds {
			p, err := parsePred(s)
			if err != nil {
				return
			}
			ps = append(ps, p)
		}
		if k.Cols >= 1 && k.Cols <= 2 {
			e.checkBuilder(k.Cols, ps)
		}
	}
}

func init() {
	core.Register(&core.Prop{
		ID:    "C46",
		Level: "exploration",
		Rule: "every input of each stage over cuts on keys {1,2,3} (BelowNull, AboveNull, Below(k), Above(k), AboveAll): 36 non-empty column expressions + the empty one ('all' 37; stages 1-2 add two more spellings of the empty set with lower==upper), a reduced set of 10, small 5, tiny 3; int64 columns. " +
			"Oracle = point semantics written from cut positions (NULL lowest; test points NULL,0.5,1,...,3.5 per column, tuples = product): results must denote exactly the set-algebraic result, collection outputs must be sorted and pairwise disjoint. " +
			"Stages, in order: (1) every expression / ordered pair of 'all': IsEmpty, Type, Equals, IsConnected, Overlaps, Subtract, IsSubsetOf/IsSupersetOf, TryIntersect, TryUnion; (2) SimplifyRangeColumn on every list of 1..3 of 'all' (thorough: 4 of reduced); " +
			"(3) every ordered pair of ranges - 1 column 'all', 2 columns reduced^2 and (all x tiny)^2 (thorough all^2), 3 columns small^3 (thorough reduced^3): Intersect, TryMerge, RemoveOverlap, IsSubsetOf/IsSupersetOf, Overlaps, IsConnected, Equals, Compare; " +
			"(4) range tree vs list: every Insert/Remove sequence up to length L, FindConnections for every query + GetRangeCollection after each sequence - stored ranges pairwise non-overlapping (1 col: all 36 non-empty, L=4 [t:6]; 2 col small^2, L=4 [t:5]) and arbitrary (1 col 8 ranges L=5 [t:6]; 2 col tiny^2 L=4 [t:5]); " +
			"(5) RemoveOverlappingRanges on the pairs of (3), on triples (1 col all^3; 2 col small^2 [t: reduced^2]; 3 col tiny^3 [t: small^3]) and 4-lists (1 col reduced; 2 col tiny^2 [t: small^2]; t: 5-lists 1 col reduced); " +
			"(6) MySQLRangeCollection.Intersect on every pair of collections of 1..2 ranges (1 col reduced [t: all], 2 col tiny^2 [t: small^2]); " +
			"(7) MySQLIndexBuilder: every sequence of <=2 [t:<=3] leaf predicates (=,<>,<,<=,>,>= over 1,2,3,1.5,2.5,NULL; IN/NOT IN pairs; IS [NOT] NULL) on a 1- and a 2-column integer index: Ranges() denotes exactly the satisfying integer key tuples (SQL three-valued logic), and RemoveOverlappingRanges of it is sorted/disjoint/equal; " +
			"(8) IntersectRanges on pairs (1 col all, 2 col reduced^2, 3 col small^3) and 1-column triples of reduced. " +
			"(5b) RemoveOverlappingRanges on 7 two-column ranges with a fixed nest of overlapping first columns and every assignment of 4 [t: 7] second-column expressions; " +
			"Layering: if the primitive stages (1-3; 1 and part of 3 pre-run unsharded by every worker) violate the oracle, the later stages built on them are skipped and the run is marked capped (a broken primitive can make the fixpoint loops of the composites run forever). " +
			"non-trivial = operands that really interact: intersecting operands (pairs, RemoveOverlappingRanges inputs), simplification that merges, non-empty intersection of multi-range collections, trees holding >=3 ranges, >=2 predicates with a satisfiable conjunction",
		Assumptions: []string{
			"keys are int64 compared by types.Int64; other key types reach the same code through Type.Compare",
			"predicates with an empty operand (IsConnected/Overlaps/IsSubsetOf answers) are unspecified: only the denotation of produced ranges is checked there",
			"TryMerge may decline to merge (no completeness demanded); when it merges the result must be the exact union",
		},
		QuickBudget:    60,
		ThoroughBudget: 800,
		Run:            run,
		Replay:         replay,
	})
	_ = fmt.Sprint
}
