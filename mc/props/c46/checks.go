package c46

import (
	"fmt"
	"strconv"
	"strings"

	"github.com/dolthub/go-mysql-server/sql"

	"verif/mc/core"
)

// kase is the self-contained, replayable description of one case (the violation witness).
type kase struct {
	Check  string   `json:"check"`
	Ranges []string `json:"ranges,omitempty"` // operands, "L:U,L:U" per range (cut names BN AN B1 A1 … AA)
	Split  int      `json:"split,omitempty"`  // collection-intersect: the first Split ranges form the left collection
	Tree   []string `json:"tree,omitempty"`   // range-tree: "+range" insert / "-range" remove, in order
	Preds  []string `json:"preds,omitempty"`  // index-builder: "col op key[,key]" in call order
	Cols   int      `json:"cols,omitempty"`
}

type env struct {
	r   *core.Run
	ctx *sql.Context
	// extra: further classifying subject fields of the case being checked
	extra map[string]string
}

// dbgCur: the case being run (debug aid only).
var dbgCur string

func newEnv(r *core.Run) *env { return &env{r: r, ctx: sql.NewEmptyContext()} }

func (e *env) viol(k kase, op string, cols int, clause, kind, observed, expected string) {
	subject := map[string]string{"op": op}
	for f, v := range e.extra {
		subject[f] = v
	}
	e.r.Violate(core.Violation{
		Check: k.Check, Clause: clause, Kind: kind,
		Subject:  subject,
		Witness:  core.J(k),
		Observed: observed, Expected: expected,
	})
}

// errClass: the part of an error message before the first ':' (classifies, not compares).
func errClass(err error) string {
	m := err.Error()
	if i := strings.Index(m, ":"); i >= 0 {
		m = m[:i]
	}
	if len(m) > 40 {
		m = m[:40]
	}
	return m
}

// try runs f; a panic or an error is a violation (every input here is a well-formed range).
func (e *env) try(k kase, op string, cols int, f func() error) bool {
	var err error
	pv, stack := core.Try(func() { err = f() })
	if pv != nil {
		e.r.Violate(core.Violation{Check: k.Check, Clause: "no-panic", Kind: "panic",
			Subject: map[string]string{"op": op, "frame": core.TopFrame(stack)},
			Witness: core.J(k), Observed: fmt.Sprint(pv), Expected: "no panic"})
		return false
	}
	if err != nil {
		saved := e.extra
		e.extra = map[string]string{"error": errClass(err)}
		for f, v := range saved {
			e.extra[f] = v
		}
		e.viol(k, op, cols, "no-error", "error", err.Error(), "no error on well-formed ranges")
		e.extra = saved
		return false
	}
	return true
}

func psetOfCol(c cexpr) pset { return rng{c}.points() }

func contiguous(m uint8) bool {
	if m == 0 {
		return true
	}
	for m&1 == 0 {
		m >>= 1
	}
	return m&(m+1) == 0
}

func describe(ncols int, got, want pset) (kind, obs string) {
	if lost := want.minus(got); !lost.isEmpty() {
		return "lost-points", "point " + lost.firstPoint(ncols) + " is denoted by the inputs' expected result but not by the output"
	}
	extra := got.minus(want)
	return "extra-points", "point " + extra.firstPoint(ncols) + " is denoted by the output but not expected"
}

// sameSet reports a violation unless got == want.
func (e *env) sameSet(k kase, op string, cols int, clause string, got, want pset, outDesc string) bool {
	if got == want {
		return true
	}
	kind, obs := describe(cols, got, want)
	e.viol(k, op, cols, clause, kind, obs+"; output "+outDesc, "exactly the expected point set")
	return false
}

func colsDesc(cs []cexpr) string {
	parts := make([]string, len(cs))
	for i, c := range cs {
		parts[i] = c.String()
	}
	return "[" + strings.Join(parts, " ") + "]"
}

func rngsDesc(rs []rng) string { return "[" + strings.Join(rngStrings(rs), " | ") + "]" }

// disjoint reports a violation if two of the ranges share a point.
func (e *env) disjoint(k kase, op string, cols int, rs []rng) bool {
	for i := 0; i < len(rs); i++ {
		for j := i + 1; j < len(rs); j++ {
			if x := rs[i].points().and(rs[j].points()); !x.isEmpty() {
				e.viol(k, op, cols, "output-non-overlapping", "overlapping-output",
					fmt.Sprintf("output ranges %s and %s share point %s; output %s", rs[i], rs[j], x.firstPoint(cols), rngsDesc(rs)), "pairwise disjoint ranges")
				return false
			}
		}
	}
	return true
}

func (e *env) sorted(k kase, op string, cols int, rs []rng) bool {
	for i := 0; i+1 < len(rs); i++ {
		if lexCmp(rs[i], rs[i+1]) > 0 {
			e.viol(k, op, cols, "output-sorted", "unsorted-output", fmt.Sprintf("%s comes before %s; output %s", rs[i], rs[i+1], rngsDesc(rs)), "ranges ordered by (lower, upper) cut, column by column")
			return false
		}
	}
	return true
}

// ---------------------------------------------------------------------------------------------
// single column expressions

func (e *env) checkExpr(a cexpr) {
	k := kase{Check: "column-expr", Ranges: []string{a.String()}}
	A := a.impl()
	e.r.Eval()
	var isEmpty bool
	if e.try(k, "IsEmpty", 1, func() (err error) { isEmpty, err = A.IsEmpty(e.ctx); return }) {
		if isEmpty != (a.mask() == 0) {
			e.viol(k, "IsEmpty", 1, "predicate-agrees-with-points", "wrong-predicate", fmt.Sprint(isEmpty), fmt.Sprint(a.mask() == 0))
		}
	}
	e.r.Eval()
	var t sql.RangeType
	if e.try(k, "Type", 1, func() error { t = A.Type(); return nil }) {
		m := a.mask()
		if a.L < a.U { // a well-formed, non-empty expression
			hasNull := m&1 != 0
			unbounded := m&(1<<7) != 0
			wantNull := t == sql.RangeType_All || t == sql.RangeType_LessThanOrNull || t == sql.RangeType_LessOrEqualOrNull || t == sql.RangeType_EqualNull
			wantUnb := t == sql.RangeType_All || t == sql.RangeType_GreaterThan || t == sql.RangeType_GreaterOrEqual
			bad := t == sql.RangeType_Invalid || t == sql.RangeType_Empty || hasNull != wantNull || unbounded != wantUnb ||
				(t == sql.RangeType_All) != (m == 0xff) || (t == sql.RangeType_EqualNull) != (m == 1)
			if bad {
				e.viol(k, "Type", 1, "type-agrees-with-points", "wrong-classification", fmt.Sprintf("RangeType %d for %s", t, a), "a type with the expression's NULL membership and upper unboundedness")
			}
		} else if t != sql.RangeType_Empty && a.L == a.U {
			e.viol(k, "Type", 1, "type-agrees-with-points", "wrong-classification", fmt.Sprintf("RangeType %d for %s", t, a), "RangeType_Empty")
		}
	}
}

func (e *env) checkExprPair(a, b cexpr) {
	k := kase{Check: "column-expr", Ranges: []string{a.String(), b.String()}}
	A, B := a.impl(), b.impl()
	ma, mb := a.mask(), b.mask()
	pa, pb := psetOfCol(a), psetOfCol(b)
	bothNonEmpty := ma != 0 && mb != 0
	r := e.r
	if bothNonEmpty && ma&mb != 0 {
		r.NonTrivial("ce|" + a.String() + "|" + b.String())
	}
	r.Outcome(fmt.Sprintf("column-expr:overlap=%v,contiguous=%v,subset=%v", ma&mb != 0, contiguous(ma|mb), ma&^mb == 0))

	r.Eval()
	var eq bool
	if e.try(k, "Equals", 1, func() (err error) { eq, err = A.Equals(e.ctx, B); return }) {
		if eq && ma != mb {
			e.viol(k, "Equals", 1, "predicate-agrees-with-points", "wrong-predicate", "true", "false: the expressions denote different sets")
		} else if !eq && a == b {
			e.viol(k, "Equals", 1, "predicate-agrees-with-points", "wrong-predicate", "false", "true: identical bounds")
		}
	}

	r.Eval()
	var conn bool
	if e.try(k, "IsConnected", 1, func() (err error) { conn, err = A.IsConnected(e.ctx, B); return }) {
		if !bothNonEmpty {
			r.Count("unspecified_empty_operand", 1)
		} else if conn != contiguous(ma|mb) {
			e.viol(k, "IsConnected", 1, "predicate-agrees-with-points", "wrong-predicate", fmt.Sprint(conn), fmt.Sprint(contiguous(ma|mb)))
		}
	}

	r.Eval()
	var ov sql.MySQLRangeColumnExpr
	var ovOK bool
	if e.try(k, "Overlaps", 1, func() (err error) { ov, ovOK, err = A.Overlaps(e.ctx, B); return }) {
		if d, err := decodeCol(ov); err != nil {
			e.viol(k, "Overlaps", 1, "output-well-formed", "malformed-output", err.Error(), "cuts over the input keys")
		} else if e.sameSet(k, "Overlaps", 1, "denotes-intersection", psetOfCol(d), pa.and(pb), d.String()) {
			if bothNonEmpty && ovOK != (ma&mb != 0) {
				e.viol(k, "Overlaps", 1, "predicate-agrees-with-points", "wrong-predicate", fmt.Sprint(ovOK), fmt.Sprint(ma&mb != 0))
			}
		}
	}

	r.Eval()
	var sub []sql.MySQLRangeColumnExpr
	if e.try(k, "Subtract", 1, func() (err error) { sub, err = A.Subtract(e.ctx, B); return }) {
		if ds, err := decodeCols(sub); err != nil {
			e.viol(k, "Subtract", 1, "output-well-formed", "malformed-output", err.Error(), "cuts over the input keys")
		} else {
			var u pset
			var rs []rng
			for _, d := range ds {
				u = u.or(psetOfCol(d))
				rs = append(rs, rng{d})
			}
			if e.sameSet(k, "Subtract", 1, "denotes-difference", u, pa.minus(pb), colsDesc(ds)) {
				e.disjoint(k, "Subtract", 1, rs)
			}
		}
	}

	for _, dir := range []string{"IsSubsetOf", "IsSupersetOf"} {
		r.Eval()
		var got bool
		if e.try(k, dir, 1, func() (err error) {
			if dir == "IsSubsetOf" {
				got, err = A.IsSubsetOf(e.ctx, B)
			} else {
				got, err = A.IsSupersetOf(e.ctx, B)
			}
			return
		}) {
			want := ma&^mb == 0
			if dir == "IsSupersetOf" {
				want = mb&^ma == 0
			}
			if got && !want {
				e.viol(k, dir, 1, "predicate-agrees-with-points", "wrong-predicate", "true", "false")
			} else if !got && want {
				if bothNonEmpty {
					e.viol(k, dir, 1, "predicate-agrees-with-points", "wrong-predicate", "false", "true")
				} else {
					r.Count("unspecified_empty_operand", 1)
				}
			}
		}
	}

	r.Eval()
	var in sql.MySQLRangeColumnExpr
	var inOK bool
	if e.try(k, "TryIntersect", 1, func() (err error) { in, inOK, err = A.TryIntersect(e.ctx, B); return }) {
		if d, err := decodeCol(in); err != nil {
			e.viol(k, "TryIntersect", 1, "output-well-formed", "malformed-output", err.Error(), "cuts over the input keys")
		} else if e.sameSet(k, "TryIntersect", 1, "denotes-intersection", psetOfCol(d), pa.and(pb), d.String()) {
			if inOK != (ma&mb != 0) {
				e.viol(k, "TryIntersect", 1, "predicate-agrees-with-points", "wrong-predicate", fmt.Sprint(inOK), fmt.Sprint(ma&mb != 0))
			}
		}
	}

	r.Eval()
	var un sql.MySQLRangeColumnExpr
	var unOK bool
	if e.try(k, "TryUnion", 1, func() (err error) { un, unOK, err = A.TryUnion(e.ctx, B); return }) {
		want := contiguous(ma|mb) || ma == 0 || mb == 0
		if unOK != want {
			e.viol(k, "TryUnion", 1, "predicate-agrees-with-points", "wrong-predicate", fmt.Sprint(unOK), fmt.Sprint(want)+": the union is one interval iff the operands overlap or touch")
		} else if unOK {
			if d, err := decodeCol(un); err != nil {
				e.viol(k, "TryUnion", 1, "output-well-formed", "malformed-output", err.Error(), "cuts over the input keys")
			} else {
				e.sameSet(k, "TryUnion", 1, "denotes-union", psetOfCol(d), pa.or(pb), d.String())
			}
		}
	}
}

func (e *env) checkSimplify(in []cexpr) {
	k := kase{Check: "simplify-column"}
	var want pset
	ne := 0
	for _, c := range in {
		k.Ranges = append(k.Ranges, c.String())
		want = want.or(psetOfCol(c))
		if !c.empty() {
			ne++
		}
	}
	e.r.Eval()
	args := make([]sql.MySQLRangeColumnExpr, len(in))
	for i, c := range in {
		args[i] = c.impl()
	}
	var out []sql.MySQLRangeColumnExpr
	if !e.try(k, "SimplifyRangeColumn", 1, func() (err error) { out, err = sql.SimplifyRangeColumn(e.ctx, args...); return }) {
		return
	}
	ds, err := decodeCols(out)
	if err != nil {
		e.viol(k, "SimplifyRangeColumn", 1, "output-well-formed", "malformed-output", err.Error(), "cuts over the input keys")
		return
	}
	var got pset
	for _, d := range ds {
		got = got.or(psetOfCol(d))
	}
	e.r.Outcome(fmt.Sprintf("simplify:in=%d,out=%d", ne, len(ds)))
	if ne >= 2 && len(ds) < ne {
		e.r.NonTrivial("simp|" + strings.Join(k.Ranges, "|"))
	}
	if !e.sameSet(k, "SimplifyRangeColumn", 1, "denotes-union", got, want, colsDesc(ds)) {
		return
	}
	for i, d := range ds {
		if d.empty() {
			e.viol(k, "SimplifyRangeColumn", 1, "output-minimal", "empty-output-range", colsDesc(ds), "no empty expressions")
			return
		}
		// sorted and not even touching: strictly separated
		if i > 0 && !(ds[i-1].U < d.L) {
			e.viol(k, "SimplifyRangeColumn", 1, "output-sorted-disconnected", "unsorted-output", colsDesc(ds), "expressions in ascending order with a gap between neighbours")
			return
		}
	}
}

// ---------------------------------------------------------------------------------------------
// ranges (1..3 columns)

func (e *env) checkRangePair(a, b rng) {
	n := len(a)
	k := kase{Check: "range-pair", Ranges: []string{a.String(), b.String()}}
	dbgCur = "pair " + strings.Join(k.Ranges, " | ")
	A, B := a.impl(), b.impl()
	pa, pb := a.points(), b.points()
	inter, union := pa.and(pb), pa.or(pb)
	bothNonEmpty := !pa.isEmpty() && !pb.isEmpty()
	r := e.r
	if !inter.isEmpty() {
		r.NonTrivial("rp|" + k.Ranges[0] + "|" + k.Ranges[1])
	}

	r.Eval()
	var in sql.MySQLRange
	if e.try(k, "Range.Intersect", n, func() (err error) { in, err = A.Intersect(e.ctx, B); return }) {
		if d, err := decodeRng(in); err != nil || len(d) != n {
			e.viol(k, "Range.Intersect", n, "output-well-formed", "malformed-output", fmt.Sprintf("%v (len %d)", err, len(in)), "a range with the operands' columns")
		} else {
			e.sameSet(k, "Range.Intersect", n, "denotes-intersection", d.points(), inter, d.String())
		}
	}

	r.Eval()
	var mg sql.MySQLRange
	var mgOK bool
	if e.try(k, "TryMerge", n, func() (err error) { mg, mgOK, err = A.TryMerge(e.ctx, B); return }) && mgOK {
		if d, err := decodeRng(mg); err != nil || len(d) != n {
			e.viol(k, "TryMerge", n, "output-well-formed", "malformed-output", fmt.Sprintf("%v (len %d)", err, len(mg)), "a range with the operands' columns")
		} else {
			e.sameSet(k, "TryMerge", n, "denotes-union", d.points(), union, d.String())
		}
	}

	r.Eval()
	var ro []sql.MySQLRange
	var roOK bool
	if e.try(k, "RemoveOverlap", n, func() (err error) { ro, roOK, err = A.RemoveOverlap(e.ctx, B); return }) {
		if ds, err := decodeRngs(ro); err != nil {
			e.viol(k, "RemoveOverlap", n, "output-well-formed", "malformed-output", err.Error(), "cuts over the input keys")
		} else {
			r.Outcome(fmt.Sprintf("remove-overlap:cols=%d,ok=%v,pieces=%d", n, roOK, len(ds)))
			if e.sameSet(k, "RemoveOverlap", n, "denotes-union", unionOf(ds), union, rngsDesc(ds)) && e.disjoint(k, "RemoveOverlap", n, ds) {
				if !roOK && !inter.isEmpty() {
					e.viol(k, "RemoveOverlap", n, "predicate-agrees-with-points", "wrong-predicate", "false (no overlap, not mergeable)", "true: the ranges share point "+inter.firstPoint(n))
				}
			}
		}
	}

	type pred struct {
		name string
		f    func() (bool, error)
		// want: the set-theoretic answer; exactOnEmpty: also required when an operand is empty
		want bool
	}
	preds := []pred{
		{"Range.IsSubsetOf", func() (bool, error) { return A.IsSubsetOf(e.ctx, B) }, pa.subsetOf(pb)},
		{"Range.IsSupersetOf", func() (bool, error) { return A.IsSupersetOf(e.ctx, B) }, pb.subsetOf(pa)},
		{"Range.Overlaps", func() (bool, error) { return A.Overlaps(e.ctx, B) }, !inter.isEmpty()},
		{"Range.IsConnected", func() (bool, error) { return A.IsConnected(e.ctx, B) }, !inter.isEmpty()},
	}
	for _, p := range preds {
		r.Eval()
		var got bool
		if !e.try(k, p.name, n, func() (err error) { got, err = p.f(); return }) {
			continue
		}
		if got == p.want {
			continue
		}
		if !bothNonEmpty {
			// with an empty operand the answer depends on how the empty set is spelled; only a
			// positive subset/superset claim can be checked
			if got && !p.want && (p.name == "Range.IsSubsetOf" || p.name == "Range.IsSupersetOf") {
				e.viol(k, p.name, n, "predicate-agrees-with-points", "wrong-predicate", "true", "false")
			} else {
				r.Count("unspecified_empty_operand", 1)
			}
			continue
		}
		e.viol(k, p.name, n, "predicate-agrees-with-points", "wrong-predicate", fmt.Sprint(got), fmt.Sprint(p.want))
	}

	r.Eval()
	var eq bool
	if e.try(k, "Range.Equals", n, func() (err error) { eq, err = A.Equals(e.ctx, B); return }) {
		if eq && pa != pb {
			e.viol(k, "Range.Equals", n, "predicate-agrees-with-points", "wrong-predicate", "true", "false: different sets")
		} else if !eq && lexCmp(a, b) == 0 {
			e.viol(k, "Range.Equals", n, "predicate-agrees-with-points", "wrong-predicate", "false", "true: identical bounds")
		}
	}
	r.Eval()
	var cmp int
	if e.try(k, "Range.Compare", n, func() (err error) { cmp, err = A.Compare(e.ctx, B); return }) {
		if cmp != lexCmp(a, b) {
			e.viol(k, "Range.Compare", n, "order-agrees-with-cut-positions", "wrong-order", fmt.Sprint(cmp), fmt.Sprint(lexCmp(a, b)))
		}
	}
}

// outcome of a collection-producing operation
func (e *env) checkCollection(k kase, op string, n int, out sql.MySQLRangeCollection, want pset) {
	ds, err := decodeRngs(out)
	if err != nil {
		e.viol(k, op, n, "output-well-formed", "malformed-output", err.Error(), "cuts over the input keys")
		return
	}
	for _, d := range ds {
		if len(d) != n && !(len(d) == 0 && want.isEmpty()) {
			e.viol(k, op, n, "output-well-formed", "malformed-output", fmt.Sprintf("range with %d columns: %s", len(d), rngsDesc(ds)), fmt.Sprintf("%d columns", n))
			return
		}
	}
	var ne []rng
	for _, d := range ds {
		if len(d) == n {
			ne = append(ne, d)
		}
	}
	if !e.sameSet(k, op, n, "denotes-expected-set", unionOf(ne), want, rngsDesc(ds)) {
		return
	}
	if !e.disjoint(k, op, n, ne) || !e.sorted(k, op, n, ne) {
		return
	}
	if !want.isEmpty() {
		for _, d := range ne {
			if d.points().isEmpty() {
				e.viol(k, op, n, "output-minimal", "empty-output-range", rngsDesc(ds), "no empty ranges next to non-empty ones")
				return
			}
		}
	}
}

func (e *env) checkRemoveOverlapping(in []rng) {
	n := len(in[0])
	k := kase{Check: "remove-overlapping", Ranges: rngStrings(in)}
	dbgCur = "ror " + strings.Join(k.Ranges, " | ")
	want := unionOf(in)
	e.r.Eval()
	var out sql.MySQLRangeCollection
	if !e.try(k, "RemoveOverlappingRanges", n, func() (err error) { out, err = sql.RemoveOverlappingRanges(e.ctx, implRngs(in)...); return }) {
		return
	}
	// non-trivial: two inputs really overlap
	ov := false
	for i := 0; i < len(in) && !ov; i++ {
		for j := i + 1; j < len(in); j++ {
			if !in[i].points().and(in[j].points()).isEmpty() {
				ov = true
				break
			}
		}
	}
	if ov {
		e.r.NonTrivial("ror|" + strings.Join(k.Ranges, "|"))
	}
	e.r.Outcome(fmt.Sprintf("remove-overlapping:cols=%d,in=%d,out=%d", n, len(in), len(out)))
	if e.r.WantSample() && ov && len(in) >= 3 && len(out) >= 3 {
		ds, _ := decodeRngs(out)
		e.r.Sample(map[string]any{"op": "RemoveOverlappingRanges", "in": k.Ranges, "out": rngStrings(ds)})
	}
	e.checkCollection(k, "RemoveOverlappingRanges", n, out, want)
}

func (e *env) checkCollectionIntersect(c1, c2 []rng) {
	n := len(c1[0])
	k := kase{Check: "collection-intersect", Ranges: append(rngStrings(c1), rngStrings(c2)...), Split: len(c1)}
	dbgCur = "ci " + strings.Join(k.Ranges, " | ")
	want := unionOf(c1).and(unionOf(c2))
	e.r.Eval()
	var out sql.MySQLRangeCollection
	if !e.try(k, "Collection.Intersect", n, func() (err error) {
		out, err = sql.MySQLRangeCollection(implRngs(c1)).Intersect(e.ctx, sql.MySQLRangeCollection(implRngs(c2)))
		return
	}) {
		return
	}
	if !want.isEmpty() && len(c1)+len(c2) > 2 {
		e.r.NonTrivial("ci|" + strings.Join(k.Ranges, "|") + "|" + strconv.Itoa(k.Split))
	}
	e.r.Outcome(fmt.Sprintf("collection-intersect:cols=%d,out=%d", n, len(out)))
	e.checkCollection(k, "Collection.Intersect", n, out, want)
}

func (e *env) checkIntersectRanges(in []rng) {
	n := len(in[0])
	k := kase{Check: "intersect-ranges", Ranges: rngStrings(in)}
	want := in[0].points()
	for _, x := range in[1:] {
		want = want.and(x.points())
	}
	e.r.Eval()
	var out sql.MySQLRange
	if !e.try(k, "IntersectRanges", n, func() error { out = sql.IntersectRanges(e.ctx, implRngs(in)...); return nil }) {
		return
	}
	if !want.isEmpty() && want != in[0].points() {
		e.r.NonTrivial("ir|" + strings.Join(k.Ranges, "|"))
	}
	if out == nil {
		if !want.isEmpty() {
			e.viol(k, "IntersectRanges", n, "denotes-intersection", "lost-points", "nil (no range); point "+want.firstPoint(n)+" is in every input", "the intersection")
		}
		return
	}
	d, err := decodeRng(out)
	if err != nil || len(d) != n {
		e.viol(k, "IntersectRanges", n, "output-well-formed", "malformed-output", fmt.Sprintf("%v (len %d)", err, len(out)), "a range with the operands' columns")
		return
	}
	e.sameSet(k, "IntersectRanges", n, "denotes-intersection", d.points(), want, d.String())
}
