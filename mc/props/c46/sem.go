// Package c46 — index range algebra preserves the denoted key sets (sql/range_*.go,
// sql/index_builder.go). Bounded-exhaustive input enumeration against a point-semantics oracle.
package c46

import (
	"fmt"
	"strings"

	"github.com/dolthub/go-mysql-server/sql"
	"github.com/dolthub/go-mysql-server/sql/types"
)

// ---------------------------------------------------------------------------------------------
// Independent point semantics.
//
// The value line of one column is NULL < (everything below 1) < 1 < (1..2) < 2 < (2..3) < 3 <
// (everything above 3). A cut is a position BETWEEN points:
//
//	pos: 0=BelowNull 1=AboveNull 2=Below(1) 3=Above(1) 4=Below(2) 5=Above(2) 6=Below(3) 7=Above(3) 8=AboveAll
//
// and test point j (0..7) lies between cut j and cut j+1:
//
//	point: 0=NULL 1="0.5" 2=1 3="1.5" 4=2 5="2.5" 6=3 7="3.5"
//
// A column expression (L,U) denotes the points j with pos(L) <= j < pos(U); a range denotes the
// product of its columns. Between any two distinct cuts there is a test point, so two
// expressions over these cuts denote the same point set iff they denote the same values.

const nCuts = 9
const nPoints = 8

var cutNames = [nCuts]string{"BN", "AN", "B1", "A1", "B2", "A2", "B3", "A3", "AA"}
var pointNames = [nPoints]string{"NULL", "0.5", "1", "1.5", "2", "2.5", "3", "3.5"}

type cexpr struct{ L, U int }

func (c cexpr) String() string { return cutNames[c.L] + ":" + cutNames[c.U] }
func (c cexpr) mask() uint8 {
	var m uint8
	for j := c.L; j < c.U; j++ {
		m |= 1 << uint(j)
	}
	return m
}
func (c cexpr) empty() bool { return c.L >= c.U }

type rng []cexpr

func (r rng) String() string {
	parts := make([]string, len(r))
	for i, c := range r {
		parts[i] = c.String()
	}
	return strings.Join(parts, ",")
}

func parseRng(s string) (rng, error) {
	var out rng
	for _, part := range strings.Split(s, ",") {
		lu := strings.Split(part, ":")
		if len(lu) != 2 {
			return nil, fmt.Errorf("bad range %q", s)
		}
		l, u := -1, -1
		for i, n := range cutNames {
			if n == lu[0] {
				l = i
			}
			if n == lu[1] {
				u = i
			}
		}
		if l < 0 || u < 0 {
			return nil, fmt.Errorf("bad cut in %q", s)
		}
		out = append(out, cexpr{l, u})
	}
	return out, nil
}

func rngStrings(rs []rng) []string {
	out := make([]string, len(rs))
	for i, r := range rs {
		out[i] = r.String()
	}
	return out
}

func parseRngs(ss []string) ([]rng, error) {
	out := make([]rng, len(ss))
	for i, s := range ss {
		r, err := parseRng(s)
		if err != nil {
			return nil, err
		}
		out[i] = r
	}
	return out, nil
}

// pset: a set of points of the (<=3)-column product space, 8^3 = 512 bits.
// tuple (p0,p1,p2) -> word p2, bit p0+8*p1.
type pset [8]uint64

func (r rng) points() pset {
	var s pset
	var m [3]uint8
	for i := 0; i < 3; i++ {
		m[i] = 1 // unused columns: single pseudo point 0
		if i < len(r) {
			m[i] = r[i].mask()
		}
	}
	var w uint64
	for p1 := 0; p1 < 8; p1++ {
		if m[1]&(1<<uint(p1)) != 0 {
			w |= uint64(m[0]) << uint(8*p1)
		}
	}
	for p2 := 0; p2 < 8; p2++ {
		if m[2]&(1<<uint(p2)) != 0 {
			s[p2] = w
		}
	}
	return s
}

func (a pset) or(b pset) pset {
	for i := range a {
		a[i] |= b[i]
	}
	return a
}
func (a pset) and(b pset) pset {
	for i := range a {
		a[i] &= b[i]
	}
	return a
}
func (a pset) minus(b pset) pset {
	for i := range a {
		a[i] &^= b[i]
	}
	return a
}
func (a pset) isEmpty() bool { return a == pset{} }
func (a pset) subsetOf(b pset) bool {
	return a.minus(b).isEmpty()
}

// first point of a, rendered (for messages)
func (a pset) firstPoint(ncols int) string {
	for w := 0; w < 8; w++ {
		for b := 0; b < 64; b++ {
			if a[w]&(1<<uint(b)) != 0 {
				ps := []int{b % 8, b / 8, w}
				parts := make([]string, ncols)
				for i := 0; i < ncols; i++ {
					parts[i] = pointNames[ps[i]]
				}
				return "(" + strings.Join(parts, ",") + ")"
			}
		}
	}
	return "-"
}

func unionOf(rs []rng) pset {
	var s pset
	for _, r := range rs {
		s = s.or(r.points())
	}
	return s
}

// connectedCol: the two expressions overlap or touch (cut positions only).
func connectedCol(a, b cexpr) bool { return a.L <= b.U && b.L <= a.U }

// lexLess: the order ranges must come out in — by column, lower cut then upper cut.
func lexCmp(a, b rng) int {
	for i := range a {
		if i >= len(b) {
			return 1
		}
		if a[i].L != b[i].L {
			if a[i].L < b[i].L {
				return -1
			}
			return 1
		}
		if a[i].U != b[i].U {
			if a[i].U < b[i].U {
				return -1
			}
			return 1
		}
	}
	return 0
}

// ---------------------------------------------------------------------------------------------
// to and from the implementation's representation

var colType = types.Int64

func cut(pos int) sql.MySQLRangeCut {
	switch pos {
	case 0:
		return sql.BelowNull{}
	case 1:
		return sql.AboveNull{}
	case 8:
		return sql.AboveAll{}
	}
	k := int64(pos / 2)
	if pos%2 == 0 {
		return sql.Below{Key: k, Typ: colType}
	}
	return sql.Above{Key: k, Typ: colType}
}

func (c cexpr) impl() sql.MySQLRangeColumnExpr {
	return sql.MySQLRangeColumnExpr{LowerBound: cut(c.L), UpperBound: cut(c.U), Typ: colType}
}

func (r rng) impl() sql.MySQLRange {
	out := make(sql.MySQLRange, len(r))
	for i, c := range r {
		out[i] = c.impl()
	}
	return out
}

func implRngs(rs []rng) []sql.MySQLRange {
	out := make([]sql.MySQLRange, len(rs))
	for i, r := range rs {
		out[i] = r.impl()
	}
	return out
}

func keyPos(k interface{}) (int, bool) {
	var v int64
	switch x := k.(type) {
	case int64:
		v = x
	case int:
		v = int64(x)
	case int32:
		v = int64(x)
	case int8:
		v = int64(x)
	case int16:
		v = int64(x)
	case uint64:
		v = int64(x)
	case float64:
		if x != float64(int64(x)) {
			return 0, false
		}
		v = int64(x)
	default:
		return 0, false
	}
	if v < 1 || v > 3 {
		return 0, false
	}
	return int(v), true
}

func posOf(c sql.MySQLRangeCut) (int, error) {
	switch c := c.(type) {
	case sql.BelowNull:
		return 0, nil
	case sql.AboveNull:
		return 1, nil
	case sql.AboveAll:
		return 8, nil
	case sql.Below:
		k, ok := keyPos(c.Key)
		if !ok {
			return 0, fmt.Errorf("cut %s has a key outside the input keys", c.String())
		}
		return 2 * k, nil
	case sql.Above:
		k, ok := keyPos(c.Key)
		if !ok {
			return 0, fmt.Errorf("cut %s has a key outside the input keys", c.String())
		}
		return 2*k + 1, nil
	case nil:
		return 0, fmt.Errorf("nil cut")
	}
	return 0, fmt.Errorf("unknown cut %T", c)
}

func decodeCol(e sql.MySQLRangeColumnExpr) (cexpr, error) {
	l, err := posOf(e.LowerBound)
	if err != nil {
		return cexpr{}, err
	}
	u, err := posOf(e.UpperBound)
	if err != nil {
		return cexpr{}, err
	}
	return cexpr{l, u}, nil
}

func decodeCols(es []sql.MySQLRangeColumnExpr) ([]cexpr, error) {
	out := make([]cexpr, len(es))
	for i, e := range es {
		c, err := decodeCol(e)
		if err != nil {
			return nil, err
		}
		out[i] = c
	}
	return out, nil
}

func decodeRng(r sql.MySQLRange) (rng, error) {
	cs, err := decodeCols(r)
	return rng(cs), err
}

func decodeRngs(rs []sql.MySQLRange) ([]rng, error) {
	out := make([]rng, len(rs))
	for i, r := range rs {
		d, err := decodeRng(r)
		if err != nil {
			return nil, err
		}
		out[i] = d
	}
	return out, nil
}

// ---------------------------------------------------------------------------------------------
// alphabets

// allExprs: the 36 non-empty expressions, the canonical empty one (AboveAll,AboveAll) and two
// further spellings of the empty set with lower == upper that Type() itself classifies as
// RangeType_Empty: (AboveNull,AboveNull), (BelowNull,BelowNull). Expressions with lower > upper
// are outside the domain (nothing in go-mysql-server builds them; see design.d/C46.md).
func allExprs() []cexpr {
	var out []cexpr
	for l := 0; l < nCuts; l++ {
		for u := l + 1; u < nCuts; u++ {
			out = append(out, cexpr{l, u})
		}
	}
	out = append(out, cexpr{8, 8}, cexpr{1, 1}, cexpr{0, 0})
	return out
}

// reducedExprs: 10 expressions covering every shape: all, null only, not-null, a point, two
// overlapping bounded intervals, half-lines with and without NULL, an open interval, empty.
func reducedExprs() []cexpr {
	return []cexpr{
		{0, 8}, // all
		{0, 1}, // IS NULL
		{1, 8}, // IS NOT NULL
		{4, 5}, // = 2
		{2, 5}, // [1,2]
		{3, 7}, // (1,3]
		{0, 4}, // < 2 or NULL
		{5, 8}, // > 2
		{1, 4}, // < 2
		{8, 8}, // empty
	}
}

// smallExprs: 5 expressions for the 3-column space.
func smallExprs() []cexpr {
	return []cexpr{{0, 8}, {2, 5}, {3, 7}, {4, 5}, {1, 4}}
}

// product: all ranges with the given per-column alphabets.
func product(cols ...[]cexpr) []rng {
	out := []rng{{}}
	for _, col := range cols {
		var next []rng
		for _, p := range out {
			for _, c := range col {
				next = append(next, append(append(rng{}, p...), c))
			}
		}
		out = next
	}
	return out
}
