package c46

import (
	"fmt"
	"sort"
	"strings"

	"github.com/dolthub/go-mysql-server/sql"
)

// The range tree (MySQLRangeColumnExprTree) against a plain list of distinct ranges.

type treeOp struct {
	ins bool
	r   rng
}

func (o treeOp) String() string {
	if o.ins {
		return "+" + o.r.String()
	}
	return "-" + o.r.String()
}

func parseTreeOp(s string) (treeOp, error) {
	if len(s) < 2 || (s[0] != '+' && s[0] != '-') {
		return treeOp{}, fmt.Errorf("bad tree op %q", s)
	}
	r, err := parseRng(s[1:])
	return treeOp{ins: s[0] == '+', r: r}, err
}

type treeModel []rng

func (m treeModel) find(r rng) int {
	for i, x := range m {
		if lexCmp(x, r) == 0 {
			return i
		}
	}
	return -1
}

// apply returns the new model and whether the operation changed it.
func (m treeModel) apply(o treeOp) (treeModel, bool) {
	i := m.find(o.r)
	if o.ins {
		if i >= 0 {
			return m, false
		}
		return append(append(treeModel{}, m...), o.r), true
	}
	if i < 0 {
		return m, false
	}
	out := append(treeModel{}, m[:i]...)
	return append(out, m[i+1:]...), true
}

func sortedStrings(rs []rng) []string {
	out := rngStrings(rs)
	sort.Strings(out)
	return out
}

// checkTree builds a tree by the operations (the first must be an insert: it creates the tree)
// and compares its final state with the list model: FindConnections for every query,
// GetRangeCollection's denotation.
func (e *env) checkTree(ops []treeOp, queries []rng) {
	n := len(ops[0].r)
	k := kase{Check: "range-tree", Cols: n}
	for _, o := range ops {
		k.Tree = append(k.Tree, o.String())
	}
	e.r.Eval()
	typs := make([]sql.Type, n)
	for i := range typs {
		typs[i] = colType
	}
	var tree *sql.MySQLRangeColumnExprTree
	var model treeModel
	// classify the history: did the stored ranges ever overlap (as point sets), was a stored
	// range ever removed
	stored, removal := "non-overlapping", "no"
	{
		var m treeModel
		for _, o := range ops {
			var changed bool
			m, changed = m.apply(o)
			if changed && !o.ins {
				removal = "yes"
			}
			if changed && o.ins {
				for _, y := range m[:len(m)-1] {
					if !y.points().and(o.r.points()).isEmpty() {
						stored = "overlapping"
					}
				}
			}
		}
	}
	e.extra = map[string]string{"stored": stored, "removal": removal}
	defer func() { e.extra = nil }()
	okBuild := e.try(k, "Tree.Insert/Remove", n, func() error {
		var err error
		tree, err = sql.NewMySQLRangeColumnExprTree(ops[0].r.impl(), typs)
		if err != nil {
			return err
		}
		model, _ = model.apply(ops[0])
		for _, o := range ops[1:] {
			if o.ins {
				err = tree.Insert(e.ctx, o.r.impl())
			} else {
				err = tree.Remove(e.ctx, o.r.impl())
			}
			if err != nil {
				return err
			}
			model, _ = model.apply(o)
		}
		return nil
	})
	if !okBuild {
		return
	}
	e.r.Outcome(fmt.Sprintf("tree:cols=%d,stored=%d", n, len(model)))
	if len(model) >= 3 {
		e.r.NonTrivial("tree|" + strings.Join(k.Tree, " "))
	}
	for _, q := range queries {
		var out sql.MySQLRangeCollection
		if !e.try(k, "Tree.FindConnections", n, func() (err error) { out, err = tree.FindConnections(e.ctx, q.impl(), 0); return }) {
			return
		}
		ds, err := decodeRngs(out)
		if err != nil {
			e.viol(k, "Tree.FindConnections", n, "output-well-formed", "malformed-output", err.Error(), "cuts over the input keys")
			return
		}
		var want []rng
		for _, s := range model {
			conn := true
			for c := range s {
				conn = conn && connectedCol(s[c], q[c])
			}
			if conn {
				want = append(want, s)
			}
		}
		g, w := strings.Join(sortedStrings(ds), " | "), strings.Join(sortedStrings(want), " | ")
		if g != w {
			kind := "missed-connection"
			if len(ds) >= len(want) {
				kind = "wrong-connections"
			}
			e.viol(k, "Tree.FindConnections", n, "finds-all-connected-ranges", kind, fmt.Sprintf("query %s -> [%s]", q, g), fmt.Sprintf("[%s]", w))
			return
		}
	}
	var coll sql.MySQLRangeCollection
	if !e.try(k, "Tree.GetRangeCollection", n, func() (err error) { coll, err = tree.GetRangeCollection(e.ctx); return }) {
		return
	}
	ds, err := decodeRngs(coll)
	if err != nil {
		e.viol(k, "Tree.GetRangeCollection", n, "output-well-formed", "malformed-output", err.Error(), "cuts over the input keys")
		return
	}
	var full []rng
	for _, d := range ds {
		if len(d) == n {
			full = append(full, d)
		}
	}
	e.sameSet(k, "Tree.GetRangeCollection", n, "denotes-stored-union", unionOf(full), unionOf(model), rngsDesc(ds))
}

// enumTree enumerates operation sequences depth-first. allowed says whether an insert keeps
// the tree's working precondition; a step that does not change the model is run but not
// extended (the sequence without it is enumerated anyway). Sharding: sequences of length 1 and
// the subtrees below each sequence of length 2 are numbered and distributed.
func (e *env) enumTree(universe []rng, queries []rng, maxLen int, allowed func(m treeModel, r rng) bool, idx *int64, label string) {
	var seq []treeOp
	var rec func(m treeModel)
	stop := false
	rec = func(m treeModel) {
		for _, ins := range []bool{true, false} {
			if len(seq) == 0 && !ins {
				continue
			}
			for _, u := range universe {
				if stop {
					return
				}
				if ins && !allowed(m, u) {
					continue
				}
				o := treeOp{ins, u}
				run := true
				if len(seq) < 2 {
					no := *idx
					*idx++
					run = e.r.Mine(no)
					if !run && len(seq) == 1 {
						continue // another worker owns this subtree
					}
				}
				m2, changed := m.apply(o)
				seq = append(seq, o)
				if run {
					e.checkTree(seq, queries)
				}
				if changed && len(seq) < maxLen {
					if e.r.Expired() {
						e.r.Capped("time budget reached inside range-tree sequences (" + label + ")")
						stop = true
					} else {
						rec(m2)
					}
				}
				seq = seq[:len(seq)-1]
			}
		}
	}
	rec(nil)
}
