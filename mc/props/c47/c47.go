// Package c47 — in-memory indexed sets behave like sets (sql/in_mem_table).
//
// Explorer: hist (BFS over operation histories of a real IndexedSet + its table editors, fresh
// system per history). Reference: a plain slice used as a set. See design.d/C47.md.
package c47

import (
	"encoding/json"
	"errors"
	"fmt"
	"sort"
	"strconv"
	"strings"
	"sync"

	"github.com/dolthub/go-mysql-server/sql"
	imt "github.com/dolthub/go-mysql-server/sql/in_mem_table"

	"verif/mc/core"
	"verif/mc/hist"
)

// ---------------------------------------------------------------------------------------------
// element universe, keyers, value ops

type elem struct {
	K1 int    // first keyer ("primary key" of the table editors)
	K2 string // second keyer
	P  int    // payload bit
}

func (e elem) String() string {
	return "(" + strconv.Itoa(e.K1) + "," + e.K2 + "," + strconv.Itoa(e.P) + ")"
}

type k1Keyer struct{}

func (k1Keyer) GetKey(e *elem) any { return e.K1 }

type k2Keyer struct{}

func (k2Keyer) GetKey(e *elem) any { return e.K2 }

// strayKeyer is a keyer the set was NOT built with.
type strayKeyer struct{}

func (strayKeyer) GetKey(e *elem) any { return e.P }

// config: which fields the element equality looks at.
//
//	full: K1,K2,P (like mysql_db.RoleEdgeEquals: whole struct) – rows carry all three fields
//	side: K1,K2   (like the in-repo tests' ueq)               – P is a sidecar no row shows
type config struct {
	Name string
	Full bool
	// Ordered: the state key contains the bucket orders (finer merging).
	Ordered bool
}

func (c config) eq(a, b elem) bool {
	if c.Full {
		return a == b
	}
	return a.K1 == b.K1 && a.K2 == b.K2
}

var errBadRow = errors.New("c47 harness: bad row")

func (c config) fromRow(r sql.Row) (elem, error) {
	want := 2
	if c.Full {
		want = 3
	}
	if len(r) != want {
		return elem{}, errBadRow
	}
	k1, ok1 := r[0].(int)
	k2, ok2 := r[1].(string)
	if !ok1 || !ok2 {
		return elem{}, errBadRow
	}
	e := elem{K1: k1, K2: k2}
	if c.Full {
		p, ok := r[2].(int)
		if !ok {
			return elem{}, errBadRow
		}
		e.P = p
	}
	return e, nil
}

func (c config) toRow(e elem) sql.Row {
	if c.Full {
		return sql.Row{e.K1, e.K2, e.P}
	}
	return sql.Row{e.K1, e.K2}
}

// updateWithRow: the fields a row shows are taken from the row, everything else is kept.
func (c config) updateWithRow(r sql.Row, old elem) (elem, error) {
	n, err := c.fromRow(r)
	if err != nil {
		return elem{}, err
	}
	if !c.Full {
		n.P = old.P
	}
	return n, nil
}

func (c config) valueOps() imt.ValueOps[*elem] {
	return imt.ValueOps[*elem]{
		ToRow: func(_ *sql.Context, e *elem) (sql.Row, error) { return c.toRow(*e), nil },
		FromRow: func(_ *sql.Context, r sql.Row) (*elem, error) {
			e, err := c.fromRow(r)
			if err != nil {
				return nil, err
			}
			return &e, nil
		},
		UpdateWithRow: func(_ *sql.Context, r sql.Row, old *elem) (*elem, error) {
			e, err := c.updateWithRow(r, *old)
			if err != nil {
				return nil, err
			}
			return &e, nil
		},
	}
}

// multi rows: the entity (K1,K2) "owns" one optional row (K1,K2,"x"), present iff P==1.
func multiFromRow(r sql.Row) (elem, error) {
	if len(r) != 3 {
		return elem{}, errBadRow
	}
	k1, ok1 := r[0].(int)
	k2, ok2 := r[1].(string)
	x, ok3 := r[2].(string)
	if !ok1 || !ok2 || !ok3 || x != "x" {
		return elem{}, errBadRow
	}
	return elem{K1: k1, K2: k2, P: 1}, nil
}

func multiRows(e elem) []sql.Row {
	if e.P == 1 {
		return []sql.Row{{e.K1, e.K2, "x"}}
	}
	return nil
}

func multiOps() imt.MultiValueOps[*elem] {
	return imt.MultiValueOps[*elem]{
		ToRows: func(_ *sql.Context, e *elem) ([]sql.Row, error) { return multiRows(*e), nil },
		FromRow: func(_ *sql.Context, r sql.Row) (*elem, error) {
			e, err := multiFromRow(r)
			if err != nil {
				return nil, err
			}
			return &e, nil
		},
		AddRow: func(_ *sql.Context, r sql.Row, old *elem) (*elem, error) {
			if _, err := multiFromRow(r); err != nil {
				return nil, err
			}
			n := *old
			n.P = 1
			return &n, nil
		},
		DeleteRow: func(_ *sql.Context, r sql.Row, old *elem) (*elem, error) {
			if _, err := multiFromRow(r); err != nil {
				return nil, err
			}
			n := *old
			n.P = 0
			return &n, nil
		},
	}
}

// ---------------------------------------------------------------------------------------------
// the real system

type system struct {
	cfg  config
	rw   *sync.RWMutex
	set  imt.IndexedSet[*elem]
	tbl  *imt.IndexedSetTable[*elem]
	mtbl *imt.MultiIndexedSetTable[*elem]
}

func newSystem(c config) *system {
	s := &system{cfg: c, rw: &sync.RWMutex{}}
	s.set = imt.NewIndexedSet[*elem](func(a, b *elem) bool { return c.eq(*a, *b) }, []imt.Keyer[*elem]{k1Keyer{}, k2Keyer{}})
	s.tbl = imt.NewIndexedSetTable[*elem]("t", nil, sql.Collation_Default, s.set, c.valueOps(), s.rw, s.rw.RLocker())
	s.mtbl = imt.NewMultiIndexedSetTable[*elem]("m", nil, sql.Collation_Default, s.set, multiOps(), s.rw, s.rw.RLocker())
	return s
}

// ---------------------------------------------------------------------------------------------
// operation alphabet

type op struct {
	Kind string `json:"kind"`
	E    elem   `json:"e"`            // element / (old) row
	N    elem   `json:"n,omitempty"`  // new row (updates)
	Ky   string `json:"ky,omitempty"` // keyer name for removeMany
	Key  any    `json:"key,omitempty"`
}

func (o op) String() string {
	switch o.Kind {
	case "put", "putReplace", "remove":
		return o.Kind + o.E.String()
	case "removeMany":
		return fmt.Sprintf("removeMany[%s=%v]", o.Ky, o.Key)
	case "clear", "truncate":
		return o.Kind
	case "edInsert", "edDelete", "mInsert", "mDelete":
		return o.Kind + o.E.String()
	default:
		return o.Kind + o.E.String() + "->" + o.N.String()
	}
}

func universe() []elem {
	var u []elem
	for _, k1 := range []int{1, 2} {
		for _, k2 := range []string{"a", "b"} {
			for _, p := range []int{0, 1} {
				u = append(u, elem{k1, k2, p})
			}
		}
	}
	return u
}

// rowElems: the elements a row can denote (side: P is not in the row).
func (c config) rowElems() []elem {
	var out []elem
	for _, e := range universe() {
		if c.Full || e.P == 0 {
			out = append(out, e)
		}
	}
	return out
}

func multiRowElems() []elem {
	var out []elem
	for _, e := range universe() {
		if e.P == 0 {
			out = append(out, e)
		}
	}
	return out
}

func (c config) alphabet() []op {
	var ops []op
	for _, k := range []string{"put", "putReplace", "remove"} {
		for _, e := range universe() {
			ops = append(ops, op{Kind: k, E: e})
		}
	}
	for _, k := range []int{1, 2, 3} {
		ops = append(ops, op{Kind: "removeMany", Ky: "k1", Key: k})
	}
	for _, k := range []string{"a", "b", "c"} {
		ops = append(ops, op{Kind: "removeMany", Ky: "k2", Key: k})
	}
	ops = append(ops, op{Kind: "removeMany", Ky: "stray", Key: 0})
	ops = append(ops, op{Kind: "clear"}, op{Kind: "truncate"})
	rows := c.rowElems()
	for _, k := range []string{"edInsert", "edDelete"} {
		for _, e := range rows {
			ops = append(ops, op{Kind: k, E: e})
		}
	}
	for _, o := range rows {
		for _, n := range rows {
			ops = append(ops, op{Kind: "edUpdate", E: o, N: n})
		}
	}
	mrows := multiRowElems()
	for _, k := range []string{"mInsert", "mDelete"} {
		for _, e := range mrows {
			ops = append(ops, op{Kind: k, E: e})
		}
	}
	for _, o := range mrows {
		for _, n := range mrows {
			ops = append(ops, op{Kind: "mUpdate", E: o, N: n})
		}
	}
	return ops
}

// ---------------------------------------------------------------------------------------------
// reference model: a slice used as a set (insertion order kept only to make it printable)

type model struct {
	cfg config
	s   []elem
}

func (m *model) find(e elem) int {
	for i, x := range m.s {
		if m.cfg.eq(x, e) {
			return i
		}
	}
	return -1
}
func (m *model) del(i int) { m.s = append(append([]elem{}, m.s[:i]...), m.s[i+1:]...) }
func (m *model) withK1(k int) []int {
	var out []int
	for i, x := range m.s {
		if x.K1 == k {
			out = append(out, i)
		}
	}
	return out
}
func (m *model) removeWhere(f func(elem) bool) {
	var out []elem
	for _, x := range m.s {
		if !f(x) {
			out = append(out, x)
		}
	}
	m.s = out
}
func (m *model) sorted() []elem {
	out := append([]elem{}, m.s...)
	sortElems(out)
	return out
}

func elemLess(a, b elem) bool {
	if a.K1 != b.K1 {
		return a.K1 < b.K1
	}
	if a.K2 != b.K2 {
		return a.K2 < b.K2
	}
	return a.P < b.P
}

// sortElems: insertion sort (the slices have <= 8 entries; this is the hot path)
func sortElems(s []elem) {
	for i := 1; i < len(s); i++ {
		for j := i; j > 0 && elemLess(s[j], s[j-1]); j-- {
			s[j], s[j-1] = s[j-1], s[j]
		}
	}
}

// expectation of one operation
type expect struct {
	status string // "ok" (specified), "disabled" (not run), "ood" (outside the operations' preconditions: invariants only)
	// for specified operations:
	errClass string // "", "pk", "notfound"
	found    bool   // remove
	count    int    // truncate
}

// applyModel computes the specified effect of o on m (mutating m) — or says the operation is
// disabled / outside its precondition in this state (m unchanged).
func applyModel(m *model, o op) expect {
	c := m.cfg
	switch o.Kind {
	case "put":
		if m.find(o.E) >= 0 {
			return expect{status: "disabled"}
		}
		m.s = append(m.s, o.E)
	case "putReplace":
		if i := m.find(o.E); i >= 0 {
			m.del(i)
		}
		m.s = append(m.s, o.E)
	case "remove":
		i := m.find(o.E)
		if i >= 0 {
			m.del(i)
		}
		return expect{status: "ok", found: i >= 0}
	case "removeMany":
		switch o.Ky {
		case "k1":
			m.removeWhere(func(x elem) bool { return x.K1 == o.Key.(int) })
		case "k2":
			m.removeWhere(func(x elem) bool { return x.K2 == o.Key.(string) })
		}
	case "clear":
		m.s = nil
	case "truncate":
		n := len(m.s)
		m.s = nil
		return expect{status: "ok", count: n}
	case "edInsert":
		e := o.E
		if !c.Full {
			e.P = 0
		}
		if len(m.withK1(e.K1)) != 0 {
			return expect{status: "ok", errClass: "pk"}
		}
		m.s = append(m.s, e)
	case "edDelete":
		m.removeWhere(func(x elem) bool { return x.K1 == o.E.K1 })
	case "edUpdate":
		// Specified when the old row is the row of the one element stored under its primary
		// key (what an UPDATE's table scan hands to the editor) and the updated element is not
		// already in the set (Put's precondition).
		is := m.withK1(o.E.K1)
		old := o.E
		if !c.Full {
			old.P = 0
		}
		if len(is) != 1 || !c.eq(m.s[is[0]], old) {
			return expect{status: "ood"}
		}
		n := o.N
		if !c.Full {
			n.P = m.s[is[0]].P
		}
		m2 := &model{cfg: c, s: append([]elem{}, m.s...)}
		m2.del(is[0])
		if m2.find(n) >= 0 {
			return expect{status: "ood"}
		}
		m2.s = append(m2.s, n)
		m.s = m2.s
	case "mInsert", "mDelete":
		is := m.withK1(o.E.K1)
		if len(is) != 1 {
			return expect{status: "ok", errClass: "notfound"}
		}
		n := m.s[is[0]]
		n.P = 0
		if o.Kind == "mInsert" {
			n.P = 1
		}
		m.del(is[0])
		m.s = append(m.s, n)
	case "mUpdate":
		// documented composite: delete the old row, then insert the new one
		if r := applyModel(m, op{Kind: "mDelete", E: o.E}); r.errClass != "" {
			return r
		}
		return applyModel(m, op{Kind: "mInsert", E: o.N})
	default:
		panic("c47: unknown op " + o.Kind)
	}
	return expect{status: "ok"}
}

// observed result of one operation on the real system
type observed struct {
	err   error
	found bool
	res   *elem
	count int
}

func multiRow(e elem) sql.Row { return sql.Row{e.K1, e.K2, "x"} }

func applyReal(s *system, o op) (ob observed) {
	c := s.cfg
	var ctx *sql.Context
	switch o.Kind {
	case "put":
		e := o.E
		s.set.Put(&e)
	case "putReplace":
		// the composite every caller in mysql_db uses: Get -> Remove -> Put
		e := o.E
		if old, ok := s.set.Get(&e); ok {
			s.set.Remove(old)
		}
		s.set.Put(&e)
	case "remove":
		e := o.E
		ob.res, ob.found = s.set.Remove(&e)
	case "removeMany":
		switch o.Ky {
		case "k1":
			s.set.RemoveMany(k1Keyer{}, o.Key)
		case "k2":
			s.set.RemoveMany(k2Keyer{}, o.Key)
		default:
			s.set.RemoveMany(strayKeyer{}, o.Key)
		}
	case "clear":
		s.set.Clear()
	case "truncate":
		ob.count, ob.err = s.tbl.Truncate(ctx)
	case "edInsert":
		ob.err = s.tbl.Editor().Insert(ctx, c.toRow(o.E))
	case "edDelete":
		ob.err = s.tbl.Editor().Delete(ctx, c.toRow(o.E))
	case "edUpdate":
		ob.err = s.tbl.Editor().Update(ctx, c.toRow(o.E), c.toRow(o.N))
	case "mInsert":
		ob.err = s.mtbl.Editor().Insert(ctx, multiRow(o.E))
	case "mDelete":
		ob.err = s.mtbl.Editor().Delete(ctx, multiRow(o.E))
	case "mUpdate":
		ob.err = s.mtbl.Editor().Update(ctx, multiRow(o.E), multiRow(o.N))
	}
	return
}

func errClass(err error) string {
	switch {
	case err == nil:
		return ""
	case sql.ErrPrimaryKeyViolation.Is(err):
		return "pk"
	case errors.Is(err, imt.ErrEntryNotFound):
		return "notfound"
	}
	return "other:" + err.Error()
}

// ---------------------------------------------------------------------------------------------
// observation of the real state

func fmtElems(s []elem) string {
	parts := make([]string, len(s))
	for i, e := range s {
		parts[i] = e.String()
	}
	return "{" + strings.Join(parts, " ") + "}"
}

func derefSorted(ps []*elem) ([]elem, bool) {
	out := make([]elem, 0, len(ps))
	for _, p := range ps {
		if p == nil {
			return nil, false
		}
		out = append(out, *p)
	}
	sortElems(out)
	return out, true
}

func sameElems(a, b []elem) bool {
	if len(a) != len(b) {
		return false
	}
	for i := range a {
		if a[i] != b[i] {
			return false
		}
	}
	return true
}

func rowsKey(rows []sql.Row) []string {
	out := make([]string, len(rows))
	for i, r := range rows {
		var sb strings.Builder
		for _, v := range r {
			switch x := v.(type) {
			case int:
				sb.WriteString(strconv.Itoa(x))
			case string:
				sb.WriteString(x)
			default:
				sb.WriteString(fmt.Sprint(x))
			}
			sb.WriteByte(',')
		}
		out[i] = sb.String()
	}
	sort.Strings(out)
	return out
}

type mismatch struct {
	clause, what, observed, expected string
}

var k1Keys = []any{1, 2, 3}
var k2Keys = []any{"a", "b", "c"}

// bucketsOf returns, per keyer and key, the bucket (in stored order).
func bucketsOf(s *system) (k1b, k2b [][]*elem) {
	for _, k := range k1Keys {
		k1b = append(k1b, s.set.GetMany(k1Keyer{}, k))
	}
	for _, k := range k2Keys {
		k2b = append(k2b, s.set.GetMany(k2Keyer{}, k))
	}
	return
}

// checkState compares everything the container lets a caller observe with the model (want ==
// nil: only the model-free invariants — every index holds the same elements, each under its key).
func checkState(s *system, want *model) *mismatch {
	c := s.cfg
	var visited []*elem
	s.set.VisitEntries(func(e *elem) { visited = append(visited, e) })
	all, ok := derefSorted(visited)
	if !ok {
		return &mismatch{"index-content", "VisitEntries", "nil element", "no nil elements"}
	}
	var ref []elem // what every index must hold
	if want != nil {
		ref = want.sorted()
		if !sameElems(all, ref) {
			return &mismatch{"index-content", "VisitEntries", fmtElems(all), fmtElems(ref)}
		}
	} else {
		ref = all
	}
	if n := s.set.Count(); n != len(ref) {
		return &mismatch{"index-content", "Count", fmt.Sprint(n), fmt.Sprint(len(ref))}
	}
	chk := func(name string, keyer imt.Keyer[*elem], keys []any, keyOf func(elem) any) *mismatch {
		for _, k := range keys {
			got := s.set.GetMany(keyer, k)
			g, ok := derefSorted(got)
			if !ok {
				return &mismatch{"index-content", "GetMany/" + name, "nil element", "no nil elements"}
			}
			var exp []elem
			for _, e := range ref {
				if keyOf(e) == k {
					exp = append(exp, e)
				}
			}
			if !sameElems(g, exp) {
				return &mismatch{"index-content", "GetMany/" + name, fmt.Sprintf("key %v: %s", k, fmtElems(g)), fmt.Sprintf("key %v: %s", k, fmtElems(exp))}
			}
			// the result is a copy: scribbling over it must not reach the container
			for i := range got {
				got[i] = nil
			}
			if g2, ok := derefSorted(s.set.GetMany(keyer, k)); !ok || !sameElems(g2, exp) {
				return &mismatch{"index-content", "GetMany-aliases-storage/" + name, fmt.Sprintf("key %v changed after the caller overwrote the returned slice", k), fmtElems(exp)}
			}
		}
		return nil
	}
	if m := chk("k1", k1Keyer{}, k1Keys, func(e elem) any { return e.K1 }); m != nil {
		return m
	}
	if m := chk("k2", k2Keyer{}, k2Keys, func(e elem) any { return e.K2 }); m != nil {
		return m
	}
	if got := s.set.GetMany(strayKeyer{}, 0); len(got) != 0 {
		return &mismatch{"index-content", "GetMany/stray-keyer", fmt.Sprint(len(got)), "0"}
	}
	for _, e := range universe() {
		e := e
		got, found := s.set.Get(&e)
		// candidates: the stored elements equal to e (exactly one under the model; possibly
		// several in the invariants-only mode, where any of them is acceptable)
		var cands []elem
		for i := range ref {
			if c.eq(ref[i], e) {
				cands = append(cands, ref[i])
			}
		}
		if found != (len(cands) > 0) {
			return &mismatch{"index-content", "Get", fmt.Sprintf("Get%s found=%v", e, found), fmt.Sprintf("found=%v", len(cands) > 0)}
		}
		if found {
			ok := false
			for _, x := range cands {
				ok = ok || (got != nil && *got == x)
			}
			if !ok {
				o := "nil"
				if got != nil {
					o = got.String()
				}
				return &mismatch{"index-content", "Get", fmt.Sprintf("Get%s = %s", e, o), "one of " + fmtElems(cands)}
			}
		}
	}
	// the tables' row views
	if it, err := s.tbl.PartitionRows(nil, nil); err != nil {
		return &mismatch{"index-content", "IndexedSetTable.PartitionRows", err.Error(), "rows"}
	} else {
		rows, err := sql.RowIterToRows(nil, it)
		if err != nil {
			return &mismatch{"index-content", "IndexedSetTable.PartitionRows", err.Error(), "rows"}
		}
		var exp []sql.Row
		for _, e := range ref {
			exp = append(exp, c.toRow(e))
		}
		if g, x := rowsKey(rows), rowsKey(exp); strings.Join(g, ";") != strings.Join(x, ";") {
			return &mismatch{"index-content", "IndexedSetTable.PartitionRows", strings.Join(g, ";"), strings.Join(x, ";")}
		}
	}
	if it, err := s.mtbl.PartitionRows(nil, nil); err != nil {
		return &mismatch{"index-content", "MultiIndexedSetTable.PartitionRows", err.Error(), "rows"}
	} else {
		rows, err := sql.RowIterToRows(nil, it)
		if err != nil {
			return &mismatch{"index-content", "MultiIndexedSetTable.PartitionRows", err.Error(), "rows"}
		}
		var exp []sql.Row
		for _, e := range ref {
			exp = append(exp, multiRows(e)...)
		}
		if g, x := rowsKey(rows), rowsKey(exp); strings.Join(g, ";") != strings.Join(x, ";") {
			return &mismatch{"index-content", "MultiIndexedSetTable.PartitionRows", strings.Join(g, ";"), strings.Join(x, ";")}
		}
	}
	// no operation may leave the table lock held
	if !s.rw.TryLock() {
		return &mismatch{"lock-released", "lock", "table lock still held after the operation", "free"}
	}
	s.rw.Unlock()
	return nil
}

// stateKey: canonical key of the reached state; with Ordered also the order inside each bucket
// (the only other thing the implementation's future can depend on).
func stateKey(s *system, m *model) string {
	var sb strings.Builder
	sb.WriteString(s.cfg.Name)
	sb.WriteString(fmtElems(m.sorted()))
	if s.cfg.Ordered {
		k1b, k2b := bucketsOf(s)
		for _, b := range append(k1b, k2b...) {
			sb.WriteByte('|')
			for _, e := range b {
				sb.WriteString(e.String())
			}
		}
	}
	return sb.String()
}

// ---------------------------------------------------------------------------------------------
// one history

type witness struct {
	Config  string   `json:"config"`
	Ordered bool     `json:"ordered,omitempty"`
	History []int    `json:"history"`
	Ops     []string `json:"ops"`
}

func configByName(name string, ordered bool) config {
	return config{Name: name, Full: name == "full", Ordered: ordered}
}

type stepper struct {
	r   *core.Run
	cfg config
	ops []op
}

func (st *stepper) wit(h []int) json.RawMessage {
	w := witness{Config: st.cfg.Name, Ordered: st.cfg.Ordered, History: h}
	for _, i := range h {
		w.Ops = append(w.Ops, st.ops[i].String())
	}
	return core.J(w)
}

// layerOf: the API layer an operation enters through (the classifying coordinate of violations).
func layerOf(kind string) string {
	switch {
	case kind == "truncate":
		return "IndexedSetTable"
	case strings.HasPrefix(kind, "ed"):
		return "IndexedSetTableEditor"
	case strings.HasPrefix(kind, "m"):
		return "MultiIndexedSetTableEditor"
	}
	return "IndexedSet"
}

func collides(m *model) bool {
	c1 := map[int]int{}
	c2 := map[string]int{}
	for _, e := range m.s {
		c1[e.K1]++
		c2[e.K2]++
		if c1[e.K1] > 1 || c2[e.K2] > 1 {
			return true
		}
	}
	return false
}

// Step runs history h on a fresh system and applies the oracle to its last operation.
func (st *stepper) Step(h []int) (string, bool) {
	r := st.r
	s := newSystem(st.cfg)
	m := &model{cfg: st.cfg}
	for i, oi := range h {
		o := st.ops[oi]
		last := i == len(h)-1
		before := append([]elem{}, m.s...)
		exp := applyModel(m, o)
		if !last {
			if exp.status != "ok" {
				// cannot happen: such prefixes are never expanded
				return "unreachable", false
			}
			if pv, _ := core.Try(func() { applyReal(s, o) }); pv != nil {
				return "unreachable", false
			}
			continue
		}
		subject := map[string]string{"layer": layerOf(o.Kind)}
		if exp.status == "disabled" {
			r.Count("disabled", 1)
			r.Outcome(o.Kind + ":disabled")
			return hist.Disabled, false
		}
		var ob observed
		pv, stack := core.Try(func() { ob = applyReal(s, o) })
		if pv != nil {
			subject["frame"] = core.TopFrame(stack)
			r.Violate(core.Violation{Check: "indexed-set", Clause: "no-panic", Kind: "panic", Subject: subject, Witness: st.wit(h), Observed: fmt.Sprint(pv), Expected: "no panic"})
			return st.cfg.Name + ":violation", false
		}
		if exp.status == "ood" {
			// outside the editors' documented preconditions: the outcome is unspecified, but the
			// container must stay internally consistent (all indexes hold the same elements)
			r.Count("outside_precondition", 1)
			r.Outcome(o.Kind + ":outside-precondition")
			var mm *mismatch
			pv, stack := core.Try(func() { mm = checkState(s, nil) })
			if pv != nil {
				subject["frame"] = core.TopFrame(stack)
				r.Violate(core.Violation{Check: "indexed-set", Clause: "no-panic", Kind: "panic", Subject: subject, Witness: st.wit(h), Observed: fmt.Sprint(pv), Expected: "no panic"})
			} else if mm != nil {
				r.Violate(core.Violation{Check: "indexed-set", Clause: "indexes-agree", Kind: "inconsistent-indexes", Subject: subject, Witness: st.wit(h), Observed: "after " + o.String() + ", " + mm.what + ": " + mm.observed, Expected: mm.expected})
			}
			return st.cfg.Name + ":outside-precondition", false
		}
		// specified operation: its own results first …
		if got := errClass(ob.err); got != exp.errClass {
			r.Violate(core.Violation{Check: "indexed-set", Clause: "operation-result", Kind: "wrong-error", Subject: subject, Witness: st.wit(h), Observed: "error class " + got, Expected: "error class " + exp.errClass + " (\"\" = none)"})
			return st.cfg.Name + ":violation", false
		}
		switch o.Kind {
		case "remove":
			bad := ob.found != exp.found || (ob.found && (ob.res == nil || !st.cfg.eq(*ob.res, o.E)))
			if bad {
				r.Violate(core.Violation{Check: "indexed-set", Clause: "operation-result", Kind: "wrong-value", Subject: subject, Witness: st.wit(h), Observed: fmt.Sprintf("found=%v res=%v", ob.found, ob.res), Expected: fmt.Sprintf("found=%v and an element equal to the argument", exp.found)})
				return st.cfg.Name + ":violation", false
			}
		case "truncate":
			if ob.count != exp.count {
				r.Violate(core.Violation{Check: "indexed-set", Clause: "operation-result", Kind: "wrong-value", Subject: subject, Witness: st.wit(h), Observed: fmt.Sprint(ob.count), Expected: fmt.Sprint(exp.count)})
				return st.cfg.Name + ":violation", false
			}
		}
		// … then the whole observable state against the model
		var mm *mismatch
		pv, stack = core.Try(func() { mm = checkState(s, m) })
		if pv != nil {
			subject["frame"] = core.TopFrame(stack)
			r.Violate(core.Violation{Check: "indexed-set", Clause: "no-panic", Kind: "panic", Subject: subject, Witness: st.wit(h), Observed: fmt.Sprint(pv), Expected: "no panic"})
			return st.cfg.Name + ":violation", false
		}
		if mm != nil {
			r.Violate(core.Violation{Check: "indexed-set", Clause: mm.clause, Kind: "differs-from-set-model", Subject: subject, Witness: st.wit(h), Observed: "after " + o.String() + ", " + mm.what + ": " + mm.observed, Expected: mm.expected})
			return st.cfg.Name + ":violation", false
		}
		changed := !sameElems(before, m.s)
		cls := "unchanged"
		if exp.errClass != "" {
			cls = "error-" + exp.errClass
		} else if changed {
			cls = "changed"
		}
		r.Outcome(o.Kind + ":" + cls)
		if changed || collides(&model{cfg: st.cfg, s: before}) {
			r.NonTrivial(fmt.Sprintf("%s%v", st.cfg.Name, h))
			if len(h) >= 4 && changed && r.WantSample() {
				var w witness
				json.Unmarshal(st.wit(h), &w)
				r.Sample(map[string]any{"config": st.cfg.Name, "history": w.Ops, "set_after": fmtElems(m.sorted()), "last_step": cls})
			}
		}
	}
	return stateKey(s, m), true
}

// ---------------------------------------------------------------------------------------------

func explore(r *core.Run, cfg config, unmerged, maxDepth int) {
	st := &stepper{r: r, cfg: cfg, ops: cfg.alphabet()}
	tag := cfg.Name
	if cfg.Ordered {
		tag += "-ordered"
	}
	r.Info("alphabet_"+tag, len(st.ops))
	r.Info("unmerged_depth_"+tag, unmerged)
	r.Info("max_depth_bound_"+tag, maxDepth)
	before := r.Result().MaxCounters["max_depth"]
	states0, trans0 := r.Result().Counters["states"], r.Result().Counters["transitions"]
	r.Result().MaxCounters["max_depth"] = 0
	hist.Explore(r, hist.Config{
		NOps: len(st.ops), MaxDepth: maxDepth, UnmergedDepth: unmerged,
		Step:  st.Step,
		Label: func(i int) string { return st.ops[i].String() },
	})
	reached := r.Result().MaxCounters["max_depth"]
	// BFS with merging closes the state space when a whole level adds no new state, i.e. the
	// deepest level run is below the bound.
	r.Max("deepest_level_"+tag, reached)
	// per-worker figures (every worker closes the whole space below its own prefixes)
	r.Max("states_per_worker_"+tag, r.Result().Counters["states"]-states0)
	r.Max("transitions_per_worker_"+tag, r.Result().Counters["transitions"]-trans0)
	if reached >= int64(maxDepth) {
		r.Capped(fmt.Sprintf("%s: depth bound %d reached before the state space closed", tag, maxDepth))
	}
	if before > reached {
		r.Result().MaxCounters["max_depth"] = before
	}
}

func init() {
	core.Register(&core.Prop{
		ID:    "C47",
		Level: "model_checking",
		Rule: "BFS over operation histories of a real in_mem_table.IndexedSet (two keyers k1 in {1,2}, k2 in {a,b}; payload bit) shared by an IndexedSetTable and a MultiIndexedSetTable, fresh system per history, " +
			"each history replayed and the LAST step checked against a slice-as-set model: every GetMany(keyer,key) incl. absent keys and a foreign keyer, Get of all 8 elements, Count, VisitEntries, both tables' PartitionRows, operation results (found / error class / truncate count), lock released. " +
			"Alphabet: Put (enabled only when no equal element is stored), put-replace (Get->Remove->Put), Remove, RemoveMany per keyer and key, Clear, Truncate, editor Insert/Delete/Update over all rows, multi-editor Insert/Delete/Update over all rows; " +
			"two element equalities: full (k1,k2,payload; 137 operations) and side (k1,k2, payload is a sidecar no row shows; 81 operations). " +
			"Every history of enabled, specified operations of length <= 3 (quick) / <= 4 (thorough) is run without merging; beyond it histories reaching an already seen state are merged and BFS runs until no new state appears (state space closed, every operation applied in every reachable state). " +
			"quick: state = set content; thorough additionally explores with state = set content + order inside every index bucket. " +
			"editor Update outside its precondition (old row is not the row of the single element under its primary key, or the updated element already exists) is run but only checked for panics and index agreement. " +
			"non-trivial = enabled, specified step that changes the set or acts on a set with a bucket collision (>=2 elements under one key)",
		Assumptions: []string{
			"Put is only called when no equal element is stored (the precondition every mysql_db caller establishes); IndexedSet deliberately keeps duplicates otherwise (in-repo TestIndexedSetCount)",
			"ValueOps/MultiValueOps are well-formed: FromRow(ToRow(e)) equals e, UpdateWithRow keeps what rows do not show",
			"MultiUpdate is the documented composite MultiDelete;MultiInsert (a failing insert leaves the delete applied)",
			"single-threaded use; the locking wrappers are only checked for releasing the lock",
		},
		QuickBudget:    60,
		ThoroughBudget: 800,
		Run: func(r *core.Run) {
			full := config{Name: "full", Full: true}
			side := config{Name: "side", Full: false}
			if r.Quick() {
				explore(r, full, 2, 14)
				explore(r, side, 2, 14)
				return
			}
			explore(r, full, 3, 14)
			explore(r, side, 3, 14)
			full.Ordered, side.Ordered = true, true
			explore(r, side, 2, 14)
			explore(r, full, 2, 14)
		},
		Replay: func(r *core.Run, w json.RawMessage) {
			var wt witness
			if json.Unmarshal(w, &wt) != nil {
				return
			}
			cfg := configByName(wt.Config, wt.Ordered)
			st := &stepper{r: r, cfg: cfg, ops: cfg.alphabet()}
			for _, i := range wt.History {
				if i < 0 || i >= len(st.ops) {
					return
				}
			}
			st.Step(wt.History)
		},
	})
}
