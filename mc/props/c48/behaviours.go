package c48

import (
	"errors"
	"fmt"
	"runtime"

	"golang.org/x/sync/errgroup"

	"github.com/dolthub/go-mysql-server/errguard"
)

// The function alphabet. Every behaviour is a function body that is handed to errguard.Go (mode
// "go") or run under `defer errguard.RecoverAndLog(what)` in a plain goroutine (mode "ral").

type c48Custom struct {
	Code int
	Tag  string
}

type c48Err struct{ msg string }

func (e *c48Err) Error() string { return e.msg } // panics on a nil receiver (fmt contains that)

type c48BadStringer struct{}

func (c48BadStringer) String() string { panic("stringer-exploded") }

var (
	c48E1      = errors.New("plain-error-e1")
	c48E2      = &c48Err{msg: "custom-error-e2"}
	c48PanicE  = errors.New("panic-error-value")
	c48TypedNl = (*c48Err)(nil)
)

// how a behaviour ends, from the point of view of the reference model
const (
	endNil    = "nil"    // returns nil: not a failure
	endErr    = "err"    // returns an ordinary error: failure, error must come back ==
	endPanic  = "panic"  // a panic unwinds out of the function: failure, error text carries the value
	endGoexit = "goexit" // runtime.Goexit: the goroutine ends, neither error nor panic
)

type c48Env struct {
	g     *errgroup.Group // mode "go": the group the function runs in
	spawn func(what string, body func())
}

type c48Beh struct {
	Name  string
	Class string // coarse class used in violation subjects
	End   string
	Err   error  // endErr: the identical error expected from Wait
	Text  string // endPanic: substring of fmt.Sprint(panic value) that the error/log text must contain
	Modes string // "go", "ral" or "both"
	Run   func(env *c48Env) error
}

//go:noinline
func c48Deep(n int, f func()) {
	if n == 0 {
		f()
		return
	}
	c48Deep(n-1, f)
}

var c48Zero = 0

func c48Behaviours() []c48Beh {
	return []c48Beh{
		{Name: "return-nil", Class: "return", End: endNil, Modes: "both", Run: func(*c48Env) error { return nil }},
		{Name: "return-e1", Class: "return", End: endErr, Err: c48E1, Modes: "both", Run: func(*c48Env) error { return c48E1 }},
		{Name: "return-e2-custom", Class: "return", End: endErr, Err: c48E2, Modes: "go", Run: func(*c48Env) error { return c48E2 }},
		{Name: "return-typed-nil-error", Class: "return", End: endErr, Err: c48TypedNl, Modes: "go", Run: func(*c48Env) error { return c48TypedNl }},
		{Name: "panic-string", Class: "panic-value", End: endPanic, Text: "boom-string", Modes: "both", Run: func(*c48Env) error { panic("boom-string") }},
		{Name: "panic-error", Class: "panic-value", End: endPanic, Text: "panic-error-value", Modes: "both", Run: func(*c48Env) error { panic(c48PanicE) }},
		{Name: "panic-int", Class: "panic-value", End: endPanic, Text: "424242", Modes: "both", Run: func(*c48Env) error { panic(424242) }},
		{Name: "panic-nil", Class: "panic-value", End: endPanic, Text: "panic called with nil argument", Modes: "both", Run: func(*c48Env) error { panic(nil) }},
		{Name: "panic-struct", Class: "panic-value", End: endPanic, Text: "{77 custom-tag}", Modes: "both", Run: func(*c48Env) error { panic(c48Custom{77, "custom-tag"}) }},
		{Name: "panic-typed-nil-pointer", Class: "panic-value", End: endPanic, Text: "<nil>", Modes: "both", Run: func(*c48Env) error { panic(c48TypedNl) }},
		{Name: "panic-bad-stringer", Class: "panic-value", End: endPanic, Text: "stringer-exploded", Modes: "both", Run: func(*c48Env) error { panic(c48BadStringer{}) }},
		{Name: "panic-deep-stack", Class: "panic-value", End: endPanic, Text: "deep-boom", Modes: "go", Run: func(*c48Env) error {
			c48Deep(200, func() { panic("deep-boom") })
			return nil
		}},
		{Name: "runtime-nil-map-write", Class: "runtime-error", End: endPanic, Text: "assignment to entry in nil map", Modes: "both", Run: func(*c48Env) error {
			var m map[string]int
			m["k"] = 1
			return nil
		}},
		{Name: "runtime-index-out-of-range", Class: "runtime-error", End: endPanic, Text: "index out of range [5] with length 3", Modes: "both", Run: func(*c48Env) error {
			s := make([]int, 3)
			i := 5 + c48Zero
			s[i] = 1
			return nil
		}},
		{Name: "runtime-nil-deref", Class: "runtime-error", End: endPanic, Text: "nil pointer dereference", Modes: "both", Run: func(*c48Env) error {
			var p *c48Custom
			if c48Zero == 0 {
				_ = p.Code
			}
			return nil
		}},
		{Name: "runtime-divide-by-zero", Class: "runtime-error", End: endPanic, Text: "integer divide by zero", Modes: "go", Run: func(*c48Env) error {
			_ = 10 / c48Zero
			return nil
		}},
		{Name: "return-e1-then-deferred-panic", Class: "panic-in-defer", End: endPanic, Text: "panic-in-deferred", Modes: "both", Run: func(*c48Env) (err error) {
			defer func() { panic("panic-in-deferred") }()
			return c48E1
		}},
		{Name: "panic-then-deferred-panic", Class: "panic-in-defer", End: endPanic, Text: "second-panic", Modes: "both", Run: func(*c48Env) error {
			defer func() { panic("second-panic") }()
			panic("first-panic")
		}},
		{Name: "self-recovered-panic-returns-e2", Class: "return", End: endErr, Err: c48E2, Modes: "go", Run: func(*c48Env) (err error) {
			defer func() {
				if r := recover(); r != nil {
					err = c48E2
				}
			}()
			panic("handled-inside")
		}},
		{Name: "self-recovered-panic-returns-nil", Class: "return", End: endNil, Modes: "both", Run: func(*c48Env) (err error) {
			defer func() { recover() }()
			panic("handled-inside")
		}},
		{Name: "goexit", Class: "goexit", End: endGoexit, Modes: "both", Run: func(*c48Env) error {
			runtime.Goexit()
			return nil
		}},
		// spawns a second guarded goroutine in the same group; that one panics, the spawner returns nil
		{Name: "nested-guarded-same-group-panics", Class: "nested", End: endPanic, Text: "nested-boom", Modes: "go", Run: func(env *c48Env) error {
			errguard.Go(env.g, func() error { panic("nested-boom") })
			return nil
		}},
		// runs a guarded goroutine in a sub-group and returns the sub-group's Wait(): the panic comes
		// back as an ordinary returned error (which must then be propagated unchanged)
		{Name: "nested-guarded-subgroup-wait", Class: "nested", End: "err-from-subgroup", Text: "subgroup-boom", Modes: "go", Run: func(*c48Env) error {
			sub := new(errgroup.Group)
			errguard.Go(sub, func() error { panic(fmt.Errorf("subgroup-boom")) })
			return sub.Wait()
		}},
		// mode ral: spawns another RecoverAndLog-guarded goroutine that panics, returns normally
		{Name: "nested-logged-goroutine-panics", Class: "nested", End: endNil, Text: "nested-logged-boom", Modes: "ral", Run: func(env *c48Env) error {
			env.spawn("nested-worker", func() { panic("nested-logged-boom") })
			return nil
		}},
	}
}

func c48BehByName() map[string]*c48Beh {
	bs := c48Behaviours()
	m := map[string]*c48Beh{}
	for i := range bs {
		m[bs[i].Name] = &bs[i]
	}
	return m
}
