// Package c48 — C48 "guarded goroutines turn panics into errors" (errguard.Go, errguard.RecoverAndLog).
//
// Space: every group of 1..3 (thorough: 1..4) functions from a behaviour alphabet × every
// completion order of the group (gates released in each of the n! orders, each release waiting
// until that function and the goroutines it spawned are gone) × group flavour (zero Group,
// WithContext, SetLimit). The real errguard + errgroup code is run on every schedule; a small
// reference model says what Wait() must return. Cases are executed in an executor subprocess so
// that "the process crashes" is an observable outcome rather than the death of the checker.
package c48

import (
	"bufio"
	"bytes"
	"encoding/json"
	"fmt"
	"io"
	"os"
	"os/exec"
	"strings"

	"verif/mc/core"
)

// ---------- executor subprocess ----------

const c48ChildEnv = "VERIF_C48_EXECUTOR"

// c48ChildLoop: read one case per line, execute it, answer one line. Results are written
// unbuffered so that everything before a crash has reached the parent.
func c48ChildLoop() {
	behs := c48BehByName()
	in := bufio.NewReaderSize(os.Stdin, 1<<16)
	for {
		line, err := in.ReadBytes('\n')
		if len(bytes.TrimSpace(line)) > 0 {
			var c c48Case
			var res c48Result
			if jerr := json.Unmarshal(line, &c); jerr != nil {
				res = c48Result{Stuck: "bad case line: " + jerr.Error()}
			} else {
				res = c48Exec(c, behs)
			}
			b, _ := json.Marshal(res)
			os.Stdout.Write(append(b, '\n'))
		}
		if err != nil {
			return
		}
	}
}

type c48Runner struct {
	tier   string
	cmd    *exec.Cmd
	stdin  io.WriteCloser
	out    *bufio.Reader
	stderr *bytes.Buffer
	spawns int
	giveUp func() bool // asked after every crash: abandon the rest of the batch?
}

func (x *c48Runner) start() error {
	self, err := os.Executable()
	if err != nil {
		return err
	}
	tmp, err := os.CreateTemp("", "c48-exec-*.json")
	if err != nil {
		return err
	}
	tmp.Close()
	os.Remove(tmp.Name())
	cmd := exec.Command(self, "-prop", "C48", "-tier", x.tier, "-worker", "-shard", "0", "-nshards", "1", "-out", tmp.Name())
	cmd.Env = append(os.Environ(), c48ChildEnv+"=1", "GOTRACEBACK=single")
	x.stderr = &bytes.Buffer{}
	cmd.Stderr = x.stderr
	if x.stdin, err = cmd.StdinPipe(); err != nil {
		return err
	}
	so, err := cmd.StdoutPipe()
	if err != nil {
		return err
	}
	x.out = bufio.NewReaderSize(so, 1<<16)
	if err := cmd.Start(); err != nil {
		return err
	}
	x.cmd = cmd
	x.spawns++
	return nil
}

func (x *c48Runner) stop() {
	if x.cmd == nil {
		return
	}
	x.stdin.Close()
	x.cmd.Wait()
	x.cmd = nil
}

type c48Crash struct {
	Exit   string
	Stderr string
}

// runBatch executes the cases in order. For every case either a result or a crash is delivered
// to fn. After a crash the executor is restarted and the batch continues with the next case.
func (x *c48Runner) runBatch(cases []c48Case, fn func(i int, res *c48Result, crash *c48Crash)) error {
	next := 0
	for next < len(cases) {
		if x.cmd == nil {
			if err := x.start(); err != nil {
				return err
			}
		}
		pending := cases[next:]
		var buf bytes.Buffer
		for _, c := range pending {
			b, _ := json.Marshal(c)
			buf.Write(b)
			buf.WriteByte('\n')
		}
		stdin := x.stdin
		go func() { stdin.Write(buf.Bytes()) }() // the executor may die mid-batch: ignore write errors
		crashed := false
		for k := range pending {
			line, err := x.out.ReadBytes('\n')
			if err != nil {
				// the executor died while running pending[k]
				x.stdin.Close()
				werr := x.cmd.Wait()
				x.cmd = nil
				cr := &c48Crash{Exit: fmt.Sprint(werr), Stderr: x.stderr.String()}
				fn(next+k, nil, cr)
				next += k + 1
				crashed = true
				if x.giveUp != nil && x.giveUp() {
					return nil
				}
				break
			}
			var res c48Result
			if jerr := json.Unmarshal(line, &res); jerr != nil {
				return fmt.Errorf("bad executor answer %q: %v", line, jerr)
			}
			fn(next+k, &res, nil)
		}
		if !crashed {
			next = len(cases)
		}
	}
	return nil
}

// ---------- judging ----------

type c48Checker struct {
	r       *core.Run
	x       *c48Runner
	behs    map[string]*c48Beh
	reduce  map[string][]c48Finding // memo: findings of reduced (single function) cases
	pending []c48Pending
	crashes int
}

func crashFirstLines(stderr string) (kind, head string) {
	kind = "process-died"
	for _, l := range strings.Split(stderr, "\n") {
		l = strings.TrimSpace(l)
		switch {
		case strings.HasPrefix(l, "panic:"):
			return "unrecovered-panic", short(l)
		case strings.HasPrefix(l, "fatal error:"):
			return "fatal-error", short(l)
		}
		if head == "" && l != "" {
			head = short(l)
		}
	}
	return kind, head
}

// findingsOf flattens an execution into (clause, kind, observed, expected) findings; a crash is a
// finding of the first clause of the property.
func findingsOf(res *c48Result, cr *c48Crash) []c48Finding {
	if cr != nil {
		kind, head := crashFirstLines(cr.Stderr)
		return []c48Finding{{Clause: "process-survives", Kind: "process-crash", Observed: fmt.Sprintf("executor process died (%s; %s): %s", cr.Exit, kind, head), Expected: "the process keeps running and Wait() returns"}}
	}
	return res.Findings
}

// trigger = coarse class of the first function, in completion order, that does not simply return nil.
func (k *c48Checker) trigger(c c48Case) (class string, beh string) {
	for _, i := range c.Order {
		b := k.behs[c.Fns[i]]
		if b != nil && (b.End != endNil || b.Class == "nested") {
			return b.Class, b.Name
		}
	}
	return "none", ""
}

// reducedFindings runs a reduced (single function) case and returns what it shows (memoised).
func (k *c48Checker) reducedFindings(c c48Case) []c48Finding {
	b, _ := json.Marshal(c)
	if v, ok := k.reduce[string(b)]; ok {
		return v
	}
	var out []c48Finding
	k.x.runBatch([]c48Case{c}, func(_ int, res *c48Result, cr *c48Crash) { out = findingsOf(res, cr) })
	k.reduce[string(b)] = out
	return out
}

// report turns a finding into a violation with a root-cause oriented signature: the case is first
// reduced deterministically (simplest panic alone → the first behaviour of the group, in completion
// order, that shows the same finding alone → the case as found).
func (k *c48Checker) report(c c48Case, f c48Finding) {
	subject := map[string]string{"api": map[string]string{"go": "errguard.Go", "ral": "errguard.RecoverAndLog"}[c.Mode]}
	wit := c
	reduced := false
	variants := []string{"plain"}
	if c.Variant != "plain" {
		variants = append(variants, c.Variant) // some clauses exist only for one group flavour
	}
	group := map[string]string{"plain": "any"}
	var cands []c48Case
	var names []string
	for _, v := range variants {
		cands = append(cands, c48Case{Mode: c.Mode, Variant: v, Fns: []string{"panic-string"}, Order: []int{0}})
		names = append(names, "any-panic")
	}
	for _, i := range c.Order {
		for _, v := range variants {
			cands = append(cands, c48Case{Mode: c.Mode, Variant: v, Fns: []string{c.Fns[i]}, Order: []int{0}})
			names = append(names, k.behs[c.Fns[i]].Class)
		}
	}
	// A group misbehaves because one of its functions does: when a single-function case already
	// shows a violation, that one (same clause/kind if possible) is the root cause that is reported.
	for j, cand := range cands {
		fs := k.reducedFindings(cand)
		if len(fs) == 0 {
			continue
		}
		pick := fs[0]
		for _, g := range fs {
			if g.Clause == f.Clause && g.Kind == f.Kind {
				pick = g
			}
		}
		f = pick
		subject["trigger"] = names[j]
		if subject["group"] = group[cand.Variant]; subject["group"] == "" {
			subject["group"] = cand.Variant
		}
		wit, reduced = cand, true
		break
	}
	if !reduced {
		class, _ := k.trigger(c)
		subject["trigger"] = class
		subject["group"] = fmt.Sprintf("%s,n=%d", c.Variant, len(c.Fns))
	}
	k.r.Violate(core.Violation{Check: c.Mode, Clause: f.Clause, Kind: f.Kind, Subject: subject, Witness: core.J(wit), Observed: f.Observed, Expected: f.Expected})
}

func (k *c48Checker) judge(c c48Case, res *c48Result, cr *c48Crash) {
	r := k.r
	r.Eval()
	if cr != nil {
		k.crashes++
		r.Outcome("process-crash")
		r.Count("executor_crashes", 1)
	} else {
		if res.Stuck != "" {
			r.Capped("harness could not observe completion of a function: " + res.Stuck)
			return
		}
		r.Outcome(res.Outcome)
		r.Count("gate_releases", int64(res.Releases))
	}
	panics, failing := 0, map[string]bool{}
	for _, f := range c.Fns {
		b := k.behs[f]
		if b.End == endPanic || b.Class == "nested" {
			panics++
		}
		if b.fails() {
			failing[f] = true
		}
	}
	if panics > 0 {
		key, _ := json.Marshal(c)
		r.NonTrivial(string(key))
		if r.WantSample() && len(c.Fns) >= 2 && cr == nil {
			r.Sample(map[string]any{"case": c, "outcome": res.Outcome})
		}
	}
	if len(failing) >= 2 {
		r.Count("order_sensitive_schedules", 1)
	}
	for _, f := range findingsOf(res, cr) {
		// reported after the running batch is finished (report runs reduced cases on the executor)
		k.pending = append(k.pending, c48Pending{c, f})
	}
}

type c48Pending struct {
	c c48Case
	f c48Finding
}

func (k *c48Checker) drain() {
	p := k.pending
	k.pending = nil
	for _, x := range p {
		k.report(x.c, x.f)
	}
}

// ---------- enumeration ----------

func permutations(n int) [][]int {
	var out [][]int
	var rec func(cur []int, used []bool)
	rec = func(cur []int, used []bool) {
		if len(cur) == n {
			out = append(out, append([]int(nil), cur...))
			return
		}
		for i := 0; i < n; i++ {
			if !used[i] {
				used[i] = true
				rec(append(cur, i), used)
				used[i] = false
			}
		}
	}
	rec(nil, make([]bool, n))
	return out
}

// c48Groups calls fn for every group (sequence with repetition) of size 1..maxN over names.
func c48Groups(names []string, maxN int, fn func(g []string)) {
	var rec func(cur []string)
	rec = func(cur []string) {
		if len(cur) > 0 {
			fn(append([]string(nil), cur...))
		}
		if len(cur) == maxN {
			return
		}
		for _, n := range names {
			rec(append(cur, n))
		}
	}
	rec(nil)
}

const c48MaxCrashes = 12 // per worker; a process spawn costs ~0.2 s in this sandbox

func c48Run(r *core.Run) {
	if os.Getenv(c48ChildEnv) != "" {
		c48ChildLoop()
		os.Exit(0)
	}
	k := &c48Checker{r: r, x: &c48Runner{tier: r.Tier}, behs: c48BehByName(), reduce: map[string][]c48Finding{}}
	defer k.x.stop()
	k.x.giveUp = func() bool { return k.crashes > c48MaxCrashes }
	var goNames, ralNames []string
	for _, b := range c48Behaviours() {
		if b.Modes == "both" || b.Modes == "go" {
			goNames = append(goNames, b.Name)
		}
		if b.Modes == "both" || b.Modes == "ral" {
			ralNames = append(ralNames, b.Name)
		}
	}
	maxGo, maxRal := 3, 2
	if r.Thorough() {
		maxGo, maxRal = 4, 3
	}
	r.Info("behaviours_go", len(goNames))
	r.Info("behaviours_recover_and_log", len(ralNames))
	r.Info("max_group_size_go", maxGo)
	r.Info("max_group_size_recover_and_log", maxRal)
	r.Info("group_variants", []string{"plain", "ctx", "limit"})

	var batch []c48Case
	stop := false
	flush := func() {
		if len(batch) == 0 || stop {
			batch = batch[:0]
			return
		}
		b := batch
		err := k.x.runBatch(b, func(i int, res *c48Result, cr *c48Crash) { k.judge(b[i], res, cr) })
		if err != nil {
			panic("c48 harness: " + err.Error())
		}
		batch = batch[:0]
		k.drain()
		if k.crashes > c48MaxCrashes {
			r.Capped(fmt.Sprintf("a worker stops after %d executor crashes (all of them are reported as violations)", c48MaxCrashes))
			stop = true
		}
		if r.Expired() {
			r.Capped("time budget: enumeration stopped early")
			stop = true
		}
	}
	var idx int64
	emit := func(c c48Case) {
		i := idx
		idx++
		if stop || !r.Mine(i) {
			return
		}
		batch = append(batch, c)
		if len(batch) >= 128 {
			flush()
		}
	}
	perms := map[int][][]int{}
	for n := 1; n <= 4; n++ {
		perms[n] = permutations(n)
	}
	c48Groups(goNames, maxGo, func(g []string) {
		flavours := []string{"plain", "ctx", "limit"}
		if len(g) >= 4 {
			flavours = []string{"ctx"} // size 4 (thorough): the WithContext flavour only (it carries every Wait() clause plus the context clauses)
		}
		for _, v := range flavours {
			for _, o := range perms[len(g)] {
				emit(c48Case{Mode: "go", Variant: v, Fns: g, Order: o})
			}
		}
	})
	c48Groups(ralNames, maxRal, func(g []string) {
		for _, o := range perms[len(g)] {
			emit(c48Case{Mode: "ral", Variant: "plain", Fns: g, Order: o})
		}
	})
	flush()
	r.Info("space_size", idx)
	r.Max("executor_spawns", int64(k.x.spawns))
}

func c48Replay(r *core.Run, w json.RawMessage) {
	var c c48Case
	if json.Unmarshal(w, &c) != nil {
		return
	}
	k := &c48Checker{r: r, x: &c48Runner{tier: r.Tier}, behs: c48BehByName(), reduce: map[string][]c48Finding{}}
	defer k.x.stop()
	if err := c48ValidCase(c, k.behs); err != nil {
		fmt.Fprintln(os.Stderr, "invalid witness:", err)
		return
	}
	k.x.runBatch([]c48Case{c}, func(_ int, res *c48Result, cr *c48Crash) { k.judge(c, res, cr) })
	k.drain()
}

func init() {
	core.Register(&core.Prop{
		ID:    "C48",
		Level: "model_checking",
		Rule: "every schedule of every group: groups = all sequences (with repetition) of 1..3 (thorough: also all of size 4, WithContext flavour only) functions over a 23-behaviour alphabet (return nil/errors, panic with string/error/int/nil/struct/typed-nil/bad-Stringer values, 4 runtime errors, panic in a deferred call, double panic, self-recovered panic, runtime.Goexit, nested guarded goroutine in the same group / in a sub-group) " +
			"x group flavour {zero Group, WithContext, SetLimit} x every completion order (n! gate-release orders; a release waits until that function and its children have exited, so errgroup has recorded its error); plus defer RecoverAndLog goroutines: groups of 1..2 (thorough 1..3) over 17 behaviours x every order. " +
			"Each schedule runs the real errguard/errgroup code in an executor subprocess (a crash is an outcome). states = transitions = schedules executed. " +
			"non-trivial = at least one function of the group panics (the recover path runs)",
		Assumptions: []string{
			"completion of a released function is observed by runtime.NumGoroutine() returning to the expected count (a goroutine is discounted only after its deferred calls ran)",
			"errgroup (golang.org/x/sync v0.20.0) and the Go runtime are the real ones and trusted; only completion orders are permuted, not interleavings inside errguard/errgroup (their only shared state is behind sync.Once/WaitGroup)",
			"a panic value 'is in' the error when fmt.Sprint(value) is a substring of err.Error()",
			"runtime.Goexit is neither an error nor a panic: the group must simply not hang or crash",
		},
		Run:    c48Run,
		Replay: c48Replay,
	})
}
