package c48

import (
	"context"
	"fmt"
	"io"
	"runtime"
	"strings"
	"sync"
	"sync/atomic"
	"time"

	"github.com/sirupsen/logrus"
	"golang.org/x/sync/errgroup"

	"github.com/dolthub/go-mysql-server/errguard"
)

// One case = one group of functions + one completion order + one group flavour. It is executed
// in an *executor subprocess* (see runner.go) because the first clause of the property is "never
// crashes the process": an unrecovered panic in a goroutine cannot be contained in-process.

type c48Case struct {
	Mode    string   `json:"mode"`    // "go" = errguard.Go in an errgroup; "ral" = plain goroutines with defer errguard.RecoverAndLog
	Variant string   `json:"variant"` // go: "plain" (zero Group) | "ctx" (errgroup.WithContext) | "limit" (SetLimit(len)); ral: "plain"
	Fns     []string `json:"fns"`     // behaviour names, in submission order
	Order   []int    `json:"order"`   // completion order: gates are released in this order, each release waits for that function (and goroutines it spawned) to finish
}

type c48Finding struct {
	Clause   string `json:"clause"`
	Kind     string `json:"kind"`
	Observed string `json:"observed"`
	Expected string `json:"expected"`
}

type c48Result struct {
	Findings []c48Finding `json:"findings,omitempty"`
	Outcome  string       `json:"outcome"`
	Stuck    string       `json:"stuck,omitempty"` // harness could not observe completion (never a violation)
	Releases int          `json:"releases"`
}

// waitGoroutines waits until at most target goroutines exist. A goroutine is only discounted by
// the runtime after all its deferred calls ran, i.e. after errgroup recorded its error. The
// deadline is a harness guard only (reported as a cap, never as a violation).
func waitGoroutines(target int) bool {
	for i := 0; runtime.NumGoroutine() > target; i++ {
		if i < 2000 {
			runtime.Gosched()
			continue
		}
		if i > 2000+200000 { // ≈ 10 s
			return false
		}
		time.Sleep(50 * time.Microsecond)
	}
	return true
}

func short(s string) string {
	if i := strings.Index(s, "\n"); i >= 0 {
		s = s[:i]
	}
	if len(s) > 160 {
		s = s[:160] + "…"
	}
	return s
}

func describeErr(err error) string {
	switch {
	case err == nil:
		return "nil"
	case err == error(c48E1):
		return "the identical error e1"
	case err == error(c48E2):
		return "the identical error e2"
	case err == error(c48TypedNl):
		return "the identical typed-nil error"
	}
	var txt string
	func() {
		defer func() {
			if recover() != nil {
				txt = "(Error() panics)"
			}
		}()
		txt = err.Error()
	}()
	return fmt.Sprintf("%T: %s", err, short(txt))
}

// matches reports whether err is what a failure of behaviour b must produce.
func (b *c48Beh) matches(err error) bool {
	if err == nil {
		return false
	}
	switch b.End {
	case endErr:
		return err == b.Err
	case endPanic, "err-from-subgroup":
		if err == error(c48E1) || err == error(c48E2) || err == error(c48TypedNl) {
			return false
		}
		return strings.Contains(err.Error(), b.Text)
	}
	return false
}

func (b *c48Beh) fails() bool {
	return b.End == endErr || b.End == endPanic || b.End == "err-from-subgroup"
}

func (b *c48Beh) expectation() string {
	switch b.End {
	case endErr:
		return "the identical (==) error returned by " + b.Name
	case endPanic:
		return fmt.Sprintf("an error whose text contains the panic value %q (from %s)", b.Text, b.Name)
	case "err-from-subgroup":
		return fmt.Sprintf("the sub-group's panic error containing %q", b.Text)
	}
	return "nil"
}

func c48ValidCase(c c48Case, behs map[string]*c48Beh) error {
	n := len(c.Fns)
	if n == 0 || n > 6 || len(c.Order) != n {
		return fmt.Errorf("bad group/order size")
	}
	seen := make([]bool, n)
	for _, i := range c.Order {
		if i < 0 || i >= n || seen[i] {
			return fmt.Errorf("order is not a permutation")
		}
		seen[i] = true
	}
	for _, f := range c.Fns {
		b := behs[f]
		if b == nil {
			return fmt.Errorf("unknown behaviour %q", f)
		}
		if b.Modes != "both" && b.Modes != c.Mode {
			return fmt.Errorf("behaviour %q not in mode %q", f, c.Mode)
		}
	}
	switch c.Mode + "/" + c.Variant {
	case "go/plain", "go/ctx", "go/limit", "ral/plain":
	default:
		return fmt.Errorf("bad mode/variant")
	}
	return nil
}

func c48Exec(c c48Case, behs map[string]*c48Beh) c48Result {
	if err := c48ValidCase(c, behs); err != nil {
		return c48Result{Stuck: "invalid case: " + err.Error()}
	}
	if c.Mode == "ral" {
		return c48ExecRAL(c, behs)
	}
	return c48ExecGo(c, behs)
}

func c48ExecGo(c c48Case, behs map[string]*c48Beh) (res c48Result) {
	n := len(c.Fns)
	bs := make([]*c48Beh, n)
	for i, f := range c.Fns {
		bs[i] = behs[f]
	}
	add := func(clause, kind, obs, exp string) {
		res.Findings = append(res.Findings, c48Finding{clause, kind, obs, exp})
	}

	base := runtime.NumGoroutine()
	var g *errgroup.Group
	var ctx context.Context
	switch c.Variant {
	case "ctx":
		g, ctx = errgroup.WithContext(context.Background())
	case "limit":
		g = new(errgroup.Group)
		g.SetLimit(2 * n) // room for the nested goroutines one behaviour adds to the same group
	default:
		g = new(errgroup.Group)
	}
	env := &c48Env{g: g}
	gates := make([]chan struct{}, n)
	for i := range bs {
		gate := make(chan struct{})
		gates[i] = gate
		b := bs[i]
		errguard.Go(g, func() error {
			<-gate
			return b.Run(env)
		})
	}

	first := -1 // position in c.Order of the first failure
	for step, i := range c.Order {
		close(gates[i])
		res.Releases++
		if !waitGoroutines(base + n - step - 1) {
			res.Stuck = fmt.Sprintf("function %d (%s) did not finish", i, bs[i].Name)
			return res
		}
		if first < 0 && bs[i].fails() {
			first = step
		}
		if ctx != nil {
			cancelled := ctx.Err() != nil
			if cancelled != (first >= 0) {
				kind := "context-not-cancelled-by-failure"
				if cancelled {
					kind = "context-cancelled-without-failure"
				}
				add("failure-cancels-group-context", kind, fmt.Sprintf("after step %d (%s): ctx.Err()=%v", step, bs[i].Name, ctx.Err()), fmt.Sprintf("cancelled=%v", first >= 0))
			}
		}
	}
	err := g.Wait()
	ctxFindings := res.Findings
	res.Findings = nil

	if first < 0 {
		res.Outcome = "no-failure"
		if err != nil {
			add("no-failure-no-error", "spurious-error", describeErr(err), "nil")
		}
	} else {
		fb := bs[c.Order[first]]
		res.Outcome = "first=" + fb.Name
		switch {
		case err == nil && fb.End == endErr:
			add("returned-error-propagated", "lost-error", "Wait() = nil", fb.expectation())
		case err == nil:
			add("panic-becomes-error", "lost-panic", "Wait() = nil", fb.expectation())
		case !fb.matches(err):
			later := ""
			for _, j := range c.Order[first+1:] {
				if bs[j].fails() && bs[j].matches(err) {
					later = bs[j].Name
					break
				}
			}
			clause := "panic-becomes-error"
			kind := "panic-value-not-in-error"
			if fb.End == endErr || fb.End == "err-from-subgroup" {
				clause, kind = "returned-error-propagated", "different-error"
			}
			if later != "" {
				kind = "not-first-failure"
			}
			add(clause, kind, "Wait() = "+describeErr(err), fb.expectation())
		}
	}
	if ctx != nil && len(res.Findings) == 0 { // context findings are secondary: only reported when Wait() itself was right
		cause := context.Cause(ctx)
		want := err
		if err == nil {
			want = context.Canceled
		}
		if ctx.Err() == nil || cause != want {
			add("failure-cancels-group-context", "wrong-cause-after-wait", fmt.Sprintf("Err=%v Cause=%s", ctx.Err(), describeErr(cause)), "cause == Wait() result")
		}
	}
	if len(res.Findings) == 0 {
		res.Findings = ctxFindings
	}
	res.Outcome = c.Variant + "/n=" + fmt.Sprint(n) + "/" + res.Outcome
	return res
}

// ---- RecoverAndLog ----

type c48Hook struct {
	mu      sync.Mutex
	entries []string
}

func (h *c48Hook) Levels() []logrus.Level { return logrus.AllLevels }
func (h *c48Hook) Fire(e *logrus.Entry) error {
	h.mu.Lock()
	h.entries = append(h.entries, e.Level.String()+"|"+e.Message)
	h.mu.Unlock()
	return nil
}
func (h *c48Hook) take() []string {
	h.mu.Lock()
	defer h.mu.Unlock()
	out := h.entries
	h.entries = nil
	return out
}

var c48LogHook *c48Hook

func c48InstallHook() {
	if c48LogHook == nil {
		c48LogHook = &c48Hook{}
		logrus.SetOutput(io.Discard)
		logrus.AddHook(c48LogHook)
	}
}

func c48ExecRAL(c c48Case, behs map[string]*c48Beh) (res c48Result) {
	c48InstallHook()
	c48LogHook.take()
	n := len(c.Fns)
	bs := make([]*c48Beh, n)
	for i, f := range c.Fns {
		bs[i] = behs[f]
	}
	add := func(clause, kind, obs, exp string) {
		res.Findings = append(res.Findings, c48Finding{clause, kind, obs, exp})
	}
	base := runtime.NumGoroutine()
	returned := make([]atomic.Bool, n) // the guarded function returned normally to its caller
	env := &c48Env{spawn: func(what string, body func()) {
		go func() {
			defer errguard.RecoverAndLog(what)
			body()
		}()
	}}
	gates := make([]chan struct{}, n)
	for i := range bs {
		gate := make(chan struct{})
		gates[i] = gate
		b := bs[i]
		what := fmt.Sprintf("worker-%d", i)
		go func() {
			func() {
				defer errguard.RecoverAndLog(what) // first statement of the goroutine's top-level function
				<-gate
				b.Run(env)
			}()
			returned[i].Store(true)
		}()
	}
	var want []string
	for step, i := range c.Order {
		close(gates[i])
		res.Releases++
		if !waitGoroutines(base + n - step - 1) {
			res.Stuck = fmt.Sprintf("goroutine %d (%s) did not finish", i, bs[i].Name)
			return res
		}
		b := bs[i]
		if returned[i].Load() != (b.End != endGoexit) {
			add("goroutine-ends-normally-after-recovery", "did-not-return", fmt.Sprintf("%s: returned=%v", b.Name, returned[i].Load()), fmt.Sprintf("returned=%v", b.End != endGoexit))
		}
		switch {
		case b.End == endPanic:
			want = append(want, fmt.Sprintf("worker-%d|%s", i, b.Text))
		case b.Name == "nested-logged-goroutine-panics":
			want = append(want, "nested-worker|"+b.Text)
		}
		got := c48LogHook.take()
		// entries produced by this step
		wantStep := want
		want = nil
		if len(got) != len(wantStep) {
			kind := "panic-not-logged"
			if len(got) > len(wantStep) {
				kind = "spurious-log-entry"
			}
			add("recovered-panic-is-logged", kind, fmt.Sprintf("%s: %d log entries %v", b.Name, len(got), shortAll(got)), fmt.Sprintf("%d entries", len(wantStep)))
			continue
		}
		for k, w := range wantStep {
			parts := strings.SplitN(w, "|", 2)
			if !strings.HasPrefix(got[k], "error|") || !strings.Contains(got[k], parts[0]) || !strings.Contains(got[k], parts[1]) {
				add("recovered-panic-is-logged", "log-entry-lacks-what-or-value", short(got[k]), fmt.Sprintf("error-level entry naming %q and the panic value %q", parts[0], parts[1]))
			}
		}
		res.Outcome = fmt.Sprintf("%s,logs=%d", res.Outcome, len(got))
	}
	res.Outcome = "ral/n=" + fmt.Sprint(n) + res.Outcome
	return res
}

func shortAll(xs []string) []string {
	out := make([]string, len(xs))
	for i, x := range xs {
		out[i] = short(x)
	}
	return out
}
