package c49

import (
	"encoding/json"
	"fmt"
	"sort"
	"strings"

	"github.com/dolthub/go-mysql-server/verifshim/vexport"

	"verif/mc/core"
)

// C49 — name suggestions pick a closest candidate.
//
// Space: src over every string of length 1..4 over {a,b} and 1..2 over {a,b,c}; candidate lists:
// every ordered list of 0..3 distinct candidates from the same string set (quick: sets of size
// ≤2 plus size-3 over the short strings; thorough: all size ≤3). Both Find and FindFromMap.
// Oracle: an independently written recursive edit distance (insert 1, delete 1, substitute 2).

func c49Strings() []string {
	var out []string
	var rec func(prefix string, alpha string, n int)
	seen := map[string]bool{}
	rec = func(prefix, alpha string, n int) {
		if !seen[prefix] {
			seen[prefix] = true
			out = append(out, prefix)
		}
		if n == 0 {
			return
		}
		for _, c := range alpha {
			rec(prefix+string(c), alpha, n-1)
		}
	}
	rec("", "ab", 4)
	rec("", "abc", 2)
	sort.Slice(out, func(i, j int) bool {
		if len(out[i]) != len(out[j]) {
			return len(out[i]) < len(out[j])
		}
		return out[i] < out[j]
	})
	return out
}

var c49memo = map[[2]string]int{}

func c49RefDist(a, b string) int {
	if a == "" {
		return len(b)
	}
	if b == "" {
		return len(a)
	}
	k := [2]string{a, b}
	if v, ok := c49memo[k]; ok {
		return v
	}
	sub := 2
	if a[0] == b[0] {
		sub = 0
	}
	d := c49RefDist(a[1:], b[1:]) + sub
	if x := c49RefDist(a[1:], b) + 1; x < d {
		d = x
	}
	if x := c49RefDist(a, b[1:]) + 1; x < d {
		d = x
	}
	c49memo[k] = d
	return d
}

type c49Case struct {
	Names  []string `json:"names"`
	Src    string   `json:"src"`
	ViaMap bool     `json:"via_map"`
}

func c49Check(r *core.Run, c c49Case) {
	var got string
	pv, stack := core.Try(func() {
		if c.ViaMap {
			m := map[string]int{}
			for i, n := range c.Names {
				m[n] = i
			}
			got = vexport.SimilarFindFromMap(m, c.Src)
		} else {
			got = vexport.SimilarFind(c.Names, c.Src)
		}
	})
	route := "Find"
	if c.ViaMap {
		route = "FindFromMap"
	}
	if pv != nil {
		r.Violate(core.Violation{Check: route, Clause: "no-panic", Kind: "panic", Subject: map[string]string{"frame": core.TopFrame(stack)}, Witness: core.J(c), Observed: fmt.Sprint(pv)})
		return
	}
	thr := vexport.SimilarDistanceSkipped()
	min := -1
	for _, n := range c.Names {
		d := c49RefDist(n, c.Src)
		if d >= thr {
			continue
		}
		if min == -1 || d < min {
			min = d
		}
	}
	var argmin []string
	for _, n := range c.Names {
		if min >= 0 && c49RefDist(n, c.Src) == min {
			argmin = append(argmin, n)
		}
	}
	r.Outcome(fmt.Sprintf("min=%d,n=%d", min, len(argmin)))
	if min >= 0 && len(c.Names) >= 2 {
		r.NonTrivial(fmt.Sprintf("%v|%s|%v", c.Names, c.Src, c.ViaMap))
	}
	if r.WantSample() && min >= 0 && len(c.Names) >= 2 {
		r.Sample(map[string]any{"case": c, "output": got, "min_distance": min})
	}
	if min < 0 {
		if got != "" {
			r.Violate(core.Violation{Check: route, Clause: "nothing-when-none-qualifies", Kind: "unexpected-suggestion", Subject: map[string]string{}, Witness: core.J(c), Observed: got, Expected: "(empty)"})
		}
		return
	}
	const pre, suf = ", maybe you mean ", "?"
	if !strings.HasPrefix(got, pre) || !strings.HasSuffix(got, suf) {
		r.Violate(core.Violation{Check: route, Clause: "suggests-when-one-qualifies", Kind: "no-suggestion", Subject: map[string]string{}, Witness: core.J(c), Observed: got, Expected: fmt.Sprintf("one of %v", argmin)})
		return
	}
	sugg := strings.Split(got[len(pre):len(got)-len(suf)], " or ")
	for _, s := range sugg {
		ok := false
		for _, a := range argmin {
			ok = ok || a == s
		}
		if !ok {
			r.Violate(core.Violation{Check: route, Clause: "suggestion-is-closest", Kind: "not-minimal", Subject: map[string]string{}, Witness: core.J(c), Observed: got, Expected: fmt.Sprintf("subset of %v (distance %d)", argmin, min)})
			return
		}
	}
}

func init() {
	core.Register(&core.Prop{
		ID:      "C49",
		Level:   "exploration",
		Workers: 1,
		Rule: "every (candidate list, name): name over all strings of length 1..4 over {a,b} and 1..2 over {a,b,c}; candidate lists = every ordered list of <=3 distinct such strings " +
			"(quick: size <=2 complete, size 3 over strings of length <=2; thorough: all); Find and FindFromMap; oracle = independent recursive edit distance (ins/del 1, subst 2) and the documented threshold. " +
			"non-trivial = at least two candidates and at least one within the threshold",
		Assumptions: []string{"candidate names do not contain the separator ' or '", "threshold is the exported DistanceSkipped (dist >= it is ignored), as documented"},
		Run: func(r *core.Run) {
			strs := c49Strings()
			var nonEmpty, short []string
			for _, s := range strs {
				if s != "" {
					nonEmpty = append(nonEmpty, s)
					if len(s) <= 2 {
						short = append(short, s)
					}
				}
			}
			r.Info("alphabet_strings", len(nonEmpty))
			run := func(names []string) {
				for _, src := range nonEmpty {
					for _, vm := range []bool{false, true} {
						r.Eval()
						c49Check(r, c49Case{Names: names, Src: src, ViaMap: vm})
					}
				}
			}
			run(nil)
			for _, a := range strs {
				run([]string{a})
			}
			for _, a := range strs {
				for _, b := range strs {
					if a != b {
						run([]string{a, b})
					}
				}
			}
			third := short
			if r.Thorough() {
				third = strs
			}
			for _, a := range third {
				for _, b := range third {
					for _, c := range third {
						if a != b && b != c && a != c {
							run([]string{a, b, c})
						}
					}
				}
			}
		},
		Replay: func(r *core.Run, w json.RawMessage) {
			var c c49Case
			if json.Unmarshal(w, &c) == nil {
				c49Check(r, c)
			}
		},
	})
}
