// Package c50 decides property C50: rows written by SELECT ... INTO OUTFILE and read back by
// LOAD DATA INFILE with the same FIELDS/LINES options reproduce the original rows exactly.
//
// Space (bounded, exhaustive): every option set from
//
//	FIELDS TERMINATED BY {',', TAB, '||'} x [OPTIONALLY] ENCLOSED BY {none, '"', '\''} (5 forms)
//	x ESCAPED BY {'\\', '' (none), '#'} x LINES TERMINATED BY {'\n', '\r\n', ';;'} x STARTING BY {none, '>'}
//
// (270 sets, plus the all-defaults set written with no clauses at all) x every row of width 1 and 2
// over a value alphabet that is instantiated *per option set* (the value "field terminator" is that
// set's terminator, and so on). Each case exports {row, sentinel row} from a fresh engine, loads the
// file into an empty twin table with the same clauses and compares the two tables as multisets.
//
// Option/value combinations for which the MySQL text format itself cannot represent the row
// unambiguously are outside the domain (c50Ambiguous states them); they are executed (a panic is
// still a violation) but their result is not judged.
package c50

import (
	"encoding/json"
	"fmt"
	"os"
	"path/filepath"
	"sort"
	"strconv"
	"strings"

	"github.com/dolthub/go-mysql-server/sql"

	"verif/mc/core"
	"verif/mc/eng"
)

// ---------------------------------------------------------------------------------------------
// option sets

type c50Opts struct {
	FT       string `json:"fields_terminated_by"`
	Enc      string `json:"enclosed_by"` // "" = none
	EncOpt   bool   `json:"optionally"`
	Esc      string `json:"escaped_by"` // "" = ESCAPED BY '' (no escaping)
	LT       string `json:"lines_terminated_by"`
	SB       string `json:"lines_starting_by"`
	Implicit bool   `json:"implicit,omitempty"` // all values are the defaults and no clause is written
}

func c50OptSets() []c50Opts {
	var out []c50Opts
	type encForm struct {
		c   string
		opt bool
	}
	encs := []encForm{{"", false}, {`"`, false}, {`"`, true}, {`'`, false}, {`'`, true}}
	for _, ft := range []string{",", "\t", "||"} {
		for _, en := range encs {
			for _, esc := range []string{`\`, "", "#"} {
				for _, lt := range []string{"\n", "\r\n", ";;"} {
					for _, sb := range []string{"", ">"} {
						out = append(out, c50Opts{FT: ft, Enc: en.c, EncOpt: en.opt, Esc: esc, LT: lt, SB: sb})
					}
				}
			}
		}
	}
	out = append(out, c50Opts{FT: "\t", Esc: `\`, LT: "\n", Implicit: true})
	return out
}

// c50Lit renders s as a SQL string literal the engine's parser reads back as exactly s.
func c50Lit(s string) string {
	var sb strings.Builder
	sb.WriteByte('\'')
	for i := 0; i < len(s); i++ {
		switch c := s[i]; c {
		case '\\':
			sb.WriteString(`\\`)
		case '\'':
			sb.WriteString(`''`)
		case '\n':
			sb.WriteString(`\n`)
		case '\r':
			sb.WriteString(`\r`)
		case '\t':
			sb.WriteString(`\t`)
		case 0:
			sb.WriteString(`\0`)
		default:
			sb.WriteByte(c)
		}
	}
	sb.WriteByte('\'')
	return sb.String()
}

func (o c50Opts) clauses() string {
	if o.Implicit {
		return ""
	}
	var sb strings.Builder
	sb.WriteString(" fields terminated by " + c50Lit(o.FT))
	if o.Enc != "" {
		if o.EncOpt {
			sb.WriteString(" optionally")
		}
		sb.WriteString(" enclosed by " + c50Lit(o.Enc))
	}
	sb.WriteString(" escaped by " + c50Lit(o.Esc))
	sb.WriteString(" lines")
	if o.SB != "" {
		sb.WriteString(" starting by " + c50Lit(o.SB))
	}
	sb.WriteString(" terminated by " + c50Lit(o.LT))
	return sb.String()
}

func (o c50Opts) encMode() string {
	switch {
	case o.Enc == "":
		return "none"
	case o.EncOpt:
		return "optional"
	}
	return "always"
}

func (o c50Opts) escMode() string {
	if o.Esc == "" {
		return "none"
	}
	return "set"
}

// ---------------------------------------------------------------------------------------------
// values

// c50Val is one cell: a column type and a value (Null, or the text of the value).
type c50Val struct {
	Type string `json:"type"` // text | int | decimal(5,1)
	Null bool   `json:"null,omitempty"`
	S    string `json:"s"`
	Tag  string `json:"tag"` // which alphabet element this is (for humans)
}

func (v c50Val) lit() string {
	if v.Null {
		return "NULL"
	}
	if v.Type != "text" {
		return v.S
	}
	return c50Lit(v.S)
}

func (v c50Val) isString() bool { return v.Type == "text" }

// c50Values instantiates the value alphabet for one option set.
func c50Values(o c50Opts, thorough bool) []c50Val {
	enc := o.Enc
	if enc == "" {
		enc = `"`
	}
	esc := o.Esc
	if esc == "" {
		esc = `\`
	}
	t := func(tag, s string) c50Val { return c50Val{Type: "text", S: s, Tag: tag} }
	vals := []c50Val{
		{Type: "text", Null: true, Tag: "NULL"},
		t("empty", ""),
		t("plain", "a"),
		t("FT", o.FT),
		t("ENC", enc),
		t("ESC", esc),
		t("LT", o.LT),
		t("backslash-N", `\N`),
		t("word-NULL", "NULL"),
		t("multibyte", "é"),
		{Type: "int", S: "0", Tag: "int"},
		{Type: "decimal(5,1)", S: "-1.5", Tag: "decimal"},
	}
	if thorough {
		vals = append(vals,
			t("a+FT+b", "a"+o.FT+"b"),
			t("ENC+a", enc+"a"),
			t("a+ENC", "a"+enc),
			t("ENC+a+ENC", enc+"a"+enc),
			t("ESC+n", esc+"n"),
			t("a+ESC", "a"+esc),
			t("ESC+ESC", esc+esc),
			t("a+LT+b", "a"+o.LT+"b"),
			t("LT[0]", o.LT[:1]),
			t("FT[0]", o.FT[:1]),
			t("starting-by", ">"),
			t("space", " "),
			t("ENC+FT", enc+o.FT),
			c50Val{Type: "int", Null: true, Tag: "NULL-int"},
		)
		// drop duplicates of earlier elements (e.g. FT[0] == FT for one-byte terminators)
		seen := map[string]bool{}
		var uniq []c50Val
		for _, v := range vals {
			k := v.Type + "|" + strconv.FormatBool(v.Null) + "|" + v.S
			if seen[k] {
				continue
			}
			seen[k] = true
			uniq = append(uniq, v)
		}
		vals = uniq
	}
	return vals
}

// enclosed reports whether MySQL writes the value between enclosure characters under o.
func (o c50Opts) enclosed(v c50Val) bool {
	if o.Enc == "" || v.Null {
		return false
	}
	return !o.EncOpt || v.isString()
}

// c50Feature classifies what is special about a value under an option set: the coordinates of a
// root cause, never the concrete bytes.
func c50Feature(o c50Opts, v c50Val) string {
	if v.Null {
		return "null"
	}
	if !v.isString() {
		return "number"
	}
	if v.S == "" {
		return "empty-string"
	}
	if v.S == "NULL" {
		return "word-NULL"
	}
	var f []string
	has := func(sub string) bool { return sub != "" && strings.Contains(v.S, sub) }
	if has(o.FT) {
		f = append(f, "field-term")
	} else if has(o.FT[:1]) {
		f = append(f, "field-term-first-byte")
	}
	if has(o.Enc) {
		f = append(f, "enclosure")
	}
	if has(o.Esc) {
		f = append(f, "escape")
	}
	if has(o.LT) {
		f = append(f, "line-term")
	} else if has(o.LT[:1]) {
		f = append(f, "line-term-first-byte")
	}
	if has(o.SB) {
		f = append(f, "line-prefix")
	}
	if len(f) == 0 {
		return "plain"
	}
	return strings.Join(f, "+")
}

// ---------------------------------------------------------------------------------------------
// ambiguity model (what is outside the domain)

// c50Ambiguous reports whether the MySQL text format cannot represent the row unambiguously under
// o, i.e. MySQL itself would not (or is not documented to) round-trip it. Rules, all for
// an empty ESCAPED BY (with an escape character MySQL escapes the escape character, the enclosure or
// the first byte of the field terminator, and the first byte of the line terminator, and writes
// NULL as <esc>N, so every row is representable):
//
//	A1  an unenclosed value that shares a byte with the field or line terminator: it is written raw and cannot be told from a separator;
//	A2  an enclosed value containing the enclosure character: written raw, the closing enclosure is ambiguous;
//	A3  NULL is written as the bare word NULL; where string values are not enclosed, the row containing NULL or the string 'NULL' is ambiguous (MySQL documents the word is read back as a string when ENCLOSED BY is empty);
//	A4  an unenclosed value that starts with the enclosure character (OPTIONALLY ENCLOSED readers take it for an opening enclosure) - only numbers are unenclosed there, so this never applies to the alphabet but is part of the model.
func c50Ambiguous(o c50Opts, row []c50Val) (bool, string) {
	if o.Esc != "" {
		return false, ""
	}
	for _, v := range row {
		if v.Null {
			if o.Enc == "" {
				return true, "A3:NULL-without-escape-or-enclosure"
			}
			continue
		}
		if o.enclosed(v) {
			if strings.Contains(v.S, o.Enc) {
				return true, "A2:enclosure-char-inside-enclosed-value-without-escape"
			}
			continue
		}
		if strings.ContainsAny(v.S, o.FT+o.LT) {
			return true, "A1:terminator-byte-inside-unenclosed-value-without-escape"
		}
		if v.S == "NULL" {
			return true, "A3:word-NULL-without-escape-or-enclosure"
		}
		if o.Enc != "" && strings.HasPrefix(v.S, o.Enc) {
			return true, "A4:unenclosed-value-starts-with-enclosure"
		}
	}
	return false, ""
}

// ---------------------------------------------------------------------------------------------
// one case

type c50Case struct {
	Opts c50Opts  `json:"opts"`
	Row  []c50Val `json:"row"`
}

type c50Result struct {
	class    string // ok | differ | export-error | load-error | panic | unsupported
	observed string
	expected string
	frame    string
}

var c50Sentinel = "zz"

func canonRows(rows []sql.Row) []string {
	out := make([]string, len(rows))
	for i, r := range rows {
		parts := make([]string, len(r))
		for j, v := range r {
			if v == nil {
				parts[j] = "NULL"
			} else {
				if s, ok := v.(string); ok {
					parts[j] = "s" + strconv.Quote(s)
				} else {
					parts[j] = "v" + strconv.Quote(eng.FormatValue(v))
				}
			}
		}
		out[i] = "(" + strings.Join(parts, ", ") + ")"
	}
	sort.Strings(out)
	return out
}

func isUnsupported(err error) bool {
	return err != nil && (sql.ErrUnsupportedFeature.Is(err) || sql.ErrUnsupportedSyntax.Is(err))
}

var c50FileSeq int

// c50Exec runs one export/import pair on a fresh engine and reports the outcome class.
func c50Exec(dir string, c c50Case) c50Result {
	e := eng.New()
	if err := sql.SystemVariables.AssignValues(map[string]interface{}{"secure_file_priv": dir}); err != nil {
		panic("harness: cannot set secure_file_priv: " + err.Error())
	}
	s := e.NewSession("root")
	var cols, vals, sent []string
	for i, v := range c.Row {
		cols = append(cols, fmt.Sprintf("c%d %s", i+1, v.Type))
		vals = append(vals, v.lit())
		if v.isString() {
			sent = append(sent, c50Lit(c50Sentinel))
		} else {
			sent = append(sent, "7")
		}
	}
	s.MustExec("create table src (" + strings.Join(cols, ", ") + ")")
	s.MustExec("create table dst (" + strings.Join(cols, ", ") + ")")
	s.MustExec("insert into src values (" + strings.Join(vals, ", ") + "), (" + strings.Join(sent, ", ") + ")")
	before := s.MustExec("select * from src")
	// harness sanity: the fixture holds exactly the intended values
	if len(before.Rows) != 2 {
		panic("harness: fixture row count")
	}
	for i, v := range c.Row {
		got := before.Rows[0][i]
		if v.Null != (got == nil) || (v.isString() && !v.Null && got != any(v.S)) {
			panic(fmt.Sprintf("harness: fixture value %d is %#v, intended %+v", i, got, v))
		}
	}
	want := canonRows(before.Rows)

	c50FileSeq++
	file := filepath.Join(dir, fmt.Sprintf("c50-%d-%d.txt", os.Getpid(), c50FileSeq))
	defer os.Remove(file)
	cl := c.Opts.clauses()
	ex := s.Exec("select * from src into outfile " + c50Lit(file) + cl)
	if ex.Panic != nil {
		return c50Result{class: "panic", observed: fmt.Sprint(ex.Panic), frame: core.TopFrame(ex.Stack)}
	}
	if ex.Err != nil {
		if isUnsupported(ex.Err) {
			return c50Result{class: "unsupported", observed: ex.Err.Error()}
		}
		return c50Result{class: "export-error", observed: "ERR[" + eng.ErrClass(ex.Err) + "] " + ex.Err.Error(), expected: "file written"}
	}
	ld := s.Exec("load data infile " + c50Lit(file) + " into table dst" + cl)
	if ld.Panic != nil {
		return c50Result{class: "panic", observed: fmt.Sprint(ld.Panic), frame: core.TopFrame(ld.Stack)}
	}
	raw, _ := os.ReadFile(file)
	if ld.Err != nil {
		if isUnsupported(ld.Err) {
			return c50Result{class: "unsupported", observed: ld.Err.Error()}
		}
		return c50Result{class: "load-error", observed: fmt.Sprintf("ERR[%s] %s; file=%q", eng.ErrClass(ld.Err), ld.Err.Error(), raw), expected: strings.Join(want, " ")}
	}
	after := s.Exec("select * from dst")
	if after.Err != nil {
		return c50Result{class: "load-error", observed: after.Summary()}
	}
	got := canonRows(after.Rows)
	if !eng.EqualStrings(want, got) {
		return c50Result{class: "differ", observed: fmt.Sprintf("%s; file=%q", strings.Join(got, " "), raw), expected: strings.Join(want, " ")}
	}
	return c50Result{class: "ok"}
}

// c50FailMemo caches the (deterministic) outcome of attribution probes: case JSON -> fails.
var c50FailMemo = map[string]bool{}

func c50Key(c c50Case) string { return string(core.J(c)) }

// c50Check runs the case, applies the oracle and attributes a failing 2-column row to a single
// value when that value alone (as a 1-column row under the same options) already fails.
func c50Check(r *core.Run, dir string, c c50Case) {
	amb, why := c50Ambiguous(c.Opts, c.Row)
	res := c50Exec(dir, c)
	if res.class == "panic" {
		r.Outcome("panic")
		r.Violate(core.Violation{Check: "roundtrip", Clause: "no-panic", Kind: "panic", Subject: map[string]string{"frame": res.frame}, Witness: core.J(c), Observed: res.observed})
		return
	}
	if amb {
		r.Count("excluded_ambiguous", 1)
		r.Count("excluded_"+strings.SplitN(why, ":", 2)[0], 1)
		r.Outcome("excluded-ambiguous/" + res.class)
		return
	}
	if res.class == "unsupported" {
		r.Count("skipped_unsupported", 1)
		r.Outcome("unsupported")
		return
	}
	feats := make([]string, len(c.Row))
	special := false
	for i, v := range c.Row {
		feats[i] = c50Feature(c.Opts, v)
		special = special || (feats[i] != "plain" && feats[i] != "number")
	}
	if special && res.class == "ok" {
		r.NonTrivial(c50Key(c))
		if r.WantSample() && len(c.Row) == 2 && feats[0] != "null" && feats[1] != "plain" {
			r.Sample(map[string]any{"case": c, "features": feats, "result": "rows equal after reload"})
		}
	}
	r.Outcome(res.class + "/" + strings.Join(feats, ","))
	if res.class == "ok" {
		return
	}
	// attribute: (0) a plain row of the same width already fails under these options; (1) a value
	// that already fails alone as a 1-column row; (2) a value that fails next to a plain neighbour
	// 'a' in the same position; (3) else the pair of features.
	subject := map[string]string{"enclosure": c.Opts.encMode(), "escape": c.Opts.escMode(), "context": "alone"}
	feature := strings.Join(feats, ",")
	fails := func(row []c50Val) bool {
		one := c50Case{Opts: c.Opts, Row: row}
		if a, _ := c50Ambiguous(one.Opts, one.Row); a {
			return false
		}
		k := c50Key(one)
		if v, ok := c50FailMemo[k]; ok {
			return v
		}
		r1 := c50Exec(dir, one)
		v := r1.class != "ok" && r1.class != "unsupported"
		if len(c50FailMemo) > 100000 {
			c50FailMemo = map[string]bool{}
		}
		c50FailMemo[k] = v
		return v
	}
	plain := c50Val{Type: "text", S: "a", Tag: "plain"}
	if len(c.Row) == 1 {
		if feats[0] != "plain" && fails([]c50Val{plain}) {
			feature, subject["context"] = "any", "any-one-column"
		}
	} else {
		subject["context"] = "pair"
		found := false
		if (feats[0] != "plain" || feats[1] != "plain") && fails([]c50Val{plain, plain}) {
			feature, found = "any", true
			subject["context"] = "any-two-columns"
		}
		for i := 0; i < 2 && !found; i++ {
			if fails([]c50Val{c.Row[i]}) {
				feature, found = feats[i], true
				subject["context"] = "alone"
			}
		}
		for i := 0; i < 2 && !found; i++ {
			row := []c50Val{plain, plain}
			row[i] = c.Row[i]
			if feats[1-i] != "plain" && fails(row) {
				feature, found = feats[i], true
				subject["context"] = [2]string{"first-of-two", "last-of-two"}[i]
			}
		}
		if !found && feats[0] != "plain" && feats[1] == "plain" {
			feature, subject["context"] = feats[0], "first-of-two"
		} else if !found && feats[1] != "plain" && feats[0] == "plain" {
			feature, subject["context"] = feats[1], "last-of-two"
		}
	}
	subject["feature"] = feature
	kind := map[string]string{"differ": "rows-differ", "export-error": "export-error", "load-error": "load-error"}[res.class]
	r.Violate(core.Violation{Check: "roundtrip", Clause: "rows-after-load-equal-rows-before-export", Kind: kind, Subject: subject, Witness: core.J(c), Observed: res.observed, Expected: res.expected})
}

func c50Dir() (string, func()) {
	if d := os.Getenv("VERIF_SCRATCH"); d != "" {
		return d, func() {}
	}
	root := os.Getenv("VERIF_ROOT")
	if root == "" {
		root = "/verif"
	}
	os.MkdirAll(filepath.Join(root, ".build"), 0o755)
	d, err := os.MkdirTemp(filepath.Join(root, ".build"), "c50-replay-")
	if err != nil {
		panic("harness: " + err.Error())
	}
	return d, func() { os.RemoveAll(d) }
}

func init() {
	core.Register(&core.Prop{
		ID:    "C50",
		Level: "exploration",
		Rule: "every option set FIELDS TERMINATED BY {',',TAB,'||'} x {no enclosure, ENCLOSED BY '\"', OPTIONALLY ENCLOSED BY '\"', ENCLOSED BY ''', OPTIONALLY ENCLOSED BY '''} x ESCAPED BY {'\\\\','' (none),'#'} x LINES TERMINATED BY {LF, CRLF, ';;'} x STARTING BY {none,'>'} (270 sets + the all-defaults set with no clauses) " +
			"x every row of width 1 over the per-option-set value alphabet {NULL, '', 'a', the field terminator, the enclosure char, the escape char, the line terminator, '\\N', 'NULL', 'é', int 0, decimal -1.5} and every row of width 2 " +
			"(quick: over {NULL, '', 'a', field terminator, enclosure char, int 0, decimal -1.5}; thorough: over the whole alphabet) " +
			"(thorough adds 14 composite values: a+FT+b, ENC+a, a+ENC, ENC+a+ENC, ESC+n, a+ESC, ESC+ESC, a+LT+b, first bytes of FT and LT, '>', ' ', ENC+FT, NULL in an int column); " +
			"each case: fresh engine, table {row, sentinel row}, SELECT * INTO OUTFILE, LOAD DATA INFILE into an empty twin with the same clauses, tables compared as multisets. " +
			"Excluded (executed, only judged for panics): rows the MySQL format cannot represent unambiguously - with ESCAPED BY '' (A1) an unenclosed value sharing a byte with the field/line terminator, (A2) an enclosed value containing the enclosure char, (A3) NULL or the string 'NULL' where strings are not enclosed, (A4) an unenclosed value starting with the enclosure char. " +
			"non-trivial = in-domain case whose row has at least one special value (NULL, '', 'NULL', or a value containing a terminator/enclosure/escape/prefix byte) and that round-trips",
		Assumptions: []string{
			"with an escape character every row is representable (MySQL escapes the escape char, the enclosure or first field-terminator byte, and the first line-terminator byte; NULL is <esc>N)",
			"the sentinel second row ('zz' / 7) contains no special byte",
			"files live in the run's scratch directory under /verif/.build (secure_file_priv points there)",
		},
		Run: func(r *core.Run) {
			dir, done := c50Dir()
			defer done()
			sets := c50OptSets()
			r.Info("option_sets", len(sets))
			var n int64
			for _, o := range sets {
				vals := c50Values(o, r.Thorough())
				var rows [][]c50Val
				for _, a := range vals {
					rows = append(rows, []c50Val{a})
				}
				pair := vals
				if r.Quick() {
					// quick: 2-column rows over the values that are not already known to fail alone
					pair = nil
					for _, v := range vals {
						switch v.Tag {
						case "NULL", "empty", "plain", "FT", "ENC", "int", "decimal":
							pair = append(pair, v)
						}
					}
				}
				for _, a := range pair {
					for _, b := range pair {
						rows = append(rows, []c50Val{a, b})
					}
				}
				for _, row := range rows {
					n++
					if !r.Mine(n) {
						continue
					}
					if r.Expired() {
						r.Capped(fmt.Sprintf("time budget: stopped inside option set %q", o.clauses()))
						return
					}
					r.Eval()
					c50Check(r, dir, c50Case{Opts: o, Row: row})
				}
			}
			r.Info("cases_total", n)
		},
		Replay: func(r *core.Run, w json.RawMessage) {
			var c c50Case
			if json.Unmarshal(w, &c) != nil {
				return
			}
			dir, done := c50Dir()
			defer done()
			c50Check(r, dir, c)
		},
	})
}
