// Package c51: full-text search matches the indexed words and stays in sync.
//
// Two explorations against the real engine:
//
//   - "match" (bounded-exhaustive inputs): every document (sequence of <=3 words over
//     {cat,Cat,dog,the,a-b,x}, every separator choice from {space,comma,newline}), and NULL, is
//     stored in tables with a FULLTEXT index; every search (word set of size <=2) is run through
//     three query routes; the row set / relevance sign must equal the reference matcher.
//   - "sync" (model checking of DML histories, hist explorer): BFS over histories of INSERT /
//     UPDATE / DELETE / REPLACE / TRUNCATE on a fresh table per history; after every statement
//     the table equals a row model, every search equals the reference matcher, the count tables
//     equal the reference counts and all shadow tables equal those of the index rebuilt from
//     scratch (ALTER TABLE DROP INDEX / ADD FULLTEXT).
package c51

import (
	"encoding/json"
	"fmt"
	"os"
	"runtime"
	"runtime/debug"
	"sort"
	"strings"

	"verif/mc/core"
	"verif/mc/eng"
)

// ------------------------------------------------------------------------------------------
// alphabet
// ------------------------------------------------------------------------------------------

var words = []string{"cat", "Cat", "dog", "the", "a-b", "x"}
var seps = []string{" ", ",", "\n"}

// allDocs: every sequence of n<=maxWords words with every choice of separator between neighbours
// (only the first nSeps separators are used).
func allDocs(maxWords, nSeps int) []string {
	out := []string{""}
	var rec func(prefix string, n int)
	rec = func(prefix string, n int) {
		out = append(out, prefix)
		if n == maxWords {
			return
		}
		for _, sp := range seps[:nSeps] {
			for _, w := range words {
				rec(prefix+sp+w, n+1)
			}
		}
	}
	for _, w := range words {
		rec(w, 1)
	}
	return out
}

// allSearches: every word set of size <=2 (as sorted index lists).
func allSearches() [][]int {
	out := [][]int{{}}
	for i := range words {
		out = append(out, []int{i})
	}
	for i := range words {
		for j := i + 1; j < len(words); j++ {
			out = append(out, []int{i, j})
		}
	}
	return out
}

func searchString(set []int, sep string) string {
	parts := make([]string, len(set))
	for i, w := range set {
		parts[i] = words[w]
	}
	return strings.Join(parts, sep)
}

// ------------------------------------------------------------------------------------------
// table shapes
// ------------------------------------------------------------------------------------------

type ftIndex struct {
	Name string
	Cols []string // "d", "e"
}

type shape struct {
	Name    string
	Key     string // pk | unique | none
	CI      bool   // indexed columns are utf8mb4_0900_ai_ci (else table default utf8mb4_0900_bin)
	Indexes []ftIndex
}

var shapes = []shape{
	{Name: "pk-bin-d", Key: "pk", Indexes: []ftIndex{{"idx", []string{"d"}}}},
	{Name: "keyless-bin-d", Key: "none", Indexes: []ftIndex{{"idx", []string{"d"}}}},
	{Name: "pk-bin-de", Key: "pk", Indexes: []ftIndex{{"idx", []string{"d", "e"}}}},
	{Name: "pk-ci-d", Key: "pk", CI: true, Indexes: []ftIndex{{"idx", []string{"d"}}}},
	{Name: "unique-bin-d", Key: "unique", Indexes: []ftIndex{{"idx", []string{"d"}}}},
	{Name: "pk-bin-d+e", Key: "pk", Indexes: []ftIndex{{"idx", []string{"d"}}, {"idy", []string{"e"}}}},
	{Name: "keyless-ci-de", Key: "none", CI: true, Indexes: []ftIndex{{"idx", []string{"d", "e"}}}},
}

func shapeByName(n string) *shape {
	for i := range shapes {
		if shapes[i].Name == n {
			return &shapes[i]
		}
	}
	return nil
}

func (sh *shape) indexesShape() string {
	var p []string
	for _, ix := range sh.Indexes {
		p = append(p, strings.Join(ix.Cols, ","))
	}
	return strings.Join(p, "+")
}

func (sh *shape) coll() string {
	if sh.CI {
		return "ci"
	}
	return "bin"
}

func (sh *shape) baseDDL() string {
	col := "varchar(100)"
	if sh.CI {
		col = "varchar(100) collate utf8mb4_0900_ai_ci"
	}
	id := "id int"
	extra := ""
	switch sh.Key {
	case "pk":
		id = "id int primary key"
	case "unique":
		id = "id int not null"
		extra = ", unique key uk (id)"
	}
	return fmt.Sprintf("create table t (%s, n int, d %s, e %s%s)", id, col, col, extra)
}

func (ix ftIndex) addSQL() string {
	return fmt.Sprintf("alter table t add fulltext index %s (%s)", ix.Name, strings.Join(ix.Cols, ","))
}

func (sh *shape) setup(s *eng.Session) {
	s.MustExec(sh.baseDDL())
	for _, ix := range sh.Indexes {
		s.MustExec(ix.addSQL())
	}
}

// ------------------------------------------------------------------------------------------
// rows
// ------------------------------------------------------------------------------------------

type row struct {
	ID int     `json:"id"`
	N  int     `json:"n"`
	D  *string `json:"d"`
	E  *string `json:"e"`
}

func sp(s string) *string { return &s }

func sqlStr(p *string) string {
	if p == nil {
		return "NULL"
	}
	r := strings.NewReplacer("\\", "\\\\", "'", "''", "\n", "\\n")
	return "'" + r.Replace(*p) + "'"
}

func (r row) values() string {
	return fmt.Sprintf("(%d,%d,%s,%s)", r.ID, r.N, sqlStr(r.D), sqlStr(r.E))
}

func (r row) cols(ix ftIndex) []*string {
	var out []*string
	for _, c := range ix.Cols {
		if c == "d" {
			out = append(out, r.D)
		} else {
			out = append(out, r.E)
		}
	}
	return out
}

func showStr(p *string) string {
	if p == nil {
		return "NULL"
	}
	return fmt.Sprintf("%q", *p)
}

func (r row) String() string {
	return fmt.Sprintf("(%d,%d,%s,%s)", r.ID, r.N, showStr(r.D), showStr(r.E))
}

func insertRows(s *eng.Session, rows []row) {
	for i := 0; i < len(rows); i += 200 {
		j := i + 200
		if j > len(rows) {
			j = len(rows)
		}
		var sb strings.Builder
		sb.WriteString("insert into t values ")
		for k, r := range rows[i:j] {
			if k > 0 {
				sb.WriteByte(',')
			}
			sb.WriteString(r.values())
		}
		s.MustExec(sb.String())
	}
}

// ------------------------------------------------------------------------------------------
// running one search on one index through a query route and judging it
// ------------------------------------------------------------------------------------------

var routes = []string{"where", "select", "where-gt0"}

func routeSQL(route string, ix ftIndex, search string) string {
	m := fmt.Sprintf("match(%s) against (%s)", strings.Join(ix.Cols, ","), sqlStr(&search))
	switch route {
	case "where":
		return "select id from t where " + m
	case "where-gt0":
		return "select id from t where " + m + " > 0"
	default:
		return "select id, " + m + " from t"
	}
}

// mismatch describes one disagreement for one row id.
type mismatch struct {
	Kind     string
	ID       int
	Observed string
	Expected string
	Stack    string
}

func asInt(v any) (int, bool) {
	switch x := v.(type) {
	case int:
		return x, true
	case int8:
		return int(x), true
	case int16:
		return int(x), true
	case int32:
		return int(x), true
	case int64:
		return int(x), true
	case uint32:
		return int(x), true
	case uint64:
		return int(x), true
	}
	return 0, false
}

func asFloat(v any) (float64, bool) {
	switch x := v.(type) {
	case float32:
		return float64(x), true
	case float64:
		return x, true
	}
	if i, ok := asInt(v); ok {
		return float64(i), true
	}
	return 0, false
}

// judge runs the query and returns the first mismatch per kind (smallest id), given the rows the
// table holds. Row ids need not be unique (keyless tables): multiplicities are compared.
func judge(s *eng.Session, sh *shape, ix ftIndex, route, search string, rows []row) []mismatch {
	q := routeSQL(route, ix, search)
	res := s.Exec(q)
	if res.Panic != nil {
		return []mismatch{{Kind: "panic", ID: -1, Observed: fmt.Sprint(res.Panic), Stack: res.Stack}}
	}
	if res.Err != nil {
		if eng.ErrClass(res.Err) == "unsupported" {
			return []mismatch{{Kind: "unsupported", ID: -1, Observed: res.Err.Error()}}
		}
		return []mismatch{{Kind: "error", ID: -1, Observed: res.Err.Error(), Expected: "a row set"}}
	}
	want := map[int]int{} // id -> expected multiplicity of matching rows
	have := map[int]int{} // id -> number of rows with that id in the table
	for _, r := range rows {
		have[r.ID]++
		if refMatch(r.cols(ix), search, sh.CI) {
			want[r.ID]++
		}
	}
	var out []mismatch
	first := map[string]bool{}
	add := func(m mismatch) {
		if !first[m.Kind] {
			first[m.Kind] = true
			out = append(out, m)
		}
	}
	if route == "select" {
		pos := map[int]int{}
		seen := map[int]int{}
		for _, r := range res.Rows {
			id, ok1 := asInt(r[0])
			rel, ok2 := asFloat(r[1])
			if !ok1 || !ok2 {
				add(mismatch{Kind: "bad-value", ID: -1, Observed: eng.FormatRow(r)})
				continue
			}
			seen[id]++
			if rel > 0 {
				pos[id]++
			} else if rel < 0 {
				add(mismatch{Kind: "negative-relevance", ID: id, Observed: fmt.Sprint(rel), Expected: ">= 0"})
			}
		}
		ids := sortedIDs(have, seen)
		for _, id := range ids {
			if seen[id] != have[id] {
				add(mismatch{Kind: "row-count", ID: id, Observed: fmt.Sprintf("%d rows", seen[id]), Expected: fmt.Sprintf("%d rows", have[id])})
				continue
			}
			if pos[id] < want[id] {
				add(mismatch{Kind: "zero-relevance-on-match", ID: id, Observed: fmt.Sprintf("%d rows with relevance > 0", pos[id]), Expected: fmt.Sprintf("%d", want[id])})
			} else if pos[id] > want[id] {
				add(mismatch{Kind: "positive-relevance-on-non-match", ID: id, Observed: fmt.Sprintf("%d rows with relevance > 0", pos[id]), Expected: fmt.Sprintf("%d", want[id])})
			}
		}
		return out
	}
	got := map[int]int{}
	for _, r := range res.Rows {
		id, ok := asInt(r[0])
		if !ok {
			add(mismatch{Kind: "bad-value", ID: -1, Observed: eng.FormatRow(r)})
			continue
		}
		got[id]++
	}
	for _, id := range sortedIDs(want, got) {
		switch {
		case got[id] == want[id]:
		case got[id] == 0:
			add(mismatch{Kind: "missing-row", ID: id, Observed: "not returned", Expected: fmt.Sprintf("returned %d time(s)", want[id])})
		case want[id] == 0:
			add(mismatch{Kind: "extra-row", ID: id, Observed: fmt.Sprintf("returned %d time(s)", got[id]), Expected: "not returned"})
		case got[id] > want[id]:
			add(mismatch{Kind: "duplicate-row", ID: id, Observed: fmt.Sprintf("returned %d time(s)", got[id]), Expected: fmt.Sprintf("returned %d time(s)", want[id])})
		default:
			add(mismatch{Kind: "missing-row", ID: id, Observed: fmt.Sprintf("returned %d time(s)", got[id]), Expected: fmt.Sprintf("returned %d time(s)", want[id])})
		}
	}
	return out
}

func sortedIDs(ms ...map[int]int) []int {
	set := map[int]bool{}
	for _, m := range ms {
		for k := range m {
			set[k] = true
		}
	}
	out := make([]int, 0, len(set))
	for k := range set {
		out = append(out, k)
	}
	sort.Ints(out)
	return out
}

func topFrame(stack string) string {
	lines := strings.Split(stack, "\n")
	for i := 0; i+1 < len(lines); i++ {
		l := lines[i]
		if !strings.HasPrefix(l, "github.com/dolthub/go-mysql-server/") {
			continue
		}
		if j := strings.LastIndex(l, "("); j > 0 {
			l = l[:j]
		}
		return strings.TrimPrefix(l, "github.com/dolthub/go-mysql-server/")
	}
	return core.TopFrame(stack)
}

// normKind maps the route-specific symptom to the underlying one.
func normKind(k string) string {
	switch k {
	case "zero-relevance-on-match":
		return "missing-row"
	case "positive-relevance-on-non-match":
		return "extra-row"
	}
	return k
}

func hasKind(ms []mismatch, nk string) *mismatch {
	for i := range ms {
		if normKind(ms[i].Kind) == nk {
			return &ms[i]
		}
	}
	return nil
}

// ------------------------------------------------------------------------------------------
// part 1: "match" — bounded-exhaustive documents x searches
// ------------------------------------------------------------------------------------------

type matchWitness struct {
	Part  string `json:"part"` // "match"
	Shape string `json:"shape"`
	Index string `json:"index"`
	Route string `json:"route"`
	// RouteClass: "any" when the symptom shows through WHERE MATCH as well as the original route
	RouteClass string `json:"route_class"`
	Search     string `json:"search"`
	// either explicit rows, or the whole enumerated table of the tier ("all:<tier>") and the id
	Rows  []row  `json:"rows,omitempty"`
	Table string `json:"table,omitempty"`
	ID    int    `json:"id"`
}

// enumRows builds the table content of the match part for a shape.
func enumRows(sh *shape, thorough bool) []row {
	var rows []row
	id := 1
	two := false
	for _, ix := range sh.Indexes {
		if len(ix.Cols) == 2 {
			two = true
		}
	}
	if len(sh.Indexes) > 1 {
		two = true
	}
	if !two {
		rows = append(rows, row{ID: id})
		id++
		for _, d := range allDocs(3, 3) {
			rows = append(rows, row{ID: id, D: sp(d)})
			id++
		}
		return rows
	}
	// two indexed columns: every pair over {NULL} + documents of <=2 words (quick: space only)
	nsep := 1
	if thorough {
		nsep = 3
	}
	side := []*string{nil}
	for _, d := range allDocs(2, nsep) {
		side = append(side, sp(d))
	}
	for _, d := range side {
		for _, e := range side {
			rows = append(rows, row{ID: id, D: d, E: e})
			id++
		}
	}
	return rows
}

func findRow(rows []row, id int) *row {
	for i := range rows {
		if rows[i].ID == id {
			return &rows[i]
		}
	}
	return nil
}

// generalised: per worker, the generalised report of a (shape, index, route, kind, #words) class.
type genReport struct {
	sub     map[string]string
	witness matchWitness
	clause  string
	kind    string
}

var generalised = map[string]*genReport{}

func tableWith(sh *shape, rows []row) *eng.Session {
	s := eng.New().NewSession("root")
	sh.setup(s)
	insertRows(s, rows)
	return s
}

// reportMatch reports a mismatch found on a table. To keep one root cause at one signature the
// case is first generalised (each step keeps the same underlying kind): the table is cut down to
// the affected row, the search to one of its words, the route to WHERE MATCH, the shape to the
// base shape pk-bin-d; coordinates that cannot be simplified stay in the subject.
func reportMatch(r *core.Run, sh *shape, ix ftIndex, route, search string, m mismatch, rows []row, tableName string) {
	nk := normKind(m.Kind)
	memoKey := fmt.Sprint(sh.Name, ix.Name, route, nk, len(refTokens(search)))
	obs := fmt.Sprintf("row id %d: %s [%s]", m.ID, m.Observed, routeSQL(route, ix, search))
	if g := generalised[memoKey]; g != nil {
		r.Violate(core.Violation{Check: "match", Clause: g.clause, Kind: g.kind, Subject: g.sub, Witness: core.J(g.witness), Observed: obs, Expected: m.Expected})
		return
	}
	w := matchWitness{Part: "match", Shape: sh.Name, Index: ix.Name, Route: route, Search: search, ID: m.ID}
	curRows := rows
	// 1. a single row
	if rw := findRow(rows, m.ID); rw != nil && len(rows) > 1 {
		one := []row{*rw}
		if hasKind(judge(tableWith(sh, one), sh, ix, route, search, one), nk) != nil {
			curRows = one
		}
	}
	// 2. a single search word
	if toks := refTokens(search); len(toks) > 1 {
		s := tableWith(sh, curRows)
		for _, t := range toks {
			if hasKind(judge(s, sh, ix, route, t, curRows), nk) != nil {
				search = t
				break
			}
		}
	}
	// 3. the plain WHERE route
	routeName := route
	other := "where"
	if route == "where" {
		other = "select"
	}
	if hasKind(judge(tableWith(sh, curRows), sh, ix, other, search, curRows), nk) != nil {
		route, routeName = "where", "any"
	}
	// 4. the base shape
	base := &shapes[0]
	if sh.Name != base.Name {
		if hasKind(judge(tableWith(base, curRows), base, base.Indexes[0], route, search, curRows), nk) != nil {
			sh, ix = base, base.Indexes[0]
		}
	}
	w.Shape, w.Index, w.Route, w.RouteClass, w.Search = sh.Name, ix.Name, route, routeName, search
	if len(curRows) <= 4 || tableName == "" {
		w.Rows = curRows
	} else {
		w.Table = tableName
	}
	clause, sub := matchSignature(w, m)
	if len(curRows) == 1 {
		generalised[memoKey] = &genReport{sub: sub, witness: w, clause: clause, kind: nk}
	}
	r.Violate(core.Violation{Check: "match", Clause: clause, Kind: nk, Subject: sub, Witness: core.J(w), Observed: obs, Expected: m.Expected})
}

// matchSignature: clause and subject are functions of the (generalised) witness, so that a
// replay of the witness reproduces the signature.
func matchSignature(w matchWitness, m mismatch) (string, map[string]string) {
	clause := "row-set-equals-reference"
	sub := map[string]string{"shape": w.Shape, "route": w.RouteClass, "search_words": fmt.Sprint(len(refTokens(w.Search)))}
	if m.Kind == "panic" {
		clause = "no-panic"
		sub["frame"] = topFrame(m.Stack)
	}
	return clause, sub
}

// matchSamples: written-out samples taken by the match part of this worker (the rest is left to the sync part)
var matchSamples int

const chunkSize = 12

// chunk returns the k-th slice of the enumerated rows of a shape.
func chunk(rows []row, k int) []row {
	lo := k * chunkSize
	if lo >= len(rows) {
		return nil
	}
	hi := lo + chunkSize
	if hi > len(rows) {
		hi = len(rows)
	}
	return rows[lo:hi]
}

func runMatchPart(r *core.Run) {
	searches := allSearches()
	searchSeps := []string{" "}
	if r.Thorough() {
		searchSeps = []string{" ", ",", "\n"}
	}
	caseNo := int64(0)
	for si := range shapes {
		sh := &shapes[si]
		if only := os.Getenv("VERIF_C51_SHAPES"); only != "" && !strings.Contains(","+only+",", ","+sh.Name+",") {
			r.Capped("development filter VERIF_C51_SHAPES=" + only)
			continue
		}
		all := enumRows(sh, r.Thorough())
		if r.Mine(0) {
			r.Info("match_rows_"+sh.Name, len(all))
		}
		for k := 0; k*chunkSize < len(all); k++ {
			caseNo++
			if !r.Mine(caseNo) {
				continue
			}
			if r.Expired() {
				r.Capped("time budget reached in the match part")
				return
			}
			rows := chunk(all, k)
			e := eng.New()
			s := e.NewSession("root")
			sh.setup(s)
			insertRows(s, rows)
			tableName := fmt.Sprintf("chunk:%s:%d", r.Tier, k)
			for _, ix := range sh.Indexes {
				for _, set := range searches {
					for _, sep := range searchSeps {
						if sep != " " && len(set) < 2 {
							continue
						}
						search := searchString(set, sep)
						nmatch := 0
						for _, rw := range rows {
							if refMatch(rw.cols(ix), search, sh.CI) {
								nmatch++
								// non-trivial: the search has an indexable word and the document contains it
								r.NonTrivial(fmt.Sprintf("match|%s|%s|%d|%q", sh.Name, ix.Name, rw.ID, search))
							}
						}
						for _, route := range routes {
							ms := judge(s, sh, ix, route, search, rows)
							r.EvalN(int64(len(rows)))
							r.Outcome(fmt.Sprintf("match:%s:words=%d:%s", route, len(refTokens(search)), bucket(nmatch)))
							if len(ms) == 1 && ms[0].Kind == "unsupported" {
								r.Count("skipped_unsupported", 1)
								continue
							}
							if len(ms) == 0 && nmatch > 0 && nmatch < len(rows) && len(set) == 2 && route == "where" && matchSamples < 3 && r.WantSample() {
								matchSamples++
								var hit, miss []string
								for _, rw := range rows {
									if refMatch(rw.cols(ix), search, sh.CI) {
										hit = append(hit, rw.String())
									} else {
										miss = append(miss, rw.String())
									}
								}
								r.Sample(map[string]any{"part": "match", "shape": sh.Name, "query": routeSQL(route, ix, search), "reference_tokens_of_search": refTokens(search),
									"rows_returned (= reference)": hit, "rows_not_returned (= reference)": miss})
							}
							for _, m := range ms {
								reportMatch(r, sh, ix, route, search, m, rows, tableName)
							}
						}
					}
				}
			}
		}
	}
	if r.Mine(0) {
		checkModes(r)
	}
}

// checkModes: BOOLEAN MODE / QUERY EXPANSION are documented as not implemented by the engine ->
// outside the domain, but the rejection must be an error, not a wrong answer or a panic.
func checkModes(r *core.Run) {
	e := eng.New()
	s := e.NewSession("root")
	sh := &shapes[0]
	sh.setup(s)
	insertRows(s, []row{{ID: 1, D: sp("cat dog")}})
	for _, mode := range []string{"in boolean mode", "with query expansion", "in natural language mode with query expansion"} {
		res := s.Exec("select id from t where match(d) against ('+cat -dog' " + mode + ")")
		r.Eval()
		wit := core.J(map[string]string{"part": "mode", "mode": mode})
		switch {
		case res.Panic != nil:
			r.Violate(core.Violation{Check: "match", Clause: "no-panic", Kind: "panic", Subject: map[string]string{"mode": mode, "frame": topFrame(res.Stack)}, Witness: wit, Observed: fmt.Sprint(res.Panic)})
		case res.Err != nil:
			r.Count("skipped_unsupported", 1)
			r.Outcome("mode-rejected:" + mode)
		default:
			// accepted: then '+cat -dog' must not return the document 'cat dog'
			r.Outcome("mode-accepted:" + mode)
			if mode == "in boolean mode" && len(res.Rows) != 0 {
				r.Violate(core.Violation{Check: "match", Clause: "boolean-mode", Kind: "extra-row", Subject: map[string]string{"mode": mode}, Witness: wit, Observed: res.Summary(), Expected: "no row ('-dog' excludes the document)"})
			}
		}
	}
}

func bucket(n int) string {
	switch {
	case n == 0:
		return "no-row"
	case n == 1:
		return "one-row"
	}
	return "some-rows"
}

func replayMatch(r *core.Run, w matchWitness) {
	sh := shapeByName(w.Shape)
	if sh == nil {
		return
	}
	var ix *ftIndex
	for i := range sh.Indexes {
		if sh.Indexes[i].Name == w.Index {
			ix = &sh.Indexes[i]
		}
	}
	if ix == nil {
		return
	}
	rows := w.Rows
	if rows == nil {
		var tier string
		var k int
		parts := strings.Split(w.Table, ":")
		if len(parts) != 3 || parts[0] != "chunk" {
			return
		}
		tier = parts[1]
		fmt.Sscan(parts[2], &k)
		rows = chunk(enumRows(sh, tier == "thorough"), k)
		if rows == nil {
			return
		}
	}
	e := eng.New()
	s := e.NewSession("root")
	sh.setup(s)
	insertRows(s, rows)
	for _, m := range judge(s, sh, *ix, w.Route, w.Search, rows) {
		if m.Kind == "unsupported" {
			continue
		}
		clause, sub := matchSignature(w, m)
		r.Violate(core.Violation{Check: "match", Clause: clause, Kind: normKind(m.Kind), Subject: sub, Witness: core.J(w),
			Observed: fmt.Sprintf("row id %d: %s [%s]", m.ID, m.Observed, routeSQL(w.Route, *ix, w.Search)), Expected: m.Expected})
	}
}

// ------------------------------------------------------------------------------------------
// registration
// ------------------------------------------------------------------------------------------

func init() {
	core.Register(&core.Prop{
		ID:          "C51",
		Level:       "model_checking",
		QuickBudget: 110,
		Rule: "(match part, bounded-exhaustive) documents = NULL, '' and every sequence of 1..3 words over {cat,Cat,dog,the,a-b,x} with every separator choice from {space,comma,newline} between neighbours (2059 documents + NULL), stored 12 consecutive documents per table (index lookups of the in-memory tables are linear, larger tables cost quadratic time); " +
			"two-column / two-index shapes: every pair (d,e) over NULL + documents of <=2 words (quick: space separator; thorough: all three); searches = every word set of size <=2 (22; thorough also joined by comma and newline); " +
			"shapes = {PRIMARY KEY, UNIQUE NOT NULL key, keyless} x {utf8mb4_0900_bin (table default), utf8mb4_0900_ai_ci column} x {FULLTEXT(d), FULLTEXT(d,e), FULLTEXT(d)+FULLTEXT(e)} (7 combinations); " +
			"routes = WHERE MATCH.., SELECT MATCH.. (relevance sign), WHERE MATCH.. > 0; one evaluation = one (row, search, route). " +
			"(sync part, model checking) BFS with the hist explorer over histories of 14 statements (single/multi-row INSERT, UPDATE of the indexed column for one row / all rows / to NULL, UPDATE of the second text column, of a non-text column and of the key, DELETE by key, DELETE WHERE MATCH, REPLACE x2, TRUNCATE) on a fresh empty table per history and shape, " +
			"quick: depth 3 for the shapes {pk-bin-d, keyless-bin-d, pk-bin-de, pk-ci-d} and depth 2 for {unique-bin-d, pk-bin-d+e, keyless-ci-de}, thorough: depth 4 for all (histories of length <=2 all run, deeper ones are not expanded again from an already reached table+shadow state; searches/counts/twin are checked once per distinct state and worker); after every statement: error class and table content = row model; all 22 searches x 2 routes = reference matcher; " +
			"DOC_COUNT / GLOBAL_COUNT / ROW_COUNT tables = reference counts; POSITION, DOC_COUNT, GLOBAL_COUNT, ROW_COUNT tables = those of a twin table in a fresh engine, loaded with the same rows and indexed afterwards (ALTER TABLE ADD FULLTEXT = build from scratch; the twin itself must equal the reference counts, check 'build'); plus 2 DDL scenarios: dropping one of two FULLTEXT indexes leaves the other one usable. " +
			"a flagged case is generalised before it is reported (single row, single search word, WHERE route, base shape pk-bin-d, where the same symptom persists). non-trivial (match) = the search has an indexable word that occurs in a stored document; (sync) = the statement changes a non-empty table or fills an empty one",
		Assumptions: []string{
			"reference tokenizer: tokens are maximal runs of letters/digits/underscore; tokens shorter than 3 characters are neither indexed nor searched (innodb_ft_min_token_size default = the engine's constant); the engine configures NO stop word list (its FTS_CONFIG table is empty), so 'the' is a searchable word here although MySQL's default InnoDB stop word list contains it",
			"natural-language mode on InnoDB has no 50% threshold: a row matches iff it contains at least one search token; relevance is only compared as >0 / =0",
			"collation folding: utf8mb4_0900_bin compares tokens byte-wise, utf8mb4_0900_ai_ci is modelled as ASCII case folding (the alphabet is ASCII)",
			"BOOLEAN MODE and QUERY EXPANSION are rejected by the engine as not implemented: outside the domain (counted in skipped_unsupported)",
			"statement atomicity: a failing multi-row INSERT leaves table and index unchanged (MySQL/InnoDB semantics)",
			"the POSITION table's offsets are engine-defined; they are only compared with the rebuilt index, not with the reference",
		},
		Run: func(r *core.Run) {
			debug.SetGCPercent(400) // the box is shared: fewer GC cycles, same result
			runtime.GOMAXPROCS(2)
			part := os.Getenv("VERIF_C51_PART")
			if part == "" || part == "match" {
				runMatchPart(r)
			}
			if part == "" || part == "sync" {
				runSyncPart(r)
			}
			if part != "" {
				r.Capped("development filter VERIF_C51_PART=" + part)
			}
		},
		Replay: func(r *core.Run, w json.RawMessage) {
			var probe struct {
				Part string `json:"part"`
			}
			if json.Unmarshal(w, &probe) != nil {
				return
			}
			switch probe.Part {
			case "match":
				var mw matchWitness
				if json.Unmarshal(w, &mw) == nil {
					replayMatch(r, mw)
				}
			case "mode":
				checkModes(r)
			case "build":
				var bw buildWitness
				if json.Unmarshal(w, &bw) == nil {
					replayBuild(r, bw)
				}
			case "ddl":
				var dw ddlWitness
				if json.Unmarshal(w, &dw) == nil {
					checkDDL(r, dw)
				}
			case "sync":
				var sw syncWitness
				if json.Unmarshal(w, &sw) == nil {
					replaySync(r, sw)
				}
			}
		},
	})
}
