package c51

import (
	"fmt"
	"testing"
	"time"

	"verif/mc/core"
)

func TestTiming(t *testing.T) {
	p := core.Lookup("C51")
	r := core.NewRun(p, "quick", 0, 0, 1, time.Hour)
	for _, name := range []string{"pk-bin-d", "keyless-bin-d", "pk-bin-d+e"} {
		st := &syncStepper{r: r, sh: shapeByName(name), checked: map[string]bool{}}
		t0 := time.Now()
		for i := 0; i < 14; i++ {
			st.Step([]int{0, 1, i})
		}
		fmt.Println(name, time.Since(t0)/14)
	}
	for sig, v := range r.Result().Violations {
		fmt.Println(sig, v.Observed, "|", v.Expected, string(v.Witness))
	}
}
