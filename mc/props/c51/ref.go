package c51

import (
	"sort"
	"strings"
)

// ---------------------------------------------------------------------------------------------
// Reference tokenizer / matcher (written from the MySQL manual's description of the built-in
// InnoDB full-text parser, with the engine's *configuration*: minimum token size 3 — the value of
// innodb_ft_min_token_size and the constant in sql/fulltext/default_parser.go —, no stop word list
// (the FTS_CONFIG table of go-mysql-server is empty: "the" is indexed)).
//
// A token is a maximal run of word characters (letters, digits, underscore). Everything else —
// space, comma, newline, '-' — separates tokens. Tokens shorter than the minimum size are neither
// indexed nor searched. Tokens are compared under the collation of the indexed column.
// ---------------------------------------------------------------------------------------------

const minTokenSize = 3

func isWordChar(c rune) bool {
	return c == '_' || (c >= '0' && c <= '9') || (c >= 'a' && c <= 'z') || (c >= 'A' && c <= 'Z')
}

// refTokens returns the indexable tokens of one text, in order, unfolded.
func refTokens(text string) []string {
	var out []string
	cur := []rune{}
	flush := func() {
		if len(cur) >= minTokenSize {
			out = append(out, string(cur))
		}
		cur = cur[:0]
	}
	for _, c := range text {
		if isWordChar(c) {
			cur = append(cur, c)
		} else {
			flush()
		}
	}
	flush()
	return out
}

func fold(tok string, ci bool) string {
	if ci {
		return strings.ToLower(tok)
	}
	return tok
}

// docTokens: the tokens of a row's indexed columns (NULL columns contribute nothing; columns are
// separate texts, a token never spans two columns).
func docTokens(cols []*string) []string {
	var out []string
	for _, c := range cols {
		if c != nil {
			out = append(out, refTokens(*c)...)
		}
	}
	return out
}

// refMatch: natural-language mode — the row matches iff at least one search token occurs in it.
func refMatch(cols []*string, search string, ci bool) bool {
	have := map[string]bool{}
	for _, t := range docTokens(cols) {
		have[fold(t, ci)] = true
	}
	for _, t := range refTokens(search) {
		if have[fold(t, ci)] {
			return true
		}
	}
	return false
}

// refCounts: what the count tables must say for a set of rows (each row = its indexed columns):
// global[word] = number of rows containing the word, doc = multiset of per-row occurrence counts
// "word=count", rowUnique = multiset of "distinct rows sharing a hash are not modelled" — only
// the per-row number of distinct words.
func refGlobal(rows [][]*string, ci bool) map[string]int {
	g := map[string]int{}
	for _, cols := range rows {
		seen := map[string]bool{}
		for _, t := range docTokens(cols) {
			f := fold(t, ci)
			if !seen[f] {
				seen[f] = true
				g[f]++
			}
		}
	}
	return g
}

func refDocCounts(cols []*string, ci bool) map[string]int {
	d := map[string]int{}
	for _, t := range docTokens(cols) {
		d[fold(t, ci)]++
	}
	return d
}

func sortedKeys(m map[string]int) []string {
	out := make([]string, 0, len(m))
	for k := range m {
		out = append(out, k)
	}
	sort.Strings(out)
	return out
}
